(* C05 - when no live candidate is ever left out, the vectorised model holds every prefix with
   exactly its alignment mass. *)
From Coq Require Import List Arith Bool QArith Qcanon Lia.
From PV Require Import C05.Model C05.Spec C05.ProofsNum C05.ProofsSpec C05.ProofsModel
  C05.ProofsSearch C05.ProofsMass.
Import ListNotations.
Local Open Scope nat_scope.

Definition mexact (V : nat) (frames : list sframe) (E : score) (bm : beam) : Prop :=
  (forall k, valid bm k ->
     nbq bm k = A_nb V frames E (b_t bm) (pref bm k) /\
     bq bm k = A_b V frames E (b_t bm) (pref bm k)) /\
  (forall p, Forall (fun x => x < V) p -> length p <= b_t bm ->
     exists k, valid bm k /\ pref bm k = p).

Section ExactStep.
  Variables (V width : nat) (fr : frame) (bm : beam) (choice : list nat).
  Variables (frames : list sframe) (E : score).
  Hypothesis Vpos : 1 <= V.
  Hypothesis Wpos : 1 <= width.
  Hypothesis I : inv V bm.
  Hypothesis Clen : length choice = Kout V bm width.
  Hypothesis Crange : forall i, In i choice -> i < ncand V bm.
  Hypothesis Cnodup : NoDup choice.
  Hypothesis FA : frame_agrees V fr bm frames E (b_t bm).
  Hypothesis MX : mexact V frames E bm.
  Hypothesis KEPT : all_kept V fr bm choice = true.

  Let W := inv_wf V bm I.
  Let n := b_t bm.
  Let nx := fst (advance V fr bm width choice).
  Notation chj := (ch choice).

  Lemma kept_in : forall u, u < ncand V bm -> cand V fr bm u <> NegInf -> In u choice.
  Proof.
    intros u R H. unfold all_kept in KEPT. rewrite forallb_forall in KEPT.
    specialize (KEPT u (proj2 (in_seq _ _ _) (conj (Nat.le_0_l _) R))).
    apply orb_true_iff in KEPT. destruct KEPT as [K|K].
    - apply existsb_exists in K. destruct K as (x & Hx & Ex). apply Nat.eqb_eq in Ex. subst. auto.
    - destruct (cand V fr bm u); [congruence|discriminate].
  Qed.

  Lemma in_choice_slot : forall u, In u choice -> exists j, j < Kout V bm width /\ chj j = u.
  Proof.
    intros u H. apply In_nth with (d := 0) in H. destruct H as (j & Lj & Ej).
    exists j. rewrite <- Clen. auto.
  Qed.

  Lemma ext_term_eq : forall k v, valid bm k -> v < V ->
    nb_ext V fr bm k v
    = ((A_b V frames E n (pref bm k)
        + (if opt_is (last_opt (pref bm k)) v then 0 else A_nb V frames E n (pref bm k)))
       * E n (pref bm k) v)%Qc.
  Proof.
    intros k v Vk Hv. destruct FA as (F1 & F2 & F3). destruct MX as [MX1 _].
    destruct (MX1 k Vk) as [M1 M2]. fold n in M1, M2.
    unfold nb_ext. rewrite (F3 k v Vk Hv). fold n. rewrite M2.
    destruct (Nat.eq_dec (lens bm k) 0) as [L0|L0].
    - assert (Z : nbq bm k = 0%Qc) by (apply (inv_nb0 V bm I); auto).
      rewrite <- M1, Z.
      destruct (v =? lastc V bm k); destruct (opt_is (last_opt (pref bm k)) v); ring.
    - assert (NE : pref bm k <> []).
      { intro C. apply (f_equal (@length nat)) in C. rewrite pref_length in C by (auto; apply Vk). cbn in C. lia. }
      rewrite (last_opt_last _ NE). cbn [opt_is].
      rewrite (inv_last V bm I k Vk) by lia. rewrite Nat.eqb_sym, M1.
      destruct (last (pref bm k) 0 =? v); ring.
  Qed.

  (* the merge delivers exactly the mass of the one slot holding the prefix minus its last token *)
  Lemma merged_eq : forall k', valid bm k' -> 0 < lens bm k' ->
    let p := pref bm k' in let v := last p 0 in
    merged V fr bm k'
    = ((A_b V frames E n (removelast p)
        + (if opt_is (last_opt (removelast p)) v then 0 else A_nb V frames E n (removelast p)))
       * E n (removelast p) v)%Qc.
  Proof.
    intros k' Vk' L p v. destruct MX as [_ MX2].
    pose proof (inv_lt V bm I k' Vk') as PV. fold p in PV.
    assert (NE : p <> []).
    { intro C. apply (f_equal (@length nat)) in C. unfold p in C.
      rewrite pref_length in C by (auto; apply Vk'). cbn in C. lia. }
    assert (LP : length p = lens bm k') by (apply pref_length; auto; apply Vk').
    pose proof (snoc_decomp p 0 NE) as D. fold v in D.
    assert (Hv : v < V) by (rewrite D in PV; apply Forall_app in PV; destruct PV as [_ F]; inversion F; auto).
    destruct (MX2 (removelast p)) as (k0 & Vk0 & Pk0).
    { apply removelast_forall. auto. }
    { rewrite removelast_length, LP. pose proof (wf_len bm W k'). lia. }
    assert (EX0 : ext_is_exact bm k0 k' = true).
    { unfold ext_is_exact. apply andb_true_iff. split.
      - apply Nat.eqb_eq. rewrite <- (pref_length bm k0), Pk0, removelast_length, LP by (auto; apply Vk0). lia.
      - apply (inv_cmp V bm I); auto. rewrite Pk0. fold p. rewrite D at 2. apply is_pre_app. }
    unfold merged. rewrite (qsum_single _ _ k0).
    - rewrite EX0. destruct (exact_pre V width bm choice Vpos Wpos I Clen k0 k' (proj1 Vk0) Vk' EX0) as (_ & TM & _).
      fold p in TM. fold v in TM. rewrite TM, ext_term_eq, Pk0 by auto. reflexivity.
    - apply seq_NoDup.
    - apply in_seq. destruct Vk0. lia.
    - intros k Hk Nk. apply in_seq in Hk. destruct (ext_is_exact bm k k') eqn:EX; auto.
      destruct (invalid bm k) eqn:IV.
      + unfold nb_ext, nbq, bq. rewrite IV. destruct (_ =? _); ring.
      + exfalso. apply Nk. destruct (exact_pre V width bm choice Vpos Wpos I Clen k k' (proj2 Hk) Vk' EX) as (Pk & _).
        apply (inv_dist V bm I); auto; [split; [apply Hk|auto]|]. fold p in Pk. congruence.
  Qed.

  Lemma no_match_long : forall k v, k < Kp bm -> lens bm k = n -> has_match V bm k v = false.
  Proof.
    intros k v Lk Ln. unfold has_match. destruct (existsb _ _) eqn:EX; auto.
    apply existsb_exists in EX. destruct EX as (k' & _ & H). apply andb_true_iff in H. destruct H as [_ H].
    unfold ext_is_exact in H. apply andb_true_iff in H. destruct H as [H _]. apply Nat.eqb_eq in H.
    pose proof (wf_len bm W k'). fold n in H0. lia.
  Qed.

  Lemma exact_step : mexact V frames E nx.
  Proof.
    destruct FA as (F1 & F2 & F3). destruct MX as [MX1 MX2].
    assert (Tn : b_t nx = S n) by reflexivity.
    split.
    - (* values *)
      intros j Vj.
      destruct (valid_nx V width fr bm choice Vpos Wpos Clen Crange j Vj) as (Lj & R & VS & HM).
      destruct Vj as [Lnx IVj]. rewrite Tn.
      assert (PN := pref_nx V width fr bm choice Vpos Wpos I Clen Crange j Lj). fold nx in PN.
      unfold nbq, bq. rewrite IVj. unfold nx.
      rewrite (nx_nb V width fr bm choice Clen), (nx_b V width fr bm choice Clen).
      apply Nat.ltb_lt in Lj. rewrite Lj. apply Nat.ltb_lt in Lj. fold nx. rewrite PN.
      set (src := c_src V bm (chj j)) in *. set (p := pref bm src) in *.
      pose proof (inv_lt V bm I src VS) as PV. fold p in PV.
      destruct (MX1 src VS) as [M1 M2]. fold n in M1, M2. fold p in M1, M2.
      unfold c_nb, c_b. destruct (c_nonext V bm (chj j)) eqn:NEXT.
      + fold src. unfold nb_nonext_c. destruct VS as [VS1 VS2]. rewrite VS2. cbn [fin0].
        rewrite A_b_step, A_nb_step by auto. split.
        * destruct (Nat.eq_dec (lens bm src) 0) as [L0|L0].
          -- assert (PE : p = []) by (apply length_zero_iff_nil; unfold p; rewrite pref_length; auto).
             assert (LO : last_opt p = None) by (rewrite PE; reflexivity). rewrite LO.
             unfold nb_nonext1, nb_nonext0. rewrite (inv_nb0 V bm I src (conj VS1 VS2) L0).
             unfold merged. rewrite qsum_map_zero; [ring|].
             intros k _. unfold ext_is_exact. rewrite L0.
             replace (lens bm k + 1 =? 0) with false by (symmetry; apply Nat.eqb_neq; lia). reflexivity.
          -- assert (NE : p <> []).
             { intro C. apply (f_equal (@length nat)) in C. unfold p in C. rewrite pref_length in C by auto. cbn in C. lia. }
             rewrite (last_opt_last _ NE).
             unfold nb_nonext1, nb_nonext0. rewrite (inv_last V bm I src (conj VS1 VS2)) by lia. fold p.
             rewrite (merged_eq src (conj VS1 VS2)) by lia. fold p. rewrite F1, M1. reflexivity.
        * unfold b_nonext. rewrite F2, M1, M2. reflexivity.
      + fold src in HM. specialize (HM eq_refl). unfold c_src in src. unfold c_nonext in NEXT.
        apply Nat.leb_gt in NEXT.
        assert (ES : Nat.min (chj j) (Kp bm * V - 1) = chj j) by lia. rewrite ES.
        assert (SRC : chj j / V = src).
        { unfold src, c_nonext. replace (Kp bm * V <=? chj j) with false by (symmetry; apply Nat.leb_gt; lia). reflexivity. }
        rewrite SRC. fold (c_ext V (chj j)). set (v := c_ext V (chj j)) in *.
        assert (Hv : v < V) by (apply (ext_range V width bm choice Vpos Wpos Clen)).
        unfold nb_ext_c. rewrite HM. destruct VS as [VS1 VS2]. rewrite VS2. cbn [orb fin0].
        assert (PV' : Forall (fun x => x < V) (p ++ [v])) by (apply Forall_app; auto).
        (* p ++ [v] was not in the beam, hence is longer than n and had no mass *)
        assert (LONG : n < length (p ++ [v])).
        { destruct (le_lt_dec (length (p ++ [v])) n) as [C|C]; auto. exfalso.
          destruct (MX2 (p ++ [v]) PV' C) as (k' & Vk' & Pk').
          rewrite (has_match_of_ext V bm src k' v Vpos I (conj VS1 VS2) Vk' Hv Pk') in HM. discriminate. }
        destruct (A_long V frames E n (p ++ [v]) LONG) as [Z1 Z2].
        rewrite A_b_step, A_nb_step by auto. rewrite last_opt_snoc, removelast_snoc, Z1, Z2.
        rewrite (ext_term_eq src v (conj VS1 VS2) Hv). fold p. split; ring.
    - (* every prefix is present *)
      intros p' PV' LP'. rewrite Tn in LP'.
      assert (FIND : forall u, u < ncand V bm -> cand V fr bm u <> NegInf ->
                     exists j, j < Kout V bm width /\ chj j = u /\ valid nx j).
      { intros u R H. destruct (in_choice_slot u (kept_in u R H)) as (j & Lj & Ej).
        exists j. repeat split; auto.
        - unfold nx. rewrite (nx_Kp V width fr bm choice Vpos Wpos Clen). unfold Kout in Lj. lia.
        - unfold nx. rewrite (nx_invalid V width fr bm choice Vpos Wpos Clen Crange).
          apply Nat.ltb_lt in Lj. rewrite Lj, Ej. destruct (cand V fr bm u); [congruence|reflexivity]. }
      destruct (le_lt_dec (length p') n) as [LE|GT].
      + destruct (MX2 p' PV' LE) as (src & [VS1 VS2] & PS).
        set (u := Kp bm * V + src).
        assert (R : u < ncand V bm) by (unfold u, ncand; lia).
        assert (NE : c_nonext V bm u = true) by (unfold c_nonext, u; apply Nat.leb_le; lia).
        assert (SR : c_src V bm u = src) by (unfold c_src; rewrite NE; unfold u; lia).
        destruct (FIND u R) as (j & Lj & Ej & Vj).
        { unfold cand. replace (u <? Kp bm * V) with false by (symmetry; apply Nat.ltb_ge; unfold u; lia).
          replace (u - Kp bm * V) with src by (unfold u; lia).
          unfold nb_nonext_c. rewrite VS2. discriminate. }
        exists j. split; auto.
        unfold nx. rewrite (pref_nx V width fr bm choice Vpos Wpos I Clen Crange j Lj), Ej, NE, SR. exact PS.
      + assert (NEp : p' <> []) by (destruct p'; cbn in GT; [lia|discriminate]).
        pose proof (snoc_decomp p' 0 NEp) as D. set (p := removelast p') in *. set (v := last p' 0) in *.
        rewrite D in PV'. apply Forall_app in PV'. destruct PV' as [PVp PVv]. assert (Hv : v < V) by (inversion PVv; auto).
        assert (LPn : length p = n).
        { apply (f_equal (@length nat)) in D. rewrite app_length in D. cbn [length] in D. lia. }
        destruct (MX2 p PVp) as (src & [VS1 VS2] & PS); [lia|].
        assert (LS : lens bm src = n) by (rewrite <- (pref_length bm src), PS by auto; auto).
        set (u := src * V + v).
        assert (R1 : u < Kp bm * V) by (unfold u; nia).
        assert (R : u < ncand V bm) by (unfold ncand; nia).
        assert (NE : c_nonext V bm u = false) by (unfold c_nonext; apply Nat.leb_gt; auto).
        assert (DV : u / V = src) by (unfold u; rewrite Nat.div_add_l by lia; rewrite Nat.div_small by auto; lia).
        assert (MD : u mod V = v).
        { unfold u. rewrite Nat.add_comm, Nat.mod_add by lia. apply Nat.mod_small. auto. }
        assert (SR : c_src V bm u = src) by (unfold c_src; rewrite NE; auto).
        destruct (FIND u R) as (j & Lj & Ej & Vj).
        { unfold cand. replace (u <? Kp bm * V) with true by (symmetry; apply Nat.ltb_lt; auto).
          rewrite DV, MD. unfold nb_ext_c. rewrite (no_match_long src v VS1 LS), VS2. discriminate. }
        exists j. split; auto.
        unfold nx. rewrite (pref_nx V width fr bm choice Vpos Wpos I Clen Crange j Lj), Ej, NE, SR.
        unfold c_ext. rewrite MD, PS. symmetry. exact D.
  Qed.
End ExactStep.

Lemma mexact_init : forall V frames E, mexact V frames E init_beam.
Proof.
  intros V frames E. destruct (A_0 V frames E []) as [Z1 Z2]. rewrite list_nat_eqb_refl in Z2. split.
  - intros k [L _]. cbn in L. assert (k = 0) by lia. subst k.
    change (b_t init_beam) with 0. change (pref init_beam 0) with (@nil nat). rewrite Z1, Z2. split; reflexivity.
  - intros p _ L. change (b_t init_beam) with 0 in L. destruct p; [|cbn in L; lia].
    exists 0. split; [split; [cbn; lia|reflexivity]|reflexivity].
Qed.

(* ---- along the loop ---------------------------------------------------------------------------- *)

Lemma live_exact : forall V width fus lm len (L : list sframe) rest done choices bm,
  1 <= V -> 1 <= width -> L = done ++ rest -> length L <= len ->
  choices_ok V width fus lm 0%Qc len (length done) rest choices bm = true ->
  nothing_pruned V width fus lm len (length done) rest choices bm = true ->
  inv V bm -> b_t bm = length done ->
  mexact V L (fused_score fus lm L) bm ->
  mexact V L (fused_score fus lm L) (sloop V width fus lm len (length done) rest choices bm).
Proof.
  intros V width fus lm len L. induction rest as [|[nonext blank] rest];
    intros done choices bm Vpos Wpos EL LL C NP I T MX; auto.
  cbn [sloop choices_ok nothing_pruned] in *.
  assert (LT : length done < len).
  { rewrite EL, app_length in LL. cbn [length] in LL. lia. }
  replace (len <=? length done) with false in * by (symmetry; apply Nat.leb_gt; lia).
  cbn [orb] in C, NP. apply andb_true_iff in C. destruct C as [C1 C2].
  apply andb_true_iff in NP. destruct NP as [NP1 NP2].
  pose proof (topk_ok_facts _ _ _ _ _ C1) as F. destruct F as [F1 F2 F3 F4 F5].
  unfold sstep in *. set (fr := mk_frame fus lm nonext blank bm) in *.
  set (nx := fst (advance V fr bm width (hd [] choices))) in *.
  assert (HN : nth (length done) L ([], 0%Qc) = (nonext, blank)).
  { rewrite EL, app_nth2, Nat.sub_diag by lia. reflexivity. }
  assert (FA : frame_agrees V fr bm L (fused_score fus lm L) (b_t bm)).
  { apply mk_frame_agrees with (t := length done); auto. }
  assert (Inx : inv V nx) by (apply advance_inv; auto).
  assert (Mnx : mexact V L (fused_score fus lm L) nx).
  { apply (exact_step V width fr bm (hd [] choices) L (fused_score fus lm L)); auto. }
  assert (Tnx : b_t nx = length (done ++ [(nonext, blank)])).
  { rewrite app_length. cbn [length]. unfold nx, advance. cbn [fst b_t]. lia. }
  replace (S (length done)) with (length (done ++ [(nonext, blank)])) in * by (rewrite app_length; cbn; lia).
  apply IHrest; auto. rewrite <- app_assoc. exact EL.
Qed.

(* the property's "the exact total probability of all alignments collapsing to it whenever
   nothing had to be pruned", for the vectorised model: every returned mass IS the alignment mass
   of its prefix, and every blank-free prefix no longer than the element's input is returned *)
Lemma search_mass_exact : forall V width fus lm len frames choices, 1 <= V -> 1 <= width ->
  choices_ok V width fus lm 0%Qc len 0 frames choices init_beam = true ->
  nothing_pruned V width fus lm len 0 frames choices init_beam = true ->
  let L := firstn len frames in
  let E := fused_score fus lm L in
  let '(P, Ls, Ps) := observe (search V width fus lm len frames choices) in
  (forall i q, nth i Ps NegInf = Fin q -> q = ctc_mass V L E (nth i P [])) /\
  (forall p, Forall (fun x => x < V) p -> length p <= length L ->
     exists i, i < width /\ nth i P [] = p /\ nth i Ps NegInf = Fin (ctc_mass V L E p)).
Proof.
  intros V width fus lm len frames choices Vpos Wpos C NP L E.
  pose proof (out_slot V width fus lm len frames choices Vpos Wpos C) as O.
  pose proof (out_slot_rev V width fus lm len frames choices Vpos Wpos C) as OR.
  destruct (observe (search V width fus lm len frames choices)) as [[P Ls] Ps].
  destruct O as (_ & _ & _ & _ & O).
  destruct (live_facts V width fus lm len frames choices Vpos Wpos C) as (I & T & _).
  pose proof (live_ok V width fus lm len frames choices C) as CL.
  assert (NPL : nothing_pruned V width fus lm len 0 (live_frames len frames) choices init_beam = true).
  { apply nothing_pruned_app with (f2 := skipn len frames). unfold live_frames. rewrite firstn_skipn. exact NP. }
  assert (MX : mexact V L E (live_beam V width fus lm len frames choices)).
  { unfold live_beam, E. fold (live_frames len frames) in L.
    apply (live_exact V width fus lm len L (live_frames len frames) [] choices init_beam); auto.
    - unfold L. rewrite live_len. lia.
    - apply init_inv.
    - apply mexact_init. }
  set (bm := live_beam V width fus lm len frames choices) in *.
  pose proof (inv_wf V bm I) as W. destruct MX as [MX1 MX2].
  assert (PR : forall k, valid bm k ->
               nth k (probs_of bm) NegInf = Fin (ctc_mass V L E (pref bm k))).
  { intros k Vk. destruct (MX1 k Vk) as [M1 M2]. rewrite T in M1, M2.
    change (live_frames len frames) with L in M1, M2.
    rewrite ctc_mass_split. unfold sframe in *. rewrite <- M1, <- M2.
    unfold probs_of. rewrite (map2_nth madd _ _ k NegInf NegInf) by (rewrite ?(wf_b bm W); auto; apply Vk).
    unfold nbq, bq. destruct Vk as [Lk IVk]. rewrite IVk. unfold invalid in IVk.
    destruct (nth k (b_nb bm) NegInf); [discriminate|]. destruct (nth k (b_b bm) NegInf); [discriminate|].
    reflexivity. }
  split.
  - intros i q Hq. destruct (O i q Hq) as (Vi & PQ & -> & _). rewrite (PR i Vi) in PQ. congruence.
  - intros p PV LP. change L with (live_frames len frames) in LP. rewrite <- T in LP. destruct (MX2 p PV LP) as (k & Vk & Pk).
    destruct (OR k Vk) as (Lk & E1 & E2). exists k. split; auto. split; [congruence|].
    rewrite E2, (PR k Vk), Pk. reflexivity.
Qed.
