#!/bin/sh
# developer tool: run a check against a scratch worktree of /repo with a patch applied.
# usage: try_patch.sh <patch.diff> <Cnn> [extra vcheck args]   (the registered checks always read /repo)
set -e
PATCH=$(readlink -f "$1"); PROP=$2; shift 2
W=/tmp/vw-$$
git -C /repo worktree add -q --detach "$W" HEAD
trap 'git -C /repo worktree remove --force "$W"' EXIT
git -C "$W" apply "$PATCH"
VERIF_REPO="$W" /venv/bin/python /verif/harness/vcheck.py "$PROP" "$@" || echo "exit=$?"
