(* C11, second source tie - facts shared by the TieB* files: text values, the fuel-indexed ext, variables. *)
From Coq Require Import ZArith QArith List String Ascii Bool Lia.
From PV Require Import C11.Model C11.ModelB MiniPy.Syntax MiniPy.Interp MiniPy.Lemmas C11.SrcRun C11.TieBase C11.SrcRunB.
Import ListNotations.
Local Open Scope string_scope.

(* ---- text ------------------------------------------------------------------------------------------------ *)
Lemma dec_str_enc s : dec_str (VList (map enc_chr s)) = Some s.
Proof.
  unfold dec_str. induction s as [|c s IH]; [reflexivity|].
  cbn [map SrcRun.all_some dec_chr enc_chr]. cbn. cbn in IH. rewrite IH. reflexivity.
Qed.

Lemma as_text_enc s : as_text (VList (map enc_chr s)) = Some s.
Proof. exact (dec_str_enc s). Qed.

Lemma as_text_enc' s : as_text (enc_str s) = Some s.
Proof. exact (dec_str_enc s). Qed.

Lemma as_text_lit s : as_text (VStr s) = Some (codes s).
Proof. reflexivity. Qed.

Lemma enc_str_app a b : VList (map enc_chr a ++ map enc_chr b) = VList (map enc_chr (a ++ b)).
Proof. rewrite map_app. reflexivity. Qed.

(* a text variable that starts as the literal "" and becomes a char list with the first `+=` *)
Definition tv (a : option str) : val := match a with None => VStr "" | Some s => VList (map enc_chr s) end.
Definition tx (a : option str) : str := match a with None => [] | Some s => s end.

Lemma as_text_tv a : as_text (tv a) = Some (tx a).
Proof. destruct a; [apply as_text_enc|reflexivity]. Qed.

Lemma texts_tv l : texts (map tv l) = Some (map tx l).
Proof.
  induction l as [|a l IH]; [reflexivity|].
  cbn [map texts]. rewrite as_text_tv, IH. reflexivity.
Qed.

Lemma texts_enc l : texts (map (fun s => VList (map enc_chr s)) l) = Some l.
Proof.
  induction l as [|a l IH]; [reflexivity|].
  cbn [map texts]. rewrite as_text_enc, IH. reflexivity.
Qed.

(* ---- extB on the names that are not functions of the unit ---------------------------------------------------- *)
Definition own_name (f : string) : bool :=
  (String.eqb f "_handle_x" || String.eqb f "write_trn" || String.eqb f "write_textgrid")%bool.

Lemma extB_other n f args kw st : own_name f = false -> extB n f args kw st = extB0 f args kw st.
Proof.
  unfold own_name. intros H. destruct n; [reflexivity|]. cbn [extB]. unfold is.
  destruct (String.eqb f "_handle_x"); [discriminate|].
  destruct (String.eqb f "write_trn"); [discriminate|].
  destruct (String.eqb f "write_textgrid"); [discriminate|]. reflexivity.
Qed.

Lemma is_file_mk p c : is_file (mk_file p c) = Some (p, c).
Proof. unfold is_file, mk_file. cbn [String.eqb Ascii.eqb Bool.eqb]. unfold enc_str. rewrite dec_str_enc. reflexivity. Qed.

Lemma is_file_mk' p c : is_file (VTuple [VStr "$file"; p; VList (map enc_chr c)]) = Some (p, c).
Proof. exact (is_file_mk p c). Qed.

Lemma len3 {A} (l : list A) : (Z.of_nat (List.length l) =? 3)%Z = true -> exists a b c, l = [a; b; c].
Proof.
  intros H. apply Z.eqb_eq in H. destruct l as [|a [|b [|c [|d l]]]]; cbn [List.length] in H; try lia.
  exists a, b, c. reflexivity.
Qed.

Lemma is_file_mk'' p c : is_file (VTuple [VStr "$file"; p; enc_str c]) = Some (p, c).
Proof. exact (is_file_mk p c). Qed.

Lemma texts_cons v r :
  texts (v :: r) = match as_text v, texts r with Some t, Some ts => Some (t :: ts) | _, _ => None end.
Proof. reflexivity. Qed.

Lemma texts_nil : texts [] = Some [].
Proof. reflexivity. Qed.
