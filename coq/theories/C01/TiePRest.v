(* C01, prefix tie - the exit of `_string_matching` after the loop, run in the configuration of prefix_edit_distances
   (return_prf_dsts = True, either exclude_last) under [ext01p g]: the preamble (sm_pre: asserts, checks, uniform-cost
   shortcut, layout, sizes, lengths), row 0 and del_mat (sm_row0), the flag block before the loop (the uninitialised table
   `torch.empty`, its row 0 = ref_lens * del_cost), and the exit after the loop (mult, the normalisation with the
   empty-reference convention, the padding past each hypothesis length, the layout, `return prefix_ers`).  The scripts of
   TieBlocks / TiePre re-run with the flags of this configuration. *)
From Coq Require Import ZArith QArith List String Bool Arith Lia ZifyBool ZifyNat.
From PV Require Import MiniPy.Syntax MiniPy.Interp MiniPy.Lemmas MiniTorch.Ops MiniTorch.Lemmas MiniTorch.OpsC07 MiniTorch.LemmasC07
  MiniTorch.OpsC01 MiniTorch.LemmasC01 MiniTorch.OpsC01P MiniTorch.LemmasC01P.
From PV Require Import Gen.C01Src C01.SrcRun C01.SrcRunP C01.TieLib C01.TieMath C01.TieLoop C01.TieBlocks C01.TieWhole C01.TieLens
  C01.TiePre C01.TieBody C01.TiePLib C01.TiePMath C01.TiePLoop C01.TiePBlocks.
From PV Require C01.Model C01.Proofs.
Import ListNotations.
Local Open Scope string_scope.

#[local] Arguments dec01 : simpl never.
#[local] Arguments enc_b : simpl never.
#[local] Arguments enc_i : simpl never.
#[local] Arguments enc_x : simpl never.
#[local] Arguments tab2 : simpl never.
#[local] Arguments tab3 : simpl never.
#[local] Arguments qz : simpl never.
#[local] Arguments Z.add : simpl never.
#[local] Arguments Z.sub : simpl never.
#[local] Arguments Z.of_nat : simpl nomatch.
#[local] Arguments select0 : simpl never.
#[local] Arguments slice0 : simpl never.
#[local] Arguments set_slice0 : simpl never.
#[local] Arguments broadcast : simpl never.
#[local] Arguments where_f : simpl never.
#[local] Arguments min_dim : simpl never.
#[local] Arguments gather0 : simpl never.
#[local] Arguments unsqueeze : simpl never.
#[local] Arguments squeeze_dim : simpl never.
#[local] Arguments expand2 : simpl never.
#[local] Arguments triu_f : simpl never.
#[local] Arguments transpose2 : simpl never.
#[local] Arguments arange_f : simpl never.
#[local] Arguments full : simpl never.
#[local] Arguments fadd : simpl never.
#[local] Arguments fsub : simpl never.
#[local] Arguments fmul : simpl never.
#[local] Arguments fdiv : simpl never.
#[local] Arguments fmin : simpl never.
#[local] Arguments b2f : simpl never.
#[local] Arguments z2f : simpl never.
#[local] Arguments empty2 : simpl never.
#[local] Arguments set_select0 : simpl never.
#[local] Arguments size_dim : simpl never.
#[local] Arguments expand_as2 : simpl never.
#[local] Arguments arange : simpl never.
#[local] Arguments ge_t : simpl never.
#[local] Arguments masked_fill : simpl never.
#[local] Arguments long_mul_float : simpl never.

#[local] Arguments ext01 : simpl never.
#[local] Arguments ext01p : simpl never.
#[local] Arguments ext01p_new : simpl never.
#[local] Arguments zf : simpl never.
#[local] Arguments ofx : simpl never.
#[local] Arguments seq : simpl never.
#[local] Arguments Qeq_bool : simpl never.
#[local] Arguments Qcompare : simpl never.
#[local] Arguments Z.eqb : simpl nomatch.
#[local] Arguments any_b : simpl never.
#[local] Arguments tsize : simpl never.

Section RestP.
  Variable g : nat -> fx.
  Variables (s : positive) (ci cd cs : Z) (mult : Q) (R N H : nat) (rf hf : nat -> nat -> Z) (rl hl : nat -> nat).
  Variables (nm w bf excl : bool) (pad : Z).
  Notation E := (ext01p g).
  Notation T := (tsize H excl).
  Notation pre_loop := (body_pre_p s ci cd cs R N H rf hf rl hl excl (VQ mult) (VBool nm) (VBool w) (VInt pad) (VBool bf)).

  (* the table after the loop, as the loop lemma states it *)
  Definition tabL : nat -> nat -> fx :=
    iter_tab s ci cd cs R H rf hf rl hl excl (T - 1) 0 (fun i _ => (Z.of_nat i * cd)%Z) (tab0 g s cd N rl).

  (* entry (j, n) of the returned table *)
  Definition fin_entry_p (j n : nat) : fx :=
    let x := fmul (tabL j n) (Fq mult) in
    let y := if nm then (if (Z.of_nat (rl n) =? 0)%Z then b2f (Z.of_nat j >? 0)%Z else fdiv x (z2f (Z.of_nat (rl n)))) else x in
    if (Z.of_nat j >=? Z.of_nat (hl n) + (if excl then 0 else 1))%Z then z2f pad else y.

  Definition out_tensor : tn fx :=
    if bf then mkTn [N; T] (tab2 N T (fun n j => fin_entry_p j n)) else mkTn [T; N] (tab2 T N fin_entry_p).

  (* the last three statements of the prefix exit: the padding past each hypothesis length, the layout, the return *)
  Definition fill_stmt : stmt :=
    SAssign [(TName "prefix_ers")] (EMeth (EName "prefix_ers") "masked_fill" [(EMeth (EMeth (ECall "torch.arange" [(EMeth (EName "prefix_ers") "size" [(EConst (VInt (0)%Z))] [])] [("device", (EName "device"))]) "unsqueeze" [(EConst (VInt (1)%Z))] []) "ge" [(EBin Add (EName "hyp_lens") (EIfExp (EName "exclude_last") (EConst (VInt (0)%Z)) (EConst (VInt (1)%Z))))] []); (EName "padding")] []).
  Definition layout_stmt : stmt :=
    SIf (EName "batch_first") (SAssign [(TName "prefix_ers")] (EMeth (EName "prefix_ers") "t" [] [])) SPass.

  Lemma fill_run : forall tl sx pf,
    lookup "prefix_ers" (vars sx) = Some (enc_x (mkTn [T; N] (tab2 T N pf))) ->
    lookup "hyp_lens" (vars sx) = Some (enc_i (mkTn [N] (map (fun n => Z.of_nat (hl n)) (seq 0 N)))) ->
    lookup "exclude_last" (vars sx) = Some (VBool excl) -> lookup "device" (vars sx) = Some device_token ->
    lookup "padding" (vars sx) = Some (VInt pad) -> lookup "batch_first" (vars sx) = Some (VBool bf) ->
    (forall j n, (j < T)%nat -> (n < N)%nat ->
       (if (Z.of_nat j >=? Z.of_nat (hl n) + (if excl then 0 else 1))%Z then z2f pad else pf j n) = fin_entry_p j n) ->
    returns (enc_x out_tensor)
      (exec E (SSeq fill_stmt (SSeq (SSeq layout_stmt (SReturn (EName "prefix_ers"))) tl)) sx).
  Proof.
    intros tl sx pf Lp Lh Le Ld Lpad Lbf Hfin. unfold fill_stmt, layout_stmt.
    passign_v (enc_x (mkTn [T; N] (tab2 T N (fun j n =>
                 if (Z.of_nat j >=? Z.of_nat (hl n) + (if excl then 0 else 1))%Z then z2f pad else pf j n))))
      ltac:(destruct excl; repeat (progress (pevn; rewrite ?arange_nat)); reflexivity).
    unfold out_tensor. destruct bf.
    - pifstep. pasg. cbn [exec eval]. look. cbn [bind]. eexists. do 4 f_equal. apply tab2_ext. intros n j Hn Hj. now apply Hfin.
    - pifstep. pseqnorm. cbn [exec eval]. look. cbn [bind]. eexists. do 4 f_equal. apply tab2_ext. intros j n Hj Hn. now apply Hfin.
  Qed.

  Lemma rest_run_p : forall st lfL, pre_loop lfL tabL st -> returns (enc_x out_tensor) (exec E main_rest st).
  Proof.
    intros st lfL (Hexcl & Hmist & Hmask & Hprf & Hhl & Href & Hhyp & Hci & Hcs & Hdm & Hrl' & Hmu & Hno & Hwa & Hpad & Hbf &
                   Hdev & Hrow & Hpe).
    unfold lens_tensor in *. unfold main_rest, sm_main. cbv iota.
    pifstep. pifstep. pasg. pifstep.
    destruct nm eqn:Enm; cbv iota.
    - pasg. pasg. pifstep.
      match goal with |- context [if ?b then _ else _] => destruct b eqn:Hany end.
      + pifstep.
        destruct w; (passign ltac:(repeat (progress (pevn; rewrite ?arange_nat, ?expand_as2_col)); reflexivity);
                     pseqnorm; (eapply fill_run; try eassumption); intros j n Hj Hn; unfold fin_entry_p; rewrite Enm; reflexivity).
      + pseqnorm. eapply fill_run; try eassumption.
        intros j n Hj Hn. unfold fin_entry_p. rewrite Enm.
        replace (Z.of_nat (rl n) =? 0)%Z with false; [reflexivity|].
        symmetry. exact (any_false_at rf hf (fun n0 => (Z.of_nat (rl n0) =? 0)%Z) N n Hn Hany).
    - pseqnorm. eapply fill_run; try eassumption. intros j n Hj Hn. unfold fin_entry_p. rewrite Enm. reflexivity.
  Qed.
End RestP.
