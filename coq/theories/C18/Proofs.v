(* C18 — lemmas (work in progress) *)
From Coq Require Import List ZArith QArith Bool Arith Lia.
From PV Require Import C18.Model C18.Spec.
Import ListNotations.
Local Open Scope Q_scope.

Lemma qsum_nil : qsum [] = 0.
Proof. reflexivity. Qed.
