(* C10, second source tie — the statements of `slice_spect_data` before the policy branches (dimension test, N and T,
   device, the empty-input return, the lobe_size and window_type tests), run symbolically for ARBITRARY input tensors of
   at least two dimensions; and the tactics shared by the policy files. *)
From Coq Require Import ZArith QArith List String Bool Arith Lia ZifyBool ZifyNat.
From PV Require Import MiniPy.Syntax MiniPy.Interp MiniTorch.Ops MiniTorch.Value MiniTorch.Lemmas.
From PV Require Import MiniTorch.OpsC10 MiniTorch.ValueC10 MiniTorch.LemmasC10 MiniTorch.OpsC10B MiniTorch.LemmasC10B Gen.C10BSrc.
From PV Require Import C10.SrcRun C10.SrcRunB C10.TieBCommon.
From PV Require C10.Model.
Import ListNotations.
Local Open Scope string_scope.
#[local] Arguments enc10 : simpl never.
#[local] Arguments dec10 : simpl never.
#[local] Arguments Z.of_nat : simpl never.
#[local] Arguments Z.add : simpl never.
#[local] Arguments Z.sub : simpl never.
#[local] Arguments Z.mul : simpl never.
#[local] Arguments Z.div : simpl never.
#[local] Arguments Z.ltb : simpl never.
#[local] Arguments then_ : simpl never.
#[local] Arguments extreme_of : simpl never.
#[local] Arguments q_cmp : simpl never.

Lemma is_none_enc10_cbn : forall t : itens,
  ltac:(let x := eval cbn in (cmp_eval Is (enc10 t) VNone) in exact (x = Some false)).
Proof. reflexivity. Qed.
Lemma isnot_none_enc10_cbn : forall t : itens,
  ltac:(let x := eval cbn in (cmp_eval IsNot (enc10 t) VNone) in exact (x = Some true)).
Proof. reflexivity. Qed.

Ltac open_seq := rewrite exec_seq'; match goal with |- context [then_ ?b] => let r := fresh "rest" in remember b as r end.
Ltac norm_state := unfold set_var; cbn [update vars events String.eqb Ascii.eqb Bool.eqb].
Ltac close_stmt := norm_state; rewrite then_normal; match goal with H : ?r = _ |- context [exec extB ?r _] => subst r end.
Ltac is_pos p := lazymatch p with xH => idtac | xO ?q => is_pos q | xI ?q => is_pos q end.
Ltac is_zc z := lazymatch z with Z0 => idtac | Zpos ?p => is_pos p | Zneg ?p => is_pos p end.
(* comparisons / sums of closed numerals that the blocked Z functions leave behind *)
Ltac znum :=
  change (Z.of_nat 3) with 3%Z; change (Z.of_nat 2) with 2%Z; change (Z.of_nat 1) with 1%Z; change (Z.of_nat 0) with 0%Z;
  change (Pos.to_nat 1) with 1%nat; change (Pos.to_nat 2) with 2%nat; change (Pos.to_nat 3) with 3%nat;
  repeat match goal with
         | |- context [Z.ltb ?a ?b] => is_zc a; is_zc b; let r := eval vm_compute in (Z.ltb a b) in change (Z.ltb a b) with r
         | |- context [Z.add ?a ?b] => is_zc a; is_zc b; let r := eval vm_compute in (Z.add a b) in change (Z.add a b) with r
         end.
Ltac tstep0 :=
  cbn; znum;
  rewrite ?method_enc10, ?attribute_enc10, ?foreign_enc10, ?subscript_enc10, ?is_slice_enc10, ?dec_index_enc10,
    ?is_none_enc10_cbn, ?isnot_none_enc10_cbn, ?dec10_enc10, ?on1_enc, ?on2_enc, ?on2_enc_int, ?q_cmp_inj, ?max_int, ?min_int,
    ?lookup_update.

(* input.shape[:2] *)
Lemma shape_prefix2 : forall a b l st,
  getitemB (VTuple (VInt a :: VInt b :: l)) (VTuple [VStr "$slice"; VNone; VInt 2; VNone]) st
  = Ok (VTuple [VInt a; VInt b]) st.
Proof.
  intros. unfold getitemB. change (dec10 (VTuple (VInt a :: VInt b :: l))) with (@None itens).
  cbn [is_slice String.eqb Ascii.eqb Bool.eqb dec_bound foreign]. unfold tuple_slice.
  cbn [List.length slice_bound Z.ltb Z.to_nat Pos.to_nat Pos.iter_op Nat.add Nat.min Nat.sub skipn firstn].
  reflexivity.
Qed.

(* the state after the six leading statements *)
Definition prefix_vars (inp : itens) (il ol : option itens) (policy wt : string) (vo : bool) (lobe : Z) (N T : nat)
  : list (string * val) :=
  [("input", enc10 inp); ("in_lens", opt_tensor il); ("other_lens", opt_tensor ol);
   ("policy", VStr policy); ("window_type", VStr wt); ("valid_only", VBool vo); ("lobe_size", VInt lobe);
   ("torch", torch_module_b); ("$t1", VTuple [VInt (Z.of_nat N); VInt (Z.of_nat T)]);
   ("N", VInt (Z.of_nat N)); ("T", VInt (Z.of_nat T)); ("device", device_token)].

Definition wt_ok (wt : string) : bool :=
  String.eqb wt "symmetric" || (String.eqb wt "causal" || (String.eqb wt "future" || false)).

Section Prefix.
  Variables (N T : nat) (rest : list nat) (data : list cell) (il ol : option itens) (policy wt : string) (vo : bool) (lobe : Z).
  Let inp := mkIT (N :: T :: rest) data.

  Ltac lead4 :=
    unfold slice_body, slice_vars_raw, inp;
    open_seq; repeat (progress tstep0);
    replace (Z.of_nat (S (S (List.length rest))) <? 2)%Z with false by lia;
    repeat (progress tstep0); close_stmt;
    open_seq; repeat (progress tstep0); rewrite shape_prefix2;
    repeat (progress tstep0); close_stmt;
    open_seq; repeat (progress tstep0); close_stmt;
    open_seq; repeat (progress tstep0).

  (* empty sequences: two empty tensors, before any other test *)
  Lemma prefix_empty : T = 0%nat ->
    exists st, exec extB slice_body (mkState (slice_vars_raw inp il ol policy wt vo lobe) [])
               = Ok (CReturn (VTuple [enc10 (empty [0; 2]%nat); enc10 (empty [0%nat])])) st.
  Proof.
    intros ->. lead4. eexists. reflexivity.
  Qed.

  Lemma prefix_neg_lobe : T <> 0%nat -> (lobe < 0)%Z ->
    exists st, exec extB slice_body (mkState (slice_vars_raw inp il ol policy wt vo lobe) []) = Exc runtime_error st.
  Proof.
    intros HT Hl. lead4.
    replace (Z.of_nat T =? 0)%Z with false by lia. repeat (progress tstep0). close_stmt.
    open_seq. repeat (progress tstep0). replace (lobe <? 0)%Z with true by lia. repeat (progress tstep0).
    eexists. reflexivity.
  Qed.

  Lemma prefix_bad_window : T <> 0%nat -> (0 <= lobe)%Z -> wt_ok wt = false ->
    exists st, exec extB slice_body (mkState (slice_vars_raw inp il ol policy wt vo lobe) []) = Exc runtime_error st.
  Proof.
    intros HT Hl Hw. lead4.
    replace (Z.of_nat T =? 0)%Z with false by lia. repeat (progress tstep0). close_stmt.
    open_seq. repeat (progress tstep0). replace (lobe <? 0)%Z with false by lia. repeat (progress tstep0). close_stmt.
    open_seq. repeat (progress tstep0). unfold wt_ok in Hw. rewrite Hw. repeat (progress tstep0).
    eexists. reflexivity.
  Qed.

  Lemma prefix_run : T <> 0%nat -> (0 <= lobe)%Z -> wt_ok wt = true ->
    exec extB slice_body (mkState (slice_vars_raw inp il ol policy wt vo lobe) [])
    = exec extB (drop_seq 6 slice_body) (mkState (prefix_vars inp il ol policy wt vo lobe N T) []).
  Proof.
    intros HT Hl Hw.
    remember (exec extB (drop_seq 6 slice_body) (mkState (prefix_vars inp il ol policy wt vo lobe N T) [])) as RHS.
    lead4.
    replace (Z.of_nat T =? 0)%Z with false by lia. repeat (progress tstep0). close_stmt.
    open_seq. repeat (progress tstep0). replace (lobe <? 0)%Z with false by lia. repeat (progress tstep0). close_stmt.
    open_seq. repeat (progress tstep0). unfold wt_ok in Hw. rewrite Hw. repeat (progress tstep0). close_stmt.
    subst RHS. reflexivity.
  Qed.
End Prefix.
