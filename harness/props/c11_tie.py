"""C11 source tie, harness side: the translated Python text of read_ctm / write_ctm (open-file branches),
transcript_to_token and token_to_transcript (unit C11Src), interpreted inside Coq (PV.C11.SrcRun.src_check_*) on the
ctm / ctm_text / tok / tok_back cases of the run, against the implementation's output.  Validates the translator,
MiniPy's semantics, ext11 and MiniTorch.OpsC11 against CPython + torch on every run; independent of whether the tie
lemmas (coq/theories/C11/Tie*.v) still compile.

The terms are those of the model comparison (props/c11.py: terms_ctm, terms_tok, ...) with the model's check replaced by
the source's: same arguments, same observed output.  Foreign ctm files (kind ctm_text) are given line by line with their
decorations (6th column, ';;' comment, blank and comment-only lines), so that `continue`, the {5, 6} length test and the
comment split of the interpreted source are exercised as well."""
import time

from vlib import cb, cl, cp, cz, coq_eval_bools

IMPORTS_SRC = "From PV Require C11.SrcRun.\n"
SRC_THEOREMS = ["c11_source_read_ctm_is_model", "c11_source_write_ctm_is_model", "c11_source_ctm_roundtrip",
                "c11_source_to_transcript_is_model", "c11_source_to_token_is_model", "c11_source_tokens_roundtrip"]
# label of the model comparison -> (model check, source check)
SWAP = {
    "write_ctm = model": ("check_write_ctm ", "SrcRun.src_check_write_ctm "),
    "read_ctm = model": ("check_read_ctm ", "SrcRun.src_check_read_ctm "),
    "transcript_to_token = model": ("check_to_token ", "SrcRun.src_check_to_token "),
}


def _lines_term(c11, case):
    """the foreign file of a ctm_text case, field level: [(fields, has_comment)]"""
    out = []
    for sg in case["segs"]:
        w, c, s, d, t = sg[:5]
        dec = sg[5] if len(sg) > 5 else ""
        fields = [f"inl {c11.cs(w)}", f"inl {c11.cs(c)}", f"inr {cz(s)}", f"inr {cz(d)}", f"inl {c11.cs(t)}"]
        if "c" in dec:
            fields.append(f"inl {c11.cs('0.9')}")
        out.append(cp(cl(fields), cb(";" in dec)))
        if "b" in dec:
            out.append(cp("[]", cb(False)))
        if "k" in dec:
            out.append(cp("[]", cb(True)))
    return cl(out)


def src_terms(c11, case, out):
    """[(what, Coq bool term)] for one case"""
    k = case["kind"]
    res = []
    if k == "ctm":
        terms, _ = c11.terms_ctm(case, out)
    elif k == "tok":
        terms, _ = c11.terms_tok(case, out)
    elif k == "tok_back":
        terms, _ = c11.terms_tok_back(case, out)
    elif k == "ctm_text":
        rd = c11.coq_ctm_read(*out["r_file"])
        if rd:
            res.append(("read_ctm(foreign file)",
                        f"SrcRun.src_check_read_ctm_lines {_lines_term(c11, case)} {c11.coq_wc2utt(case)} {rd}"))
        return res
    else:
        return res
    for label, t in terms.items():
        if t == "false":
            continue
        if label in SWAP and t.startswith(SWAP[label][0]):
            res.append((label.split(" = ")[0], SWAP[label][1] + t[len(SWAP[label][0]):]))
        elif label.startswith("token_to_transcript") and t.startswith("check_to_transcript "):
            if k == "tok":
                cols = 0 if case.get("skip") else 3
            else:
                cols = 3 if case["shape"] == 3 else (1 if case.get("col") or any(isinstance(r, list) for r in case["ref"]) else 0)
            res.append(("token_to_transcript", f"SrcRun.src_check_to_transcript {cols} " + t[len("check_to_transcript "):]))
    return res


def source_tie(chk, cases, outs):
    from vlib import CoqError
    from props import c11
    chk.extra["source_tie"] = {
        "unit": "C11Src (harness/py2coq/units/C11Src.json)", "coq": "PV.C11.SrcRun / PV.C11.Tie*",
        "what": "read_ctm and write_ctm (open-file branches), transcript_to_token, token_to_transcript",
        "theorems": SRC_THEOREMS}
    items = []
    for i, (c, o) in enumerate(zip(cases, outs)):
        if c["kind"] not in ("ctm", "ctm_text", "tok", "tok_back") or not isinstance(o, dict) or "harness_exception" in o:
            continue
        try:
            for what, t in src_terms(c11, c, o):
                items.append((i, what, t))
        except (KeyError, TypeError, ValueError):
            continue
    if not items:
        chk.extra["source_tie_run"] = {"cases": 0, "disagreements": 0}
        return
    t0 = time.time()
    try:
        res = coq_eval_bools(chk.workdir, c11.IMPORTS + IMPORTS_SRC, [t for _, _, t in items], shard=120, tag="src")
    except CoqError as e:
        chk.extra["source_tie_run"] = "not evaluated: " + str(e)[-400:]
        return
    bad = [items[j] for j, ok in enumerate(res) if not ok]
    per = {}
    for _, what, _ in items:
        per[what] = per.get(what, 0) + 1
    chk.extra["source_tie_run"] = {"cases": len(items), "disagreements": len(bad), "wall_s": round(time.time() - t0, 1),
                                   "per_function": per}
    chk.count("source_tie_cases", len(items))
    if bad:
        i, what, t = bad[0]
        chk.report({"case": cases[i], "impl": c11._jsonable(outs[i]), "function": what, "term": t[:1500],
                    "what": "the Python source of " + what + " as translated to MiniPy and interpreted in Coq (PV.C11.SrcRun, "
                            "ext11, MiniTorch.OpsC11) does not reproduce the implementation's output: translator / interpreter / "
                            "ext11 no longer describe the code",
                    "disagreeing_cases": len(bad),
                    "correspondence": "tie:C11:py2coq+MiniPy.Interp:" + what,
                    "theorems_at_stake": SRC_THEOREMS}, no_failing_input=True)


# ---------------------------------------------------------------------------------------------------------------
# second tie (unit C11BSrc): write_trn (whole function + its helper _handle_x), write_textgrid (whole function, both
# entry points) and the path branches of read_ctm / write_ctm, interpreted inside Coq (PV.C11.SrcRunB.src_check_*)
# on the trn / tg / ctm cases of the run, against the bytes / values the implementation produced.
# ---------------------------------------------------------------------------------------------------------------
IMPORTS_SRCB = "From PV Require C11.ModelB C11.SrcRunB.\n"
SRCB_THEOREMS = ["c11_source_handle_x_is_model", "c11_source_write_trn_is_model", "c11_source_write_trn_path_is_model",
                 "c11_source_trn_roundtrip"]


def _tops_term(c11, case):
    """the transcripts as write_trn is given them by impl_trn (py_elem): bare tokens, (token, 0.5, 1.25) with `times`,
    top-level alternates as (alts, -1, -1)"""
    times = bool(case.get("times", False))

    def top(x):
        if isinstance(x, str):
            if times:
                return f"ModelB.TTimed (Tok {c11.cs(x)}) (ModelB.NQ (1 # 2)) (ModelB.NQ (5 # 4))"
            return f"ModelB.TBare {c11.cs(x)}"
        return f"ModelB.TTimed ({c11.coq_elem(x)}) (ModelB.NInt (-1)) (ModelB.NInt (-1))"
    return cl([cp(c11.cs(u), cl([top(x) for x in tr])) for u, tr in case["ts"]])


def srcB_terms(c11, case, out):
    k = case["kind"]
    res = []
    if k == "trn":
        T = _tops_term(c11, case)
        if out.get("w_file_exc") is None:
            res.append(("write_trn", f"SrcRunB.src_check_write_trn false {T} {c11.cs(out['w_file'])}"))
        if out.get("w_path") is not None and out.get("w_path_exc") is None:
            res.append(("write_trn(path)", f"SrcRunB.src_check_write_trn true {T} {c11.cs(out['w_path'])}"))
    elif k == "tg":
        wf = c11.cres(out["w_exc"], c11.cs(out["w_file"]) if out["w_exc"] is None else None)
        if wf:
            res.append(("write_textgrid", f"{c11.coq_tg_call('SrcRunB.src_check_write_textgrid false', case)} {wf}"))
        wp = c11.cres(out["w_path_exc"], c11.cs(out["w_path"]) if out["w_path_exc"] is None else None)
        if wp:
            res.append(("write_textgrid(path)", f"{c11.coq_tg_call('SrcRunB.src_check_write_textgrid true', case)} {wp}"))
    elif k == "ctm":
        T, M = c11.coq_ctm_ts(case), c11.coq_utt2wc(case)
        if out["w_path_exc"] is not None:
            w, segs = c11.cres(out["w_path_exc"], None), None
        else:
            segs = c11.parse_ctm_text(out["w_path"])
            w = c11.cres(None, c11.coq_segs(segs)) if segs is not None else None
        if w:
            res.append(("write_ctm(path)", f"SrcRunB.src_check_write_ctm_path {T} {M} {w}"))
        if segs is not None and "r_path" in out:
            rd = c11.coq_ctm_read(*out["r_path"])
            if rd:
                res.append(("read_ctm(path)",
                            f"SrcRunB.src_check_read_ctm_path {c11.coq_segs(segs)} {c11.coq_wc2utt(case)} {rd}"))
    return res


def source_tieB(chk, cases, outs):
    from vlib import CoqError
    from props import c11
    chk.extra["source_tie_B"] = {
        "unit": "C11BSrc (harness/py2coq/units/C11BSrc.json)", "coq": "PV.C11.SrcRunB / PV.C11.TieB*",
        "what": "write_trn with _handle_x and write_textgrid (whole functions, open-file and path entry points), "
                "path branches of read_ctm / write_ctm",
        "theorems": SRCB_THEOREMS}
    items = []
    for i, (c, o) in enumerate(zip(cases, outs)):
        if c["kind"] not in ("trn", "tg", "ctm") or not isinstance(o, dict) or "harness_exception" in o:
            continue
        try:
            for what, t in srcB_terms(c11, c, o):
                items.append((i, what, t))
        except (KeyError, TypeError, ValueError):
            continue
    if not items:
        chk.extra["source_tie_B_run"] = {"cases": 0, "disagreements": 0}
        return
    t0 = time.time()
    try:
        res = coq_eval_bools(chk.workdir, c11.IMPORTS + IMPORTS_SRCB, [t for _, _, t in items], shard=120, tag="srcB")
    except CoqError as e:
        chk.extra["source_tie_B_run"] = "not evaluated: " + str(e)[-400:]
        return
    bad = [items[j] for j, ok in enumerate(res) if not ok]
    per = {}
    for _, what, _ in items:
        per[what] = per.get(what, 0) + 1
    chk.extra["source_tie_B_run"] = {"cases": len(items), "disagreements": len(bad), "wall_s": round(time.time() - t0, 1),
                                     "per_function": per}
    chk.count("source_tie_cases", len(items))
    if bad:
        i, what, t = bad[0]
        chk.report({"case": cases[i], "impl": c11._jsonable(outs[i]), "function": what, "term": t[:1500],
                    "what": "the Python source of " + what + " as translated to MiniPy and interpreted in Coq (PV.C11.SrcRunB, "
                            "extB / extC) does not reproduce the implementation's output: translator / interpreter / ext no "
                            "longer describe the code",
                    "disagreeing_cases": len(bad),
                    "correspondence": "tie:C11:py2coq+MiniPy.Interp:" + what,
                    "theorems_at_stake": SRCB_THEOREMS}, no_failing_input=True)
