(* C04, second tie, part 2b: the `break` decision of one interpreted iteration (hand-written glue SrcRunB.fw_iter over the
   translated blocks fw_t / fw_mask_on) on the tensors that encode the model's beams IS the model's: the iteration ends
   with the break signal, all persistent variables unchanged, exactly when Model.step answers None. *)
From Coq Require Import ZArith QArith List String Bool Arith Lia.
From PV Require Import MiniPy.Syntax MiniPy.Interp MiniTorch.Ops MiniTorch.Value MiniTorch.Lemmas
  MiniTorch.OpsC04 MiniTorch.LemmasC04 MiniTorch.OpsC04B MiniTorch.LemmasC04B Gen.C04BSrc.
From PV Require Import C04.Model C04.SrcRun C04.SrcRunB C04.TieRunB C04.TieIterB C04.TieMaskB.
Import ListNotations.
Local Open Scope nat_scope.

Lemma forallb_map_id {A} (d : A -> bool) l : forallb (fun b => b) (map d l) = forallb d l.
Proof. induction l as [|x l IH]; [reflexivity|]. cbn [map forallb]. now rewrite IH. Qed.

Lemma tl2_col {A} n (g : nat -> nat -> A) : tl2 n 1 g = map (fun i => g i 0) (seq 0 n).
Proof. unfold tl2. cbn [seq map]. apply flat_map_singleton. Qed.

Lemma all_col : forall n (d : nat -> bool), all (tabv2 n 1 (fun i _ => VBool (d i))) = Some (forallb d (seq 0 n)).
Proof.
  intros n d. unfold all, tabv2. cbn [vdata].
  rewrite (map_opt_tl2 bool_of n 1 _ (fun i _ => d i)) by reflexivity. cbn [option_map]. f_equal.
  rewrite tl2_col. apply forallb_map_id.
Qed.

Lemma dones_seq (f : list slot -> bool) (beams : list (list slot)) :
  forallb (fun b => b) (map f beams) = forallb (fun n => f (nth n beams [])) (seq 0 (List.length beams)).
Proof.
  rewrite forallb_map_id. rewrite <- (map_nth_seq beams []) at 1. rewrite <- (forallb_map_id f). rewrite map_map.
  apply forallb_map_id.
Qed.

(* the model leaves the loop (Model.step = None) <-> eos is set, t > 0 and every batch element is done *)
Lemma step_none_iff {state} topk (calc : list Z -> state -> nat -> list score * state) dstate V width e fin_all pad t b :
  t <> 0 ->
  (step topk calc dstate V width (Some e) fin_all pad t b = None
   <-> forallb (fun x => x) (map (done_of (Some e) fin_all t) (beams b)) = true).
Proof.
  intros Ht. unfold step, active. replace (t =? 0) with false by (symmetry; apply Nat.eqb_neq; exact Ht). cbn [negb andb].
  destruct (forallb (fun x => x) (map (done_of (Some e) fin_all t) (beams b))); split; intros H; try reflexivity; discriminate.
Qed.

Local Open Scope string_scope.

(* one interpreted iteration at step t > 0 with eos set, from ANY variable state whose persistent part encodes the model's
   beams: if every batch element is done (Model.step = None) it ends with the break signal and the persistent variables
   unchanged; otherwise it does NOT break (it goes on into the rest of the loop body) *)
Theorem break_tie : forall calc isv bsv miv is0 V width fin_all pad ev e t S pw beams prev lpp pady rest,
  t <> 0 -> 1 <= S -> 1 <= pw ->
  Forall (fun row => List.length row = pw) beams -> Forall (Forall (fun s => len s <= S)) beams ->
  let N := List.length beams in
  let st := mkState (live isv bsv miv is0 V width (Some e) fin_all pad N pw (enc_y S N pw beams) prev lpp (enc_lens N pw beams) pady
                       (update "t" (VInt (Z.of_nat t)) rest)) ev in
  if forallb (fun x => x) (map (done_of (Some e) fin_all t) beams)
  then exists rest', exec (extB calc) fw_iter st
                     = Exc break_signal (mkState (live isv bsv miv is0 V width (Some e) fin_all pad N pw (enc_y S N pw beams) prev lpp
                                                    (enc_lens N pw beams) pady rest') ev)
  else forall st', exec (extB calc) fw_iter st <> Exc break_signal st'.
Proof.
  intros calc isv bsv miv is0 V width fin_all pad ev e t S pw beams prev lpp pady rest Ht HS Hpw Hrows Hlens. cbv zeta.
  set (N := List.length beams).
  set (st := mkState (live isv bsv miv is0 V width (Some e) fin_all pad N pw (enc_y S N pw beams) prev lpp (enc_lens N pw beams) pady
                        (update "t" (VInt (Z.of_nat t)) rest)) ev).
  pose proof (iter_run calc isv bsv miv is0 V width (Some e) fin_all pad N ev (Z.of_nat t) pw (enc_y S N pw beams) prev lpp
                (enc_lens N pw beams) pady rest S N pw eq_refl) as H.
  fold st in H. unfold iter_tensor in H. cbv beta iota zeta in H.
  replace (Z.of_nat t =? 0)%Z with false in H by lia. cbn [negb] in H.
  pose proof (mask_on_model e fin_all t S pw beams Ht HS Hpw Hrows Hlens) as Hm. fold N in Hm. rewrite Hm in H. clear Hm.
  cbn [tt fst snd] in H. rewrite all_col in H. cbn [tb] in H. unfold N in H at 1. rewrite <- dones_seq in H.
  destruct (forallb (fun x => x) (map (done_of (Some e) fin_all t) beams)).
  - destruct (exec (extB calc) fw_iter st) as [[|v] s1|n s1|m]; cbn [simi] in H; try contradiction.
    destruct H as [-> [rest' ->]]. now exists rest'.
  - intros st' E. rewrite E in H.
    destruct (TieRunB.rest_tensor _ _ _ _ _ _ _ _ _ _ _ _ _ _) as [r| |]; cbn [tt simi] in H; try contradiction.
    discriminate H.
Qed.

(* the same against Model.step: the interpreted iteration breaks exactly when the model's step answers None *)
Theorem break_tie_step : forall calc isv bsv miv is0 V width fin_all pad ev e t S (b : @bstate Z) lpp pady rest,
  t <> 0 -> 1 <= S -> 1 <= pw b ->
  Forall (fun row => List.length row = pw b) (beams b) -> Forall (Forall (fun s => len s <= S)) (beams b) ->
  let N := List.length (beams b) in
  let st := mkState (live isv bsv miv is0 V width (Some e) fin_all pad N (pw b) (enc_y S N (pw b) (beams b)) (prev b) lpp
                       (enc_lens N (pw b) (beams b)) pady (update "t" (VInt (Z.of_nat t)) rest)) ev in
  match step topk_stable calc 0%Z V width (Some e) fin_all pad t b with
  | None => exists rest', exec (extB calc) fw_iter st
                          = Exc break_signal (mkState (live isv bsv miv is0 V width (Some e) fin_all pad N (pw b)
                                                         (enc_y S N (pw b) (beams b)) (prev b) lpp (enc_lens N (pw b) (beams b)) pady rest') ev)
  | Some _ => forall st', exec (extB calc) fw_iter st <> Exc break_signal st'
  end.
Proof.
  intros calc isv bsv miv is0 V width fin_all pad ev e t S b lpp pady rest Ht HS Hpw Hrows Hlens N st.
  pose proof (break_tie calc isv bsv miv is0 V width fin_all pad ev e t S (pw b) (beams b) (prev b) lpp pady rest Ht HS Hpw Hrows Hlens) as H.
  cbv zeta in H. fold N in H. fold st in H.
  pose proof (step_none_iff topk_stable calc 0%Z V width e fin_all pad t b Ht) as Hi.
  destruct (step topk_stable calc 0%Z V width (Some e) fin_all pad t b) as [b'|].
  - destruct (forallb (fun x => x) (map (done_of (Some e) fin_all t) (beams b))); [|exact H].
    destruct Hi as [_ Hi]. discriminate (Hi eq_refl).
  - destruct Hi as [Hi _]. rewrite (Hi eq_refl) in H. exact H.
Qed.
