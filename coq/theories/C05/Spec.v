(* C05 - declarative reading of the property, independent of how the code works.

   (b) [ctc_mass]: total weight of all alignments (label sequences over 0..V, V = blank,
       one label per frame) that collapse to a prefix.
   (a) [pbs_step] / [pbs_keeps]: the textbook prefix beam search of width K on a finite
       map prefix |-> (mass of paths ending in non-blank, mass of paths ending in blank).
   [spec_okb]: boolean reading of the property on ONE element's implementation output. *)
From Coq Require Import List Arith Bool QArith Qcanon.
From PV Require Import C05.Model.
Import ListNotations.
Local Open Scope Qc_scope.
Local Open Scope nat_scope.

(* one frame: probabilities of the V labels, probability of blank *)
Definition sframe : Type := list Qc * Qc.
(* E t p v: the score of label v when it EXTENDS prefix p at frame t (without a language
   model this is the frame's probability of v; with shallow fusion it depends on p) *)
Definition score : Type := nat -> list nat -> nat -> Qc.

Definition plain_score (frames : list sframe) : score :=
  fun t _ v => nth v (fst (nth t frames ([], 0%Qc))) 0%Qc.

(* ---- (b) alignments ------------------------------------------------------------ *)

Record astate := mkA
  { a_t : nat; a_pre : list nat; a_last : option nat; a_w : Qc }.

Definition a_init : astate := mkA 0 [] None 1%Qc.

Definition opt_is (o : option nat) (c : nat) : bool :=
  match o with Some x => Nat.eqb x c | None => false end.

(* reading one more label of an alignment *)
Definition astep (V : nat) (frames : list sframe) (E : score) (st : astate) (c : nat)
  : astate :=
  let fr := nth (a_t st) frames ([], 0%Qc) in
  if Nat.eqb c V then
    mkA (S (a_t st)) (a_pre st) (Some c) (a_w st * snd fr)%Qc
  else if opt_is (a_last st) c then
    mkA (S (a_t st)) (a_pre st) (Some c) (a_w st * nth c (fst fr) 0%Qc)%Qc
  else
    mkA (S (a_t st)) (a_pre st ++ [c]) (Some c) (a_w st * E (a_t st) (a_pre st) c)%Qc.

Definition arun V frames E (a : list nat) : astate := fold_left (astep V frames E) a a_init.

(* all label sequences of length n over 0..V *)
Fixpoint aligns (V n : nat) : list (list nat) :=
  match n with
  | O => [[]]
  | S n' => flat_map (fun a => map (fun c => a ++ [c]) (seq 0 (S V))) (aligns V n')
  end.

Definition ends_blank (V : nat) (st : astate) : bool :=
  match a_last st with None => true | Some c => Nat.eqb c V end.

(* mass after n frames of the alignments collapsing to p and ending in blank / non-blank *)
Definition A_b V frames E (n : nat) (p : list nat) : Qc :=
  qsum (map (fun a => let st := arun V frames E a in
                      if list_nat_eqb (a_pre st) p && ends_blank V st then a_w st else 0%Qc)
            (aligns V n)).
Definition A_nb V frames E (n : nat) (p : list nat) : Qc :=
  qsum (map (fun a => let st := arun V frames E a in
                      if list_nat_eqb (a_pre st) p && negb (ends_blank V st) then a_w st else 0%Qc)
            (aligns V n)).
(* every alignment of n frames, read *)
Definition runs V frames E (n : nat) : list astate := map (arun V frames E) (aligns V n).
Definition mass_in (rs : list astate) (p : list nat) : Qc :=
  qsum (map (fun st => if list_nat_eqb (a_pre st) p then a_w st else 0%Qc) rs).
(* total mass of the alignments of the whole input that collapse to p *)
Definition ctc_mass V frames E (p : list nat) : Qc :=
  mass_in (runs V frames E (length frames)) p.

(* the textbook collapse: merge repeats, then drop blanks *)
Fixpoint dedupe (prev : option nat) (a : list nat) : list nat :=
  match a with
  | [] => []
  | c :: t => if opt_is prev c then dedupe (Some c) t else c :: dedupe (Some c) t
  end.
Definition collapse (V : nat) (a : list nat) : list nat :=
  filter (fun c => negb (Nat.eqb c V)) (dedupe None a).
(* the textbook weight without a language model: the product of the frame probabilities *)
Fixpoint path_prob (V : nat) (frames : list sframe) (a : list nat) : Qc :=
  match frames, a with
  | fr :: frames', c :: a' =>
      ((if Nat.eqb c V then snd fr else nth c (fst fr) 0%Qc) * path_prob V frames' a')%Qc
  | _, _ => 1%Qc
  end.

(* ---- (a) prefix beam search on a finite map ------------------------------------- *)

Definition entry : Type := list nat * (Qc * Qc).    (* prefix, (nb, b) *)
Definition e_tot (e : entry) : Qc := (fst (snd e) + snd (snd e))%Qc.

Definition lookup (B : list entry) (p : list nat) : Qc * Qc :=
  match find (fun e => list_nat_eqb (fst e) p) B with
  | Some e => snd e
  | None => (0%Qc, 0%Qc)
  end.
Definition inb (B : list entry) (p : list nat) : bool :=
  existsb (fun e => list_nat_eqb (fst e) p) B.

Definition last_opt (p : list nat) : option nat :=
  match p with [] => None | _ => Some (last p O) end.

(* the (nb, b) the recursion assigns to prefix q after frame t, from beam B *)
Definition new_entry (V : nat) (frames : list sframe) (E : score) (t : nat)
  (B : list entry) (q : list nat) : entry :=
  let fr := nth t frames ([], 0%Qc) in
  let '(nq, bq) := lookup B q in
  let stay_b := ((nq + bq) * snd fr)%Qc in
  let stay_nb := match last_opt q with
                 | Some v => (nq * nth v (fst fr) 0%Qc)%Qc
                 | None => 0%Qc
                 end in
  let ext_nb := match last_opt q with
                | Some v =>
                    let p := removelast q in
                    if inb B p then
                      let '(np, bp) := lookup B p in
                      (((if opt_is (last_opt p) v then 0 else np) + bp) * E t p v)%Qc
                    else 0%Qc
                | None => 0%Qc
                end in
  (q, ((stay_nb + ext_nb)%Qc, stay_b)).

Fixpoint nodup_pre (l : list (list nat)) : list (list nat) :=
  match l with
  | [] => []
  | p :: t => if existsb (list_nat_eqb p) t then nodup_pre t else p :: nodup_pre t
  end.

(* prefixes reachable in one frame: stay, or extend by one label *)
Definition cand_prefixes (V : nat) (B : list entry) : list (list nat) :=
  nodup_pre (map fst B
             ++ flat_map (fun e => map (fun v => fst e ++ [v]) (seq 0 V)) B).

Definition pbs_cands V frames E t B : list entry :=
  map (new_entry V frames E t B) (cand_prefixes V B).

(* B' is an admissible pruning of the candidates to width K: distinct prefixes, at most
   K of them, all taken from the candidates, and a candidate is left out only if the beam
   is full and everything kept weighs at least as much *)
Definition pbs_keeps (K : nat) (cands B' : list entry) : Prop :=
  NoDup (map fst B') /\ incl B' cands /\ length B' <= K /\
  (forall c, In c cands -> ~ In c B' ->
     length B' = K /\ forall e, In e B' -> (e_tot c <= e_tot e)%Qc).

Definition pbs_init : list entry := [([], (0%Qc, 1%Qc))].

(* beams reachable after n frames *)
Inductive pbs_reach (V K : nat) (frames : list sframe) (E : score) : nat -> list entry -> Prop :=
| pbs_0 : pbs_reach V K frames E 0 pbs_init
| pbs_S : forall n B B', pbs_reach V K frames E n B ->
    pbs_keeps K (pbs_cands V frames E n B) B' -> pbs_reach V K frames E (S n) B'.

(* "nothing had to be pruned" *)
Inductive pbs_full (V : nat) (frames : list sframe) (E : score) : nat -> list entry -> Prop :=
| pbsf_0 : pbs_full V frames E 0 pbs_init
| pbsf_S : forall n B B', pbs_full V frames E n B ->
    NoDup (map fst B') -> incl B' (pbs_cands V frames E n B) ->
    incl (pbs_cands V frames E n B) B' -> pbs_full V frames E (S n) B'.

Definition is_pos (eps : Qc) (m : mass) : bool :=
  match m with Fin q => negb (qleb q eps) | NegInf => false end.

(* deterministic instance (stable: ties keep the earlier candidate), with a flag telling
   whether some pruning decision was closer than [eps] *)
Definition e_val (l : list entry) (i : nat) : mass :=
  match nth_error l i with Some e => Fin (e_tot e) | None => NegInf end.

Definition pbs_step_auto V K frames E (eps : Qc) t (B : list entry) : list entry * bool :=
  let cs := pbs_cands V frames E t B in
  let vals := map (fun e => Fin (e_tot e)) cs in
  let val := fun i => nth i vals NegInf in
  let order := topk_stable val (length cs) (length cs) in
  let kept := firstn K order in
  let dropped := skipn K order in
  let tight := existsb (fun d => is_pos eps (val d)
                                 && mge_eps eps (val d) (val (last kept O)))
                       dropped in
  (map (fun i => nth i cs ([], (0%Qc, 0%Qc))) kept, tight).

Fixpoint pbs_auto V K frames E (eps : Qc) (n t : nat) (B : list entry) : list entry * bool :=
  match n with
  | O => (B, false)
  | S n' => let '(B1, f1) := pbs_step_auto V K frames E eps t B in
            let '(B2, f2) := pbs_auto V K frames E eps n' (S t) B1 in (B2, f1 || f2)
  end.

(* ---- the scores the search uses, as a [score] -------------------------------------- *)
Definition fused_score (fus : fusion) (lm : list nat -> list Qc) (frames : list sframe) : score :=
  fun t p v => let fr := nth t frames ([], 0%Qc) in
               nth v (ext_row fus lm (fst fr) (snd fr) p) 0%Qc.

(* [mass_in] without adding the zeros (same value, see ProofsSpec.mass_fast_eq) *)
Definition mass_fast (rs : list astate) (p : list nat) : Qc :=
  fold_left (fun acc st => if list_nat_eqb (a_pre st) p then (acc + a_w st)%Qc else acc) rs 0%Qc.

(* ---- boolean reading of the property on one element's output ---------------------- *)
(* out: per beam slot (valid part of the column, reported probability) *)

Fixpoint npow_sum (V n : nat) : nat :=     (* 1 + V + ... + V^n *)
  match n with O => 1 | S n' => 1 + V * npow_sum V n' end.

Fixpoint pairwise {A} (f : A -> A -> bool) (l : list A) : bool :=
  match l with [] => true | x :: t => forallb (f x) t && pairwise f t end.

Definition spec_okb (V width : nat) (frames : list sframe) (E : score) (eps : Qc)
  (out : list (list nat * mass)) : bool :=
  let T := length frames in
  let pos := filter (fun o => is_pos eps (snd o)) out in
  let rs := runs V frames E T in   (* = ctc_mass, computed once *)
  (* one slot per beam position *)
  Nat.eqb (length out) width
  (* positive prefixes: blank-free, no longer than the input, distinct *)
  && forallb (fun o => forallb (fun c => Nat.ltb c V) (fst o) && Nat.leb (length (fst o)) T) pos
  && pairwise (fun a b => negb (list_nat_eqb (fst a) (fst b))) pos
  (* non-increasing; slots without mass carry 0 or -inf and sit behind *)
  && pairwise (fun a b => mge_eps eps (snd a) (snd b)) out
  && forallb (fun o => match snd o with Fin q => qleb 0%Qc (q + eps)%Qc | NegInf => true end) out
  (* never more than the true prefix mass *)
  && forallb (fun o => match snd o with
                       | Fin q => qleb q (mass_fast rs (fst o) + eps)%Qc
                       | NegInf => true end) pos
  (* exact when the beam can hold every prefix *)
  && (Nat.ltb width (npow_sum V T)
      || forallb (fun o => match snd o with
                           | Fin q => qabs_le q (mass_fast rs (fst o)) eps
                           | NegInf => true end) pos)
  (* the mass of the prefix-beam recursion of that width, when its pruning is unambiguous *)
  && (let '(B, tight) := pbs_auto V width frames E (eps + eps + eps)%Qc T 0 pbs_init in
      tight
      || (forallb (fun o => match snd o with
                            | Fin q => inb B (fst o) && qabs_le q (let '(n, b) := lookup B (fst o) in (n + b)%Qc) eps
                            | NegInf => true end) pos
          && forallb (fun e => negb (is_pos (eps + eps)%Qc (Fin (e_tot e)))
                               || existsb (fun o => list_nat_eqb (fst o) (fst e)) pos) B)).
