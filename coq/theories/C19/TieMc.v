(* C19 tie - the accept / reject bookkeeping of `IndependentMetropolisHastingsEstimator.__call__` (_mc.py): the marked
   blocks mh_accept and mh_update (PV.Gen.C19McSrc), interpreted with SrcRunMc.ext19mc, against the step of
   PV.C19.Model.imh_chain, for EVERY batch size, ratio table, proposal and uniform. *)
From Coq Require Import ZArith QArith List String Bool Arith Lia.
From PV Require Import MiniPy.Syntax MiniPy.Interp MiniPy.Lemmas.
From PV Require Import MiniTorch.Ops MiniTorch.Value MiniTorch.Lemmas MiniTorch.OpsC19 MiniTorch.LemmasC19 Gen.C19McSrc.
From PV Require Import C19.SrcRun C19.SrcRunMc C19.TieLib.
Import ListNotations.
Local Open Scope string_scope.
Local Open Scope list_scope.

(* ---- log tensors inside the interpreter ------------------------------------------------------------------------- *)
Definition enc_ldat (d : list lv) : list val := map enc_lv d.
Notation ltv sh d := (VTuple [VStr "$ltensor"; VList (enc_sh sh); VList (enc_ldat d)]).

Lemma dec_lvs_enc : forall d, dec_lvs (map enc_lv d) = Some d.
Proof. induction d as [|x d IH]; [reflexivity|]. destruct x; cbn [map enc_lv dec_lvs]; now rewrite IH. Qed.

Lemma dec_l_ltv : forall sh d, dec_l (ltv sh d) = Some (mkLT sh d).
Proof. intros. unfold dec_l. cbn. unfold enc_sh, enc_ldat. now rewrite dec_nats_enc, dec_lvs_enc. Qed.

Lemma dec_ltv : forall sh d, dec (ltv sh d) = None.
Proof. reflexivity. Qed.

Lemma dec_l_tv : forall sh d, dec_l (tv sh d) = None.
Proof. reflexivity. Qed.

Lemma enc_l_ltv : forall sh d, enc_l (mkLT sh d) = ltv sh d.
Proof. reflexivity. Qed.

Definition inj_idx (d : list nat) : list Q := map (fun i => inject_Z (Z.of_nat i)) d.

Section Ext.
  Variables (w f : nat -> nat -> Q) (props : list (list nat)) (us : list (list Q)).
  Notation ext := (ext19mc w f props us).

  #[local] Arguments dec : simpl never.
  #[local] Arguments dec_l : simpl never.
  #[local] Arguments enc_sh : simpl never.
  #[local] Arguments enc_dat : simpl never.
  #[local] Arguments enc_ldat : simpl never.

  Ltac ext_eq := intros; unfold ext19mc; cbn; rewrite ?dec_tv, ?dec_l_ltv, ?dec_ltv, ?dec_l_tv; cbn.

  Lemma M_sample : forall st,
    ext "self.proposal.sample" [VList [VInt 1]] [] st =
    Ok (tv [1%nat; List.length (nth (List.length (events st)) props [])] (inj_idx (nth (List.length (events st)) props [])))
       (emit ("proposal.sample", []) st).
  Proof. ext_eq. reflexivity. Qed.

  Lemma M_dens : forall sh idx st,
    ext "self.density.log_prob" [tv sh idx] [] st = Ok (ltv sh (map lv_of_w (per_elt w idx))) st.
  Proof. ext_eq. reflexivity. Qed.

  Lemma M_prop : forall sh idx st,
    ext "self.proposal.log_prob" [tv sh idx] [] st = Ok (ltv sh (map (fun _ => LFin 1) idx)) st.
  Proof. ext_eq. reflexivity. Qed.

  Lemma M_func : forall sh idx st, ext "self.func" [tv sh idx] [] st = Ok (tv sh (per_elt f idx)) st.
  Proof. ext_eq. reflexivity. Qed.

  Lemma M_sub : forall sh a b d st, lsub_t (mkLT sh a) (mkLT sh b) = Some (mkLT sh d) ->
    ext "operator" [VStr "sub"; ltv sh a; ltv sh b] [] st = Ok (ltv sh d) st.
  Proof. ext_eq. cbv beta iota. now rewrite H. Qed.

  Lemma M_add : forall sh a b st,
    ext "operator" [VStr "add"; ltv sh a; ltv sh b] [] st =
    Ok (ltv sh (map (fun xy => ladd (fst xy) (snd xy)) (combine a b))) st.
  Proof. ext_eq. unfold ladd_t. cbn. now rewrite shape_eqb_refl. Qed.

  Lemma M_mul : forall sh m x st,
    ext "operator" [VStr "mul"; tv sh m; ltv sh x] [] st =
    Ok (ltv sh (map (fun mx => bmul (qtrue (fst mx)) (snd mx)) (combine m x))) st.
  Proof. ext_eq. unfold bmul_t. cbn. now rewrite shape_eqb_refl. Qed.

  Lemma M_getrow : forall k sh UD n st, (0 <= n < Z.of_nat k)%Z ->
    ext "$getitem" [ltv (k :: sh) UD; VInt n] [] st =
    Ok (ltv sh (firstn (numel sh) (skipn (Z.to_nat n * numel sh) UD))) st.
  Proof.
    ext_eq. unfold lrow. cbn [lshape ldata].
    replace (0 <=? n)%Z with true by (symmetry; apply Z.leb_le; lia).
    replace (n <? Z.of_nat k)%Z with true by (symmetry; apply Z.ltb_lt; lia). reflexivity.
  Qed.

  Lemma M_gt : forall sh a b st,
    ext "compare" [VStr "gt"; ltv (1%nat :: sh) a; ltv sh b] [] st =
    Ok (tv (1%nat :: sh) (map (fun xy => qbool (lgt (fst xy) (snd xy))) (combine a b))) st.
  Proof. ext_eq. unfold lgt_t. cbn [lshape ldata]. rewrite (shape_eqb_refl (1%nat :: sh)), orb_true_r. reflexivity. Qed.

  Lemma M_invert : forall sh m st,
    ext "$invert" [tv sh m] [] st = Ok (tv sh (map (fun q => qbool (negb (qtrue q))) m)) st.
  Proof. ext_eq. reflexivity. Qed.

  Lemma M_where : forall sh m a b st,
    ext "torch.where" [tv sh m; tv sh a; tv sh b] [] st =
    Ok (tv sh (map (fun mab => if qtrue (fst mab) then fst (snd mab) else snd (snd mab)) (combine m (combine a b)))) st.
  Proof. ext_eq. unfold where_t. cbn. now rewrite shape_eqb_refl. Qed.

  Lemma M_squeeze : forall sh d st, ext "$method.squeeze" [tv (1%nat :: sh) d; VInt 0] [] st = Ok (tv sh d) st.
  Proof. ext_eq. reflexivity. Qed.

  Lemma M_add_q : forall sh a b st,
    ext "operator" [VStr "add"; tv sh a; tv sh b] [] st = Ok (tv sh (map2 (fun x y => Qred (x + y)) a b)) st.
  Proof. ext_eq. unfold ext_operator. rewrite !dec_tv. cbn. unfold zip2. cbn. now rewrite shape_eqb_refl. Qed.
End Ext.

#[local] Arguments enc_sh : simpl never.
#[local] Arguments enc_dat : simpl never.
#[local] Arguments enc_ldat : simpl never.
#[local] Arguments dec : simpl never.
#[local] Arguments dec_l : simpl never.
#[local] Arguments ext19mc : simpl never.
#[local] Arguments Z.of_nat : simpl never.
#[local] Arguments exec_list : simpl never.
#[local] Arguments numel : simpl never.
#[local] Arguments Nat.mul : simpl never.
#[local] Arguments inject_Z : simpl never.
#[local] Arguments map2 : simpl never.
#[local] Arguments Qred : simpl never.
#[local] Arguments qbool : simpl never.
#[local] Arguments qtrue : simpl never.
#[local] Arguments per_elt : simpl never.
#[local] Arguments inj_idx : simpl never.
#[local] Arguments lsub_t : simpl never.

Definition aparts : list stmt := Eval cbv [flatten_seq mh_accept app] in flatten_seq mh_accept.
Definition uparts : list stmt := Eval cbv [flatten_seq mh_update app] in flatten_seq mh_update.

Ltac ext_rw := rewrite ?M_sample, ?M_dens, ?M_prop, ?M_func, ?M_add, ?M_mul, ?M_gt, ?M_invert, ?M_where, ?M_squeeze, ?M_add_q.
Ltac run1 := repeat (progress (cbn; change (Pos.to_nat 1) with 1%nat; cbn [nth]; ext_rw)).
Ltac norm_state := unfold set_var, emit; cbn [update vars events String.eqb Ascii.eqb Bool.eqb].
Ltac step tac := erewrite exec_list_cons_ok; [|run1; tac; run1; try reflexivity]; norm_state.

(* ---- data level: what the blocks compute on lists ------------------------------------------------------------------ *)
(* total version of a - b (nan where +inf would arise; excluded by the hypotheses below) *)
Definition lsub' (a b : lv) : lv := match lsub a b with Some x => x | None => LNaN end.
(* log_prob(density) - log_prob(proposal) of an outcome whose ratio is x *)
Definition lw (x : Q) : lv := lsub' (lv_of_w x) (LFin 1).

Definition zipl {X} (g : lv -> lv -> X) (a b : list lv) : list X := map (fun xy => g (fst xy) (snd xy)) (combine a b).

Lemma all_some_lsub : forall a b, Forall (fun x => x <> LNegInf) b ->
  all_some_lv (map (fun xy => lsub (fst xy) (snd xy)) (combine a b)) = Some (zipl lsub' a b).
Proof.
  induction a as [|x a IH]; intros [|y b] Hb; try reflexivity. inversion Hb; subst.
  cbn [combine map all_some_lv fst snd]. unfold zipl. cbn [combine map fst snd]. fold (zipl lsub' a b).
  rewrite IH by assumption. unfold lsub'. destruct x, y; try reflexivity; congruence.
Qed.

Lemma lsub_t_data : forall sh a b, Forall (fun x => x <> LNegInf) b ->
  lsub_t (mkLT sh a) (mkLT sh b) = Some (mkLT sh (zipl lsub' a b)).
Proof. intros. unfold lsub_t. cbn [lshape ldata]. rewrite shape_eqb_refl, all_some_lsub by assumption. reflexivity. Qed.

Lemma per_elt_inj : forall g d,
  per_elt g (inj_idx d) = map (fun ji => g (fst ji) (snd ji)) (combine (seq 0 (List.length d)) d).
Proof.
  intros g d. unfold per_elt, inj_idx. rewrite map_length.
  generalize (seq 0 (List.length d)). induction d as [|i d IH]; intros [|j s]; try reflexivity.
  cbn [map combine fst snd]. f_equal; [|apply IH]. unfold nat_of_q'. now rewrite int_of_q_z, Nat2Z.id.
Qed.

Definition welt (g : nat -> nat -> Q) (d : list nat) : list Q :=
  map (fun ji => g (fst ji) (snd ji)) (combine (seq 0 (List.length d)) d).

Lemma ratio_data : forall w' d, List.length d = List.length d ->
  zipl lsub' (map lv_of_w (welt w' d)) (map (fun _ : Q => LFin 1) (inj_idx d)) = map lw (welt w' d).
Proof.
  intros w' d _. unfold zipl, welt, inj_idx. rewrite !map_map.
  generalize (seq 0 (List.length d)). induction d as [|i d IH]; intros [|j s]; try reflexivity.
  cbn [map combine fst snd]. f_equal. apply IH.
Qed.

Section A.
  Variables (w f : nat -> nat -> Q) (props : list (list nat)) (us : list (list Q)).
  Notation ext := (ext19mc w f props us).
  Variables (self vv nk : val) (B N : nat) (LS : list Q) (LR UD : list lv).

  Definition st_mh (LS' : list Q) (LR' : list lv) (v' n cs cr ac fb t1 : val) (evs : list event) : state :=
    mkState [("self", self); ("last_sample", tv [1%nat; B] LS'); ("v", v'); ("num_kept", nk);
             ("last_ratio", ltv [1%nat; B] LR'); ("uniform_draws", ltv [N; B] UD);
             ("n", n); ("cur_sample", cs); ("cur_ratio", cr); ("accept", ac); ("fb", fb); ("$t1", t1)] evs.

  (* row n of the log-uniforms, the accept mask, the new ratios *)
  Definition ud_row (n : Z) : list lv := firstn (numel [B]) (skipn (Z.to_nat n * numel [B]) UD).
  Definition acc_data (CR0 : list lv) (n : Z) : list Q :=
    map (fun xy => qbool (lgt (fst xy) (snd xy))) (combine (zipl lsub' CR0 LR) (ud_row n)).
  Definition nr_data (CR0 : list lv) (ACC : list Q) : list lv :=
    map (fun xy => ladd (fst xy) (snd xy))
        (combine (map (fun mx => bmul (qtrue (fst mx)) (snd mx)) (combine ACC CR0))
                 (map (fun mx => bmul (qtrue (fst mx)) (snd mx)) (combine (map (fun q => qbool (negb (qtrue q))) ACC) LR))).

  Lemma accept_run : forall n cs cr ac fb t1 evs,
    (0 <= n < Z.of_nat N)%Z -> List.length (nth (List.length evs) props []) = B -> Forall (fun x => x <> LNegInf) LR ->
    let d := nth (List.length evs) props [] in
    let CR0 := map lw (welt w d) in
    exec ext mh_accept (st_mh LS LR vv (VInt n) cs cr ac fb t1 evs) =
    Ok CNormal (st_mh LS LR vv (VInt n) (tv [1%nat; B] (inj_idx d)) (ltv [1%nat; B] (nr_data CR0 (acc_data CR0 n)))
                  (tv [1%nat; B] (acc_data CR0 n)) fb t1 (evs ++ [("proposal.sample", [])])).
  Proof.
    intros n cs cr ac fb t1 evs Hn HB HLR d CR0. rewrite exec_flatten. change (flatten_seq mh_accept) with aparts.
    unfold aparts, st_mh.
    step idtac. rewrite HB. fold d.
    assert (H1 : Forall (fun x => x <> LNegInf) (map (fun _ : Q => LFin 1) (inj_idx d))).
    { apply Forall_forall. intros x Hx. apply in_map_iff in Hx. destruct Hx as [? [<- _]]. discriminate. }
    step ltac:(rewrite (M_sub _ _ _ _ _ _ _ _ _ (lsub_t_data _ _ _ H1))).
    rewrite per_elt_inj. fold (welt w d). rewrite (ratio_data w d eq_refl). fold CR0.
    step ltac:(rewrite (M_sub _ _ _ _ _ _ _ _ _ (lsub_t_data _ _ _ HLR)); run1; rewrite (M_getrow _ _ _ _ _ _ _ _ _ Hn)).
    step idtac.
    rewrite exec_list_nil. reflexivity.
  Qed.
End A.

Section U.
  Variables (w f : nat -> nat -> Q) (props : list (list nat)) (us : list (list Q)).
  Notation ext := (ext19mc w f props us).
  Variables (Nz burn : Z) (Bs : nat) (nk : val) (B N : nat) (UD : list lv).
  Notation stm := (st_mh (self_val Nz burn Bs) nk B N UD).

  Definition where_data (ACC CS LS : list Q) : list Q :=
    map (fun mab => if qtrue (fst mab) then fst (snd mab) else snd (snd mab)) (combine ACC (combine CS LS)).

  (* before the burn-in is over: only the chain moves *)
  Lemma update_run_burning : forall LS LR vv n CS NR ACC fb t1 evs, (n < burn)%Z ->
    exec ext mh_update (stm LS LR vv (VInt n) (tv [1%nat; B] CS) (ltv [1%nat; B] NR) (tv [1%nat; B] ACC) fb t1 evs) =
    Ok CNormal (stm (where_data ACC CS LS) NR vv (VInt n) (tv [1%nat; B] (where_data ACC CS LS)) (ltv [1%nat; B] NR)
                  (tv [1%nat; B] ACC) fb (VTuple [tv [1%nat; B] (where_data ACC CS LS); ltv [1%nat; B] NR]) evs).
  Proof.
    intros LS LR vv n CS NR ACC fb t1 evs Hn. rewrite exec_flatten. change (flatten_seq mh_update) with uparts.
    unfold uparts, st_mh, self_val. fold (where_data ACC CS LS).
    step idtac. fold (where_data ACC CS LS).
    step ltac:(rewrite !Qcompare_z; destruct (Z.compare_spec n burn); try lia).
    step idtac. step idtac. step idtac. rewrite exec_list_nil. reflexivity.
  Qed.

  (* the first kept state: v = fb *)
  Lemma update_run_first : forall LS LR vv CS NR ACC fb t1 evs,
    exec ext mh_update (stm LS LR vv (VInt burn) (tv [1%nat; B] CS) (ltv [1%nat; B] NR) (tv [1%nat; B] ACC) fb t1 evs) =
    Ok CNormal (stm (where_data ACC CS LS) NR (tv [B] (per_elt f (where_data ACC CS LS))) (VInt burn)
                  (tv [1%nat; B] (where_data ACC CS LS)) (ltv [1%nat; B] NR) (tv [1%nat; B] ACC)
                  (tv [B] (per_elt f (where_data ACC CS LS)))
                  (VTuple [tv [1%nat; B] (where_data ACC CS LS); ltv [1%nat; B] NR]) evs).
  Proof.
    intros LS LR vv CS NR ACC fb t1 evs. rewrite exec_flatten. change (flatten_seq mh_update) with uparts.
    unfold uparts, st_mh, self_val.
    step idtac. fold (where_data ACC CS LS).
    step ltac:(rewrite !Qcompare_z, ?Z.compare_refl, ?Z.eqb_refl).
    step idtac. step idtac. step idtac. rewrite exec_list_nil. reflexivity.
  Qed.

  (* later kept states: v = v + fb *)
  Lemma update_run_adding : forall LS LR V n CS NR ACC fb t1 evs, (burn < n)%Z ->
    exec ext mh_update (stm LS LR (tv [B] V) (VInt n) (tv [1%nat; B] CS) (ltv [1%nat; B] NR) (tv [1%nat; B] ACC) fb t1 evs) =
    Ok CNormal (stm (where_data ACC CS LS) NR
                  (tv [B] (map2 (fun x y => Qred (x + y)) V (per_elt f (where_data ACC CS LS)))) (VInt n)
                  (tv [1%nat; B] (where_data ACC CS LS)) (ltv [1%nat; B] NR) (tv [1%nat; B] ACC)
                  (tv [B] (per_elt f (where_data ACC CS LS)))
                  (VTuple [tv [1%nat; B] (where_data ACC CS LS); ltv [1%nat; B] NR]) evs).
  Proof.
    intros LS LR V n CS NR ACC fb t1 evs Hn. rewrite exec_flatten. change (flatten_seq mh_update) with uparts.
    unfold uparts, st_mh, self_val.
    step idtac. fold (where_data ACC CS LS).
    step ltac:(rewrite !Qcompare_z; destruct (Z.compare_spec n burn); try lia;
               replace (n =? burn)%Z with false by (symmetry; apply Z.eqb_neq; lia)).
    step idtac. step idtac. step idtac. rewrite exec_list_nil. reflexivity.
  Qed.
End U.

(* ==================================================================================================== *)
(* The model's step                                                                                        *)
(* ==================================================================================================== *)
From PV Require Import C19.Model.

(* the body of Model.imh_chain, named *)
Definition macc (w : nat -> Q) (lastw : option Q) (c : nat) (u : Q) : bool :=
  match lastw with None => false | Some wl => negb (Qle_bool (w c) (u * wl)) end.
Definition mnxt (w : nat -> Q) (last : nat) (lastw : option Q) (c : nat) (u : Q) : nat :=
  if macc w lastw c u then c else last.
Definition mnw (w : nat -> Q) (lastw : option Q) (c : nat) (u : Q) : option Q :=
  if macc w lastw c u then Some (w c) else if Qle_bool (w c) 0 then None else lastw.

Lemma imh_chain_step : forall w last lastw c ps u us,
  imh_chain w last lastw (c :: ps) (u :: us) =
  mnxt w last lastw c u :: imh_chain w (mnxt w last lastw c u) (mnw w lastw c u) ps us.
Proof. reflexivity. Qed.

(* the stored log-ratio represents the model's ratio state: nan for None, log of a POSITIVE rational for Some *)
Definition rel_lv (lastw : option Q) (lr : lv) : Prop :=
  match lastw with
  | None => lr = LNaN
  | Some wl => exists x, lr = LFin x /\ (x == wl)%Q /\ (0 < wl)%Q
  end.

Lemma rel_lv_not_neginf : forall lastw lr, rel_lv lastw lr -> lr <> LNegInf.
Proof. intros [wl|] lr H; cbn in H; [destruct H as [x [-> _]]|subst]; discriminate. Qed.

(* one batch element: the accept bit and the new ratio the source computes are the model's *)
Lemma elt_step : forall (wc u : Q) lastw lr, rel_lv lastw lr -> (0 <= u)%Q ->
  let a := lgt (lsub' (lw wc) lr) (lv_log u) in
  a = match lastw with None => false | Some wl => negb (Qle_bool wc (u * wl)) end /\
  rel_lv (if a then Some wc else if Qle_bool wc 0 then None else lastw)
         (ladd (bmul a (lw wc)) (bmul (negb a) lr)).
Proof.
  intros wc u lastw lr Hrel Hu. cbv zeta. unfold lw, lv_of_w.
  destruct (Qle_bool wc 0) eqn:Ewc.
  - (* zero target density: never accepted, the stored ratio becomes nan *)
    apply Qle_bool_iff in Ewc. destruct lastw as [wl|]; cbn in Hrel.
    + destruct Hrel as [x [-> [Hx Hwl]]]. cbn. split; [|reflexivity].
      symmetry. apply negb_false_iff. apply Qle_bool_iff. eapply Qle_trans; [exact Ewc|].
      apply Qmult_le_0_compat; [assumption|now apply Qlt_le_weak].
    + subst lr. cbn. split; reflexivity.
  - assert (Hwc : (0 < wc)%Q).
    { apply Qnot_le_lt. intros H. apply Qle_bool_iff in H. congruence. }
    destruct lastw as [wl|]; cbn in Hrel.
    + destruct Hrel as [x [-> [Hx Hwl]]].
      change (lsub' (LFin wc) (LFin 1)) with (LFin (Qred (wc / 1))).
      assert (Hx0 : (0 < x)%Q) by now rewrite Hx.
      set (r := Qred (Qred (wc / 1) / x)).
      change (lsub' (LFin (Qred (wc / 1))) (LFin x)) with (LFin r).
      assert (Hr : (r == wc / wl)%Q).
      { unfold r. rewrite !Qred_correct, Hx. field. intros E. rewrite E in Hwl. now apply Qlt_irrefl in Hwl. }
      assert (Hacc : lgt (LFin r) (lv_log u) = negb (Qle_bool wc (u * wl))).
      { unfold lv_log. destruct (Qle_bool u 0) eqn:Eu.
        - apply Qle_bool_iff in Eu. assert (Hu0 : (u == 0)%Q) by now apply Qle_antisym.
          replace (Qeq_bool u 0) with true by (symmetry; now apply Qeq_bool_iff). cbn [lgt].
          symmetry. apply negb_true_iff. apply not_true_is_false. intros H. apply Qle_bool_iff in H.
          rewrite Hu0, Qmult_0_l in H. exact (Qlt_irrefl _ (Qlt_le_trans _ _ _ Hwc H)).
        - cbn [lgt]. unfold q_gt. f_equal.
          assert (E : (r <= u)%Q <-> (wc <= u * wl)%Q).
          { rewrite Hr. split; intros H.
            - apply (Qmult_le_r _ _ wl Hwl) in H. setoid_replace (wc / wl * wl)%Q with wc in H; [exact H|].
              field. intros E. rewrite E in Hwl. now apply Qlt_irrefl in Hwl.
            - apply (Qmult_le_r _ _ wl Hwl). setoid_replace (wc / wl * wl)%Q with wc; [exact H|].
              field. intros E. rewrite E in Hwl. now apply Qlt_irrefl in Hwl. }
          destruct (Qle_bool r u) eqn:E1, (Qle_bool wc (u * wl)) eqn:E2; try reflexivity.
          + apply Qle_bool_iff in E1. apply E in E1. apply Qle_bool_iff in E1. congruence.
          + apply Qle_bool_iff in E2. apply E in E2. apply Qle_bool_iff in E2. congruence. }
      rewrite Hacc. split; [reflexivity|].
      destruct (negb (Qle_bool wc (u * wl))); cbn.
      * exists (Qred (Qred (wc / 1) * 1)). split; [reflexivity|]. split; [|assumption]. rewrite !Qred_correct. field.
      * exists (Qred (1 * x)). split; [reflexivity|]. split; [|assumption]. rewrite Qred_correct, Hx. ring.
    + subst lr. cbn. split; reflexivity.
Qed.

(* ---- lists ------------------------------------------------------------------------------------------------------ *)
Lemma nth_mc : forall {A B C} (g : A * B -> C) a b da db dc j, (j < List.length a)%nat -> List.length a = List.length b ->
  nth j (map g (combine a b)) dc = g (nth j a da, nth j b db).
Proof.
  intros A B C g a b da db dc j Hj Hl.
  rewrite (nth_indep _ dc (g (da, db))) by (rewrite map_length, combine_length; lia).
  rewrite map_nth, combine_nth by assumption. reflexivity.
Qed.

Lemma firstn_skipn_concat : forall {A} (rows : list (list A)) n B,
  Forall (fun r => List.length r = B) rows -> (n < List.length rows)%nat ->
  firstn B (skipn (n * B) (List.concat rows)) = nth n rows [].
Proof.
  intros A rows. induction rows as [|r rows IH]; intros n B Hf Hn; [cbn in Hn; lia|].
  inversion Hf as [|? ? Hr Hf']; subst. cbn [List.concat]. destruct n as [|n].
  - change (0 * List.length r)%nat with 0%nat. cbn [skipn nth]. rewrite firstn_app, Nat.sub_diag. cbn [firstn].
    rewrite app_nil_r. apply firstn_all.
  - cbn [nth]. rewrite skipn_app. rewrite (@skipn_all2 _ (S n * List.length r) r) by nia. cbn [app].
    replace (S n * List.length r - List.length r)%nat with (n * List.length r)%nat by nia.
    apply IH; [assumption|cbn in Hn; lia].
Qed.

Lemma ud_row_us : forall (us : list (list Q)) B n, Forall (fun r => List.length r = B) us -> (n < List.length us)%nat ->
  ud_row B (map lv_log (List.concat us)) (Z.of_nat n) = map lv_log (nth n us []).
Proof.
  intros us B n Hf Hn. unfold ud_row. replace (numel [B]) with B by (unfold numel; cbn [fold_right]; lia).
  rewrite Nat2Z.id, skipn_map, firstn_map. f_equal. now apply firstn_skipn_concat.
Qed.

Lemma welt_nth : forall g d j, (j < List.length d)%nat -> nth j (welt g d) 0%Q = g j (nth j d 0%nat).
Proof.
  intros g d j Hj. unfold welt.
  rewrite (nth_mc (fun ji => g (fst ji) (snd ji)) _ _ 0%nat 0%nat) by (rewrite ?seq_length; lia).
  cbn [fst snd]. now rewrite seq_nth.
Qed.

Lemma inj_idx_nth : forall d j, nth j (inj_idx d) 0%Q = inject_Z (Z.of_nat (nth j d 0%nat)).
Proof. intros. unfold inj_idx. change 0%Q with ((fun i => inject_Z (Z.of_nat i)) 0%nat). apply map_nth. Qed.

Lemma inj_idx_length : forall d, List.length (inj_idx d) = List.length d.
Proof. intros. unfold inj_idx. apply map_length. Qed.
