#!/bin/sh
# developer tool: run every claimed quick check on /repo, validate evidence files against the schema
cd "$(dirname "$0")/.."
V=$(pwd)
L=${TMPDIR:-/tmp}/run_all_$$
mkdir -p $L
TIER=${1:-quick}
python3 - <<'PY' > $L/claimed.txt
import json
print(' '.join(c['property_id'] for c in json.load(open('MANIFEST.json'))['checks']))
PY
for p in $(cat $L/claimed.txt); do
  s=$(date +%s)
  /venv/bin/python harness/vcheck.py $p --tier $TIER > $L/run_$p.log 2>&1; rc=$?
  e=$(date +%s)
  grep '^VIOLATION\|HARNESS ERROR\|Error' $L/run_$p.log | head -5
  echo "$p rc=$rc $((e-s))s $(grep -c '^VIOLATION' $L/run_$p.log) violations, $(grep -c '^KNOWN-FINDING' $L/run_$p.log) known; $(tail -1 $L/run_$p.log | cut -c1-150)"
done
python3-vt - <<'PY'
import json,jsonschema,glob
sch=json.load(open('/root/.vp/EVIDENCE.schema.json'))
for c in json.load(open('MANIFEST.json'))['checks']:
    f=c['evidence_file'].replace('/verif/', './')
    try:
        ev=json.load(open(f)); jsonschema.validate(ev,sch)
        cov=ev['coverage']
        assert cov['obligations']==cov['discharged']>0, 'obligations'
        print(c['property_id'],'evidence ok', cov['obligations'],'thms', cov['evaluations'],'cases', cov['distinct_nontrivial'],'nontrivial')
    except Exception as e:
        print(c['property_id'],'EVIDENCE PROBLEM',str(e)[:200])
jsonschema.validate(json.load(open('MANIFEST.json')), json.load(open('/root/.vp/MANIFEST.schema.json')))
print('manifest valid')
PY
