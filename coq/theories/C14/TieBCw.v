(* C14, second tie - context_window_seq_to_batch (PV.Gen.C14BSrc.cw_seq_to_batch, regenerated from
   /repo/src/pydrobert/torch/_dataloaders.py on every run): for every non-empty sequence of items (windows, ali[, id])
   the interpreted source returns the encoding of Model.cw_collate - both has_uttids settings. *)
From Coq Require Import ZArith QArith List String Bool Arith Lia.
From PV Require C14.Spec C14.ProofsCollate.
From PV Require Import C14.Model MiniPy.Syntax MiniPy.Interp MiniPy.Lemmas MiniTorch.OpsC14B MiniTorch.LemmasC14B
  Gen.C14BSrc C14.SrcRunB.
Import ListNotations.
Local Open Scope string_scope.
Local Open Scope list_scope.

#[local] Arguments Z.of_nat : simpl never.
#[local] Arguments subscript : simpl never.
#[local] Arguments cat0 : simpl never.
#[local] Arguments tensor_of_ints : simpl never.
#[local] Arguments zip_vals : simpl never.
#[local] Arguments all_container_items : simpl never.
#[local] Arguments List.length : simpl never.
#[local] Arguments foreign : simpl never.

(* ---- generic: a comprehension whose element does not touch the state -------------------------------------------- *)
Lemma update_update x v w l : update x v (update x w l) = update x v l.
Proof.
  induction l as [|[y u] t IH]; cbn [update].
  - rewrite String.eqb_refl. reflexivity.
  - destruct (String.eqb x y) eqn:E; cbn [update]; rewrite E; [reflexivity|rewrite IH; reflexivity].
Qed.

Lemma set_var_set_var x v w st : set_var x v (set_var x w st) = set_var x v st.
Proof. unfold set_var. cbn [vars events]. rewrite update_update. reflexivity. Qed.

Lemma lookup_update_eq x v l : lookup x (update x v l) = Some v.
Proof.
  induction l as [|[y w] t IH]; cbn [update lookup]; [rewrite String.eqb_refl; reflexivity|].
  destruct (String.eqb x y) eqn:E; cbn [lookup]; rewrite E; [reflexivity|exact IH].
Qed.

Section Comp.
  Variable ext : string -> list val -> list (string * val) -> state -> outcome val.

  (* [elt for x in l] when evaluating elt with x bound to an item i of l gives f i and leaves the state alone *)
  Lemma comp_loop_map elt x (f : val -> val) l : forall st,
    (forall i st0, List.In i l -> eval ext elt (set_var x i st0) = Ok (f i) (set_var x i st0)) ->
    comp_loop ext elt x [] (EConst (VBool true)) l st
    = Ok (map f l) (match l with [] => st | _ => set_var x (last l VNone) st end).
  Proof.
    induction l as [|i r IH]; intros st He; [reflexivity|].
    cbn [comp_loop bind_item bind eval truthy]. rewrite (He i st (or_introl eq_refl)). cbn [bind].
    rewrite IH by (intros j st0 Hj; apply He; right; exact Hj). cbn [bind map].
    destruct r as [|j r']; [reflexivity|]. rewrite set_var_set_var. reflexivity.
  Qed.

  Lemma comp_loop_map_ne elt x (f : val -> val) l st : l <> [] ->
    (forall i st0, List.In i l -> eval ext elt (set_var x i st0) = Ok (f i) (set_var x i st0)) ->
    comp_loop ext elt x [] (EConst (VBool true)) l st = Ok (map f l) (set_var x (last l VNone) st).
  Proof. intros Hne He. rewrite (comp_loop_map elt x f l st He). destruct l; [contradiction|reflexivity]. Qed.
End Comp.

(* ---- zip of tuples of one arity ----------------------------------------------------------------------------------- *)
Lemma min_len_const (l0 : list val) (ls : list (list val)) n :
  List.length l0 = n -> (forall l, List.In l ls -> List.length l = n) -> min_len (l0 :: ls) = n.
Proof.
  intros H0 H. cbn [min_len]. rewrite H0. induction ls as [|l r IH]; [reflexivity|].
  cbn [fold_right]. rewrite IH by (intros l' Hl; apply H; right; exact Hl).
  rewrite (H l (or_introl eq_refl)). apply Nat.min_id.
Qed.

(* ---- the items ------------------------------------------------------------------------------------------------------ *)
Definition c_win (x : cw_item) : val := enc_cube (fst (fst x)).
Definition c_ali (x : cw_item) : val := enc_opt enc_row (snd (fst x)).
Definition c_id (x : cw_item) : val := zn (snd x).
Definition comps (suppress : bool) (x : cw_item) : list val :=
  if suppress then [c_win x; c_ali x] else [c_win x; c_ali x; c_id x].

Lemma enc_item_comps s x : enc_cw_item s x = VTuple (comps s x).
Proof. destruct x as [[w a] i]. destruct s; reflexivity. Qed.

Lemma all_items_cw s (sq : list cw_item) :
  all_container_items (map (enc_cw_item s) sq) = Some (map (comps s) sq).
Proof.
  induction sq as [|x r IH]; [reflexivity|]. cbn [map]. unfold all_container_items; fold all_container_items.
  rewrite IH, enc_item_comps. destruct x as [[w a] i]. destruct s; reflexivity.
Qed.

Lemma zip_cw s (sq : list cw_item) : sq <> [] ->
  zip_vals (map (comps s) sq) =
  if s then [VTuple (map c_win sq); VTuple (map c_ali sq)]
  else [VTuple (map c_win sq); VTuple (map c_ali sq); VTuple (map c_id sq)].
Proof.
  intros Hne. destruct sq as [|x r]; [contradiction|]. unfold zip_vals.
  set (ls := map (comps s) (x :: r)).
  assert (Hm : min_len ls = (if s then 2 else 3)%nat).
  { unfold ls. cbn [map]. apply min_len_const.
    - destruct s; reflexivity.
    - intros l Hl. apply in_map_iff in Hl. destruct Hl as [y [<- _]]. destruct s; reflexivity. }
  rewrite Hm. unfold ls. destruct s; cbn [seq map]; rewrite !map_map; reflexivity.
Qed.

Lemma sub3_0 a b c st : subscript (VList [a; b; c]) (VInt 0) st = Ok a st. Proof. reflexivity. Qed.
Lemma sub3_1 a b c st : subscript (VList [a; b; c]) (VInt 1) st = Ok b st. Proof. reflexivity. Qed.
Lemma sub3_2 a b c st : subscript (VList [a; b; c]) (VInt 2) st = Ok c st. Proof. reflexivity. Qed.
Lemma sub2l_0 a b st : subscript (VList [a; b]) (VInt 0) st = Ok a st. Proof. reflexivity. Qed.
Lemma sub2l_1 a b st : subscript (VList [a; b]) (VInt 1) st = Ok b st. Proof. reflexivity. Qed.

Ltac ev1 := first [ rewrite sub3_0 | rewrite sub3_1 | rewrite sub3_2 | rewrite sub2l_0 | rewrite sub2l_1 ].
Ltac ev := repeat (cbn; ev1); cbn.

(* cbn unfolds the interpreter's clause for a comprehension into an anonymous loop: name it (MiniPy.Lemmas.comp_loop) *)
Ltac fold_comp elt x :=
  match goal with
  | |- context [?F (map ?g ?sq) ?st0] =>
      is_fix F;
      let HF := fresh "HF" in
      assert (HF : forall l s, F l s = comp_loop (extB0 junk0) elt x [] (EConst (VBool true)) l s);
      [ let l := fresh "l" in let IH := fresh "IH" in let s := fresh "s" in
        induction l as [|? ? IH]; intros s; [reflexivity|]; cbn;
        match goal with |- bind ?X _ = bind ?X _ => destruct X as [? ?|? ?|?]; cbn [bind]; try reflexivity end;
        rewrite IH; reflexivity
      | rewrite HF; clear HF ]
  end.

Lemma foreign_wins (sq : list cw_item) : foreign (VTuple (map c_win sq)) = false.
Proof. destruct sq as [|[[w a] i] r]; reflexivity. Qed.

Lemma foreign_alis (sq : list cw_item) : foreign (VTuple (map c_ali sq)) = false.
Proof. destruct sq as [|[[w [a|]] i] r]; reflexivity. Qed.

Lemma tensor_of_ints_map {A} (g : A -> Z) (l : list A) :
  tensor_of_ints (VList (map (fun v => VInt (g v)) l)) = Some (VTuple (map (fun v => VInt (g v)) l)).
Proof.
  unfold tensor_of_ints.
  assert (H : forallb (fun v => match v with VInt _ => true | _ => false end) (map (fun v => VInt (g v)) l) = true)
    by (induction l as [|x r IH]; [reflexivity|exact IH]).
  rewrite H. reflexivity.
Qed.

Definition wins_of (sq : list cw_item) : list (list (list row)) := map (fun x => fst (fst x)) sq.
Definition alis_of (sq : list cw_item) : list (option (list Z)) := map (fun x => snd (fst x)) sq.

Lemma cat_stacks_wins (sq : list cw_item) :
  cat_stacks (map c_win sq) = Some (map enc_mat (List.concat (wins_of sq))).
Proof.
  induction sq as [|[[w a] i] r IH]; [reflexivity|].
  change (map c_win (((w, a), i) :: r)) with (VList (map enc_mat w) :: map c_win r).
  change (wins_of (((w, a), i) :: r)) with (w :: wins_of r).
  cbn [cat_stacks List.concat]. rewrite IH. cbn [option_map]. rewrite map_app. reflexivity.
Qed.

Lemma cat_wins (sq : list cw_item) : sq <> [] -> cat0 (map c_win sq) = Some (enc_cube (List.concat (wins_of sq))).
Proof.
  intros Hne. unfold cat0. destruct sq as [|[[w a] i] r]; [contradiction|].
  change (map c_win (((w, a), i) :: r)) with (VList (map enc_mat w) :: map c_win r).
  change (VList (map enc_mat w) :: map c_win r) with (map c_win (((w, a), i) :: r)).
  rewrite cat_stacks_wins. reflexivity.
Qed.

Lemma cat_rows_alis (sq : list cw_item) : forallb is_some (alis_of sq) = true ->
  cat_rows (map c_ali sq) = Some (map VInt (List.concat (map (oget []) (alis_of sq)))).
Proof.
  induction sq as [|[[w a] i] r IH]; intros H; [reflexivity|].
  cbn [alis_of map fst snd forallb] in H. apply andb_true_iff in H. destruct H as [Ha Hr].
  destruct a as [a|]; [|discriminate].
  change (map c_ali (((w, Some a), i) :: r)) with (VTuple (map VInt a) :: map c_ali r).
  change (alis_of (((w, Some a), i) :: r)) with (Some a :: alis_of r).
  cbn [cat_rows map oget List.concat]. rewrite cells_ints, (IH Hr). cbn [option_map]. rewrite map_app. reflexivity.
Qed.

Lemma cat_alis (sq : list cw_item) : sq <> [] -> forallb is_some (alis_of sq) = true ->
  cat0 (map c_ali sq) = Some (enc_row (List.concat (map (oget []) (alis_of sq)))).
Proof.
  intros Hne H. unfold cat0. pose proof (cat_rows_alis sq H) as Hc.
  destruct sq as [|[[w a] i] r]; [contradiction|].
  destruct a as [a|]; [|cbn in H; discriminate].
  change (map c_ali (((w, Some a), i) :: r)) with (VTuple (map VInt a) :: map c_ali r) in *.
  rewrite Hc. reflexivity.
Qed.

Lemma all_alis (sq : list cw_item) :
  forallb truthy (map (fun v => VBool (negb (val_eqb v VNone))) (map c_ali sq)) = forallb is_some (alis_of sq).
Proof.
  induction sq as [|[[w a] i] r IH]; [reflexivity|]. cbn [map forallb alis_of fst snd]. fold (alis_of r).
  rewrite IH. destruct a; reflexivity.
Qed.

Theorem cw_tie has_ids (sq : list cw_item) : sq <> [] ->
  exists st', src_cw_collate has_ids sq = Ok (enc_cw_batch has_ids (cw_collate sq)) st'.
Proof.
  intros Hne. unfold src_cw_collate, Interp.run, cw_seq_to_batch, cw_vars.
  cbn. rewrite app_nil_r, all_items_cw. cbn. rewrite (zip_cw _ sq Hne).
  destruct has_ids; ev.
  - rewrite foreign_wins. cbn.
    fold_comp (EMeth (EName "w") "size" [EConst (VInt 0)] []) "w".
    assert (Hnw : map c_win sq <> []) by (destruct sq; [contradiction|discriminate]).
    assert (Hna : map c_ali sq <> []) by (destruct sq; [contradiction|discriminate]).
    rewrite (comp_loop_map_ne _ _ _ (fun v => VInt (Z.of_nat (match v with VList l => List.length l | _ => 0%nat end)))); [|exact Hnw|].
    2:{ intros i st0 Hi. apply in_map_iff in Hi. destruct Hi as [[[w a] k] [<- _]].
        cbn. unfold set_var at 1. cbn [vars]. rewrite lookup_update_eq. reflexivity. }
    cbn [bind]. rewrite tensor_of_ints_map. cbn. rewrite foreign_wins. cbn.
    rewrite (cat_wins sq Hne). cbn. rewrite foreign_alis. cbn.
    fold_comp (ECmp IsNot (EName "a") (EConst VNone)) "a".
    rewrite (comp_loop_map_ne _ _ _ (fun v => VBool (negb (val_eqb v VNone)))); [|exact Hna|].
    2:{ intros i st0 Hi. apply in_map_iff in Hi. destruct Hi as [[[w a] k] [<- _]].
        cbn. unfold set_var at 1. cbn [vars]. rewrite lookup_update_eq. destruct a; reflexivity. }
    cbn. rewrite all_alis. rewrite foreign_alis.
    assert (Hsz : VTuple (map (fun v : val => VInt (Z.of_nat match v with VList l => List.length l | _ => 0%nat end))
                              (map c_win sq)) = enc_sizes (map (@List.length (list row)) (wins_of sq))).
    { unfold enc_sizes, wins_of. rewrite !map_map. f_equal. apply map_ext. intros [[w a] i].
      unfold c_win, enc_cube, zn. cbn [fst]. rewrite map_length. reflexivity. }
    assert (Hid : VTuple (map c_id sq) = enc_ids (map snd sq)).
    { unfold enc_ids. rewrite map_map. reflexivity. }
    unfold cw_collate, enc_cw_batch. fold (wins_of sq). fold (alis_of sq).
    destruct (forallb is_some (alis_of sq)) eqn:Hall.
    + cbn. rewrite (cat_alis sq Hne Hall). cbn. rewrite Hsz, Hid. eexists. reflexivity.
    + cbn. rewrite Hsz, Hid. eexists. reflexivity.
  - assert (Hna : map c_ali sq <> []) by (destruct sq; [contradiction|discriminate]).
    rewrite foreign_wins. cbn. rewrite (cat_wins sq Hne). cbn. rewrite foreign_alis. cbn.
    fold_comp (ECmp IsNot (EName "a") (EConst VNone)) "a".
    rewrite (comp_loop_map_ne _ _ _ (fun v => VBool (negb (val_eqb v VNone)))); [|exact Hna|].
    2:{ intros i st0 Hi. apply in_map_iff in Hi. destruct Hi as [[[w a] k] [<- _]].
        cbn. unfold set_var at 1. cbn [vars]. rewrite lookup_update_eq. destruct a; reflexivity. }
    cbn. rewrite all_alis. rewrite foreign_alis.
    unfold cw_collate, enc_cw_batch. fold (wins_of sq). fold (alis_of sq).
    destruct (forallb is_some (alis_of sq)) eqn:Hall.
    + cbn. rewrite (cat_alis sq Hne Hall). cbn. eexists. reflexivity.
    + cbn. eexists. reflexivity.
Qed.

(* composed with c14_cw_collate_lossless (ProofsCollate): purely about the interpreted source - cutting the
   concatenated windows the source returns back by the window sizes it reports gives every utterance's windows back,
   in order, with their ids: no frame is lost or duplicated by the collation *)
Theorem source_cw_collate_lossless (sq : list cw_item) : sq <> [] ->
  exists st' windows alis sizes ids,
    src_cw_collate true sq = Ok (enc_cw_batch true (windows, alis, sizes, ids)) st' /\
    C14.Spec.split_by sizes windows = map (fun x => fst (fst x)) sq /\ ids = map snd sq /\
    List.length windows = fold_right Nat.add 0%nat (map (fun x => List.length (fst (fst x))) sq).
Proof.
  intros Hne. destruct (cw_tie true sq Hne) as [st' H].
  pose proof (C14.ProofsCollate.cw_collate_lossless sq) as L.
  destruct (cw_collate sq) as [[[w a] s] i] eqn:E.
  exists st', w, a, s, i. split; [exact H|]. destruct L as [L1 [L2 _]]. split; [exact L1|]. split; [exact L2|].
  unfold cw_collate in E. injection E as <- _ _ _.
  clear. induction sq as [|x r IH]; [reflexivity|]. cbn [map List.concat fold_right]. rewrite app_length, IH. reflexivity.
Qed.
