(* C12 — declarative reading of the property, independent of how the code works.

   [WellFormed]  : the numbered conditions of validate_spect_data_set's docstring.
   [repair k]    : the five documented repairs, applied tensor by tensor.
   [recount]     : the ten documented statistics, recounted from the stored tensors.
   [wrap], bare  : sos/eos around a transcript.

   The boolean functions at the end ([wellformedb], [spec_bits]) judge an *implementation output*
   against this reading; [wellformedb] is proved equivalent to [WellFormed] in Proofs.v.
   The types of stored tensors are shared with Model.v; nothing else of the model is used. *)
From Coq Require Import List ZArith Bool.
From PV Require Import C12.Model.
Import ListNotations.
Local Open Scope Z_scope.

(* number of frames of an utterance = first axis of its feature tensor *)
Definition frames (f : feat) : nat := hd 0%nat (f_shape f).

(* ---------------------------------------------------------------- validity *)

(* 1-4: CPU, one dtype, two dimensions, one width *)
Definition feat_ok (F : nat) (dt : dtype) (f : feat) : Prop :=
  f_cuda f = false /\ f_dtype f = dt /\ exists T, f_shape f = [T; F].

(* 5: long, one dimension, as many entries as frames *)
Definition ali_ok (T : nat) (a : ali) : Prop :=
  a_cuda a = false /\ a_dtype a = DI64 /\ exists v, a_data a = A1 v /\ length v = T.

(* 6.3.2: both negative, or 0 <= start <= end <= T *)
Definition bounds_ok (T : Z) (r : row) : Prop :=
  let '(_, s, e) := r in (s < 0 /\ e < 0) \/ (0 <= s /\ s <= e /\ e <= T).

(* 6: long, all references 1-D or all (R, 3) with valid boundaries *)
Definition ref_ok (d2 : bool) (T : nat) (r : ref) : Prop :=
  r_cuda r = false /\ r_dtype r = DI64 /\
  ((d2 = false /\ exists t, r_data r = R1 t) \/
   (d2 = true /\ exists rows, r_data r = R2 rows /\ Forall (bounds_ok (Z.of_nat T)) rows)).

Definition utt_ok (F : nat) (dt : dtype) (d2 : bool) (u : utt) : Prop :=
  feat_ok F dt (u_feat u) /\
  (forall a, u_ali u = Some a -> ali_ok (frames (u_feat u)) a) /\
  (forall r, u_ref u = Some r -> ref_ok d2 (frames (u_feat u)) r).

Definition WellFormed (d : dir) : Prop :=
  exists F dt d2, Forall (utt_ok F dt d2) d.

(* the quantifier's side conditions: token ids (and the configured symbols) non-negative *)
Definition rdata_tokens (d : rdata) : list Z :=
  match d with R1 t => t | R2 rows => map tok_of rows | R2w _ rows => map (fun r => hd 0 r) rows | RN _ => [] end.
Definition tokens_nonneg (d : dir) : Prop :=
  Forall (fun u => forall r, u_ref u = Some r -> Forall (fun t => 0 <= t) (rdata_tokens (r_data r))) d.
Definition syms_nonneg (c : cfg) : Prop :=
  (forall s, c_sos c = Some s -> 0 <= s) /\ (forall s, c_eos c = Some s -> 0 <= s).

(* ---------------------------------------------------------------- the documented repairs *)

Definition upcast (d : dtype) : dtype := if upcastable d then DI64 else d.

(* 1. CUDA -> CPU *)
Definition repair_feat (f : feat) : feat := mkFeat false (f_dtype f) (f_shape f).

(* 1, 2, 5: to CPU, upcast a narrower integer type, crop an overshoot of at most k frames *)
Definition repair_ali (k : Z) (T : nat) (a : ali) : ali :=
  mkAli false (upcast (a_dtype a))
    (match a_data a with
     | A1 v => let n := Z.of_nat (length v) in
               if (Z.of_nat T <? n) && (n <=? Z.of_nat T + k) then A1 (firstn T v) else A1 v
     | other => other
     end).

(* 3: exactly one boundary present -> both removed;
   4: a valid segment whose end exceeds T by at most k, start within T -> end := T *)
Definition repair_row (k T : Z) (r : row) : row :=
  let '(tok, s, e) := r in
  if xorb (s <? 0) (e <? 0) then (tok, -1, -1)
  else if (0 <=? s) && (s <=? e) && (T <? e) && (e <=? T + k) && (s <=? T) then (tok, s, T)
  else r.

Definition repair_ref (k : Z) (T : nat) (r : ref) : ref :=
  mkRef false (upcast (r_dtype r))
    (match r_data r with R2 rows => R2 (map (repair_row k (Z.of_nat T)) rows) | other => other end).

Definition repair_utt (k : Z) (u : utt) : utt :=
  let T := frames (u_feat u) in
  mkUtt (repair_feat (u_feat u)) (option_map (repair_ali k T) (u_ali u))
        (option_map (repair_ref k T) (u_ref u)).

(* no tolerance given: nothing may change *)
Definition repair (fx : option Z) (d : dir) : dir :=
  match fx with Some k => map (repair_utt k) d | None => d end.

(* what may be on disk when validation raises: every tensor untouched or repaired *)
Definition utt_partial (fx : option Z) (u u' : utt) : Prop :=
  match fx with
  | None => u' = u
  | Some k =>
      (u_feat u' = u_feat u \/ u_feat u' = u_feat (repair_utt k u)) /\
      (u_ali u' = u_ali u \/ u_ali u' = u_ali (repair_utt k u)) /\
      (u_ref u' = u_ref u \/ u_ref u' = u_ref (repair_utt k u))
  end.

(* deprecated booleans: True = tolerance 1, False = none *)
Definition tolerance (fa : fixarg) : option Z :=
  match fa with FNone => None | FInt k => Some k | FBool b => if b then Some 1 else None end.

(* ---------------------------------------------------------------- sos / eos *)

Definition wrap {A} (sos eos : option A) (l : list A) : list A :=
  (match sos with Some s => [s] | None => [] end) ++ l ++ (match eos with Some s => [s] | None => [] end).

Definition sym_of (s : Z) : row := (s, -1, -1).

(* ---------------------------------------------------------------- the statistics, recounted *)

Definition ali_lists (d : dir) : list (list Z) :=
  flat_map (fun u => match u_ali u with Some a => [ali_values a] | None => [] end) d.

Definition ref_rows_of (r : ref) : list row :=
  match r_data r with R1 t => map sym_of t | R2 rows => rows | _ => [] end.
Definition ref_lists (d : dir) : list (list row) :=
  flat_map (fun u => match u_ref u with Some r => [ref_rows_of r] | None => [] end) d.

Fixpoint zsum (l : list Z) : Z := match l with [] => 0 | x :: t => x + zsum t end.
Definition zcount (i : Z) (l : list Z) : Z := zsum (map (fun x => if x =? i then 1 else 0) l).

(* a segment of class i starts where i appears and the previous entry is not i *)
Fixpoint nstarts (i : Z) (prev : option Z) (l : list Z) : Z :=
  match l with
  | [] => 0
  | x :: t => (if (x =? i) && negb (match prev with Some p => p =? i | None => false end) then 1 else 0)
              + nstarts i (Some x) t
  end.

Definition zmax_list (dflt : Z) (l : list Z) : Z := fold_right Z.max dflt l.

(* frames occupied by token type i: -1 if it never occurs or some occurrence has no boundaries *)
Definition rcount_of (i : Z) (rows : list row) : Z :=
  let mine := filter (fun r => tok_of r =? i) rows in
  if (match mine with [] => true | _ => false end)
     || existsb (fun r => let '(_, s, e) := r in (s <? 0) || (e <? 0)) mine
  then -1
  else zsum (map (fun r => let '(_, s, e) := r in e - s) mine).

Definition recount (d : dir) : report :=
  let alis := concat (ali_lists d) in
  let rows := concat (ref_lists d) in
  let max_ali := zmax_list (-1) alis in
  let max_ref := zmax_list (-1) (map tok_of rows) in
  mkReport (Z.of_nat (length d))
    (zsum (map (fun u => Z.of_nat (frames (u_feat u))) d))
    (match d with [] => None | u :: _ => Some (Z.of_nat (nth 1 (f_shape (u_feat u)) 0%nat)) end)
    max_ali max_ref
    (match ref_lists d with [] => -1 | _ => Z.of_nat (length rows) end)
    (map (fun i => (zcount i alis, zsum (map (nstarts i None) (ali_lists d)))) (zrange (max_ali + 1)))
    (map (fun i => (rcount_of i rows, zcount i (map tok_of rows))) (zrange (max_ref + 1))).

Definition classes_nonneg (d : dir) : Prop := Forall (Forall (fun x => 0 <= x)) (ali_lists d).

(* ================================================================ boolean judges *)

Definition feat_okb (F : nat) (dt : dtype) (f : feat) : bool :=
  negb (f_cuda f) && dtype_beq (f_dtype f) dt
  && match f_shape f with [_; F'] => Nat.eqb F' F | _ => false end.
Definition ali_okb (T : nat) (a : ali) : bool :=
  negb (a_cuda a) && dtype_beq (a_dtype a) DI64
  && match a_data a with A1 v => Nat.eqb (length v) T | _ => false end.
Definition bounds_okb (T : Z) (r : row) : bool :=
  let '(_, s, e) := r in ((s <? 0) && (e <? 0)) || ((0 <=? s) && (s <=? e) && (e <=? T)).
Definition ref_okb (d2 : bool) (T : nat) (r : ref) : bool :=
  negb (r_cuda r) && dtype_beq (r_dtype r) DI64
  && match r_data r with
     | R1 _ => negb d2
     | R2 rows => d2 && forallb (bounds_okb (Z.of_nat T)) rows
     | _ => false
     end.
Definition utt_okb (F : nat) (dt : dtype) (d2 : bool) (u : utt) : bool :=
  feat_okb F dt (u_feat u)
  && match u_ali u with Some a => ali_okb (frames (u_feat u)) a | None => true end
  && match u_ref u with Some r => ref_okb d2 (frames (u_feat u)) r | None => true end.

(* dimensionality of the first stored reference (false if there is none) *)
Fixpoint first_ref_2d (d : dir) : bool :=
  match d with
  | [] => false
  | u :: t => match u_ref u with
              | Some r => match r_data r with R2 _ => true | _ => false end
              | None => first_ref_2d t
              end
  end.

Definition wellformedb (d : dir) : bool :=
  match d with
  | [] => true
  | u :: _ => forallb (utt_okb (nth 1 (f_shape (u_feat u)) 0%nat) (f_dtype (u_feat u)) (first_ref_2d d)) d
  end.

Definition utt_partialb (fx : option Z) (u u' : utt) : bool :=
  match fx with
  | None => utt_beq u' u
  | Some k =>
      let ur := repair_utt k u in
      (feat_beq (u_feat u') (u_feat u) || feat_beq (u_feat u') (u_feat ur))
      && (opt_beq ali_beq (u_ali u') (u_ali u) || opt_beq ali_beq (u_ali u') (u_ali ur))
      && (opt_beq ref_beq (u_ref u') (u_ref u) || opt_beq ref_beq (u_ref u') (u_ref ur))
  end.
Fixpoint dir_partialb (fx : option Z) (d d' : dir) : bool :=
  match d, d' with
  | [], [] => true
  | u :: t, u' :: t' => utt_partialb fx u u' && dir_partialb fx t t'
  | _, _ => false
  end.

Definition tokens_nonnegb (d : dir) : bool :=
  forallb (fun u => match u_ref u with
                    | Some r => forallb (fun t => 0 <=? t) (rdata_tokens (r_data r))
                    | None => true end) d.
Definition classes_nonnegb (d : dir) : bool := forallb (forallb (fun x => 0 <=? x)) (ali_lists d).

(* Judging one observed step  pre --op--> (post, out)  of a history.
   bits = [ validation: raise / return and the directory afterwards ;
            report, all keys but the next two ; total_tokens ; the rcount_<i> column ].
   Validation demanded: tolerance fx (None = strict).  The report is demanded to be the recount of
   [post] whenever one is returned for a valid directory; nothing is demanded of a report on an
   invalid, unvalidated directory ("not guaranteed to be correct"). *)
Definition judge_validation (fx : option Z) (pre post : dir) (raised : bool) : bool :=
  let want := repair fx pre in
  if wellformedb want then negb raised && dir_beq post want
  else raised && dir_partialb fx pre post.

Definition report_main_beq (a b : report) : bool :=
  (p_num_utts a =? p_num_utts b) && (p_total_frames a =? p_total_frames b)
  && opt_beq Z.eqb (p_num_filts a) (p_num_filts b)
  && (p_max_ali a =? p_max_ali b) && (p_max_ref a =? p_max_ref b)
  && list_beq pair_beq (p_ali_tab a) (p_ali_tab b)
  && list_beq Z.eqb (map snd (p_ref_tab a)) (map snd (p_ref_tab b)).

Definition judge_report (post : dir) (p : report) : list bool :=
  if wellformedb post && classes_nonnegb post then
    let q := recount post in
    [report_main_beq p q; p_total_tokens p =? p_total_tokens q;
     list_beq Z.eqb (map fst (p_ref_tab p)) (map fst (p_ref_tab q))]
  else [true; true; true].

Definition spec_bits (o : op) (pre post : dir) (out : outcome) : list bool :=
  match o with
  | OpValidate fa =>
      [judge_validation (tolerance fa) pre post (match out with inl _ => true | inr _ => false end)
       && match out with inr (Some _) => false | _ => true end; true; true; true]
  | OpCli strict fx =>
      let validated := strict || is_some fx in
      let raised := match out with inl _ => true | inr _ => false end in
      let vbit := if validated then judge_validation fx pre post raised
                  else dir_beq post pre && (if wellformedb pre then negb raised else true) in
      match out with
      | inr (Some p) => vbit :: judge_report post p
      | inr None => [false; true; true; true]
      | inl _ => [vbit; true; true; true]
      end
  end.

Definition syms_nonnegb (c : cfg) : bool :=
  match c_sos c with Some s => 0 <=? s | None => true end
  && match c_eos c with Some s => 0 <=? s | None => true end.

(* what the harness evaluates for one observed step:
   [model = implementation] :: spec on the implementation's output (4 bits)
   ++ spec on the model's output (4 bits) ++ [the step is inside the property's quantifier] *)
Definition step_bits (c : cfg) (o : op) (pre post : dir) (out : outcome) : list bool :=
  let '(d', r) := run_op c o pre in
  (dir_beq d' post && outcome_beq r out)
    :: spec_bits o pre post out ++ spec_bits o pre d' r
    ++ [tokens_nonnegb pre && classes_nonnegb pre && syms_nonnegb c].
