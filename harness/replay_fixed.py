#!/usr/bin/env python3
"""Developer tool: for every `fixed` entry of the known-findings list, revert that single fix: commit in a scratch
worktree of /repo (HEAD minus the fix), run the property's quick check against it and keep the replay file that shows
the defect under replays/kept/<property>-<id>-<commit>.json.  Confirms that the machinery itself finds each repaired
defect (and would report it again if it returned).  Never touches /repo's working tree."""
import glob
import json
import os
import shutil
import subprocess
import sys
from pathlib import Path

V = Path(__file__).resolve().parent.parent


def sh(cmd, **kw):
    return subprocess.run(cmd, shell=True, capture_output=True, text=True, **kw)


def entries():
    out = list(json.load(open(V / "known_findings.json"))["findings"])
    for f in sorted(glob.glob(str(V / "known_findings.d" / "*.json"))):
        for e in json.load(open(f))["findings"]:
            if not any(x["property"] == e["property"] and x.get("commit") == e.get("commit") for x in out):
                out.append(e)
    return [e for e in out if e["status"] == "fixed" and e.get("commit")]


def main():
    only = set(sys.argv[1:])
    kept = V / "replays" / "kept"
    kept.mkdir(parents=True, exist_ok=True)
    summary = []
    for e in entries():
        tag = f"{e['property']}-{e['id']}-{e['commit']}"
        if only and e["property"] not in only and tag not in only:
            continue
        wt = Path(f"/tmp/vfix-{os.getpid()}")
        r = sh(f"git -C /repo worktree add -q --detach {wt} HEAD")
        if r.returncode:
            print(tag, "worktree failed", r.stderr)
            continue
        try:
            r = sh(f"git -C {wt} revert --no-commit {e['commit']}")
            if r.returncode:
                summary.append((tag, "revert does not apply cleanly (later fix touches the same lines)"))
                continue
            before = set(glob.glob(str(V / "replays" / f"{e['property']}-*.json")))
            env = dict(os.environ, VERIF_REPO=str(wt), OMP_NUM_THREADS="1")
            r = sh(f"cd {V} && /venv/bin/python harness/vcheck.py {e['property']} --tier quick", env=env)
            viol = [l for l in r.stdout.splitlines() if l.startswith("VIOLATION")]
            new = sorted(set(glob.glob(str(V / "replays" / f"{e['property']}-*.json"))) - before)
            concrete = [l for l in viol if "no-failing-input-found" not in l]
            if new:
                # keep the first concrete replay
                pick = None
                for l in concrete or viol:
                    p = l.split("replay=")[1].split()[0]
                    if os.path.exists(p):
                        pick = p
                        break
                if pick:
                    rec = json.load(open(pick))
                    rec["_fixed_entry"] = {k: e.get(k) for k in ("property", "id", "commit", "what")}
                    rec["_how"] = "quick check run against /repo HEAD with this single fix: commit reverted (scratch worktree)"
                    (kept / f"{tag}.json").write_text(json.dumps(rec, indent=1, default=str))
                for p in new:
                    os.remove(p)
            summary.append((tag, f"exit={r.returncode} violations={len(viol)} concrete={len(concrete)}"))
        finally:
            sh(f"git -C /repo worktree remove --force {wt}")
        print(summary[-1], flush=True)
    (kept / "SUMMARY.json").write_text(json.dumps(summary, indent=1))


if __name__ == "__main__":
    main()
