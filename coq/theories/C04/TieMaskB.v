(* C04, second tie, part 2a: the tensor program of the eos_mask / done_mask block (TieRunB.mask_on_tensor = the
   interpreted `fw_mask_on`, TieRunB.mask_on_run) evaluated on the tensors that encode the model's beams computes
   exactly Model.eos_at for every slot and Model.done_of for every batch element - every batch size, beam width,
   height >= 1, every prefix / length assignment with lengths within the height. *)
From Coq Require Import ZArith QArith List String Bool Arith Lia.
From PV Require Import MiniPy.Syntax MiniPy.Interp MiniTorch.Ops MiniTorch.Value MiniTorch.Lemmas
  MiniTorch.OpsC04 MiniTorch.LemmasC04 MiniTorch.OpsC04B MiniTorch.LemmasC04B Gen.C04BSrc.
From PV Require Import C04.Model C04.SrcRun C04.SrcRunB C04.TieRunB.
From PV Require C04.Spec C04.Abstract C04.Refine.
Import ListNotations.
Local Open Scope nat_scope.

Section MaskOn.
Variables (e : Z) (fin_all : bool) (t S pw : nat) (beams : list (list slot)).
Let N := List.length beams.
Let sl (n k : nat) : slot := nth k (nth n beams []) dslot.
Hypothesis Ht : t <> 0.
Hypothesis HS : 1 <= S.
Hypothesis Hpw : 1 <= pw.
Hypothesis Hrows : Forall (fun row => List.length row = pw) beams.
Hypothesis Hlens : Forall (Forall (fun s => len s <= S)) beams.

Lemma concat_beams_b : List.concat beams = tl2 N pw sl.
Proof. apply (concat_regular beams pw dslot). exact Hrows. Qed.

Lemma enc_lens_tab_b : enc_lens N pw beams = tabv2 N pw (fun n k => VInt (Z.of_nat (len (sl n k)))).
Proof. unfold enc_lens, tabv2. f_equal. now rewrite concat_beams_b, map_tl2. Qed.

Lemma enc_y_tab_b : enc_y S N pw beams = tabv3 S N pw (fun s n k => VInt (nth s (col (sl n k)) 0%Z)).
Proof.
  unfold enc_y, tabv3. f_equal. rewrite tl3_unfold. apply flat_map_ext_in. intros s _.
  now rewrite concat_beams_b, map_tl2.
Qed.

Lemma row_len_b n : n < N -> List.length (nth n beams []) = pw.
Proof. intros Hn. eapply Forall_forall in Hrows; [exact Hrows|]. apply nth_In. exact Hn. Qed.

Lemma len_le_b n k : n < N -> k < pw -> len (sl n k) <= S.
Proof.
  intros Hn Hk. pose proof Hlens as H. eapply Forall_forall in H; [|apply (nth_In beams [] Hn)].
  eapply Forall_forall in H; [exact H|]. apply nth_In. now rewrite row_len_b.
Qed.

Definition mask_of (n k : nat) : bool := eos_at (Some e) t (sl n k).

Lemma mask_of_eq n k :
  mask_of n k = ((nth (len (sl n k) - 1) (col (sl n k)) 0 =? e)%Z && (0 <? Z.of_nat (len (sl n k)))%Z)%bool.
Proof.
  unfold mask_of, eos_at, last_tok. replace (t =? 0) with false by (symmetry; apply Nat.eqb_neq; exact Ht).
  cbn [negb andb]. f_equal.
  destruct (Nat.ltb_spec 0 (len (sl n k))), (Z.ltb_spec 0 (Z.of_nat (len (sl n k)))); try reflexivity; lia.
Qed.

Lemma done_of_eq n : n < N ->
  done_of (Some e) fin_all t (nth n beams []) = if fin_all then forallb (mask_of n) (seq 0 pw) else mask_of n 0.
Proof.
  intros Hn. unfold done_of, active. replace (t =? 0) with false by (symmetry; apply Nat.eqb_neq; exact Ht).
  cbn [negb andb]. pose proof (row_len_b n Hn) as Hl.
  destruct fin_all.
  - rewrite <- (map_nth_seq (nth n beams []) dslot) at 1. rewrite Hl, map_map.
    induction (seq 0 pw) as [|k l IH]; [reflexivity|]. cbn [map forallb]. now rewrite IH.
  - unfold mask_of, sl. destruct (nth n beams []) as [|s0 r]; [cbn in Hl; lia|]. reflexivity.
Qed.

Theorem mask_on_model :
  mask_on_tensor fin_all e (enc_y S N pw beams) (enc_lens N pw beams)
  = TOk (tabv2 N pw (fun n k => VBool (eos_at (Some e) t (sl n k))),
         tabv2 N 1 (fun n _ => VBool (done_of (Some e) fin_all t (nth n beams [])))).
Proof.
  unfold mask_on_tensor. rewrite enc_y_tab_b, enc_lens_tab_b. rewrite permute_tab3. cbn [tb].
  rewrite (sub_scalar_tab2 N pw _ (VInt 1) (fun n k => VInt (Z.of_nat (len (sl n k)) - 1))) by (intros; reflexivity).
  cbn [tb]. rewrite (clamp_min0_tab2 N pw (fun n k => (Z.of_nat (len (sl n k)) - 1)%Z)). cbn [tb].
  rewrite (tabv2_ext N pw _ (fun n k => vnat (len (sl n k) - 1))) by (intros; unfold vnat; f_equal; lia).
  rewrite unsqueeze_tab2_2. cbn [tb].
  rewrite (gather_tab3 N pw S _ N pw 1 (fun n k _ => len (sl n k) - 1)); [|lia|lia|].
  2:{ intros n k z Hn Hk _. pose proof (len_le_b n k Hn Hk). lia. }
  cbn [tb]. rewrite squeeze_tab3_2. cbn [tb].
  rewrite (eq_scalar_tab2 N pw (fun n k => nth (len (sl n k) - 1) (col (sl n k)) 0%Z) e). cbn [tb].
  rewrite (gt_scalar_tab2 N pw (fun n k => Z.of_nat (len (sl n k))) 0). cbn [tb].
  rewrite and_tab2. cbn [tb].
  rewrite (tabv2_ext N pw _ (fun n k => VBool (mask_of n k))) by (intros; now rewrite mask_of_eq).
  assert (Hd : (if fin_all then all_rows (tabv2 N pw (fun n k => VBool (mask_of n k)))
                else narrow_last (tabv2 N pw (fun n k => VBool (mask_of n k))) 1)
               = Some (tabv2 N 1 (fun n _ => VBool (done_of (Some e) fin_all t (nth n beams []))))).
  { transitivity (Some (tabv2 N 1 (fun n (_ : nat) => VBool (if fin_all then forallb (mask_of n) (seq 0 pw) else mask_of n 0)))).
    - destruct fin_all; [apply all_rows_tab2|]. now rewrite narrow_last_tab2_1 by exact Hpw.
    - f_equal. apply tabv2_ext. intros n j Hn _. f_equal. symmetry. now apply done_of_eq. }
  rewrite Hd. cbn [tb]. reflexivity.
Qed.
End MaskOn.

(* ---- the interpreted block on the encoded beams ------------------------------------------------------------------ *)
Local Open Scope string_scope.

Definition slot_at (beams : list (list slot)) (n k : nat) : slot := nth k (nth n beams []) dslot.

(* for EVERY well-formed beam state (t > 0, eos set): interpreting `eos_mask = ...; if self.finish_all_paths: ... else: ...`
   leaves the persistent variables as they are and binds eos_mask[n, k] = Model.eos_at of slot (n, k),
   done_mask[n, 0] = Model.done_of of beam n *)
Theorem mask_on_tie : forall calc isv bsv miv is0 V width fin_all pad ev e t S pw beams prev lpp pady rest tv,
  t <> 0 -> 1 <= S -> 1 <= pw ->
  Forall (fun row => List.length row = pw) beams -> Forall (Forall (fun s => len s <= S)) beams ->
  lookup "t" rest = Some tv ->
  let N := List.length beams in
  exists rest',
    exec (extB calc) fw_mask_on
      (mkState (live isv bsv miv is0 V width (Some e) fin_all pad N pw (enc_y S N pw beams) prev lpp (enc_lens N pw beams) pady rest) ev)
    = Ok CNormal
      (mkState (live isv bsv miv is0 V width (Some e) fin_all pad N pw (enc_y S N pw beams) prev lpp (enc_lens N pw beams) pady rest') ev)
    /\ lookup "eos_mask" rest' = Some (encv (tabv2 N pw (fun n k => VBool (eos_at (Some e) t (slot_at beams n k)))))
    /\ lookup "done_mask" rest' = Some (encv (tabv2 N 1 (fun n _ => VBool (done_of (Some e) fin_all t (nth n beams [])))))
    /\ lookup "t" rest' = Some tv.
Proof.
  intros calc isv bsv miv is0 V width fin_all pad ev e t S pw beams prev lpp pady rest tv Ht HS Hpw Hrows Hlens Htv N.
  pose proof (mask_on_run calc isv bsv miv is0 V width (Some e) fin_all pad N ev e pw (enc_y S N pw beams) prev lpp
                (enc_lens N pw beams) pady rest tv eq_refl Htv) as H.
  unfold N in H. rewrite (mask_on_model e fin_all t S pw beams Ht HS Hpw Hrows Hlens) in H. fold N in H.
  destruct (exec (extB calc) fw_mask_on _) as [[|v] st'|n st'|m]; cbn [simc] in H; try contradiction.
  destruct H as (rest' & -> & H1 & H2 & H3). exists rest'. cbn [fst snd] in H1, H2. auto.
Qed.

(* COMPOSED with Refine.eos_at_pfin (a model-side theorem): the mask the interpreted source computes marks exactly the slots
   whose VALID path (the first len cells of the column, what y[:y_lens] denotes) is non-empty and ends in eos *)
Theorem mask_on_marks_finished_paths : forall e t pw beams,
  Forall (Forall (fun s => len s <= List.length (col s))) beams ->
  tabv2 (List.length beams) pw (fun n k => VBool (eos_at (Some e) t (slot_at beams n k)))
  = tabv2 (List.length beams) pw (fun n k => VBool (C04.Abstract.pfin (Some e) t (C04.Spec.vpath (slot_at beams n k)))).
Proof.
  intros e t pw beams H. apply tabv2_ext. intros n k Hn Hk. f_equal.
  apply (C04.Refine.eos_at_pfin 1 1 (Some e) (le_n 1) (le_n 1)).
  unfold slot_at. destruct (Nat.ltb_spec k (List.length (nth n beams []))) as [Hlt|Hge].
  - eapply Forall_forall in H; [|apply (nth_In beams [] Hn)]. eapply Forall_forall in H; [exact H|]. now apply nth_In.
  - rewrite (nth_overflow _ dslot Hge). cbn. lia.
Qed.

(* the else branch (t = 0 or eos unset): no path is finished, no element is done - what Model.eos_at / done_of answer there *)
Theorem mask_off_model : forall N pw, 1 <= pw ->
  mask_off_tensor N pw = TOk (tabv2 N pw (fun _ _ => VBool false), tabv2 N 1 (fun _ _ => VBool false)).
Proof.
  intros N pw Hpw. unfold mask_off_tensor. rewrite full_2. cbn [tb].
  rewrite narrow_last_tab2_1 by exact Hpw. reflexivity.
Qed.

Lemma eos_at_inactive eos t sl : (eos = None \/ t = 0) -> eos_at eos t sl = false.
Proof. intros [->| ->]; [reflexivity|]. unfold eos_at. destruct eos; reflexivity. Qed.

Lemma done_of_inactive eos fin_all t slots : (eos = None \/ t = 0) -> done_of eos fin_all t slots = false.
Proof.
  intros H. unfold done_of. assert (Ha : active eos t = false) by (destruct H as [->| ->]; [reflexivity|]; unfold active; destruct eos; reflexivity).
  rewrite Ha. cbn [andb]. destruct slots as [|s r]; [reflexivity|]. cbn [map hd]. now apply eos_at_inactive.
Qed.

Theorem mask_off_tie : forall calc isv bsv miv is0 V width eos fin_all pad ev t pw (beams : list (list slot)) y prev lpp lens pady rest tv,
  (eos = None \/ t = 0) -> 1 <= pw -> lookup "t" rest = Some tv ->
  let N := List.length beams in
  exists rest',
    exec (extB calc) fw_mask_off (mkState (live isv bsv miv is0 V width eos fin_all pad N pw y prev lpp lens pady rest) ev)
    = Ok CNormal (mkState (live isv bsv miv is0 V width eos fin_all pad N pw y prev lpp lens pady rest') ev)
    /\ lookup "eos_mask" rest' = Some (encv (tabv2 N pw (fun n k => VBool (eos_at eos t (slot_at beams n k)))))
    /\ lookup "done_mask" rest' = Some (encv (tabv2 N 1 (fun n _ => VBool (done_of eos fin_all t (nth n beams [])))))
    /\ lookup "t" rest' = Some tv.
Proof.
  intros calc isv bsv miv is0 V width eos fin_all pad ev t pw beams y prev lpp lens pady rest tv Hin Hpw Htv N.
  pose proof (mask_off_run calc isv bsv miv is0 V width eos fin_all pad N ev pw y prev lpp lens pady rest tv Htv) as H.
  rewrite (mask_off_model N pw Hpw) in H.
  destruct (exec (extB calc) fw_mask_off _) as [[|v] st'|n st'|m]; cbn [simc] in H; try contradiction.
  destruct H as (rest' & -> & H1 & H2 & H3). exists rest'. cbn [fst snd] in H1, H2.
  split; [reflexivity|]. split; [|split; [|exact H3]].
  - rewrite H1. do 2 f_equal. apply tabv2_ext. intros. now rewrite eos_at_inactive.
  - rewrite H2. do 2 f_equal. apply tabv2_ext. intros. now rewrite done_of_inactive.
Qed.
