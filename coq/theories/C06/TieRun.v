(* C06 — tie, part 1: the MiniPy term of `_lookup_calc_idx_log_probs` (PV.Gen.C06Src.lookup_body, regenerated
   from /repo on every run), interpreted with [SrcRun.ext06_ops], IS the tensor program [lookup_fn] below - a
   composition of the operations of PV.MiniTorch.OpsC06 with the loop over the n-gram order as a fold - for EVERY
   tensor argument (any shape, any data) and all integers: whenever the tensor program yields a tensor, the
   interpreted source returns exactly that tensor.  (Success direction only: where the tensor program is undefined
   - outside the modelled domain of an operation, a failed assertion, the RuntimeError for an empty idx - nothing
   is claimed here.)  Nothing in this file knows the model; part 2 (TieSrc.v) evaluates [lookup_fn] on the
   encoding of the model's buffers.  If the source is edited, the regenerated term changes and this file is
   re-checked against it. *)
From Coq Require Import ZArith QArith List String Bool Arith Lia ZifyBool ZifyNat.
From PV Require Import MiniPy.Syntax MiniPy.Interp MiniPy.Lemmas MiniTorch.OpsC06 Gen.C06Src.
From PV Require Import C06.SrcRun.
Import ListNotations.
Local Open Scope string_scope.

(* ---- the tensor program ---------------------------------------------------------------------------------- *)
Definition bo {A B} (o : option A) (k : A -> option B) : option B := match o with Some a => k a | None => None end.
Notation "'do' x <- o ; k" := (bo o (fun x => k)) (at level 200, x name, right associativity).

Local Open Scope Z_scope.

(* what the loop carries *)
Record lstate := LS { l_desc : tens6; l_found : tens6; l_lastp : tens6; l_lastb : tens6 }.

(* what the loop reads *)
Record lconst := LC
  { c_hist : tens6; c_hidx : tens6; c_offsets : tens6; c_ids : tens6; c_logps : tens6; c_logbs : tens6;
    c_srange : tens6; c_V : Z; c_N : Z; c_M : Z; c_O : Z; c_P : Z; c_U : Z; c_B : Z }.

(* body of `for n in range(1, N)` *)
Definition body_fn (c : lconst) (n : Z) (s : lstate) : option lstate :=
  do r1 <- select0 (c_hist c) (- n);
  do r1' <- repeat_interleave r1 (c_V c);
  do r2 <- select0 (c_hist c) (- Z.min (n + 1) (c_N c - 1));
  do hist_n <- cat0 [r1'; r2];
  do o1 <- index1 (c_offsets c) (l_desc s);
  do o1' <- as_int o1;
  do desc_starts <- add o1' (l_desc s);
  do dp1 <- add_s (l_desc s) 1;
  do o2 <- index1 (c_offsets c) dp1;
  do o2' <- as_int o2;
  do t2 <- add o2' (l_desc s);
  do desc_ends <- add_s t2 1;
  do us <- unsqueeze desc_starts 1;
  do pos_desc <- add us (c_srange c);
  do ue <- unsqueeze desc_ends 1;
  do em1 <- gt ue pos_desc;
  do cm <- clamp_max pos_desc (c_P c - 1);
  do cmu <- sub_s cm (c_U c);
  do ids_ <- index1 (c_ids c) cmu;
  do uh <- unsqueeze hist_n 1;
  do e <- eq uh ids_;
  do em <- band em1 e;
  do a <- any1 em 1;
  do found <- band a (l_found s);
  do inv <- invert em;
  do mf <- masked_fill pos_desc inv (CI 0);
  do sm <- sum1 mf 1;
  do desc <- twhere found sm (l_desc s);
  do dM <- slice0 desc None (Some (c_M c));
  do logps_desc <- index1 (c_logps c) dM;
  do cur_backoffs <-
     (if n =? c_N c - 1 then Some (zeros_like (l_lastb s))
      else
        do dm <- slice0 desc (Some (c_M c)) None;
        do cl <- clamp_max dm (c_O c - 1);
        do g <- index1 (c_logbs c) cl;
        do fm <- slice0 found (Some (c_M c)) None;
        do ifm <- invert fm;
        do mfb <- masked_fill g ifm (CF (FQ 0));
        repeat_interleave mfb (c_V c));
  do fin <- isfinite logps_desc;
  do fM <- slice0 found None (Some (c_M c));
  do clobber <- band fin fM;
  do s1 <- add (l_lastp s) cur_backoffs;
  do s2 <- add s1 (l_lastb s);
  do cur_logps <- twhere clobber logps_desc s2;
  do ic <- invert clobber;
  do last_backoffs <- masked_fill cur_backoffs ic (CF (FQ 0));
  do ge <- ge_s (c_hidx c) n;
  do ger <- repeat_interleave ge (c_V c);
  do last_logps <- twhere ger cur_logps (l_lastp s);
  Some (LS desc found last_logps last_backoffs).

Fixpoint loop_fn (c : lconst) (ns : list Z) (s : lstate) : option lstate :=
  match ns with
  | [] => Some s
  | n :: r => do s' <- body_fn c n s; loop_fn c r s'
  end.

Definition zrange_z (lo hi : Z) : list Z := map (fun i => lo + Z.of_nat i) (seq 0 (Z.to_nat (hi - lo))).

(* the context window: `if hidx.numel() == 1: hist = hist[-rem:hidx_min]  else: ... masked_select ... view ... .T` *)
Definition window_fn (hist hidx : tens6) (B N rem hidx_min : Z) : option tens6 :=
  if Z.of_nat (numel hidx) =? 1 then slice0 hist (Some (- rem)) (Some hidx_min)
  else
    do n0 <- size hist 0;
    do range_ <- arange (Z.of_nat n0);
    do u <- unsqueeze hidx 1;
    do u1 <- sub_s u N;
    do m1 <- lt u1 range_;
    do u' <- unsqueeze hidx 1;
    do m2 <- gt u' range_;
    do mask <- band m1 m2;
    do ht <- transpose hist;
    do ms <- masked_select ht mask;
    do v <- view ms [B; N - 1];
    transpose v.

(* everything after the padding; [hist], [hidx], [hidx_min], [rem] as they are then *)
Definition main_fn (hist hidx offsets ids logps logbs last_logps : tens6) (sos V N S B M O P U shift hidx_min rem : Z)
  : option tens6 :=
  do w <- window_fn hist hidx B N rem hidx_min;
  if negb (shape_eqb (sh6 w) [Z.to_nat (N - 1); Z.to_nat B] && (0 <=? N - 1) && (0 <=? B)) then None else
  do w1 <- (if negb (shift =? 0) then do e <- eq_s w sos; masked_fill w e (CI V) else Some w);
  do _ <- as_int ids;
  do w2 <- as_int w1;
  do vrange <- arange (V + 1);
  do hi <- as_int hidx;
  do hidx' <- expand hi [B];
  do srange <- slice0 vrange None (Some S);
  do v1 <- slice0 vrange None (Some V);
  do v2 <- repeat1 v1 B;
  do h1 <- select0 w2 (Z.opp 1);
  do h1' <- as_int h1;
  do desc <- cat0 [v2; h1'];
  do lastp <- repeat1 last_logps B;
  do d1 <- slice0 desc (Some M) None;
  do lb <- index1 logbs d1;
  do lastb <- repeat_interleave lb V;
  do found <- ones_bool (M + B);
  do s <- loop_fn (LC w2 hidx' offsets ids logps logbs srange V N M O P U B) (zrange_z 1 N) (LS desc found lastp lastb);
  view (l_lastp s) [B; V].

Definition lookup_fn (hist hidx offsets ids logps logbs : tens6) (sos V N G S : Z) : option tens6 :=
  do Bn <- size hist 1;
  let B := Z.of_nat Bn in
  let M := B * V in
  let O := Z.of_nat (numel offsets) in
  let shift := if (0 <=? sos) && (sos <? V) then 0 else 1 in
  let U := V + shift + 1 mod N in
  let I := O + G - U in
  let P := O + G in
  if N =? 0 then None else
  if (Z.of_nat (numel ids) =? I) && ((Z.of_nat (numel logps) =? P) && ((Z.of_nat (numel logbs) =? O) && true)) then
    if Z.of_nat (numel hidx) =? 0 then None
    else
      do last_logps <- slice0 logps None (Some V);
      if N =? 1 then expand last_logps [B; V]
      else
        do mn <- tmin hidx;
        do mc <- item mn;
        match mc with
        | CI hidx_min =>
            let rem := N - 1 - hidx_min in
            if 0 <? rem then
              do f <- full [rem; B] (CI sos);
              do hist' <- cat0 [f; hist];
              do hidx' <- add_s hidx rem;
              main_fn hist' hidx' offsets ids logps logbs last_logps sos V N S B M O P U shift (hidx_min + rem) 0
            else main_fn hist hidx offsets ids logps logbs last_logps sos V N S B M O P U shift hidx_min rem
        | _ => None
        end
  else None.

Local Close Scope Z_scope.

(* ---- the loop body as a sub-term of the generated term --------------------------------------------------- *)
Fixpoint find_for (s : stmt) : option (string * expr * stmt) :=
  match s with
  | SFor x e b => Some (x, e, b)
  | SSeq a b => match find_for a with Some r => Some r | None => find_for b end
  | _ => None
  end.
Definition loop_body : stmt := Eval cbv in match find_for lookup_body with Some (_, _, b) => b | None => SPass end.

(* ---- values ---- *)
Lemma dec_shape_enc s : dec_shape (enc_shape s) = Some s.
Proof.
  induction s as [|n s0 IH]; [reflexivity| ]. cbn [enc_shape map dec_shape].
  change (map (fun n => VInt (Z.of_nat n)) s0) with (enc_shape s0). rewrite IH.
  replace (Z.leb 0 (Z.of_nat n)) with true by lia. cbn. rewrite Nat2Z.id. reflexivity.
Qed.

Lemma dec_cell_enc c : dec_cell (enc_cell c) = Some c.
Proof. destruct c as [z|b|[q| | ]]; reflexivity. Qed.

Lemma dec_cells_enc d : sequence (map dec_cell (map enc_cell d)) = Some d.
Proof.
  induction d as [|c d IH]; [reflexivity| ]. cbn [map sequence]. rewrite dec_cell_enc, IH. reflexivity.
Qed.

Lemma dec6_enc6 t : dec6 (enc6 t) = Some t.
Proof.
  destruct t as [s d]. unfold dec6, enc6. cbn [sh6 dt6]. rewrite String.eqb_refl, dec_shape_enc, dec_cells_enc.
  reflexivity.
Qed.

Lemma lookup_update x y v l : lookup x (update y v l) = if String.eqb x y then Some v else lookup x l.
Proof.
  induction l as [|[z w] l IH]; cbn [update lookup].
  - reflexivity.
  - destruct (String.eqb y z) eqn:E; cbn [lookup].
    + apply String.eqb_eq in E. subst z. destruct (String.eqb x y); reflexivity.
    + rewrite IH. destruct (String.eqb x y) eqn:E2; [|reflexivity].
      apply String.eqb_eq in E2. subst y. rewrite E. reflexivity.
Qed.

Ltac ext_tac := intros; unfold ext06_ops, on1, on2; cbn - [dec6 enc6]; rewrite ?dec6_enc6; reflexivity.

Lemma ext_size t d st : ext06_ops "$method.size" [enc6 t; VInt d] [] st = retn "size" (size t d) st. Proof. ext_tac. Qed.
Lemma ext_numel t st : ext06_ops "$method.numel" [enc6 t] [] st = Ok (VInt (Z.of_nat (numel t))) st. Proof. ext_tac. Qed.
Lemma ext_getitem_int t i st : ext06_ops "$getitem" [enc6 t; VInt i] [] st = ret6 "x[int]" (select0 t i) st. Proof. ext_tac. Qed.
Lemma ext_getitem_tensor t k st : ext06_ops "$getitem" [enc6 t; enc6 k] [] st = ret6 "x[tensor]" (index1 t k) st.
Proof. intros; unfold ext06_ops, on2. cbn - [dec6]. rewrite !dec6_enc6. reflexivity. Qed.
Lemma ext_device t st : ext06_ops "$attr.device" [enc6 t] [] st = Ok device_token st. Proof. ext_tac. Qed.
Lemma ext_dtype t st : ext06_ops "$attr.dtype" [enc6 t] [] st =
  match as_int t with Some _ => Ok int_dtype_token st | None => stuck6 "dtype of a non-integer tensor" end.
Proof. ext_tac. Qed.
Lemma ext_shape t st : ext06_ops "$attr.shape" [enc6 t] [] st = Ok (VTuple (enc_shape (sh6 t))) st. Proof. ext_tac. Qed.
Lemma ext_T t st : ext06_ops "$attr.T" [enc6 t] [] st = ret6 "T" (transpose t) st. Proof. ext_tac. Qed.
Lemma ext_slice_ni t b st : ext06_ops "$getitem" [enc6 t; VTuple [VStr "$slice"; VNone; VInt b; VNone]] [] st
  = ret6 "x[a:b]" (slice0 t None (Some b)) st. Proof. ext_tac. Qed.
Lemma ext_slice_in t a st : ext06_ops "$getitem" [enc6 t; VTuple [VStr "$slice"; VInt a; VNone; VNone]] [] st
  = ret6 "x[a:b]" (slice0 t (Some a) None) st. Proof. ext_tac. Qed.
Lemma ext_slice_ii t a b st : ext06_ops "$getitem" [enc6 t; VTuple [VStr "$slice"; VInt a; VInt b; VNone]] [] st
  = ret6 "x[a:b]" (slice0 t (Some a) (Some b)) st. Proof. ext_tac. Qed.
Lemma ext_add_s t c st : ext06_ops "operator" [VStr "add"; enc6 t; VInt c] [] st = ret6 "tensor + int" (add_s t c) st. Proof. ext_tac. Qed.
Lemma ext_sub_s t c st : ext06_ops "operator" [VStr "sub"; enc6 t; VInt c] [] st = ret6 "tensor - int" (sub_s t c) st. Proof. ext_tac. Qed.
Lemma ext_add t u st : ext06_ops "operator" [VStr "add"; enc6 t; enc6 u] [] st = ret6 "add" (add t u) st.
Proof. intros; unfold ext06_ops, on2. cbn - [dec6]. rewrite !dec6_enc6. reflexivity. Qed.
Lemma ext_and t u st : ext06_ops "operator" [VStr "and"; enc6 t; enc6 u] [] st = ret6 "and" (band t u) st.
Proof. intros; unfold ext06_ops, on2. cbn - [dec6]. rewrite !dec6_enc6. reflexivity. Qed.
Lemma ext_ge_s t c st : ext06_ops "compare" [VStr "ge"; enc6 t; VInt c] [] st = ret6 "tensor >= int" (ge_s t c) st. Proof. ext_tac. Qed.
Lemma ext_lt t u st : ext06_ops "compare" [VStr "lt"; enc6 t; enc6 u] [] st = ret6 "lt" (lt t u) st.
Proof. intros; unfold ext06_ops, on2. cbn - [dec6]. rewrite !dec6_enc6. reflexivity. Qed.
Lemma ext_gt t u st : ext06_ops "compare" [VStr "gt"; enc6 t; enc6 u] [] st = ret6 "gt" (gt t u) st.
Proof. intros; unfold ext06_ops, on2. cbn - [dec6]. rewrite !dec6_enc6. reflexivity. Qed.
Lemma ext_eq t u st : ext06_ops "compare" [VStr "eq"; enc6 t; enc6 u] [] st = ret6 "eq" (eq t u) st.
Proof. intros; unfold ext06_ops, on2. cbn - [dec6]. rewrite !dec6_enc6. reflexivity. Qed.
Lemma ext_invert t st : ext06_ops "$invert" [enc6 t] [] st = ret6 "invert" (invert t) st. Proof. ext_tac. Qed.
Lemma ext_cat t u st : ext06_ops "torch.cat" [VList [enc6 t; enc6 u]] [] st = ret6 "cat" (cat0 [t; u]) st.
Proof. intros; unfold ext06_ops. cbn - [dec6 enc6 cat0]. rewrite !dec6_enc6. reflexivity. Qed.
Lemma ext_where c a b st : ext06_ops "torch.where" [enc6 c; enc6 a; enc6 b] [] st = ret6 "where" (twhere c a b) st.
Proof. intros; unfold ext06_ops. cbn - [dec6 enc6]. rewrite !dec6_enc6. reflexivity. Qed.
Lemma ext_zeros_like t st : ext06_ops "torch.zeros_like" [enc6 t] [] st = Ok (enc6 (zeros_like t)) st. Proof. ext_tac. Qed.
Lemma ext_isfinite t st : ext06_ops "torch.isfinite" [enc6 t] [] st = ret6 "isfinite" (isfinite t) st. Proof. ext_tac. Qed.
Lemma ext_int z st : ext06_ops "int" [VInt z] [] st = Ok (VInt z) st. Proof. reflexivity. Qed.
Lemma ext_expand1 t a st : ext06_ops "$method.expand" [enc6 t; VInt a] [] st = ret6 "expand" (expand t [a]) st. Proof. ext_tac. Qed.
Lemma ext_expand2 t a b st : ext06_ops "$method.expand" [enc6 t; VInt a; VInt b] [] st = ret6 "expand" (expand t [a; b]) st. Proof. ext_tac. Qed.
Lemma ext_view2 t a b st : ext06_ops "$method.view" [enc6 t; VInt a; VInt b] [] st = ret6 "view" (view t [a; b]) st. Proof. ext_tac. Qed.
Lemma ext_min t st : ext06_ops "$method.min" [enc6 t] [] st = ret6 "min" (tmin t) st. Proof. ext_tac. Qed.
Lemma ext_item t st : ext06_ops "$method.item" [enc6 t] [] st =
  match item t with Some c => Ok (enc_cell c) st | None => stuck6 "item" end. Proof. ext_tac. Qed.
Lemma ext_unsqueeze t d st : ext06_ops "$method.unsqueeze" [enc6 t; VInt d] [] st = ret6 "unsqueeze" (unsqueeze t d) st. Proof. ext_tac. Qed.
Lemma ext_masked_select t m st : ext06_ops "$method.masked_select" [enc6 t; enc6 m] [] st = ret6 "masked_select" (masked_select t m) st.
Proof. intros; unfold ext06_ops, on2. cbn - [dec6]. rewrite !dec6_enc6. reflexivity. Qed.
Lemma ext_masked_fill_i t m v st : ext06_ops "$method.masked_fill" [enc6 t; enc6 m; VInt v] [] st = ret6 "masked_fill" (masked_fill t m (CI v)) st.
Proof. intros; unfold ext06_ops, on2. cbn - [dec6]. rewrite !dec6_enc6. reflexivity. Qed.
Lemma ext_masked_fill_q t m q st : ext06_ops "$method.masked_fill" [enc6 t; enc6 m; VQ q] [] st = ret6 "masked_fill" (masked_fill t m (CF (FQ q))) st.
Proof. intros; unfold ext06_ops, on2. cbn - [dec6]. rewrite !dec6_enc6. reflexivity. Qed.
Lemma ext_eq_s t c st : ext06_ops "$method.eq" [enc6 t; VInt c] [] st = ret6 "eq" (eq_s t c) st. Proof. ext_tac. Qed.
Lemma ext_to t st : ext06_ops "$method.to" [enc6 t; int_dtype_token] [] st = ret6 "to" (as_int t) st. Proof. ext_tac. Qed.
Lemma ext_long t st : ext06_ops "$method.long" [enc6 t] [] st = ret6 "long" (as_int t) st. Proof. ext_tac. Qed.
Lemma ext_repeat t k st : ext06_ops "$method.repeat" [enc6 t; VInt k] [] st = ret6 "repeat" (repeat1 t k) st. Proof. ext_tac. Qed.
Lemma ext_repeat_interleave t k st : ext06_ops "$method.repeat_interleave" [enc6 t; VInt k] [] st = ret6 "repeat_interleave" (repeat_interleave t k) st. Proof. ext_tac. Qed.
Lemma ext_clamp_max t c st : ext06_ops "$method.clamp_max" [enc6 t; VInt c] [] st = ret6 "clamp_max" (clamp_max t c) st. Proof. ext_tac. Qed.
Lemma ext_any t d st : ext06_ops "$method.any" [enc6 t; VInt d] [] st = ret6 "any" (any1 t d) st. Proof. ext_tac. Qed.
Lemma ext_sum t d st : ext06_ops "$method.sum" [enc6 t; VInt d] [] st = ret6 "sum" (sum1 t d) st. Proof. ext_tac. Qed.
Lemma ext_full a b z st : ext06_ops "torch.full" [VTuple [VInt a; VInt b]; VInt z] [("dtype", long_token); ("device", device_token)] st
  = ret6 "full" (full [a; b] (CI z)) st. Proof. reflexivity. Qed.
Lemma ext_arange_d n st : ext06_ops "torch.arange" [VInt n] [("device", device_token)] st = ret6 "arange" (arange n) st. Proof. reflexivity. Qed.
Lemma ext_arange_dl n st : ext06_ops "torch.arange" [VInt n] [("device", device_token); ("dtype", long_token)] st = ret6 "arange" (arange n) st. Proof. reflexivity. Qed.
Lemma ext_as_tensor t st : ext06_ops "torch.as_tensor" [enc6 t] [("dtype", long_token); ("device", device_token)] st = ret6 "as_tensor" (as_int t) st.
Proof. intros; unfold ext06_ops, on1. cbn - [dec6 enc6]. rewrite dec6_enc6. reflexivity. Qed.
Lemma ext_ones n st : ext06_ops "torch.ones" [VInt n] [("device", device_token); ("dtype", bool_token)] st = ret6 "ones" (ones_bool n) st. Proof. reflexivity. Qed.

Lemma ret6_some why t st : ret6 why (Some t) st = Ok (enc6 t) st. Proof. reflexivity. Qed.

(* ---- statements ---- *)
Lemma exec_assign1 ext x e st :
  exec ext (SAssign [TName x] e) st = bind (eval ext e st) (fun v st1 => Ok CNormal (set_var x v st1)).
Proof. cbn [exec]. destruct (eval ext e st); reflexivity. Qed.
Lemma exec_raise ext n st : exec ext (SRaise n) st = Exc n st. Proof. reflexivity. Qed.
Lemma exec_return ext e st : exec ext (SReturn e) st = bind (eval ext e st) (fun v st1 => Ok (CReturn v) st1).
Proof. reflexivity. Qed.
Lemma exec_pass ext st : exec ext SPass st = Ok CNormal st. Proof. reflexivity. Qed.
Lemma exec_assert ext e st : exec ext (SAssert e) st =
  bind (eval ext e st) (fun v st1 => if truthy v then Ok CNormal st1 else Exc "AssertionError" st1).
Proof. reflexivity. Qed.

Lemma method_enc6 t m args : method (enc6 t) m args = None. Proof. reflexivity. Qed.
Lemma foreign_enc6 t : foreign (enc6 t) = true. Proof. reflexivity. Qed.
Lemma foreign_int z : foreign (VInt z) = false. Proof. reflexivity. Qed.
Lemma attribute_enc6 t a st : attribute ext06_ops (enc6 t) a st = ext06_ops ("$attr." ++ a) [enc6 t] [] st.
Proof. reflexivity. Qed.
Lemma subscript_enc6 t k st : exists w, subscript (enc6 t) k st = Stuck w.
Proof. unfold enc6, subscript. destruct k; cbn; eauto. Qed.
Lemma binop_enc6 op t v st : exists w, binop_eval op (enc6 t) v st = Stuck w.
Proof. unfold binop_eval, enc6. cbn [is_inf orb]. destruct (is_inf v) eqn:E.
  - destruct v; try discriminate. destruct op; cbn; eauto.
  - destruct op; cbn; eauto; destruct v; cbn; eauto. Qed.

Lemma sub_enc6 t k st (X : outcome val) : match subscript (enc6 t) k st with Stuck _ => X | o => o end = X.
Proof. destruct (subscript_enc6 t k st) as [w ->]. reflexivity. Qed.
Lemma bin_enc6 op t v st (X : outcome val) : match binop_eval op (enc6 t) v st with Stuck _ => X | o => o end = X.
Proof. destruct (binop_enc6 op t v st) as [w ->]. reflexivity. Qed.
Lemma bin_add_int a b st : binop_eval Add (VInt a) (VInt b) st = Ok (VInt (a + b)) st. Proof. reflexivity. Qed.
Lemma bin_sub_int a b st : binop_eval Sub (VInt a) (VInt b) st = Ok (VInt (a - b)) st. Proof. reflexivity. Qed.
Lemma bin_mul_int a b st : binop_eval Mul (VInt a) (VInt b) st = Ok (VInt (a * b)) st. Proof. reflexivity. Qed.
Lemma cmp_eq_int a b : cmp_eval Eq (VInt a) (VInt b) = Some (a =? b)%Z. Proof. reflexivity. Qed.
Lemma cmp_lt_int : forall a b, cmp_eval Lt (VInt a) (VInt b) = Some (a <? b)%Z.
Proof. intros. cbn. unfold Qcompare. cbn. rewrite !Z.mul_1_r. unfold Z.ltb. destruct (a ?= b)%Z; reflexivity. Qed.
Lemma cmp_le_int : forall a b, cmp_eval LtE (VInt a) (VInt b) = Some (a <=? b)%Z.
Proof. intros. cbn. unfold Qcompare. cbn. rewrite !Z.mul_1_r. unfold Z.leb. destruct (a ?= b)%Z; reflexivity. Qed.
Lemma cmp_gt_int : forall a b, cmp_eval Gt (VInt a) (VInt b) = Some (b <? a)%Z.
Proof. intros. cbn. unfold Qcompare. cbn. rewrite !Z.mul_1_r. unfold Z.ltb. rewrite (Z.compare_antisym a b). destruct (a ?= b)%Z; reflexivity. Qed.
Lemma min_int : forall a b st, extreme_of false [VInt a; VInt b] st = Ok (VInt (Z.min a b)) st.
Proof.
  intros. unfold extreme_of, q_extreme. rewrite cmp_lt_int. unfold Z.min, Z.ltb.
  rewrite (Z.compare_antisym b a). destruct (b ?= a)%Z; reflexivity.
Qed.

#[local] Arguments exec : simpl never.
#[local] Arguments ext06_ops : simpl never.
#[local] Arguments enc6 : simpl never.
#[local] Arguments enc_shape : simpl never.
#[local] Arguments cmp_eval : simpl never.
#[local] Arguments foreign : simpl never.
#[local] Arguments extreme_of : simpl never.
#[local] Arguments val_eqb : simpl never.
#[local] Arguments method : simpl never.
#[local] Arguments subscript : simpl never.
#[local] Arguments binop_eval : simpl never.
#[local] Arguments attribute : simpl never.
#[local] Arguments lookup : simpl never.
#[local] Arguments update : simpl never.
#[local] Arguments size : simpl never.
#[local] Arguments numel : simpl never.
#[local] Arguments arange : simpl never.
#[local] Arguments full : simpl never.
#[local] Arguments ones_bool : simpl never.
#[local] Arguments zeros_like : simpl never.
#[local] Arguments unsqueeze : simpl never.
#[local] Arguments view : simpl never.
#[local] Arguments transpose : simpl never.
#[local] Arguments expand : simpl never.
#[local] Arguments repeat1 : simpl never.
#[local] Arguments repeat_interleave : simpl never.
#[local] Arguments cat0 : simpl never.
#[local] Arguments slice0 : simpl never.
#[local] Arguments select0 : simpl never.
#[local] Arguments index1 : simpl never.
#[local] Arguments masked_select : simpl never.
#[local] Arguments tmin : simpl never.
#[local] Arguments item : simpl never.
#[local] Arguments any1 : simpl never.
#[local] Arguments sum1 : simpl never.
#[local] Arguments add_s : simpl never.
#[local] Arguments sub_s : simpl never.
#[local] Arguments clamp_max : simpl never.
#[local] Arguments eq_s : simpl never.
#[local] Arguments ge_s : simpl never.
#[local] Arguments invert : simpl never.
#[local] Arguments isfinite : simpl never.
#[local] Arguments add : simpl never.
#[local] Arguments lt : simpl never.
#[local] Arguments gt : simpl never.
#[local] Arguments eq : simpl never.
#[local] Arguments band : simpl never.
#[local] Arguments masked_fill : simpl never.
#[local] Arguments twhere : simpl never.
#[local] Arguments as_int : simpl never.
#[local] Arguments ret6 _ !_ _ /.
#[local] Arguments retn _ !_ _ /.
#[local] Arguments Z.add : simpl never.
#[local] Arguments Z.sub : simpl never.
#[local] Arguments Z.mul : simpl never.
#[local] Arguments Z.min : simpl never.
#[local] Arguments Z.opp : simpl never.
#[local] Arguments Z.eqb : simpl never.
#[local] Arguments Z.ltb : simpl never.
#[local] Arguments Z.leb : simpl never.
#[local] Arguments Z.of_nat : simpl never.
#[local] Arguments Z.modulo : simpl never.

Ltac step :=
  match goal with
  | |- context [exec ext06_ops ?r ?st] => is_var r; subst r
  | |- context [exec ext06_ops (SAssign [TName _] _) _] => rewrite exec_assign1
  | |- context [exec ext06_ops (SIf ?c ?a ?b) ?st] =>
      rewrite (exec_if ext06_ops c a b st);
      let ra := fresh "thn" in let rb := fresh "els" in remember a as ra; remember b as rb
  | |- context [exec ext06_ops (SRaise _) _] => rewrite exec_raise
  | |- context [exec ext06_ops (SReturn _) _] => rewrite exec_return
  | |- context [exec ext06_ops (SAssert _) _] => rewrite exec_assert
  | |- context [exec ext06_ops SPass _] => rewrite exec_pass
  | |- context [exec ext06_ops (SSeq ?a ?b) ?st] =>
      rewrite (exec_seq ext06_ops a b st); let r := fresh "rest" in remember b as r
  end.

Ltac ext_rw f :=
  lazymatch f with
  | "$method.size" => rewrite ext_size
  | "$method.numel" => rewrite ext_numel
  | "$attr.device" => rewrite ext_device
  | "$attr.dtype" => rewrite ext_dtype
  | "$attr.shape" => rewrite ext_shape
  | "$attr.T" => rewrite ext_T
  | "$getitem" => first [rewrite ext_getitem_int | rewrite ext_getitem_tensor | rewrite ext_slice_ni | rewrite ext_slice_in | rewrite ext_slice_ii]
  | "operator" => first [rewrite ext_add_s | rewrite ext_sub_s | rewrite ext_add | rewrite ext_and]
  | "compare" => first [rewrite ext_ge_s | rewrite ext_lt | rewrite ext_gt | rewrite ext_eq]
  | "$invert" => rewrite ext_invert
  | "torch.cat" => rewrite ext_cat
  | "torch.where" => rewrite ext_where
  | "torch.zeros_like" => rewrite ext_zeros_like
  | "torch.isfinite" => rewrite ext_isfinite
  | "int" => rewrite ext_int
  | "$method.expand" => first [rewrite ext_expand1 | rewrite ext_expand2]
  | "$method.view" => rewrite ext_view2
  | "$method.min" => rewrite ext_min
  | "$method.item" => rewrite ext_item
  | "$method.unsqueeze" => rewrite ext_unsqueeze
  | "$method.masked_select" => rewrite ext_masked_select
  | "$method.masked_fill" => first [rewrite ext_masked_fill_i | rewrite ext_masked_fill_q]
  | "$method.eq" => rewrite ext_eq_s
  | "$method.to" => rewrite ext_to
  | "$method.long" => rewrite ext_long
  | "$method.repeat" => rewrite ext_repeat
  | "$method.repeat_interleave" => rewrite ext_repeat_interleave
  | "$method.clamp_max" => rewrite ext_clamp_max
  | "$method.any" => rewrite ext_any
  | "$method.sum" => rewrite ext_sum
  | "torch.full" => rewrite ext_full
  | "torch.arange" => first [rewrite ext_arange_d | rewrite ext_arange_dl]
  | "torch.as_tensor" => rewrite ext_as_tensor
  | "torch.ones" => rewrite ext_ones
  end.

Ltac rw :=
  repeat match goal with
  | |- context [lookup _ (update _ _ _)] => rewrite lookup_update
  | H : lookup ?x ?l = Some _ |- context [lookup ?x ?l] => rewrite H
  | |- context [method (enc6 _) _ _] => rewrite method_enc6
  | |- context [attribute ext06_ops (enc6 _) _ _] => rewrite attribute_enc6
  | |- context [foreign (enc6 _)] => rewrite foreign_enc6
  | |- context [foreign (VInt _)] => rewrite foreign_int
  | |- context [match subscript (enc6 _) _ _ with _ => _ end] => rewrite sub_enc6
  | |- context [match binop_eval _ (enc6 _) _ _ with _ => _ end] => rewrite bin_enc6
  | |- context [binop_eval Add (VInt _) (VInt _) _] => rewrite bin_add_int
  | |- context [binop_eval Sub (VInt _) (VInt _) _] => rewrite bin_sub_int
  | |- context [binop_eval Mul (VInt _) (VInt _) _] => rewrite bin_mul_int
  | |- context [cmp_eval Eq (VInt _) (VInt _)] => rewrite cmp_eq_int
  | |- context [cmp_eval Lt (VInt _) (VInt _)] => rewrite cmp_lt_int
  | |- context [cmp_eval LtE (VInt _) (VInt _)] => rewrite cmp_le_int
  | |- context [cmp_eval Gt (VInt _) (VInt _)] => rewrite cmp_gt_int
  | |- context [extreme_of false _ _] => rewrite min_int
  | |- context [ext06_ops ?f _ _ _] => ext_rw f
  end.

Ltac go := repeat (progress (unfold set_var; cbn; rw)).

(* the option-monad hypothesis and the goal advance together *)
Ltac dopt :=
  match goal with
  | H : bo (Some _) _ = Some _ |- _ => cbn [bo] in H
  | H : bo ?o _ = Some _ |- _ =>
      lazymatch o with
      | (if _ then _ else _) => fail
      | _ => let E := fresh "E" in destruct o eqn:E; [cbn [bo] in H | discriminate H]
      end
  end.

Record Inv (c : lconst) (s : lstate) (st : state) : Prop := mkInv
  { i_hist : lookup "hist" (vars st) = Some (enc6 (c_hist c));
    i_hidx : lookup "hidx" (vars st) = Some (enc6 (c_hidx c));
    i_offsets : lookup "offsets" (vars st) = Some (enc6 (c_offsets c));
    i_ids : lookup "ids" (vars st) = Some (enc6 (c_ids c));
    i_logps : lookup "logps" (vars st) = Some (enc6 (c_logps c));
    i_logbs : lookup "logbs" (vars st) = Some (enc6 (c_logbs c));
    i_srange : lookup "srange" (vars st) = Some (enc6 (c_srange c));
    i_V : lookup "V" (vars st) = Some (VInt (c_V c));
    i_N : lookup "N" (vars st) = Some (VInt (c_N c));
    i_M : lookup "M" (vars st) = Some (VInt (c_M c));
    i_O : lookup "O" (vars st) = Some (VInt (c_O c));
    i_P : lookup "P" (vars st) = Some (VInt (c_P c));
    i_U : lookup "U" (vars st) = Some (VInt (c_U c));
    i_B : lookup "B" (vars st) = Some (VInt (c_B c));
    i_desc : lookup "desc" (vars st) = Some (enc6 (l_desc s));
    i_found : lookup "found" (vars st) = Some (enc6 (l_found s));
    i_lastp : lookup "last_logps" (vars st) = Some (enc6 (l_lastp s));
    i_lastb : lookup "last_backoffs" (vars st) = Some (enc6 (l_lastb s)) }.

Ltac dif :=
  match goal with
  | H : bo (if ?c then _ else _) _ = Some _ |- _ => let E := fresh "C" in destruct c eqn:E
  | H : (if ?c then _ else _) = Some _ |- _ => let E := fresh "C" in destruct c eqn:E; [ | try discriminate H]
  end.
Ltac rwE :=
  match goal with
  | E : ?o = Some _ |- context [ret6 _ ?o _] => rewrite E; cbn [ret6]
  | E : ?o = Some _ |- context [retn _ ?o _] => rewrite E; cbn [retn]
  end.
Ltac rwC :=
  match goal with
  | C : ?c = _ |- context [if ?c then _ else _] => rewrite C
  end.
Ltac run1 := first [ step; go | rwE; go | rwC; go ].

Lemma body_run c n s s' st : body_fn c n s = Some s' -> Inv c s st ->
  exists st', exec ext06_ops loop_body (set_var "n" (VInt n) st) = Ok CNormal st' /\ Inv c s' st'.
Proof.
  intros H [].
  unfold body_fn in H. unfold loop_body.
  repeat first [dif | dopt].
  all: repeat run1.
  all: injection H as <-.
  all: eexists; split; [reflexivity| ].
  all: constructor; cbn [vars l_desc l_found l_lastp l_lastb]; rw; try reflexivity.
Qed.
