(* C19 tie - `binomial_coefficient`: the symbolic run of the translated body (PV.Gen.C19Src.binom_body), both branches:
   the factorial branch (length_ <= 20: arange / x[0] = 1 / cumprod / x[length] / trunc_divide / masked_fill_) and the
   Pascal-table branch (length_ > 20: empty / binom[..., 0] = 0 / binom[0] = 1 / the cumsum loop / flatten()[index]), for
   EVERY shape and every pair of integer tensors of that shape, and every content of uninitialised memory. *)
From Coq Require Import ZArith QArith List String Bool Arith Lia.
From PV Require Import MiniPy.Syntax MiniPy.Interp MiniPy.Lemmas.
From PV Require Import MiniTorch.Ops MiniTorch.Value MiniTorch.Lemmas MiniTorch.OpsC19 MiniTorch.LemmasC19 Gen.C19Src.
From PV Require Import C19.SrcRun C19.TieLib.
From PV Require Import C19.Combinatorics C19.Spec C19.ProofsComb.
Import ListNotations.
Local Open Scope string_scope.
Local Open Scope list_scope.

Definition bparts : list stmt := Eval cbv [flatten_seq binom_body app] in flatten_seq binom_body.
Definition branch_stmt : stmt := Eval cbv [bparts nth] in nth 3 bparts SPass.
Definition table_parts : list stmt := Eval cbv [branch_stmt flatten_seq app] in match branch_stmt with SIf _ t _ => flatten_seq t | _ => [] end.
Definition fact_parts : list stmt := Eval cbv [branch_stmt flatten_seq app] in match branch_stmt with SIf _ _ f => flatten_seq f | _ => [] end.

#[local] Arguments enc_sh : simpl never.
#[local] Arguments enc_dat : simpl never.
#[local] Arguments dec : simpl never.
#[local] Arguments ext19 : simpl never.
#[local] Arguments Z.of_nat : simpl never.
#[local] Arguments exec_list : simpl never.
#[local] Arguments numel : simpl never.
#[local] Arguments Nat.mul : simpl never.
#[local] Arguments int_of_q : simpl never.
#[local] Arguments inject_Z : simpl never.
#[local] Arguments map2 : simpl never.
#[local] Arguments Qred : simpl never.
#[local] Arguments Qdiv : simpl never.
#[local] Arguments Qminus : simpl never.
#[local] Arguments Qplus : simpl never.
#[local] Arguments Qmult : simpl never.
#[local] Arguments qbool : simpl never.
#[local] Arguments qmax : simpl never.
#[local] Arguments qmin : simpl never.
#[local] Arguments q_lt : simpl never.
#[local] Arguments qtrue : simpl never.
#[local] Arguments zrange : simpl never.
#[local] Arguments tab2 : simpl never.
#[local] Arguments Z.add : simpl never.
#[local] Arguments Z.sub : simpl never.
#[local] Arguments Z.mul : simpl never.

Ltac ext_rw := rewrite ?E_item, ?E_int, ?E_any, ?E_shape, ?E_device, ?E_clamp_min, ?E_clamp_min_, ?E_sub_tt, ?E_sub_ts,
  ?E_lt_s, ?E_eq_s, ?E_or, ?E_setcol0, ?E_cumsum, ?E_cumprod, ?E_flatten, ?E_mul_ts, ?E_add_tt, ?E_mul_tt, ?E_clamp_max,
  ?E_masked_fill.
Ltac run1 := repeat (progress (cbn; change (Pos.to_nat 1) with 1%nat; cbn [nth]; ext_rw)).
Ltac norm_state := unfold set_var, emit; cbn [update vars events String.eqb Ascii.eqb Bool.eqb].
Ltac step tac := erewrite exec_list_cons_ok; [|run1; tac; run1; try reflexivity]; norm_state.

Definition zinj (l : list Z) : list Q := map inject_Z l.
#[local] Arguments zinj : simpl never.


(* ---- lists ----------------------------------------------------------------------------------------------------------- *)
Lemma map2_same : forall {A} f (g h : A -> Q) l, map2 f (map g l) (map h l) = map (fun x => f (g x) (h x)) l.
Proof.
  intros. rewrite map2_maps. induction l as [|x l IH]; [reflexivity|]. cbn [combine map fst snd]. now rewrite IH.
Qed.

Lemma existsb_or : forall {A} (f g : A -> bool) l, existsb (fun x => f x || g x) l = existsb f l || existsb g l.
Proof.
  induction l as [|x l IH]; [reflexivity|]. cbn [existsb]. rewrite IH.
  destruct (f x), (g x), (existsb f l), (existsb g l); reflexivity.
Qed.

(* ---- numbers ----------------------------------------------------------------------------------------------------------- *)
Lemma cumprod_z : forall l a, OpsC19.cumprod_from (inject_Z a) (zinj l) = zinj (Combinatorics.cumprod_from a l).
Proof.
  induction l as [|x l IH]; intros a; [reflexivity|]. unfold zinj in *. cbn [map OpsC19.cumprod_from Combinatorics.cumprod_from].
  rewrite Qred_z_mult. now rewrite IH.
Qed.

Lemma cumsum_z : forall l a, OpsC19.cumsum_from (inject_Z a) (zinj l) = zinj (Combinatorics.cumsum_from a l).
Proof.
  induction l as [|x l IH]; intros a; [reflexivity|]. unfold zinj in *. cbn [map OpsC19.cumsum_from Combinatorics.cumsum_from].
  rewrite Qred_z_plus. now rewrite IH.
Qed.

Lemma nth_zinj : forall l n, nth n (zinj l) 0%Q = inject_Z (nth n l 0%Z).
Proof. intros. unfold zinj. change 0%Q with (inject_Z 0). apply map_nth. Qed.

(* x[idx] on integer data is the model's Python indexing *)
Lemma gather_z : forall {A} (g : A -> Z) FT n sh (l : list A),
  List.length FT = n -> Forall (fun a => (- Z.of_nat n <= g a < Z.of_nat n)%Z) l ->
  gather (mkTens [n] (zinj FT)) (mkTens sh (map (fun a => inject_Z (g a)) l)) =
  Some (mkTens sh (map (fun a => inject_Z (pyidx FT (g a))) l)).
Proof.
  intros A g FT n sh l Hn Hl. unfold gather. cbn [tshape tdata].
  replace (forallb _ (map (fun a => inject_Z (g a)) l)) with true.
  - f_equal. f_equal. rewrite map_map. apply map_ext_in. intros a Ha. rewrite Forall_forall in Hl. specialize (Hl a Ha).
    rewrite int_of_q_z, nth_zinj. f_equal. unfold pyidx. rewrite Hn.
    destruct (g a <? 0)%Z eqn:E; [apply Z.ltb_lt in E; f_equal; lia|reflexivity].
  - symmetry. rewrite forallb_map'. apply forallb_forall. intros a Ha. rewrite Forall_forall in Hl. specialize (Hl a Ha).
    rewrite is_int_q_z, int_of_q_z. cbn [andb]. apply andb_true_intro. split; [apply Z.leb_le|apply Z.ltb_lt]; lia.
Qed.

Lemma trunc_div_z : forall {A} (f g : A -> Z) sh (l : list A), Forall (fun a => g a <> 0%Z) l ->
  trunc_div (mkTens sh (map (fun a => inject_Z (f a)) l)) (mkTens sh (map (fun a => inject_Z (g a)) l)) =
  Some (mkTens sh (map (fun a => inject_Z (Z.quot (f a) (g a))) l)).
Proof.
  intros A f g sh l Hg. unfold trunc_div. cbn [tshape tdata]. rewrite shape_eqb_refl.
  rewrite !forallb_map', !(forallb_true' _ l) by (intros; apply is_int_q_z). cbn [andb].
  replace (existsb _ (map (fun a => inject_Z (g a)) l)) with false.
  - cbn [negb]. f_equal. f_equal. rewrite map2_same. apply map_ext. intros a. now rewrite !int_of_q_z.
  - symmetry. rewrite existsb_map'. apply not_true_is_false. intros H. apply existsb_exists in H. destruct H as [a [Ha E]].
    rewrite Forall_forall in Hg. specialize (Hg a Ha). change 0%Q with (inject_Z 0) in E. rewrite Qeq_bool_z in E.
    apply Z.eqb_eq in E. contradiction.
Qed.

(* arange(L + 2); x[0] = 1; cumprod(0)  is the model's table of factorials *)
Lemma fact_table_data : forall L, (0 <= L)%Z ->
  OpsC19.cumprod_from 1
    (firstn (0 * numel []) (map (fun i => inject_Z (Z.of_nat i)) (seq 0 (Z.to_nat (L + 2)))) ++
     repeat (inject_Z 1) (numel []) ++ skipn (1 * numel []) (map (fun i => inject_Z (Z.of_nat i)) (seq 0 (Z.to_nat (L + 2)))))
  = zinj (fact_table L).
Proof.
  intros L HL. change (numel []) with 1%nat. change (0 * 1)%nat with 0%nat. change (1 * 1)%nat with 1%nat.
  replace (Z.to_nat (L + 2)) with (S (S (Z.to_nat L))) by lia. cbn [seq map firstn skipn repeat app].
  unfold fact_table. change 1%Q with (inject_Z 1). rewrite <- (cumprod_z _ 1). f_equal. unfold zinj. cbn [map]. f_equal.
  rewrite map_map. replace (Z.to_nat L + 1)%nat with (S (Z.to_nat L)) by lia. reflexivity.
Qed.

Lemma fact_table_len : forall L, (0 <= L)%Z -> List.length (fact_table L) = Z.to_nat (L + 2).
Proof. intros L HL. rewrite <- (Z2Nat.id L) at 1 by assumption. rewrite fact_table_length. lia. Qed.

Lemma pyidx_fact_pos : forall L i, (0 <= L)%Z -> (-1 <= i <= L)%Z -> (0 < pyidx (fact_table L) i)%Z.
Proof.
  intros L i HL Hi. unfold pyidx. rewrite fact_table_len by assumption.
  rewrite <- (Z2Nat.id L) by assumption.
  destruct (i <? 0)%Z eqn:E.
  - apply Z.ltb_lt in E. assert (i = -1)%Z by lia. subst i. rewrite fact_table_nth by lia. apply zfact_pos.
  - apply Z.ltb_ge in E. rewrite fact_table_nth by lia. apply zfact_pos.
Qed.

(* ---- the Pascal table, data level ------------------------------------------------------------------------------------- *)
(* one pass of the loop body on the flat table (rows of S m entries): row k+1 from its second entry on becomes the
   cumulative sum of row k without its last entry *)
Definition tstep (m k : nat) (D : list Q) : list Q :=
  firstn (S k * S m + 1) D ++ OpsC19.cumsum_from 0 (firstn m (skipn (k * S m) D)) ++ skipn (S (S k) * S m) D.

Fixpoint tloop (m k s : nat) (D : list Q) : list Q :=
  match s with O => D | S s' => tloop m (S k) s' (tstep m k D) end.

Definition zero_head (r : list Q) : list Q := inject_Z 0 :: tl r.

Lemma cumsum_len : forall l a, List.length (Combinatorics.cumsum_from a l) = List.length l.
Proof. induction l as [|x l IH]; intros a; [reflexivity|]. cbn. now rewrite IH. Qed.

Lemma prows_shape : forall m k, exists prev older,
  pascal_rows k (S m) = prev :: older /\ List.length prev = S m /\
  Forall (fun r => List.length r = S m) older /\ List.length older = k.
Proof.
  intros m. induction k as [|k IH].
  - exists (repeat 1%Z (S m)), []. cbn [pascal_rows]. repeat split; [apply repeat_length|constructor].
  - destruct IH as [prev [older [E [Hp [Ho Hl]]]]]. cbn [pascal_rows]. rewrite E.
    exists (0%Z :: Combinatorics.cumsum_from 0 (removelast prev)), (prev :: older). repeat split.
    + cbn [List.length]. rewrite cumsum_len, removelast_firstn_len, firstn_length, Hp. lia.
    + constructor; assumption.
    + cbn [List.length]. now rewrite Hl.
Qed.

Lemma zinj_app : forall a b, zinj (a ++ b) = zinj a ++ zinj b.
Proof. intros. unfold zinj. apply map_app. Qed.

Lemma zinj_length : forall a, List.length (zinj a) = List.length a.
Proof. intros. unfold zinj. apply map_length. Qed.

Lemma tloop_pascal : forall m s k JR,
  List.length JR = s -> Forall (fun r => List.length r = S m) JR ->
  tloop m k s (zinj (List.concat (rev (pascal_rows k (S m)))) ++ flat_map zero_head JR)
  = zinj (List.concat (rev (pascal_rows (k + s) (S m)))).
Proof.
  intros m. induction s as [|s IH]; intros k JR Hl Hf.
  - destruct JR; [|discriminate]. cbn [tloop flat_map]. now rewrite app_nil_r, Nat.add_0_r.
  - destruct JR as [|rk JR]; [discriminate|]. inversion Hf as [|? ? Hrk Hf']; subst. cbn [tloop].
    replace (k + S s)%nat with (S k + s)%nat by lia. rewrite <- (IH (S k) JR) by (cbn in Hl; congruence || assumption).
    f_equal.
    destruct (prows_shape m k) as [prev [older [E [Hp [Ho Hlo]]]]].
    cbn [pascal_rows]. rewrite E. cbn [rev]. rewrite !concat_app. cbn [List.concat]. rewrite !app_nil_r.
    set (OLD := List.concat (rev older)).
    assert (HOLD : List.length OLD = (k * S m)%nat).
    { unfold OLD. rewrite (length_concat_uniform _ (S m)). - now rewrite rev_length, Hlo. - apply Forall_rev. exact Ho. }
    cbn [flat_map]. unfold tstep.
    rewrite !zinj_app.
    set (REST := flat_map zero_head JR).
    (* the table: OLD ++ prev ++ (0 :: tl rk) ++ REST *)
    assert (Hzh : List.length (zero_head rk) = S m) by (unfold zero_head; destruct rk; cbn in *; [discriminate|lia]).
    (* row k without its last entry *)
    assert (R1 : firstn m (skipn (k * S m) ((zinj OLD ++ zinj prev) ++ zero_head rk ++ REST)) = zinj (removelast prev)).
    { rewrite <- app_assoc. rewrite skipn_app, zinj_length, HOLD, Nat.sub_diag. cbn [skipn].
      rewrite skipn_all2 by (rewrite zinj_length; lia). cbn [app].
      rewrite firstn_app, zinj_length, Hp. replace (m - S m)%nat with 0%nat by lia. cbn [firstn]. rewrite app_nil_r.
      unfold zinj. rewrite firstn_map. f_equal. rewrite removelast_firstn_len, Hp. reflexivity. }
    rewrite R1. change 0%Q with (inject_Z 0). rewrite cumsum_z.
    (* everything up to and including the first entry of row k+1 *)
    assert (R2 : firstn (S k * S m + 1) ((zinj OLD ++ zinj prev) ++ zero_head rk ++ REST) = (zinj OLD ++ zinj prev) ++ [inject_Z 0]).
    { rewrite firstn_app. rewrite app_length, !zinj_length, HOLD, Hp.
      replace (S k * S m + 1 - (k * S m + S m))%nat with 1%nat by lia.
      rewrite firstn_all2 by (rewrite app_length, !zinj_length, HOLD, Hp; lia). reflexivity. }
    rewrite R2.
    assert (R3 : skipn (S (S k) * S m) ((zinj OLD ++ zinj prev) ++ zero_head rk ++ REST) = REST).
    { rewrite skipn_app. rewrite app_length, !zinj_length, HOLD, Hp.
      rewrite (@skipn_all2 _ (S (S k) * S m) (zinj OLD ++ zinj prev)) by (rewrite app_length, !zinj_length, HOLD, Hp; lia).
      cbn [app]. replace (S (S k) * S m - (k * S m + S m))%nat with (S m) by lia.
      rewrite skipn_app, Hzh, Nat.sub_diag.
      rewrite (@skipn_all2 _ (S m) (zero_head rk)) by lia. reflexivity. }
    rewrite R3. cbn [zinj map]. unfold zinj. cbn [map]. rewrite <- !app_assoc. reflexivity.
Qed.

Lemma rows_of_shape : forall n M d, List.length d = (n * M)%nat ->
  List.length (rows_of n M d) = n /\ Forall (fun r => List.length r = M) (rows_of n M d).
Proof.
  induction n as [|n IH]; intros M d Hd; cbn [rows_of]; [split; [reflexivity|constructor]|].
  destruct (IH M (skipn M d)) as [H1 H2]; [rewrite skipn_length; lia|].
  split; [cbn [List.length]; now rewrite H1|constructor; [rewrite firstn_length; lia|assumption]].
Qed.

Lemma repeat_zinj : forall x n, repeat (inject_Z x) n = zinj (repeat x n).
Proof. intros. unfold zinj. induction n as [|n IH]; [reflexivity|]. cbn. now rewrite IH. Qed.

(* binom[..., 0] = 0; binom[0] = 1 on an uninitialised (cn + 1) x (m + 1) table *)
Lemma table_init_data : forall cn m J, List.length J = (S cn * S m)%nat ->
  exists JR, List.length JR = cn /\ Forall (fun r => List.length r = S m) JR /\
    firstn (0 * numel [S m]) (flat_map (fun r => inject_Z 0 :: tl r) (rows_of (S cn) (S m) J)) ++
    repeat (inject_Z 1) (numel [S m]) ++
    skipn (1 * numel [S m]) (flat_map (fun r => inject_Z 0 :: tl r) (rows_of (S cn) (S m) J))
    = zinj (List.concat (rev (pascal_rows 0 (S m)))) ++ flat_map zero_head JR.
Proof.
  intros cn m J HJ. exists (rows_of cn (S m) (skipn (S m) J)).
  destruct (rows_of_shape cn (S m) (skipn (S m) J)) as [H1 H2]; [rewrite skipn_length; lia|].
  split; [assumption|split; [assumption|]].
  replace (numel [S m]) with (S m) by (unfold numel; cbn [fold_right]; lia).
  change (0 * S m)%nat with 0%nat. rewrite Nat.mul_1_l. cbn [firstn app rows_of flat_map pascal_rows rev List.concat].
  rewrite app_nil_r, repeat_zinj. f_equal.
  change (fun r : list Q => inject_Z 0 :: tl r) with zero_head.
  destruct J as [|x J']; [cbn in HJ; lia|]. cbn [tl app skipn].
  assert (HJ' : (m <= List.length J')%nat) by (cbn [List.length] in HJ; lia).
  rewrite skipn_app, firstn_length, Nat.min_l by assumption.
  rewrite (@skipn_all2 _ m (firstn m J')) by (rewrite firstn_length; lia). now rewrite Nat.sub_diag.
Qed.

Lemma zrange_from1 : forall c, (0 <= c)%Z -> zrange 1 (c + 1) = map (fun i => VInt (Z.of_nat (S i))) (seq 0 (Z.to_nat c)).
Proof.
  intros c Hc. unfold zrange. replace (c + 1 - 1)%Z with c by lia. apply map_ext. intros i. f_equal. lia.
Qed.

Lemma exec_return_name : forall ext x st v, lookup x (vars st) = Some v -> exec ext (SReturn (EName x)) st = Ok (CReturn v) st.
Proof. intros. cbn. now rewrite H. Qed.

#[local] Arguments OpsC19.cumsum_from : simpl never.
#[local] Arguments OpsC19.cumprod_from : simpl never.

Section B.
  Variables (junk : nat -> Q).
  Notation ext := (ext19 (fun _ _ _ => false) junk).
  (* the two tensors have one shape; their entries as a list of pairs (length[i], count[i]) *)
  Variables (sh : list nat) (LC : list (Z * Z)) (lmax : Z).
  Let lens : list Z := map fst LC.
  Let cnts : list Z := map snd LC.
  Hypothesis Hmax : max_all (mkTens sh (zinj lens)) = Some (inject_Z lmax).

  Definition bst0 : state := mkState [("length", tv sh (zinj lens)); ("count", tv sh (zinj cnts)); ("torch", torch_module)] [].

  Definition negs : bool := existsb (fun v => (v <? 0)%Z) lens || existsb (fun v => (v <? 0)%Z) cnts.

  Lemma guard_z :
    existsb qtrue (map2 (fun x y => qbool (qtrue x || qtrue y))
                     (map (fun v => qbool (q_lt v (inject_Z 0))) (zinj cnts)) (map (fun v => qbool (q_lt v (inject_Z 0))) (zinj lens)))
    = negs.
  Proof.
    unfold negs, lens, cnts, zinj. rewrite !map_map, map2_same, existsb_map'.
    rewrite (existsb_ext' _ (fun x => (snd x <? 0)%Z || (fst x <? 0)%Z)).
    - rewrite existsb_or, !existsb_map'. apply orb_comm.
    - intros [l c]. cbn [fst snd]. now rewrite !qtrue_qbool, !q_lt_z.
  Qed.

  Definition bst_head : state :=
    mkState [("length", tv sh (zinj lens)); ("count", tv sh (zinj cnts)); ("torch", torch_module);
             ("device", device_token); ("length_", VInt lmax)] [].

  Lemma bhead_ok : forall r, negs = false -> exec_list ext (firstn 3 bparts ++ r) bst0 = exec_list ext r bst_head.
  Proof.
    intros r Hn. unfold bparts, bst0. cbn [firstn app].
    step idtac. step ltac:(rewrite guard_z, Hn). step ltac:(rewrite (E_max _ _ _ _ _ _ Hmax)). now rewrite int_of_q_z.
  Qed.

  Lemma bhead_raise : forall r, negs = true -> exists st, exec_list ext (firstn 3 bparts ++ r) bst0 = Exc "RuntimeError" st.
  Proof.
    intros r Hn. unfold bparts, bst0. cbn [firstn app]. eexists.
    step idtac. erewrite exec_list_cons_exc; [reflexivity|]. run1. rewrite guard_z, Hn. reflexivity.
  Qed.

  (* ---- the factorial branch ------------------------------------------------------------------------------------------ *)
  Hypothesis Hrange : Forall (fun lc => (0 <= fst lc <= lmax)%Z /\ (0 <= snd lc)%Z) LC.

  Lemma lens_as_map : zinj lens = map (fun lc => inject_Z (fst lc)) LC.
  Proof. unfold lens, zinj. now rewrite map_map. Qed.

  Lemma cnts_clamped : map (qmin (inject_Z lmax)) (zinj cnts) = map (fun lc => inject_Z (Z.min (snd lc) lmax)) LC.
  Proof. unfold cnts, zinj. rewrite !map_map. apply map_ext. intros lc. apply qmin_z. Qed.

  Lemma lmc_data : map (qmax (inject_Z (-1))) (map2 (fun x y => Qred (x - y)) (zinj lens) (zinj cnts))
                   = map (fun lc => inject_Z (Z.max (fst lc - snd lc) (-1))) LC.
  Proof.
    unfold lens, cnts, zinj. rewrite !map_map, map2_same, map_map. apply map_ext. intros lc.
    now rewrite Qred_z_minus, qmax_z.
  Qed.

  Lemma fact_run : (0 <= lmax)%Z ->
    exists vars', exec_list ext fact_parts bst_head = Ok CNormal (mkState vars' []) /\
      lookup "binom" vars' = Some (tv sh (map (fun lc => inject_Z (binom_fact_branch lmax (fst lc) (snd lc))) LC)).
  Proof.
    intros Hl0. unfold fact_parts, bst_head.
    step idtac. step idtac.
    step ltac:(rewrite E_arange_dev by lia).
    step ltac:(rewrite E_setrow_s by lia).
    step idtac.
    rewrite (fact_table_data lmax Hl0), lmc_data, cnts_clamped, lens_as_map.
    pose proof (fact_table_len lmax Hl0) as HFT. rewrite Forall_forall in Hrange.
    assert (G1 : Forall (fun a : Z * Z => (- Z.of_nat (Z.to_nat (lmax + 2)) <= fst a < Z.of_nat (Z.to_nat (lmax + 2)))%Z) LC).
    { apply Forall_forall; intros lc Hlc; specialize (Hrange lc Hlc). lia. }
    assert (G2 : Forall (fun a : Z * Z => (- Z.of_nat (Z.to_nat (lmax + 2)) <= Z.min (snd a) lmax < Z.of_nat (Z.to_nat (lmax + 2)))%Z) LC).
    { apply Forall_forall; intros lc Hlc; specialize (Hrange lc Hlc). lia. }
    assert (G3 : Forall (fun a : Z * Z => (- Z.of_nat (Z.to_nat (lmax + 2)) <= Z.max (fst a - snd a) (-1) < Z.of_nat (Z.to_nat (lmax + 2)))%Z) LC).
    { apply Forall_forall; intros lc Hlc; specialize (Hrange lc Hlc). lia. }
    assert (G4 : Forall (fun lc : Z * Z => (pyidx (fact_table lmax) (Z.min (snd lc) lmax) * pyidx (fact_table lmax) (Z.max (fst lc - snd lc) (-1)) <> 0)%Z) LC).
    { apply Forall_forall; intros lc Hlc; specialize (Hrange lc Hlc).
      pose proof (pyidx_fact_pos lmax (Z.min (snd lc) lmax) Hl0 ltac:(lia)).
      pose proof (pyidx_fact_pos lmax (Z.max (fst lc - snd lc) (-1)) Hl0 ltac:(lia)). nia. }
    step ltac:(rewrite (E_gather _ _ _ _ _ _ _ _ (gather_z (fun lc => fst lc) (fact_table lmax) _ sh LC HFT G1));
               run1;
               rewrite (E_gather _ _ _ _ _ _ _ _ (gather_z (fun lc => Z.min (snd lc) lmax) (fact_table lmax) _ sh LC HFT G2));
               run1;
               rewrite (E_gather _ _ _ _ _ _ _ _ (gather_z (fun lc => Z.max (fst lc - snd lc) (-1)) (fact_table lmax) _ sh LC HFT G3));
               run1;
               rewrite map2_same;
               rewrite (map_ext (fun lc => Qred (inject_Z (pyidx (fact_table lmax) (Z.min (snd lc) lmax)) *
                                                  inject_Z (pyidx (fact_table lmax) (Z.max (fst lc - snd lc) (-1)))))
                                (fun lc => inject_Z (pyidx (fact_table lmax) (Z.min (snd lc) lmax) *
                                                     pyidx (fact_table lmax) (Z.max (fst lc - snd lc) (-1))))) by (intros; apply Qred_z_mult);
               rewrite (E_trunc _ _ _ _ _ _ _ (trunc_div_z (fun lc => pyidx (fact_table lmax) (fst lc)) _ sh LC G4))).
    step idtac.
    rewrite exec_list_nil. eexists. split; [reflexivity|]. cbn [lookup String.eqb Ascii.eqb Bool.eqb].
    rewrite map_map, map2_same.
    match goal with |- Some (tv _ ?a) = Some (tv _ ?b) => replace a with b; [reflexivity|symmetry] end.
    apply map_ext. intros lc. rewrite qtrue_qbool, Qeq_bool_z. unfold binom_fact_branch.
    destruct (Z.max (fst lc - snd lc) (-1) =? -1)%Z; reflexivity.
  Qed.

  Definition ret_b : stmt := Eval cbv [bparts nth] in nth 4 bparts SPass.

  Lemma branch_fact : (lmax <= 20)%Z -> exec ext branch_stmt bst_head = exec_list ext fact_parts bst_head.
  Proof.
    intros H. unfold branch_stmt. rewrite exec_if.
    match goal with |- bind (eval ?e ?c ?st) _ = _ => assert (Hc : eval e c st = Ok (VBool false) st) end.
    { unfold bst_head. cbn. rewrite Qcompare_z. destruct (Z.compare_spec lmax 20); try lia; reflexivity. }
    rewrite Hc. cbn [bind truthy]. rewrite exec_flatten. reflexivity.
  Qed.

  Lemma branch_table : (20 < lmax)%Z -> exec ext branch_stmt bst_head = exec_list ext table_parts bst_head.
  Proof.
    intros H. unfold branch_stmt. rewrite exec_if.
    match goal with |- bind (eval ?e ?c ?st) _ = _ => assert (Hc : eval e c st = Ok (VBool true) st) end.
    { unfold bst_head. cbn. rewrite Qcompare_z. destruct (Z.compare_spec lmax 20); try lia; reflexivity. }
    rewrite Hc. cbn [bind truthy]. rewrite exec_flatten. reflexivity.
  Qed.

  Lemma binom_run_parts : forall vars' v, negs = false ->
    exec ext branch_stmt bst_head = Ok CNormal (mkState vars' []) -> lookup "binom" vars' = Some v ->
    Interp.run ext binom_body (binom_vars (mkTens sh (zinj lens)) (mkTens sh (zinj cnts))) = Ok v (mkState vars' []).
  Proof.
    intros vars' v Hn Hb Hv. rewrite run_flatten. change (flatten_seq binom_body) with bparts.
    change bparts with (firstn 3 bparts ++ [branch_stmt; ret_b]).
    change (mkState (binom_vars (mkTens sh (zinj lens)) (mkTens sh (zinj cnts))) []) with bst0.
    rewrite (bhead_ok _ Hn). erewrite exec_list_cons_ok by exact Hb.
    erewrite exec_list_cons_ret; [reflexivity|]. unfold ret_b. apply exec_return_name. exact Hv.
  Qed.

  Theorem binom_run_raises : negs = true ->
    exists st, Interp.run ext binom_body (binom_vars (mkTens sh (zinj lens)) (mkTens sh (zinj cnts))) = Exc "RuntimeError" st.
  Proof.
    intros Hn. rewrite run_flatten. change (flatten_seq binom_body) with bparts.
    change bparts with (firstn 3 bparts ++ [branch_stmt; ret_b]).
    change (mkState (binom_vars (mkTens sh (zinj lens)) (mkTens sh (zinj cnts))) []) with bst0.
    destruct (bhead_raise [branch_stmt; ret_b] Hn) as [st H]. rewrite H. now exists st.
  Qed.

  Theorem binom_run_fact : negs = false -> (0 <= lmax <= 20)%Z ->
    exists st, Interp.run ext binom_body (binom_vars (mkTens sh (zinj lens)) (mkTens sh (zinj cnts)))
               = Ok (tv sh (map (fun lc => inject_Z (binom_fact_branch lmax (fst lc) (snd lc))) LC)) st.
  Proof.
    intros Hn Hl. destruct (fact_run ltac:(lia)) as [vars' [Hrun Hv]].
    eexists. apply (binom_run_parts vars' _ Hn); [|exact Hv]. rewrite branch_fact by lia. exact Hrun.
  Qed.

  (* ---- the Pascal-table branch -------------------------------------------------------------------------------------- *)
  Variable cmax : Z.
  Hypothesis Hcmax : max_all (mkTens sh (zinj cnts)) = Some (inject_Z cmax).
  Hypothesis Hrange2 : Forall (fun lc => (snd lc <= cmax)%Z) LC.

  Definition tloop_stmt : stmt := Eval cbv [table_parts nth] in nth 4 table_parts SPass.
  Definition tbody : stmt := Eval cbv [tloop_stmt] in match tloop_stmt with SFor _ _ b => b | _ => SPass end.

  Definition st_t (D : list Q) (tail : list (string * val)) : state :=
    mkState ([("length", tv sh (zinj lens)); ("count", tv sh (zinj cnts)); ("torch", torch_module);
              ("device", device_token); ("length_", VInt lmax); ("count_", VInt cmax);
              ("binom", tv [Z.to_nat (cmax + 1); S (Z.to_nat lmax)] D)] ++ tail) [].

  Definition ttail_ok (tail : list (string * val)) : Prop := tail = [] \/ exists a, tail = [("c", a)].

  Lemma tbody_step : forall D tail k, ttail_ok tail -> (Z.of_nat (S k) < Z.of_nat (Z.to_nat (cmax + 1)))%Z ->
    exec ext tbody (set_var "c" (VInt (Z.of_nat (S k))) (st_t D tail)) =
    Ok CNormal (st_t (tstep (Z.to_nat lmax) k D) [("c", VInt (Z.of_nat (S k)))]).
  Proof.
    intros D tail k Ht Hk. unfold tbody, st_t.
    assert (Hk1 : (0 <= Z.of_nat (S k) - 1 < Z.of_nat (Z.to_nat (cmax + 1)))%Z) by lia.
    assert (Hk2 : (0 <= Z.of_nat (S k) < Z.of_nat (Z.to_nat (cmax + 1)))%Z) by lia.
    destruct Ht as [->|[a ->]]; cbn [app]; norm_state.
    - run1. rewrite (E_getrow _ _ _ _ _ _ _ Hk1). run1. rewrite (E_setrow_from1 _ _ _ _ _ _ _ _ Hk2). run1. norm_state.
      unfold tstep. replace (Z.to_nat (Z.of_nat (S k) - 1)) with k by lia. rewrite Nat2Z.id. reflexivity.
    - run1. rewrite (E_getrow _ _ _ _ _ _ _ Hk1). run1. rewrite (E_setrow_from1 _ _ _ _ _ _ _ _ Hk2). run1. norm_state.
      unfold tstep. replace (Z.to_nat (Z.of_nat (S k) - 1)) with k by lia. rewrite Nat2Z.id. reflexivity.
  Qed.

  Lemma tloop_run : forall s k D tail, ttail_ok tail -> (k + s = Z.to_nat cmax)%nat -> (0 <= cmax)%Z ->
    exists tail', for_loop ext "c" tbody (map (fun i => VInt (Z.of_nat (S i))) (seq k s)) (st_t D tail)
                  = Ok CNormal (st_t (tloop (Z.to_nat lmax) k s D) tail').
  Proof.
    induction s as [|s IH]; intros k D tail Ht Hk Hc.
    - eexists. reflexivity.
    - cbn [seq map for_loop tloop]. rewrite tbody_step by (assumption || lia). cbn [bind].
      apply IH; [right; eexists; reflexivity|lia|assumption].
  Qed.

  Lemma table_run : (0 <= lmax)%Z -> (0 <= cmax)%Z ->
    exists vars', exec_list ext table_parts bst_head = Ok CNormal (mkState vars' []) /\
      lookup "binom" vars' = Some (tv sh (map (fun lc => inject_Z (binom_table_branch lmax cmax (fst lc) (snd lc))) LC)).
  Proof.
    intros Hl0 Hc0. unfold table_parts, bst_head.
    step ltac:(rewrite (E_max _ _ _ _ _ _ Hcmax)). rewrite int_of_q_z.
    step ltac:(rewrite E_empty2 by lia).
    replace (Z.to_nat (lmax + 1)) with (S (Z.to_nat lmax)) by lia.
    step idtac.
    step ltac:(rewrite E_setrow_s by lia).
    set (m := Z.to_nat lmax). set (cn := Z.to_nat cmax).
    destruct (table_init_data cn m (map junk (seq 0 (numel [Z.to_nat (cmax + 1); S m])))) as [JR [HJR [HJf HD0]]].
    { rewrite map_length, seq_length. unfold numel. cbn [fold_right]. unfold cn. lia. }
    replace (Z.to_nat (cmax + 1)) with (S cn) in * by (unfold cn; lia).
    rewrite HD0. clear HD0.
    set (D0 := zinj (List.concat (rev (pascal_rows 0 (S m)))) ++ flat_map zero_head JR).
    (* the loop *)
    destruct (tloop_run cn 0 D0 []) as [tail' HL]; [now left|reflexivity|assumption|].
    unfold st_t in HL. replace (Z.to_nat (cmax + 1)) with (S cn) in HL by (unfold cn; lia). fold m in HL. cbn [app] in HL.
    unfold D0 in HL at 2. rewrite (tloop_pascal m cn 0 JR HJR HJf) in HL.
    erewrite exec_list_cons_ok.
    2:{ fold tbody. rewrite exec_for. cbn. rewrite (zrange_from1 cmax Hc0). fold cn. exact HL. }
    cbn [Nat.add app].
    set (FT := List.concat (rev (pascal_rows cn (S m)))).
    assert (HFTlen : List.length FT = (S cn * S m)%nat).
    { unfold FT. destruct (prows_shape m cn) as [prev [older [E [Hp [Ho Hlo]]]]]. rewrite E.
      rewrite (length_concat_uniform _ (S m)); [now rewrite rev_length; cbn [List.length]; rewrite Hlo|].
      apply Forall_rev. constructor; assumption. }
    rewrite Forall_forall in Hrange, Hrange2.
    assert (G : Forall (fun lc : Z * Z => (- Z.of_nat (List.length (zinj FT)) <= fst lc + snd lc * (lmax + 1) < Z.of_nat (List.length (zinj FT)))%Z) LC).
    { apply Forall_forall. intros lc Hlc. specialize (Hrange lc Hlc). specialize (Hrange2 lc Hlc).
      rewrite zinj_length, HFTlen. unfold cn, m. nia. }
    assert (HI : map2 (fun x y => Qred (x + y)) (zinj lens) (map (fun v => Qred (v * inject_Z (lmax + 1))) (zinj cnts))
                 = map (fun lc => inject_Z (fst lc + snd lc * (lmax + 1))) LC).
    { unfold lens, cnts, zinj. rewrite !map_map, map2_same. apply map_ext. intros lc. now rewrite Qred_z_mult, Qred_z_plus. }
    step ltac:(rewrite HI; rewrite (E_gather _ _ _ _ _ _ _ _ (gather_z (fun lc => fst lc + snd lc * (lmax + 1))%Z FT _ sh LC (eq_sym (zinj_length FT)) G))).
    rewrite exec_list_nil. eexists. split; [reflexivity|]. cbn [lookup String.eqb Ascii.eqb Bool.eqb].
    match goal with |- Some (tv _ ?a) = Some (tv _ ?b) => replace a with b; [reflexivity|symmetry] end.
    apply map_ext_in. intros lc Hlc. specialize (Hrange lc Hlc). specialize (Hrange2 lc Hlc). f_equal.
    unfold pyidx, binom_table_branch. replace (fst lc + snd lc * (lmax + 1) <? 0)%Z with false by (symmetry; apply Z.ltb_ge; nia).
    fold m cn. rewrite Nat.add_1_r. reflexivity.
  Qed.

  Theorem binom_run_table : negs = false -> (20 < lmax)%Z -> (0 <= cmax)%Z ->
    exists st, Interp.run ext binom_body (binom_vars (mkTens sh (zinj lens)) (mkTens sh (zinj cnts)))
               = Ok (tv sh (map (fun lc => inject_Z (binom_table_branch lmax cmax (fst lc) (snd lc))) LC)) st.
  Proof.
    intros Hn Hl Hc. destruct (table_run ltac:(lia) Hc) as [vars' [Hrun Hv]].
    eexists. apply (binom_run_parts vars' _ Hn); [|exact Hv]. rewrite branch_table by lia. exact Hrun.
  Qed.
End B.
