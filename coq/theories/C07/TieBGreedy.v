(* C07, second source tie - `ctc_greedy_search` (scratch) *)
From Coq Require Import ZArith QArith List String Bool Arith Lia ZifyBool ZifyNat.
From PV Require Import MiniPy.Syntax MiniPy.Interp MiniTorch.Ops MiniTorch.OpsC07 MiniTorch.LemmasC07 MiniTorch.OpsC07B MiniTorch.LemmasC07B.
From PV Require Import Gen.C07BSrc C07.SrcRun C07.SrcRunB C07.TieBLib.
From PV Require C07.Model C07.ModelB C07.TieBModel MiniTorch.Lemmas.
Import ListNotations.
Local Open Scope string_scope.

#[local] Arguments dec_any : simpl never.
#[local] Arguments enc_b : simpl never.
#[local] Arguments enc_i : simpl never.
#[local] Arguments enc_f : simpl never.
#[local] Arguments tab2 : simpl never.
#[local] Arguments tab3 : simpl never.
#[local] Arguments exec : simpl never.
#[local] Arguments ext07B : simpl never.
#[local] Arguments cmp_eval : simpl never.
#[local] Arguments subscript : simpl never.
#[local] Arguments Z.of_nat : simpl never.
#[local] Arguments Z.add : simpl never.
#[local] Arguments Z.sub : simpl never.
#[local] Arguments Z.modulo : simpl never.
#[local] Arguments Z.opp : simpl never.
#[local] Arguments Z.ltb : simpl never.
#[local] Arguments Z.gtb : simpl never.
#[local] Arguments Z.eqb : simpl never.
#[local] Arguments transpose01 : simpl never.
#[local] Arguments max_last : simpl never.
#[local] Arguments slice_cols : simpl never.
#[local] Arguments cat2 : simpl never.
#[local] Arguments masked_select : simpl never.
#[local] Arguments masked_scatter : simpl never.
#[local] Arguments lt_t : simpl never.
#[local] Arguments sum_long : simpl never.
#[local] Arguments sum_dim : simpl never.
#[local] Arguments prod_dim : simpl never.
#[local] Arguments unsqueeze : simpl never.
#[local] Arguments arange : simpl never.
#[local] Arguments then_ : simpl never.
#[local] Arguments TieBModel.inm : simpl never.
#[local] Arguments TieBModel.keepf : simpl never.
#[local] Arguments TieBModel.keep0f : simpl never.
#[local] Arguments TieBModel.mxf : simpl never.
#[local] Arguments TieBModel.amf : simpl never.
#[local] Arguments TieBModel.fillv : simpl never.
#[local] Arguments TieBModel.olen : simpl never.
#[local] Arguments TieBModel.scoref : simpl never.
#[local] Arguments TieBModel.paths_tab : simpl never.

Ltac rw_enc :=
  rewrite ?method_enc_f, ?method_enc_i, ?method_enc_b, ?attribute_enc_i, ?attribute_enc_f,
    ?foreign_enc_i, ?foreign_enc_b, ?foreign_enc_f, ?binop_and_enc, ?binop_or_enc, ?binop_add_ff,
    ?subscript_b_tuple, ?subscript_i_tuple, ?subscript_f_i, ?cmp_isnot_enc_i, ?cmp_is_enc_i, ?truthy_enc_i,
    ?subscript_pair_0, ?subscript_pair_1, ?subscript_quad_0, ?subscript_quad_1, ?subscript_quad_2, ?subscript_quad_3,
    ?subscript_quadi_0, ?cmp_isnot_none, ?cmp_is_none, ?cmp_ne_int, ?cmp_lt_int, ?cmp_gt_int, ?cmp_ge_int, ?cmp_ne_shape1.

Section Run.
  Variables (lsm : tn xq -> tn xq) (mn : tn xq -> tn Z).
  Notation E := (ext07B lsm mn).

  Definition ext_b_from1 x st := ext_cols_b lsm mn x (VInt 1) VNone (Some 1%Z) None st eq_refl eq_refl.
  Definition ext_i_from1 x st := ext_cols_i lsm mn x (VInt 1) VNone (Some 1%Z) None st eq_refl eq_refl.
  Definition ext_i_to_m1 x st := ext_cols_i lsm mn x VNone (VInt (-1)) None (Some (-1)%Z) st eq_refl eq_refl.
  Definition ext_b_to1 x st := ext_cols_b lsm mn x VNone (VInt 1) None (Some 1%Z) st eq_refl eq_refl.

  Ltac ext_rw f a :=
    lazymatch f with
    | "$method.dim" => first [rewrite ext_dim_f | rewrite ext_dim_i]
    | "$attr.shape" => first [rewrite ext_shape_f | rewrite ext_shape_i]
    | "$attr.device" => rewrite ext_device_i
    | "$method.transpose" => rewrite ext_transpose_f
    | "$method.max" => first [rewrite ext_max_f | rewrite ext_max_all]
    | "$method.item" => rewrite ext_item
    | "int" => rewrite ext_int
    | "compare" => first [rewrite ext_ne_s | rewrite ext_ne_t | rewrite ext_lt_t]
    | "torch.cat" => first [rewrite ext_cat_b | rewrite ext_cat_i]
    | "operator" => first [rewrite ext_and | rewrite ext_or | rewrite ext_add_ff]
    | "torch.arange" => first [rewrite ext_arange_dev | rewrite ext_arange]
    | "$method.unsqueeze" => rewrite ext_unsqueeze_i
    | "$method.squeeze" => rewrite ext_squeeze_f
    | "$invert" => rewrite ext_invert
    | "$method.long" => rewrite ext_long
    | "$method.to" => rewrite ext_to_long
    | "$method.masked_fill" => first [rewrite ext_mfill_f | rewrite ext_mfill_i]
    | "$method.lt" => rewrite ext_lt_s
    | "$method.ge" => rewrite ext_ge_s
    | "$method.sum" => first [rewrite ext_sum_i | rewrite ext_sum_f]
    | "$method.prod" => rewrite ext_prod
    | "$method.masked_select" => rewrite ext_mselect
    | "$method.masked_scatter_" => rewrite ext_mscatter
    | "$method.exp" => rewrite ext_exp
    | "$method.scatter" => rewrite ext_scatter
    | "torch.index_select" => rewrite ext_index_select
    | "torch.nn.utils.rnn.pack_padded_sequence" => rewrite ext_pack
    | "SpoofPackedSequence" => rewrite ext_spoof
    | "torch.nn.utils.rnn.pad_packed_sequence" => rewrite ext_pad
    | "$getitem" => first [ rewrite ext_b_from1 | rewrite ext_i_from1 | rewrite ext_i_to_m1 | rewrite ext_b_to1
                          | rewrite ext_index1 ]
    end.
  Ltac rw_ext := match goal with |- context [ext07B lsm mn ?f ?a _ _] => ext_rw f a end.
  Ltac nops :=
    repeat (progress (
      unfold ne_s, ne_t, cmp_scalar, bnot, to_long, band, bor, masked_fill, zip_same, add_t; cbn [shp dat];
      rewrite ?nats_eqb_refl, ?map_tab2, ?zipw_tab2, ?map_map, ?arange_nat, ?unsqueeze_1_0, ?unsqueeze_1_1,
        ?slice_cols_from1, ?slice_cols_to_m1, ?slice_cols_to1, ?cat2_first_rest, ?lt_t_row_col, ?sum_long_2, ?sum_dim_2,
        ?transpose01_2, ?masked_select_same, ?masked_scatter_same;
      cbn [option_map ret_any enc_any])).
  Ltac go := repeat (progress (cbn; rw_enc; try rw_ext; nops)).
  Ltac unhide := try match goal with |- context [?K CNormal _] => is_var K; subst K; unfold then_; cbv iota end.
  Ltac seq_hide :=
    match goal with |- context [exec E (SSeq ?a ?b) ?st] =>
      rewrite (exec_seq E a b st); let K := fresh "K" in remember (then_ E b) as K end.
  Ltac sassign := unhide; try seq_hide; rewrite exec_assign1; go.
  Ltac sif := unhide; try seq_hide; rewrite exec_if; go.
  Ltac merge_if x v tac :=
    match goal with |- context [if ?c then exec E ?a ?s else exec E ?b ?s] =>
      let H := fresh "Hif" in
      assert (H : (if c then exec E a s else exec E b s) = Ok CNormal (set_var x v s));
      [ tac | rewrite H; clear H ] end.

  Lemma keep0_src : forall V f (b : nat) n j,
    (if (j <=? 0)%nat
     then negb (Z.of_nat (snd (xargmax (map (f n j) (seq 0 V)))) =? Z.of_nat b)%Z
     else negb (Z.of_nat (snd (xargmax (map (f n (S (j - 1))) (seq 0 V)))) =? Z.of_nat b)%Z &&
          negb (Z.of_nat (snd (xargmax (map (f n (S (j - 1))) (seq 0 V)))) =?
                Z.of_nat (snd (xargmax (map (f n (j - 1)%nat) (seq 0 V)))))%Z)
    = TieBModel.keep0f V f b n j.
  Proof.
    intros. unfold TieBModel.keep0f, TieBModel.amf. destruct j as [|j].
    - cbn [Nat.leb Nat.ltb]. rewrite andb_true_r. f_equal. lia.
    - replace (S (S j - 1)) with (S j) by lia. replace (S j - 1)%nat with j by lia. cbn [Nat.leb Nat.ltb]. f_equal; f_equal; lia.
  Qed.

  Definition il_tensor (N : nat) (il : option (nat -> Z)) : option (tn Z) := option_map (fun g => mkTn [N] (map g (seq 0 N))) il.
  Definition il_list (N : nat) (il : option (nat -> Z)) : option (list Z) := option_map (fun g => map g (seq 0 N)) il.
  #[local] Arguments il_list : simpl never.

  Ltac tail N T V f b IL ip bf Hfin HIL :=
    sassign;
    rewrite (map_ext_seq _ (fun n => Z.of_nat (TieBModel.olen T V f b IL n)))
      by (intros ? ?; unfold TieBModel.olen; now rewrite <- TieBModel.sumn_b2n_Z, map_map);
    sassign; sassign; sif;
    merge_if "max_" (enc_f (mkTn [N] (map (TieBModel.scoref T V f IL ip) (seq 0 N)))) ltac:(idtac);
    [ destruct ip; rewrite exec_assign1; go;
      [ rewrite prod_dim_2;
        [ reflexivity
        | intros n t Hn Ht; destruct (TieBModel.inm IL n t); [|reflexivity]; unfold TieBModel.mxf;
          apply Hfin; [reflexivity|assumption|assumption] ]
      | reflexivity ]
    | go; sassign;
      let Hsc := fresh "Hsc" in
      pose proof (TieBModel.greedy_scatter_tab N T V f b IL) as Hsc; unfold TieBModel.amf in Hsc; rewrite Hsc; clear Hsc;
      go; sif;
      merge_if "argmax" (enc_i (paths2 bf N T (fun n t => Z.of_nat (nth t (nth n (TieBModel.paths_tab N T V f b IL) []) 0%nat)))) ltac:(idtac);
      [ destruct bf; cbn [negb paths2];
        [ rewrite exec_pass; reflexivity
        | rewrite exec_assign1; go; rewrite (ext_t_i lsm mn) by reflexivity; go; reflexivity ]
      | go; unhide; rewrite exec_return; go; eexists; reflexivity ] ].

  Lemma greedy_run : forall (L0 : tn xq) N T V f il blank (bf ip : bool),
    shp L0 = (if bf then [N; T; V] else [T; N; V]) ->
    (if ip then L0 else lsm L0) = logits3 bf N T V f ->
    (- Z.of_nat V <= blank <= Z.of_nat V - 1)%Z ->
    (ip = true -> forall n t, (n < N)%nat -> (t < T)%nat -> is_fin (fst (xargmax (map (f n t) (seq 0 V)))) = true) ->
    let b := Z.to_nat ((blank + Z.of_nat V) mod Z.of_nat V) in
    let IL := il_list N il in
    exists st, run_greedy lsm mn L0 (il_tensor N il) blank bf ip =
      Ok (VTuple [enc_f (mkTn [N] (map (TieBModel.scoref T V f IL ip) (seq 0 N)));
                  enc_i (paths2 bf N T (fun n t => Z.of_nat (nth t (nth n (TieBModel.paths_tab N T V f b IL) []) 0%nat)));
                  enc_i (mkTn [N] (map (fun n => Z.of_nat (TieBModel.olen T V f b IL n)) (seq 0 N)))]) st.
  Proof.
    intros L0 N T V f il blank bf ip Hsh HL Hb Hfin0. cbv zeta.
    assert (Hfin : ip = true -> forall n t, (n < N)%nat -> (t < T)%nat -> is_fin (fst (xargmax (map (f n t) (seq 0 V)))) = true) by exact Hfin0.
    unfold run_greedy. rewrite run_fin. unfold greedy_body, greedy_vars.
    assert (Hlen : List.length (shp L0) = 3%nat) by (rewrite Hsh; destruct bf; reflexivity).
    assert (HV : nth 2 (shp L0) 0%nat = V) by (rewrite Hsh; destruct bf; reflexivity).
    assert (HV0 : V <> 0%nat) by lia.
    set (b := Z.to_nat ((blank + Z.of_nat V) mod Z.of_nat V)).
    assert (Hbz : ((blank + Z.of_nat V) mod Z.of_nat V)%Z = Z.of_nat b) by (unfold b; lia).
    sif. rewrite Hlen. change (Z.of_nat 3 =? 3)%Z with true. cbn. rewrite exec_pass. cbn.
    sassign. rewrite (ext_size_f lsm mn L0 2 2) by (rewrite Hlen; reflexivity). rewrite HV. go.
    sif. replace (blank <? - Z.of_nat V)%Z with false by lia. go.
    replace (blank >? Z.of_nat V - 1)%Z with false by lia. go. rewrite exec_pass. go.
    sassign. replace (Z.of_nat V =? 0)%Z with false by lia. go. rewrite Hbz.
    sif.
    merge_if "logits" (enc_f (logits3 bf N T V f)) ltac:(idtac).
    { destruct ip; cbn [negb].
      - rewrite exec_pass, <- HL. reflexivity.
      - rewrite exec_assign1. go.
        rewrite (ext_lsm_m lsm mn L0 2 2)
          by (unfold rank; rewrite ?Hlen; try reflexivity; rewrite HL, Hsh; unfold logits3; destruct bf; cbn [shp]; apply nats_eqb_refl).
        rewrite HL. reflexivity. }
    go. sif.
    merge_if "logits" (enc_f (mkTn [N; T; V] (tab3 N T V f))) ltac:(idtac).
    { destruct bf; cbn [negb logits3].
      - rewrite exec_pass. reflexivity.
      - rewrite exec_assign1. go. rewrite transpose01_3. reflexivity. }
    go.
    unhide. seq_hide. sassign. rewrite max_last_3 by assumption. go. sassign. sassign.
    sassign. sassign. sassign.
    rewrite (tab2_ext N T _ (TieBModel.keep0f V f b)) by (intros; apply keep0_src).
    sassign. rewrite (ext_size_i lsm mn _ 1 1) by reflexivity. go.
    sif.
    destruct il as [g|]; cbn [il_tensor option_map opt_tensor_i]; go.
    - (* in_lens given *)
      assert (HIL : forall ls, il_list N (Some g) = Some ls -> List.length ls = N)
        by (intros ls H; unfold il_list in H; cbn [option_map] in H; injection H as <-; now rewrite map_length, seq_length).
      unhide. sassign. sassign.
      unhide. rewrite exec_if. go.
      merge_if "max_" (enc_f (mkTn [N; T] (tab2 N T (fun n t => if TieBModel.inm (il_list N (Some g)) n t then TieBModel.mxf V f n t
                                                                else TieBModel.fillv ip)))) ltac:(idtac).
      { destruct ip; rewrite exec_assign1; go; do 4 f_equal; apply tab2_ext; intros n t Hn Ht;
          unfold TieBModel.inm, il_list, TieBModel.mxf, TieBModel.fillv; cbn [option_map];
          rewrite (MiniTorch.Lemmas.nth_map_seq g) by assumption; destruct (Z.of_nat t <? g n)%Z; reflexivity. }
      rewrite (tab2_ext N T _ (TieBModel.keepf V f b (il_list N (Some g))))
        by (intros n t Hn Ht; unfold TieBModel.keepf, TieBModel.inm, il_list; cbn [option_map];
            now rewrite (MiniTorch.Lemmas.nth_map_seq g) by assumption).
      go.
      tail N T V f b (il_list N (Some g)) ip bf Hfin HIL.
    - (* in_lens unset *)
      assert (HIL : forall ls, il_list N None = Some ls -> List.length ls = N) by (intros ls H; discriminate H).
      rewrite exec_pass. go.
      rewrite (tab2_ext N T (TieBModel.keep0f V f b) (TieBModel.keepf V f b (il_list N None)))
        by (intros n t Hn Ht; unfold TieBModel.keepf, TieBModel.inm, il_list; cbn [option_map]; now rewrite andb_true_r).
      rewrite (tab2_ext N T (fun n t => fst (xargmax (map (f n t) (seq 0 V))))
                 (fun n t => if TieBModel.inm (il_list N None) n t then TieBModel.mxf V f n t else TieBModel.fillv ip))
        by (intros n t Hn Ht; reflexivity).
      tail N T V f b (il_list N None) ip bf Hfin HIL.
  Qed.
End Run.
