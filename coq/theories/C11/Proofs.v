(* C11 - lemmas: TextGrid entry points (K5). *)
From Coq Require Import List ZArith Bool QArith.
From PV Require Import C11.Model C11.Spec.
Import ListNotations.
Local Open Scope Z_scope.

(* the path entry point is the open-file entry point with point_tier and precision forgotten *)
Lemma path_is_file_with_defaults tr st en name pt p :
  write_textgrid_path tr st en name pt p = write_textgrid_file tr st en name None 3.
Proof. reflexivity. Qed.

Lemma path_eq_file_when_defaults tr st en name :
  write_textgrid_path tr st en name None 3 = write_textgrid_file tr st en name None 3.
Proof. reflexivity. Qed.

Lemma path_eq_file_refuted :
  exists tr st en name pt p,
    write_textgrid_path tr st en name pt p <> write_textgrid_file tr st en name pt p.
Proof.
  exists [([97], 1 # 4, 1 # 4)], None, None, [116], (Some false), 1%nat.
  vm_compute. discriminate.
Qed.

(* ---------- worker pools ------------------------------------------------------------------------ *)
From PV Require Import C11.ProofsSort.

Lemma pool_eq_serial sched chunk file :
  (forall i, (i < length (lines file))%nat -> In i sched) ->
  read_trn_pool sched chunk file = read_trn_serial file.
Proof.
  intros H. unfold read_trn_pool, read_trn_serial. rewrite imap_eq_map by exact H. reflexivity.
Qed.

Lemma workers_irrelevant processes sched chunk file :
  (forall i, (i < length (lines file))%nat -> In i sched) ->
  read_trn_file processes sched chunk file = read_trn_serial file
  /\ read_trn_path processes sched chunk file = read_trn_serial file.
Proof.
  intros H. unfold read_trn_path, read_trn_file.
  destruct processes; [split; reflexivity|]. split; apply pool_eq_serial; exact H.
Qed.

Lemma trn_path_eq_file ts : write_trn_path ts = write_trn_file ts.
Proof. reflexivity. Qed.

From PV Require Import C11.ProofsTrn.

(* write through the path entry point, read back through either entry point with any number of
   workers, any chunk size and any completion order *)
Lemma trn_roundtrip_workers ts processes sched chunk :
  trn_okb ts = true ->
  (forall i, (i < length (lines (write_trn_path ts)))%nat -> In i sched) ->
  read_trn_file processes sched chunk (write_trn_path ts) = Ok ts
  /\ read_trn_path processes sched chunk (write_trn_path ts) = Ok ts.
Proof.
  intros Hok Hs. destruct (workers_irrelevant processes sched chunk _ Hs) as [H1 H2].
  rewrite H1, H2. unfold write_trn_path. rewrite (trn_roundtrip ts Hok). split; reflexivity.
Qed.
