(* C02 — The error rate counts the edits of some minimum-cost alignment; MER loss.
   Property theorems only: each is closed by [exact <lemma>] and followed by
   [Print Assumptions].  The harness re-checks this file on every run.

   Reading guide.  Edit scripts ([op], [transforms], [cost], [lev]), [denote] (a tensor
   column cut at its first eos), [cfg], [seq_of], [wf_tensor], [entry] are C01's.  [edits s]
   counts the insertions, deletions and substitutions of script s ([Keep] is free).
   [er_spec ci cd cs r h m]: some minimum-cost script turning r into h has m edits.
   Results are [Cost m] (m edits), [Ratio m d] (m / d), [Lit z] (padding value; 0/1 convention
   for an empty reference).  No theorem needs positive costs except the equal-cost ones;
   the property's "positive costs" is a special case.  The batch dimension of the model is
   a map over columns. *)
From Coq Require Import List ZArith QArith Bool Arith.
From PV Require Import C01.Obs C01.Spec C01.Model C01.LevFacts C01.Proofs.
From PV Require Import C02.Spec C02.Model C02.ProofsSpec C02.ProofsModel C02.ProofsMer.
Import ListNotations.
Local Open Scope Z_scope.

(* ---- the specification side: the checker used to judge implementation outputs ------------ *)

(* [opt_counts] (textbook recursion) lists exactly the edit counts of minimum-cost scripts;
   [er_okb] is sound and complete for "the count of some minimum-cost alignment" *)
Theorem c02_opt_counts_iff : forall ci cd cs r h m,
  In m (opt_counts ci cd cs r h) <-> er_spec ci cd cs r h m.
Proof. exact opt_counts_iff. Qed.
Print Assumptions c02_opt_counts_iff.

Theorem c02_er_okb_iff : forall ci cd cs r h m,
  er_okb ci cd cs r h m = true <->
  exists s, transforms s r h
            /\ (forall s', transforms s' r h -> cost ci cd cs s <= cost ci cd cs s')
            /\ edits s = m.
Proof. exact er_okb_iff_scripts. Qed.
Print Assumptions c02_er_okb_iff.

(* a script is minimum-cost iff its cost is C01's [lev] *)
Theorem c02_optimal_iff_lev : forall ci cd cs r h s,
  optimal_script ci cd cs r h s <-> transforms s r h /\ cost ci cd cs s = lev ci cd cs r h.
Proof. exact optimal_iff_lev. Qed.
Print Assumptions c02_optimal_iff_lev.

(* "the fewest / the most edits found among minimum-cost alignments" exist and are computed *)
Theorem c02_min_opt_edits_fewest : forall ci cd cs r h,
  fewest_edits ci cd cs r h (min_opt_edits ci cd cs r h).
Proof. exact min_opt_edits_fewest. Qed.
Print Assumptions c02_min_opt_edits_fewest.

Theorem c02_max_opt_edits_most : forall ci cd cs r h,
  most_edits ci cd cs r h (max_opt_edits ci cd cs r h).
Proof. exact max_opt_edits_most. Qed.
Print Assumptions c02_max_opt_edits_most.

(* the float judgement the harness applies to an implementation output accepts exactly the
   values the property admits *)
Theorem c02_spec_er_q_okb_iff : forall norm ci cd cs r h q,
  spec_er_q_okb norm ci cd cs r h q = true <->
  exists v, spec_er_val norm ci cd cs r h v /\ match_val 1 v q = true.
Proof. exact spec_er_q_okb_iff. Qed.
Print Assumptions c02_spec_er_q_okb_iff.

(* ---- mechanism 1: the parallel `mistakes` table ------------------------------------------ *)

(* "updated with the same argmin choices as the cost table": the cost rows kept by the
   return_mistakes branch (where / sequential deletion loop) are, step for step, the rows of
   the cost-only branch (min / triangular-matrix fold) that C01 is about *)
Theorem c02_cost_rows_are_c01_rows : forall ci cd cs r h hlen excl steps,
  (hlen <= length h)%nat ->
  map fst (all_rm ci cd cs r h hlen excl steps) = all_rows ci cd cs r h hlen excl steps.
Proof. exact cost_rows_are_c01_rows. Qed.
Print Assumptions c02_cost_rows_are_c01_rows.

(* while a pair is live, cell i of the state after hyp_idx = j holds the minimum cost on the
   prefixes and the number of edits of a script that attains it *)
Theorem c02_mistakes_invariant : forall ci cd cs r h hlen excl steps j i,
  (hlen <= length h)%nat -> (j <= steps)%nat -> (j <= frozen hlen excl)%nat ->
  (i <= length r)%nat ->
  let st := nth j (all_rm ci cd cs r h hlen excl steps) ([], []) in
  nth i (fst st) 0 = lev ci cd cs (firstn i r) (firstn j h) /\
  exists s, transforms s (firstn i r) (firstn j h)
            /\ cost ci cd cs s = lev ci cd cs (firstn i r) (firstn j h)
            /\ (forall s', transforms s' (firstn i r) (firstn j h) ->
                           cost ci cd cs s <= cost ci cd cs s')
            /\ edits s = nth i (snd st) 0.
Proof. exact mistakes_invariant. Qed.
Print Assumptions c02_mistakes_invariant.

(* finished pairs keep both tables (where(not_done, ., last)) *)
Theorem c02_mistakes_freeze : forall ci cd cs r h hlen excl steps j,
  (hlen <= length h)%nat -> (j <= steps)%nat -> (frozen hlen excl <= j)%nat ->
  nth j (all_rm ci cd cs r h hlen excl steps) ([], [])
  = nth (frozen hlen excl) (all_rm ci cd cs r h hlen excl steps) ([], []).
Proof. exact rm_freeze_nth. Qed.
Print Assumptions c02_mistakes_freeze.

(* ---- "the error rate of a pair is the number of insertions, deletions and substitutions
        along an alignment whose weighted cost is minimal" -------------------------------- *)
Theorem c02_error_rate_optimal_alignment : forall c N ref hyp n,
  (n < N)%nat -> wf_tensor (c_bf c) N ref -> wf_tensor (c_bf c) N hyp -> c_norm c = false ->
  exists m s,
    nth n (error_rate c N ref hyp) (Lit 0) = Cost m
    /\ transforms s (denote (c_eos c) (c_incl c) (seq_of (c_bf c) n ref))
                    (denote (c_eos c) (c_incl c) (seq_of (c_bf c) n hyp))
    /\ (forall s', transforms s' (denote (c_eos c) (c_incl c) (seq_of (c_bf c) n ref))
                                 (denote (c_eos c) (c_incl c) (seq_of (c_bf c) n hyp)) ->
                   cost (c_ins c) (c_del c) (c_sub c) s <= cost (c_ins c) (c_del c) (c_sub c) s')
    /\ cost (c_ins c) (c_del c) (c_sub c) s
       = lev (c_ins c) (c_del c) (c_sub c)
             (denote (c_eos c) (c_incl c) (seq_of (c_bf c) n ref))
             (denote (c_eos c) (c_incl c) (seq_of (c_bf c) n hyp))
    /\ edits s = m.
Proof. exact error_rate_optimal_alignment. Qed.
Print Assumptions c02_error_rate_optimal_alignment.

(* "it never falls below the fewest nor exceeds the most edits found among minimum-cost
   alignments" - against the computed extremes and against any lo / hi that are the extremes *)
Theorem c02_error_rate_within_min_max : forall c N ref hyp n,
  (n < N)%nat -> wf_tensor (c_bf c) N ref -> wf_tensor (c_bf c) N hyp -> c_norm c = false ->
  exists m,
    nth n (error_rate c N ref hyp) (Lit 0) = Cost m
    /\ fewest_edits (c_ins c) (c_del c) (c_sub c)
         (denote (c_eos c) (c_incl c) (seq_of (c_bf c) n ref))
         (denote (c_eos c) (c_incl c) (seq_of (c_bf c) n hyp))
         (min_opt_edits (c_ins c) (c_del c) (c_sub c)
            (denote (c_eos c) (c_incl c) (seq_of (c_bf c) n ref))
            (denote (c_eos c) (c_incl c) (seq_of (c_bf c) n hyp)))
    /\ most_edits (c_ins c) (c_del c) (c_sub c)
         (denote (c_eos c) (c_incl c) (seq_of (c_bf c) n ref))
         (denote (c_eos c) (c_incl c) (seq_of (c_bf c) n hyp))
         (max_opt_edits (c_ins c) (c_del c) (c_sub c)
            (denote (c_eos c) (c_incl c) (seq_of (c_bf c) n ref))
            (denote (c_eos c) (c_incl c) (seq_of (c_bf c) n hyp)))
    /\ min_opt_edits (c_ins c) (c_del c) (c_sub c)
         (denote (c_eos c) (c_incl c) (seq_of (c_bf c) n ref))
         (denote (c_eos c) (c_incl c) (seq_of (c_bf c) n hyp))
       <= m <=
       max_opt_edits (c_ins c) (c_del c) (c_sub c)
         (denote (c_eos c) (c_incl c) (seq_of (c_bf c) n ref))
         (denote (c_eos c) (c_incl c) (seq_of (c_bf c) n hyp))
    /\ (forall lo hi,
          fewest_edits (c_ins c) (c_del c) (c_sub c)
            (denote (c_eos c) (c_incl c) (seq_of (c_bf c) n ref))
            (denote (c_eos c) (c_incl c) (seq_of (c_bf c) n hyp)) lo ->
          most_edits (c_ins c) (c_del c) (c_sub c)
            (denote (c_eos c) (c_incl c) (seq_of (c_bf c) n ref))
            (denote (c_eos c) (c_incl c) (seq_of (c_bf c) n hyp)) hi ->
          lo <= m <= hi).
Proof. exact error_rate_within_min_max. Qed.
Print Assumptions c02_error_rate_within_min_max.

(* "and equals the plain Levenshtein distance whenever the three costs are equal":
   with equal positive costs every minimum-cost alignment has exactly lev 1 1 1 edits ... *)
Theorem c02_uniform_optimal_edits : forall c r h s, 0 < c ->
  optimal_script c c c r h s -> edits s = lev 1 1 1 r h.
Proof. exact uniform_optimal_edits. Qed.
Print Assumptions c02_uniform_optimal_edits.

(* ... and that is what is returned (through the unit-cost shortcut into C01's table);
   [spec_value norm 1 1 1] is C01's "distance, divided by |ref| on request" at unit costs *)
Theorem c02_error_rate_uniform_is_levenshtein : forall c N ref hyp n,
  (n < N)%nat -> wf_tensor (c_bf c) N ref -> wf_tensor (c_bf c) N hyp ->
  c_ins c = c_del c -> c_del c = c_sub c -> 0 < c_sub c ->
  nth n (error_rate c N ref hyp) (Lit 0)
  = spec_value (c_norm c) 1 1 1
      (denote (c_eos c) (c_incl c) (seq_of (c_bf c) n ref))
      (denote (c_eos c) (c_incl c) (seq_of (c_bf c) n hyp)).
Proof. exact error_rate_uniform_is_levenshtein. Qed.
Print Assumptions c02_error_rate_uniform_is_levenshtein.

(* mechanism 2: "With normalisation it is that count divided by the reference length, with an
   empty reference scoring 0 when the hypothesis is also empty and 1 otherwise" *)
Theorem c02_error_rate_norm : forall c N ref hyp n,
  (n < N)%nat -> wf_tensor (c_bf c) N ref -> wf_tensor (c_bf c) N hyp -> c_norm c = true ->
  match length (denote (c_eos c) (c_incl c) (seq_of (c_bf c) n ref)) with
  | O => nth n (error_rate c N ref hyp) (Lit 0)
         = Lit (if (0 <? length (denote (c_eos c) (c_incl c) (seq_of (c_bf c) n hyp)))%nat
                then 1 else 0)
  | S _ => exists m,
      nth n (error_rate c N ref hyp) (Lit 0)
      = Ratio m (length (denote (c_eos c) (c_incl c) (seq_of (c_bf c) n ref)))
      /\ er_spec (c_ins c) (c_del c) (c_sub c)
           (denote (c_eos c) (c_incl c) (seq_of (c_bf c) n ref))
           (denote (c_eos c) (c_incl c) (seq_of (c_bf c) n hyp)) m
  end.
Proof. exact error_rate_norm. Qed.
Print Assumptions c02_error_rate_norm.

(* "the per-prefix variant gives the same for each hypothesis prefix, padded past the
   hypothesis's length" - every entry of the table, both layouts, norm or not, exclude_last
   or not; [spec_er_val] is the judgement of the two theorems above (count of a minimum-cost
   alignment of the reference with that prefix, normalised with the empty-reference rule) *)
Theorem c02_prefix_error_rates_correct : forall c N ref hyp n k,
  (n < N)%nat -> wf_tensor (c_bf c) N ref -> wf_tensor (c_bf c) N hyp ->
  (k < time_len (c_bf c) hyp + (if c_excl c then 0 else 1))%nat ->
  let v := entry (c_bf c) k n (prefix_error_rates c N ref hyp) in
  if (k <? length (denote (c_eos c) (c_incl c) (seq_of (c_bf c) n hyp))
          + (if c_excl c then 0 else 1))%nat
  then spec_er_val (c_norm c) (c_ins c) (c_del c) (c_sub c)
         (denote (c_eos c) (c_incl c) (seq_of (c_bf c) n ref))
         (firstn k (denote (c_eos c) (c_incl c) (seq_of (c_bf c) n hyp))) v
  else v = Lit (c_pad c).
Proof. exact prefix_error_rates_correct. Qed.
Print Assumptions c02_prefix_error_rates_correct.

(* ---- mechanism 3: "The minimum-error-rate loss equals the softmax-weighted (optionally
        mean-subtracted) error rates of the supplied samples" ------------------------------
   w = softmax(log_probs, 1) is an input.  [seq3_of bf n m hyp] is sample m of batch element
   n in either layout, [ref_seq] its reference (row n of a 2-D ref, entry (n, m) of a 3-D
   one); [er_nm n m] is the model's error rate for exactly that pair, [mu_n n] the mean over
   the M samples of element n, [loss_nm n m] = (er_nm n m [- mu_n n]) * w[n][m], [loss_mat]
   the N x M matrix of these.  So the flattening n*M + m, the expansion of a 2-D reference and
   .view(N, M) line up in both layouts, for every reduction. *)
Theorem c02_mer_loss_formula : forall c sub_avg N M w ref hyp,
  (2 <= M)%nat -> wf3 (c_bf c) N M hyp -> wf_ref (c_bf c) N M ref -> wf_w N M w ->
  forall red,
  mer_loss c sub_avg red N M w ref hyp =
  match red with
  | RNone => MMat (loss_mat c sub_avg N M w ref hyp)
  | RSum => MScalar (qsum (map qsum (loss_mat c sub_avg N M w ref hyp)))
  | RMean => MScalar (qsum (map qsum (loss_mat c sub_avg N M w ref hyp)) / (Z.of_nat (N * M) # 1))
  end.
Proof. exact mer_loss_formula. Qed.
Print Assumptions c02_mer_loss_formula.

(* the error rate entering the loss for sample (n, m) is one the property admits for it *)
Theorem c02_mer_er_allowed : forall c ref hyp n m,
  spec_er_val (c_norm c) (c_ins c) (c_del c) (c_sub c)
    (denote (c_eos c) (c_incl c) (ref_seq (c_bf c) n m ref))
    (denote (c_eos c) (c_incl c) (seq3_of (c_bf c) n m hyp))
    (pair_er c (ref_seq (c_bf c) n m ref) (seq3_of (c_bf c) n m hyp)).
Proof. exact mer_er_allowed. Qed.
Print Assumptions c02_mer_er_allowed.

(* "all (N, M>=2) sample sets": fewer than two samples is an error *)
Theorem c02_mer_loss_too_few_samples : forall c sub_avg red N M w ref hyp,
  (M < 2)%nat -> mer_loss c sub_avg red N M w ref hyp = MErr.
Proof. exact mer_loss_too_few_samples. Qed.
Print Assumptions c02_mer_loss_too_few_samples.

(* the judgement of an observed loss that the harness applies on a disagreement: it accepts
   exactly when SOME matrix E of admitted error rates (one admissible value per sample,
   [adm_vals] = counts of minimum-cost alignments, normalised with the empty-reference rule)
   makes the declarative formula [spec_loss] (w * (E - row mean)) match within the tolerance *)
Theorem c02_spec_mer_core_iff : forall eos incl norm ci cd cs sub_avg red M pairs W tol obs,
  (2 <= M)%nat ->
  spec_mer_core eos incl norm ci cd cs sub_avg red M pairs W tol obs = true <->
  exists E, allowed_rates eos incl norm ci cd cs pairs E
            /\ loss_close red (length pairs * M) (spec_loss sub_avg M E W) tol obs = true.
Proof. exact spec_mer_core_iff. Qed.
Print Assumptions c02_spec_mer_core_iff.

Theorem c02_adm_vals_iff : forall eos incl norm ci cd cs rh q,
  In q (adm_vals eos incl norm ci cd cs rh) <->
  let r := denote eos incl (fst rh) in
  let h := denote eos incl (snd rh) in
  if norm then
    match length r with
    | O => q = (if (0 <? length h)%nat then 1%Q else 0%Q)
    | S _ => exists m, er_spec ci cd cs r h m /\ q = ((m # 1) / (Z.of_nat (length r) # 1))%Q
    end
  else exists m, er_spec ci cd cs r h m /\ q = (m # 1).
Proof. exact adm_vals_iff. Qed.
Print Assumptions c02_adm_vals_iff.

(* non-vacuity: a ragged batch-first batch with eos = 9 (eos at position 0 = empty reference,
   garbage after eos, a hypothesis without eos), unequal costs (3/4, 1/4, 1) for which
   minimum-cost alignments with different numbers of edits exist; the code's tie-breaking
   returns the largest admissible count for pair 0 ({2,3} -> 3), a middle one for pair 2
   ({3,4,5} under costs (1/4, 3/4, 1) -> 4); the hypotheses of the theorems hold *)
Example c02_nonvacuous :
  let c := mkCfg (Some 9) false false true 3 1 4 (-100) false in
  let ref := [[1; 1; 2; 9; 5]; [9; 1; 1; 9; 9]; [1; 2; 0; 0; 9]] in
  let hyp := [[2; 1; 9; 7]; [2; 2; 2; 2]; [0; 2; 1; 9]] in
  wf_tensor (c_bf c) 3 ref /\ wf_tensor (c_bf c) 3 hyp
  /\ denote (c_eos c) (c_incl c) (seq_of true 0 ref) = [1; 1; 2]
  /\ denote (c_eos c) (c_incl c) (seq_of true 1 ref) = []
  /\ denote (c_eos c) (c_incl c) (seq_of true 1 hyp) = [2; 2; 2; 2]
  /\ opt_counts 3 1 4 [1; 1; 2] [2; 1] = [3; 2]
  /\ error_rate c 3 ref hyp = [Cost 3; Cost 4; Cost 4]
  /\ opt_counts 1 3 4 [1; 2; 0; 0] [0; 2; 1] = [5; 4; 3]
  /\ error_rate (mkCfg (Some 9) false true true 1 3 4 0 false) 3 ref hyp
     = [Ratio 3 3; Lit 1; Ratio 4 4]
  /\ prefix_error_rates (mkCfg (Some 9) true false true 3 1 4 (-100) true) 3 ref hyp
     = [[Cost 4; Cost 3; Cost 3; Lit (-100)]; [Cost 1; Cost 1; Cost 2; Cost 3];
        [Cost 5; Cost 4; Cost 4; Cost 4]]
  /\ mer_loss (mkCfg (Some 9) false true true 3 1 4 0 false) true RNone 1 2
       [[1 # 4; 3 # 4]] (inl [[1; 1; 2; 9]]) [[[2; 1; 9]; [1; 1; 2]]]
     = MMat (loss_mat (mkCfg (Some 9) false true true 3 1 4 0 false) true 1 2
               [[1 # 4; 3 # 4]] (inl [[1; 1; 2; 9]]) [[[2; 1; 9]; [1; 1; 2]]]).
Proof.
  cbv zeta.
  split; [split; [reflexivity|exists 5%nat; intros row [<-|[<-|[<-|[]]]]; reflexivity]|].
  split; [split; [reflexivity|exists 4%nat; intros row [<-|[<-|[<-|[]]]]; reflexivity]|].
  repeat (split; [vm_compute; reflexivity|]). vm_compute; reflexivity.
Qed.

(* =====================================================================================================================
   SOURCE TIE (DESIGN.md section 10; notes/C02_tie_report.md).  The statements below are about the Python text of
   src/pydrobert/torch/_string.py::_string_matching in the configuration `error_rate` calls it with (return_mistakes =
   True: the parallel `mistakes` table, substitution winning ties through `>=`, the in-place sequential deletion loop,
   the final gather, mult / norm) and about `error_rate` itself, as translated to MiniPy terms on every run
   (PV.Gen.C02Src, harness/py2coq, unit C02Src) and interpreted by PV.MiniPy.Interp with the torch calls given the
   meaning of PV.MiniTorch.OpsC01 / OpsC02 / OpsC07 (SrcRun.ext02 = C01's ext01 + three operations).  Costs: integers
   ci cd cs over ANY common denominator s (the float cost is c / s: every triple of rationals, uniform or not); the cost
   row is kept over s, the mistakes over 1 ([zf s v] = the float v / s).  No hypothesis beyond what a matrix is
   ([wf_src]), 0 < N, and - with an eos - non-zero widths (torch.max over an empty dimension raises).
   ===================================================================================================================== *)
From PV Require MiniPy.Interp MiniTorch.OpsC07 MiniTorch.OpsC01 C01.TieLib C01.TieMath C02.SrcRun C02.TieMath C02.TieLoop C02.TieWhole C02.Tie.

(* priority 1: ONE EXECUTION OF THE LOOP BODY (PV.Gen.C02Src.er_loop's body, hyp_idx = k) on a state that holds the
   error_rate configuration, the tensors ref (R x N), hyp (H x N), hyp_lens, the costs, the cost row lf / s and the
   mistakes table mf (both R+1 x N) runs to a state of the same kind whose two tables are, in EVERY column n, exactly
   Model.step_rm of that column - candidates with substitution winning ties, the sequential deletion sweep with deletion
   only when strictly cheaper, freezing by not_done - for both tables at once *)
Theorem c02_source_loop_body_is_step_rm :
  forall (s : positive) (ci cd cs : Z) (R N H : nat) (rf hf : nat -> nat -> Z) (hl : nat -> nat)
         (vrl vmult vnorm vwarn : MiniPy.Syntax.val) (st : MiniPy.Interp.state) (k : nat) (lf mf : nat -> nat -> Z),
  (1 <= k <= H)%nat ->
  C02.TieLoop.body_pre s ci cd cs R N H rf hf hl vrl vmult vnorm vwarn lf mf st ->
  C01.TieLib.runs_to
    (C02.TieLoop.body_pre s ci cd cs R N H rf hf hl vrl vmult vnorm vwarn
       (fun i n => nth i (fst (step_rm ci cd cs (C02.TieLoop.colf R rf n) (C02.TieLoop.colf H hf n) (hl n) false k
                                 (C02.TieLoop.colf (S R) lf n, C02.TieLoop.colf (S R) mf n))) 0)
       (fun i n => nth i (snd (step_rm ci cd cs (C02.TieLoop.colf R rf n) (C02.TieLoop.colf H hf n) (hl n) false k
                                 (C02.TieLoop.colf (S R) lf n, C02.TieLoop.colf (S R) mf n))) 0))
    (C02.Tie.run_loop_body k st).
Proof. exact C02.Tie.loop_body_is_step_rm. Qed.
Print Assumptions c02_source_loop_body_is_step_rm.

(* priority 2: THE `for hyp_idx in range(1, max_hyp_steps + 1)` STATEMENT: H iterations of step_rm in every column *)
Theorem c02_source_loop_is_rm_loop :
  forall (s : positive) (ci cd cs : Z) (R N H : nat) (rf hf : nat -> nat -> Z) (hl : nat -> nat)
         (vrl vmult vnorm vwarn : MiniPy.Syntax.val) (st : MiniPy.Interp.state) (lf mf : nat -> nat -> Z),
  C02.TieLoop.body_pre s ci cd cs R N H rf hf hl vrl vmult vnorm vwarn lf mf st -> C02.Tie.max_hyp_steps_is H st ->
  C01.TieLib.runs_to
    (C02.TieLoop.body_pre s ci cd cs R N H rf hf hl vrl vmult vnorm vwarn
       (fun i n => nth i (fst (C02.TieMath.iter_rm ci cd cs (C02.TieLoop.colf R rf n) (C02.TieLoop.colf H hf n) (hl n) H 1
                                 (C02.TieLoop.colf (S R) lf n, C02.TieLoop.colf (S R) mf n))) 0)
       (fun i n => nth i (snd (C02.TieMath.iter_rm ci cd cs (C02.TieLoop.colf R rf n) (C02.TieLoop.colf H hf n) (hl n) H 1
                                 (C02.TieLoop.colf (S R) lf n, C02.TieLoop.colf (S R) mf n))) 0))
    (C02.Tie.run_loop st).
Proof. exact C02.Tie.loop_is_rm_loop. Qed.
Print Assumptions c02_source_loop_is_rm_loop.

(* priorities 3-4: THE WHOLE CALL.  The blocks er_pre; er_row0; er_main; er_fin, run in sequence on the arguments of the
   call error_rate makes (ref / hyp as handed over: N rows of width R / H when batch_first, else R / H rows of width N;
   any eos, include_eos, norm, batch_first, warn; costs c / s, uniform - the shortcut into C01's cost table on unit
   costs - or not - the mistakes table), return the tensor of Model.error_rate, entry for entry: Cost m as the float m,
   Ratio m d as m / d, Lit z as z ([model_tensor]) *)
Theorem c02_source_error_rate_is_model :
  forall (s : positive) (c : cfg) (N R H : nat) (ref hyp : list (list Z)) (w : bool) (pad : Z),
  (0 < N)%nat -> C02.Tie.wf_src (c_bf c) N R ref -> C02.Tie.wf_src (c_bf c) N H hyp ->
  (c_eos c <> None -> R <> 0%nat /\ H <> 0%nat) ->
  exists st', C02.Tie.run_error_rate s c N ref hyp w pad
              = MiniPy.Interp.Ok
                  (MiniTorch.OpsC01.enc_x
                     (MiniTorch.OpsC07.mkTn [N] (map (C02.TieWhole.val_fx 1) (error_rate c N ref hyp)))) st'.
Proof. exact C02.Tie.error_rate_is_model. Qed.
Print Assumptions c02_source_error_rate_is_model.

(* THE WHOLE BODY OF THE FUNCTION AS ONE TERM (Gen.C02Src.er_body, every statement of _string_matching) *)
Theorem c02_source_string_matching_is_model :
  forall (s : positive) (c : cfg) (N R H : nat) (ref hyp : list (list Z)) (w : bool) (pad : Z),
  (0 < N)%nat -> C02.Tie.wf_src (c_bf c) N R ref -> C02.Tie.wf_src (c_bf c) N H hyp ->
  (c_eos c <> None -> R <> 0%nat /\ H <> 0%nat) ->
  exists st', C02.Tie.run_string_matching s c N ref hyp w pad
              = MiniPy.Interp.Ok
                  (MiniTorch.OpsC01.enc_x
                     (MiniTorch.OpsC07.mkTn [N] (map (C02.TieWhole.val_fx 1) (error_rate c N ref hyp)))) st'.
Proof. exact C02.Tie.string_matching_is_model. Qed.
Print Assumptions c02_source_string_matching_is_model.

(* THE WRAPPER: the body of `error_rate` (Gen.C02Src.er_wrap), whose call `_string_matching(ref, .., warn, norm=norm,
   return_mistakes=True)` binds the parameters in Python's way (positionals, keywords, the remaining defaults evaluated
   in the module's globals) and runs er_body *)
Theorem c02_source_error_rate_wrapper_is_model :
  forall (s : positive) (c : cfg) (N R H : nat) (ref hyp : list (list Z)) (w : bool),
  (0 < N)%nat -> C02.Tie.wf_src (c_bf c) N R ref -> C02.Tie.wf_src (c_bf c) N H hyp ->
  (c_eos c <> None -> R <> 0%nat /\ H <> 0%nat) ->
  exists st', C02.Tie.run_error_rate_wrapper s c N ref hyp w
              = MiniPy.Interp.Ok
                  (MiniTorch.OpsC01.enc_x
                     (MiniTorch.OpsC07.mkTn [N] (map (C02.TieWhole.val_fx 1) (error_rate c N ref hyp)))) st'.
Proof. exact C02.Tie.error_rate_wrapper_is_model. Qed.
Print Assumptions c02_source_error_rate_wrapper_is_model.

(* the executables the harness evaluates on the cases of every run ARE these runs *)
Theorem c02_source_src_er_is_model :
  forall (c : cfg) (scale : Z) (N R H : nat) (ref hyp : list (list Z)),
  (0 < N)%nat -> C02.Tie.wf_src (c_bf c) N R ref -> C02.Tie.wf_src (c_bf c) N H hyp ->
  (c_eos c <> None -> R <> 0%nat /\ H <> 0%nat) ->
  C02.SrcRun.src_er C02.SrcRun.er_blocks c scale N ref hyp = Some (Some (map (C02.TieWhole.val_fx 1) (error_rate c N ref hyp))) /\
  C02.SrcRun.src_er Gen.C02Src.er_body c scale N ref hyp = Some (Some (map (C02.TieWhole.val_fx 1) (error_rate c N ref hyp))) /\
  C02.SrcRun.src_er_wrap c scale N ref hyp = Some (Some (map (C02.TieWhole.val_fx 1) (error_rate c N ref hyp))).
Proof. exact C02.Tie.src_er_is_model. Qed.
Print Assumptions c02_source_src_er_is_model.

(* composed with c02_error_rate_optimal_alignment - a statement purely about the interpreted source of `error_rate`:
   without normalisation entry n of the returned tensor is the number of insertions, deletions and substitutions
   ([edits]) of a script that turns reference n into hypothesis n (each cut at its first eos) at minimum weighted cost *)
Theorem c02_source_error_rate_counts_optimal_alignment :
  forall (s : positive) (c : cfg) (N R H : nat) (ref hyp : list (list Z)) (w : bool),
  (0 < N)%nat -> C02.Tie.wf_src (c_bf c) N R ref -> C02.Tie.wf_src (c_bf c) N H hyp ->
  (c_eos c <> None -> R <> 0%nat /\ H <> 0%nat) -> c_norm c = false ->
  exists out st',
    C02.Tie.run_error_rate_wrapper s c N ref hyp w
    = MiniPy.Interp.Ok (MiniTorch.OpsC01.enc_x (MiniTorch.OpsC07.mkTn [N] out)) st' /\
    length out = N /\
    forall n, (n < N)%nat ->
      exists m sc,
        nth n out MiniTorch.OpsC01.FNaN = C01.TieMath.zf 1 m
        /\ transforms sc (denote (c_eos c) (c_incl c) (seq_of (c_bf c) n ref))
                         (denote (c_eos c) (c_incl c) (seq_of (c_bf c) n hyp))
        /\ (forall s', transforms s' (denote (c_eos c) (c_incl c) (seq_of (c_bf c) n ref))
                                     (denote (c_eos c) (c_incl c) (seq_of (c_bf c) n hyp)) ->
                       cost (c_ins c) (c_del c) (c_sub c) sc <= cost (c_ins c) (c_del c) (c_sub c) s')
        /\ edits sc = m.
Proof. exact C02.Tie.error_rate_counts_optimal_alignment. Qed.
Print Assumptions c02_source_error_rate_counts_optimal_alignment.

(* composed with c02_error_rate_norm: with normalisation the count of a minimum-cost alignment divided by the reference
   length; an empty reference scores 0 when the hypothesis is empty as well and 1 otherwise *)
Theorem c02_source_error_rate_normalised :
  forall (s : positive) (c : cfg) (N R H : nat) (ref hyp : list (list Z)) (w : bool),
  (0 < N)%nat -> C02.Tie.wf_src (c_bf c) N R ref -> C02.Tie.wf_src (c_bf c) N H hyp ->
  (c_eos c <> None -> R <> 0%nat /\ H <> 0%nat) -> c_norm c = true ->
  exists out st',
    C02.Tie.run_error_rate_wrapper s c N ref hyp w
    = MiniPy.Interp.Ok (MiniTorch.OpsC01.enc_x (MiniTorch.OpsC07.mkTn [N] out)) st' /\
    length out = N /\
    forall n, (n < N)%nat ->
      let r := denote (c_eos c) (c_incl c) (seq_of (c_bf c) n ref) in
      let h := denote (c_eos c) (c_incl c) (seq_of (c_bf c) n hyp) in
      match length r with
      | O => nth n out MiniTorch.OpsC01.FNaN = MiniTorch.OpsC01.z2f (if (0 <? length h)%nat then 1 else 0)
      | S _ => exists m,
          nth n out MiniTorch.OpsC01.FNaN
          = MiniTorch.OpsC01.Fq (Qred (MiniTorch.LemmasC01.qz 1 m / inject_Z (Z.of_nat (length r))))
          /\ er_spec (c_ins c) (c_del c) (c_sub c) r h m
      end.
Proof. exact C02.Tie.error_rate_normalised. Qed.
Print Assumptions c02_source_error_rate_normalised.

(* non-vacuity: the batch of c02_nonvacuous (batch-first, eos = 9, costs 3/4, 1/4, 1: minimum-cost alignments with
   different numbers of edits exist) meets the hypotheses, and the interpreted source - blocks, whole body, wrapper -
   returns 3, 4, 4; with norm and costs 1/4, 3/4, 1 it returns 3/3, 1 (empty reference), 4/4 *)
Example c02_source_nonvacuous :
  let c := mkCfg (Some 9) false false true 3 1 4 (-100) false in
  let c' := mkCfg (Some 9) false true true 1 3 4 0 false in
  let ref := [[1; 1; 2; 9; 5]; [9; 1; 1; 9; 9]; [1; 2; 0; 0; 9]] in
  let hyp := [[2; 1; 9; 7]; [2; 2; 2; 2]; [0; 2; 1; 9]] in
  let f := fun z => MiniTorch.OpsC01.Fq (inject_Z z) in
  C02.Tie.wf_src (c_bf c) 3 5 ref /\ C02.Tie.wf_src (c_bf c) 3 4 hyp /\
  C02.SrcRun.src_er C02.SrcRun.er_blocks c 4 3 ref hyp = Some (Some [f 3; f 4; f 4]) /\
  C02.SrcRun.src_er Gen.C02Src.er_body c 4 3 ref hyp = Some (Some [f 3; f 4; f 4]) /\
  C02.SrcRun.src_er_wrap c 4 3 ref hyp = Some (Some [f 3; f 4; f 4]) /\
  C02.SrcRun.src_er_wrap c' 4 3 ref hyp = Some (Some [f 1; f 1; f 1]).
Proof.
  cbv zeta. split; [split; [reflexivity|intros row [<-|[<-|[<-|[]]]]; reflexivity]|].
  split; [split; [reflexivity|intros row [<-|[<-|[<-|[]]]]; reflexivity]|].
  repeat split; vm_compute; reflexivity.
Qed.

(* =====================================================================================================================
   SECOND SOURCE TIE (notes/C02_tie_report.md, section "Second tie"): `minimum_error_rate_loss`.  The statements below are
   about the Python text of src/pydrobert/torch/_string.py::minimum_error_rate_loss as translated to MiniPy terms on every
   run (PV.Gen.C02BSrc.mer_body = the whole body; mer_pre / mer_tail = its two consecutive blocks; unit C02BSrc) and
   interpreted by PV.MiniPy.Interp under C02.SrcRunB.extB: the torch calls mean what PV.MiniTorch.OpsC02B (repeat, size,
   mean, sum, the slice of a shape tuple), OpsC07.view (reshape / view) and the operations of the first tie say; the call
   `error_rate(ref, hyp, eos=.., ..)` is the run of the OTHER translated function (Gen.C02Src.er_wrap, which runs the
   translated _string_matching), tied above; `torch.nn.functional.softmax(log_probs, 1)` is an ORACLE whose values are
   the data w (N rows of M weights, as for Model.mer_loss) - the contents [lpd] of log_probs are arbitrary.
   [C02.TieB.run_mer w s c sub_avg red N M R H lpd ref hyp warn] = the interpreted call on log_probs (N x M), ref = a
   2-D (inl: N x R | R x N) or 3-D (inr: N x M x R | R x N x M) tensor, hyp (N x M x H | H x N x M), costs c / s,
   reduction red.  Hypotheses: what the tensors ARE ([wf_ref_src], [wf3_src], [wf_w]), 0 < N, and NON-ZERO WIDTHS R, H:
   with a zero width `ref.reshape(-1, 0)` / `hyp.reshape(0, -1)` raises in torch (OpsC07.view: None), a case outside
   the input space of the property's correspondence.
   ===================================================================================================================== *)
From PV Require C02.SrcRunB C02.TieBMath C02.TieB.

(* THE WHOLE BODY, M >= 2: every statement of minimum_error_rate_loss - the rank checks, the sizes from hyp.shape, the
   expansion of a 2-D reference (unsqueeze + repeat) in both layouts, the shape checks, the flattening of ref and hyp,
   the call of error_rate, .view(batch_size, samples), the mean subtraction, the product with the softmax, the reduction -
   returns the tensor of Model.mer_loss ([mres_tensor]: MMat rows as the (N, M) tensor of the rationals in lowest terms,
   MScalar q as the 0-dimensional tensor), for 2-D and 3-D references, sub_avg and the three reductions *)
Theorem c02_source_mer_loss_is_model :
  forall (w : list (list Q)) (s : positive) (c : cfg) (sub_avg : bool) (red : reduction) (N M R H : nat)
         (lpd : list MiniTorch.OpsC01.fx) (ref : list (list Z) + list (list (list Z))) (hyp : list (list (list Z))) (warn : bool),
  (0 < N)%nat -> (2 <= M)%nat -> R <> 0%nat -> H <> 0%nat ->
  C02.TieB.wf_ref_src (c_bf c) N M R ref -> C02.TieB.wf3_src (c_bf c) N M H hyp -> wf_w N M w ->
  exists st', C02.TieB.run_mer w s c sub_avg red N M R H lpd ref hyp warn
              = MiniPy.Interp.Ok
                  (MiniTorch.OpsC01.enc_x (C02.TieBMath.mres_tensor N M (mer_loss c sub_avg red N M w ref hyp))) st'.
Proof. exact C02.TieB.mer_is_model. Qed.
Print Assumptions c02_source_mer_loss_is_model.

(* the same for the two blocks mer_pre; mer_tail run in sequence *)
Theorem c02_source_mer_loss_blocks_is_model :
  forall (w : list (list Q)) (s : positive) (c : cfg) (sub_avg : bool) (red : reduction) (N M R H : nat)
         (lpd : list MiniTorch.OpsC01.fx) (ref : list (list Z) + list (list (list Z))) (hyp : list (list (list Z))) (warn : bool),
  (0 < N)%nat -> (2 <= M)%nat -> R <> 0%nat -> H <> 0%nat ->
  C02.TieB.wf_ref_src (c_bf c) N M R ref -> C02.TieB.wf3_src (c_bf c) N M H hyp -> wf_w N M w ->
  exists st', C02.TieB.run_mer_blocks w s c sub_avg red N M R H lpd ref hyp warn
              = MiniPy.Interp.Ok
                  (MiniTorch.OpsC01.enc_x (C02.TieBMath.mres_tensor N M (mer_loss c sub_avg red N M w ref hyp))) st'.
Proof. exact C02.TieB.mer_blocks_is_model. Qed.
Print Assumptions c02_source_mer_loss_blocks_is_model.

(* THE RAISE PATH: fewer than two samples (M = 0 or 1, any N) - the interpreted source raises RuntimeError (after the
   flattening, at "if samples < 2"), exactly when Model.mer_loss is MErr *)
Theorem c02_source_mer_loss_too_few_samples :
  forall (w : list (list Q)) (s : positive) (c : cfg) (sub_avg : bool) (red : reduction) (N M R H : nat)
         (lpd : list MiniTorch.OpsC01.fx) (ref : list (list Z) + list (list (list Z))) (hyp : list (list (list Z))) (warn : bool),
  (M < 2)%nat -> R <> 0%nat -> H <> 0%nat ->
  C02.TieB.wf_ref_src (c_bf c) N M R ref -> C02.TieB.wf3_src (c_bf c) N M H hyp ->
  (exists st', C02.TieB.run_mer w s c sub_avg red N M R H lpd ref hyp warn = MiniPy.Interp.Exc C01.SrcRun.runtime_error st') /\
  (exists st', C02.TieB.run_mer_blocks w s c sub_avg red N M R H lpd ref hyp warn = MiniPy.Interp.Exc C01.SrcRun.runtime_error st') /\
  mer_loss c sub_avg red N M w ref hyp = MErr.
Proof. exact C02.TieB.mer_raises. Qed.
Print Assumptions c02_source_mer_loss_too_few_samples.

(* composed with c02_mer_loss_formula and c02_mer_er_allowed - a statement purely about the interpreted source: with
   reduction = "none" entry (n, m) of the returned (N, M) tensor is  (er[n,m] - mean_m' er[n,m']) * w[n,m]  (er[n,m] * w[n,m]
   when sub_avg is off), in lowest terms, where every er[n,m] is an error rate the property admits for sample m of batch
   element n against its reference (row n of a 2-D ref / entry (n, m) of a 3-D one; both cut at the first eos): the edit
   count of a minimum-cost alignment, normalised with the empty-reference rule when norm is on.  So the flattening n*M + m,
   the expansion of a 2-D reference and .view(N, M) line up in both layouts - in the source text *)
Theorem c02_source_mer_loss_entries :
  forall (w : list (list Q)) (s : positive) (c : cfg) (sub_avg : bool) (N M R H : nat)
         (lpd : list MiniTorch.OpsC01.fx) (ref : list (list Z) + list (list (list Z))) (hyp : list (list (list Z))) (warn : bool),
  (0 < N)%nat -> (2 <= M)%nat -> R <> 0%nat -> H <> 0%nat ->
  C02.TieB.wf_ref_src (c_bf c) N M R ref -> C02.TieB.wf3_src (c_bf c) N M H hyp -> wf_w N M w ->
  exists (er : nat -> nat -> Q) out st',
    C02.TieB.run_mer w s c sub_avg RNone N M R H lpd ref hyp warn
    = MiniPy.Interp.Ok (MiniTorch.OpsC01.enc_x (MiniTorch.OpsC07.mkTn [N; M] out)) st' /\
    length out = (N * M)%nat /\
    (forall n m, (n < N)%nat -> (m < M)%nat ->
       let mean := (qsum (map (er n) (seq 0 M)) / (Z.of_nat M # 1))%Q in
       nth (n * M + m) out MiniTorch.OpsC01.FNaN
       = C02.SrcRunB.qfx ((if sub_avg then er n m - mean else er n m) * nth m (nth n w []) 0)%Q) /\
    (forall n m,
       exists v, er n m = val_q v /\
         spec_er_val (c_norm c) (c_ins c) (c_del c) (c_sub c)
           (denote (c_eos c) (c_incl c) (ref_seq (c_bf c) n m ref))
           (denote (c_eos c) (c_incl c) (seq3_of (c_bf c) n m hyp)) v).
Proof. exact C02.TieB.mer_loss_entries. Qed.
Print Assumptions c02_source_mer_loss_entries.

(* non-vacuity: the loss example of c02_nonvacuous (batch-first, 2-D reference, eos = 9, costs 3/4, 1/4, 1, norm, sub_avg)
   and a time-major 3-D one meet the hypotheses; the interpreted source - whole body and blocks, as the harness runs them
   (SrcRunB.src_mer) - returns ((1 - 1/2) * 1/4, (0 - 1/2) * 3/4) = (1/8, -3/8), resp. the mean 1/4 * 1/4 + 1/2 * 3/8 ... of
   Model.mer_loss; with one sample it raises *)
Example c02_source_mer_nonvacuous :
  let c := mkCfg (Some 9) false true true 3 1 4 0 false in
  let c' := mkCfg (Some 9) false true false 3 1 4 0 false in
  let w := [[1 # 4; 3 # 4]] in
  let ref := inl [[1; 1; 2; 9]] in
  let hyp := [[[2; 1; 9]; [1; 1; 2]]] in
  let ref' := inr [[[1; 1]]; [[1; 2]]; [[2; 9]]; [[9; 9]]] in
  let hyp' := [[[2; 1]]; [[1; 1]]; [[9; 2]]] in
  C02.TieB.wf_ref_src (c_bf c) 1 2 4 ref /\ C02.TieB.wf3_src (c_bf c) 1 2 3 hyp /\ wf_w 1 2 w /\
  C02.TieB.wf_ref_src (c_bf c') 1 2 4 ref' /\ C02.TieB.wf3_src (c_bf c') 1 2 3 hyp' /\
  mer_loss c true RNone 1 2 w ref hyp = MMat [[27 # 216; -81 # 216]] /\
  C02.SrcRunB.src_mer Gen.C02BSrc.mer_body c 4 true RNone 1 2 w ref hyp = Some (MMat [[1 # 8; -3 # 8]]) /\
  C02.SrcRunB.src_mer C02.SrcRunB.mer_blocks c 4 true RNone 1 2 w ref hyp = Some (MMat [[1 # 8; -3 # 8]]) /\
  C02.SrcRunB.src_mer Gen.C02BSrc.mer_body c' 4 false RNone 1 2 w ref' hyp' = Some (MMat [[1 # 4; 3 # 8]]) /\
  C02.SrcRunB.src_mer Gen.C02BSrc.mer_body c' 4 false RSum 1 2 w ref' hyp' = Some (MScalar (5 # 8)) /\
  C02.SrcRunB.src_mer Gen.C02BSrc.mer_body c' 4 false RNone 1 1 [[1 # 4]] (inr [[[1]]; [[1]]; [[2]]; [[9]]]) [[[2]]; [[1]]; [[9]]]
    = Some MErr.
Proof.
  cbv zeta.
  split; [split; [reflexivity|intros row [<-|[]]; reflexivity]|].
  split; [split; [reflexivity|intros row [<-|[]]; split; [reflexivity|intros r [<-|[<-|[]]]; reflexivity]]|].
  split; [split; [reflexivity|intros row [<-|[]]; reflexivity]|].
  split; [split; [reflexivity|intros pl [<-|[<-|[<-|[<-|[]]]]]; (split; [reflexivity|intros r [<-|[]]; reflexivity])]|].
  split; [split; [reflexivity|intros pl [<-|[<-|[<-|[]]]]; (split; [reflexivity|intros r [<-|[]]; reflexivity])]|].
  repeat split; vm_compute; reflexivity.
Qed.
