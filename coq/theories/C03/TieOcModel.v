(* C03 - the closed forms TieOc.v reads off the interpreted post-processing of `optimal_completion` ARE the model's
   (PV.C03.Model): the sort of the reference column is sort_idx / sorted_ref, the propagated, gathered and de-duplicated mask
   is final_mask, the selected tokens are the concatenation of the cells' masked_select, the counts and the width are
   oc_counts / oc_width, and the flat masked_scatter_ succeeds and places every cell's tokens at the start of its row of
   padding - the tensor of Model.optimal_completion.  No interpreter here: lists only. *)
From Coq Require Import ZArith List Bool Arith Lia ZifyBool ZifyNat.
From PV Require Import MiniTorch.Ops MiniTorch.Lemmas MiniTorch.OpsC07 MiniTorch.LemmasC07 MiniTorch.OpsC01 MiniTorch.LemmasC01
  MiniTorch.OpsC03 MiniTorch.LemmasC03.
From PV Require Import C03.TieOc.
From PV Require C01.Model C01.Proofs C03.Model C03.ProofsSelect C03.ProofsTop C03.ProofsMask.
Import ListNotations.
Local Open Scope nat_scope.

(* ---- the sort ------------------------------------------------------------------------------------------------------ *)
Lemma insert_by_idx : forall key i l, insert_by key i l = C03.Model.insert_idx key i l.
Proof. intros key i l. induction l as [|j t IH]; [reflexivity|]. cbn [insert_by C03.Model.insert_idx]. now rewrite IH. Qed.

Lemma sort_row_idx_model : forall r, sort_row_idx r = C03.Model.sort_idx r.
Proof.
  intros r. unfold sort_row_idx, C03.Model.sort_idx. induction (seq 0 (length r)) as [|i l IH]; [reflexivity|].
  cbn [fold_right]. now rewrite IH, insert_by_idx.
Qed.

Lemma existsb_id_map : forall {A} (q : A -> bool) l, existsb (fun b => b) (map q l) = existsb q l.
Proof. intros A q l. induction l as [|a l IH]; [reflexivity|]. cbn [map existsb]. now rewrite IH. Qed.

Lemma existsb_map : forall {A B} (h : B -> bool) (p : A -> B) l, existsb h (map p l) = existsb (fun a => h (p a)) l.
Proof. intros A B h p l. induction l as [|a l IH]; [reflexivity|]. cbn [map existsb]. now rewrite IH. Qed.

Lemma combine_map_same : forall {A B C} (f : A -> B) (g : A -> C) l, combine (map f l) (map g l) = map (fun a => (f a, g a)) l.
Proof. intros A B C f g l. induction l as [|a l IH]; [reflexivity|]. cbn [map combine]. now rewrite IH. Qed.

Lemma nth0_skipn : forall {A} k (l : list A) d, nth 0 (skipn k l) d = nth k l d.
Proof. intros A k. induction k as [|k IH]; intros [|a l] d; cbn [skipn nth]; try reflexivity. apply IH. Qed.

Section Cell.
  Variables (R' : nat) (rf : nat -> nat -> Z) (mk : nat -> nat -> nat -> bool).
  Let R := S R'.

  Notation rcol := (rcolz R' rf).
  Definition mrow (k n : nat) : list bool := map (fun i => mk k i n) (seq 0 R).

  Lemma rcol_length n : length (rcol n) = R.
  Proof. unfold rcolz. now rewrite map_length, seq_length. Qed.

  Lemma mrow_length k n : length (mrow k n) = R.
  Proof. unfold mrow. now rewrite map_length, seq_length. Qed.

  Lemma sidx_lt n j : j < R -> sidx R' rf n j < R.
  Proof. intros Hj. unfold sidx. pose proof (sort_row_idx_nth_lt (rcol n) j) as Hs. rewrite rcol_length in Hs. now apply Hs. Qed.

  Lemma srefs_model n : map (sref R' rf n) (seq 0 R) = C03.Model.sorted_ref (rcol n).
  Proof.
    unfold C03.Model.sorted_ref, sref, sidx.
    assert (Ls : length (C03.Model.sort_idx (rcol n)) = R) by (now rewrite <- sort_row_idx_model, sort_row_idx_length, rcol_length).
    rewrite sort_row_idx_model.
    rewrite (list_as_map_nth (map (fun s => nth s (rcol n) 0%Z) (C03.Model.sort_idx (rcol n))) R 0%Z)
      by (now rewrite map_length).
    apply map_ext_seq. intros j Hj.
    rewrite (nth_indep (map (fun s => nth s (rcol n) 0%Z) (C03.Model.sort_idx (rcol n))) 0%Z (nth 0 (rcol n) 0%Z))
      by (now rewrite map_length, Ls).
    now rewrite (map_nth (fun s => nth s (rcol n) 0%Z)).
  Qed.

  Lemma propf_model k n a : a < R -> propf R' rf mk k n a = nth a (C03.Model.propagate (rcol n) (mrow k n)) false.
  Proof.
    intros Ha. unfold C03.Model.propagate.
    rewrite (C01.Proofs.nth_map_lt _ (rcol n) a 0%Z) by (now rewrite rcol_length).
    unfold propf, rcolz, mrow. rewrite existsb_id_map, combine_map_same, existsb_map. cbn [fst snd].
    rewrite C01.Proofs.nth_map_seq by exact Ha. reflexivity.
  Qed.

  Lemma gath_model k n j : j < R ->
    gath R' rf mk k n j = nth j (map (fun s => nth s (C03.Model.propagate (rcol n) (mrow k n)) false) (C03.Model.sort_idx (rcol n))) false.
  Proof.
    intros Hj. unfold gath. rewrite propf_model by (now apply sidx_lt). unfold sidx. rewrite sort_row_idx_model.
    rewrite (nth_indep (map (fun s => nth s (C03.Model.propagate (rcol n) (mrow k n)) false) (C03.Model.sort_idx (rcol n)))
               false (nth 0 (C03.Model.propagate (rcol n) (mrow k n)) false))
      by (now rewrite map_length, <- sort_row_idx_model, sort_row_idx_length, rcol_length).
    now rewrite (map_nth (fun s => nth s (C03.Model.propagate (rcol n) (mrow k n)) false)).
  Qed.

  Lemma fins_model k n : map (finf R' rf mk k n) (seq 0 R) = C03.Model.final_mask (rcol n) (mrow k n).
  Proof.
    unfold C03.Model.final_mask. cbv zeta.
    set (m2 := map (fun s => nth s (C03.Model.propagate (rcol n) (mrow k n)) false) (C03.Model.sort_idx (rcol n))).
    set (sr := C03.Model.sorted_ref (rcol n)).
    assert (Lm2 : length m2 = R) by (unfold m2; now rewrite map_length, <- sort_row_idx_model, sort_row_idx_length, rcol_length).
    assert (Lsr : length sr = R) by (unfold sr; now rewrite <- srefs_model, map_length, seq_length).
    assert (Hsr : forall j, j < R -> nth j sr 0%Z = sref R' rf n j).
    { intros j Hj. unfold sr. rewrite <- srefs_model. now rewrite nth_map_seq. }
    unfold C03.Model.dedup_mask.
    assert (L1 : length (C01.Model.map2 andb (removelast m2)
                           (C01.Model.map2 (fun a b => negb (a =? b)%Z) (removelast sr) (tl sr))) = R').
    { repeat (rewrite C01.Proofs.map2_length || rewrite C01.Proofs.length_removelast || rewrite C01.Proofs.length_tl).
      rewrite Lm2, Lsr. unfold R. lia. }
    apply (nth_ext _ _ false false).
    - rewrite map_length, seq_length, app_length, L1, skipn_length, Lm2. unfold R. lia.
    - intros j Hj. rewrite map_length, seq_length in Hj. rewrite nth_map_seq by exact Hj.
      unfold finf. fold R. destruct (Nat.ltb_spec j R') as [Hlt|Hge].
      + rewrite app_nth1 by (rewrite L1; exact Hlt).
        rewrite (C01.Proofs.nth_map2 andb _ _ j false false false);
          [| rewrite C01.Proofs.length_removelast, Lm2; unfold R; lia
           | repeat (rewrite C01.Proofs.map2_length || rewrite C01.Proofs.length_removelast || rewrite C01.Proofs.length_tl);
             rewrite Lsr; unfold R; lia ].
        rewrite C01.Proofs.nth_removelast by (rewrite Lm2; unfold R; lia).
        rewrite (C01.Proofs.nth_map2 _ _ _ j 0%Z 0%Z false);
          [| rewrite C01.Proofs.length_removelast, Lsr; unfold R; lia | rewrite C01.Proofs.length_tl, Lsr; unfold R; lia ].
        rewrite C01.Proofs.nth_removelast by (rewrite Lsr; unfold R; lia).
        rewrite C01.Proofs.nth_tl, !Hsr by (unfold R; lia).
        unfold m2. now rewrite <- gath_model by (unfold R; lia).
      + assert (j = R') by (unfold R in Hj; lia). subst j.
        rewrite app_nth2 by (rewrite L1; lia). rewrite L1, Nat.sub_diag, Lm2.
        replace (R - 1) with R' by (unfold R; lia).
        rewrite nth0_skipn. unfold m2. now rewrite <- gath_model by (unfold R; lia).
  Qed.
End Cell.

(* ---- masked_select / masked_scatter_ on flat data ------------------------------------------------------------------ *)
Lemma mselect_model : forall (m : list bool) (x : list Z), mselect m x = C03.Model.masked_select x m.
Proof.
  induction m as [|b m IH]; intros [|a x]; try reflexivity.
  cbn [mselect]. rewrite IH. unfold C03.Model.masked_select. cbn [combine filter snd]. destruct b; reflexivity.
Qed.

Lemma mselect_app : forall {X} (m1 m2 : list bool) (x1 x2 : list X), length m1 = length x1 ->
  mselect (m1 ++ m2) (x1 ++ x2) = mselect m1 x1 ++ mselect m2 x2.
Proof.
  intros X m1. induction m1 as [|b m1 IH]; intros m2 [|a x1] x2 HL; cbn [length] in HL; try discriminate; [reflexivity|].
  cbn [app mselect]. rewrite IH by lia. destruct b; reflexivity.
Qed.

Lemma mselect_flat_map : forall {A X} (F : A -> list bool) (G : A -> list X) l,
  (forall a, length (F a) = length (G a)) ->
  mselect (flat_map F l) (flat_map G l) = flat_map (fun a => mselect (F a) (G a)) l.
Proof.
  intros A X F G l H. induction l as [|a l IH]; [reflexivity|]. cbn [flat_map]. now rewrite mselect_app, IH by apply H.
Qed.

Lemma mselect_tab3 : forall {X} K N R (f : nat -> nat -> nat -> bool) (g : nat -> nat -> nat -> X),
  mselect (tab3 K N R f) (tab3 K N R g) =
  flat_map (fun k => flat_map (fun n => mselect (map (f k n) (seq 0 R)) (map (g k n) (seq 0 R))) (seq 0 N)) (seq 0 K).
Proof.
  intros. unfold tab3. rewrite mselect_flat_map by (intros; now rewrite !length_plane).
  apply flat_map_ext_seq. intros k Hk. apply mselect_flat_map. intros. now rewrite !length_row.
Qed.

Lemma mscatter_false : forall {X} (pad : X) n M T S,
  mscatter (repeat false n ++ M) (repeat pad n ++ T) S = option_map (app (repeat pad n)) (mscatter M T S).
Proof.
  intros X pad n M T S. induction n as [|n IH]; cbn [repeat app].
  - destruct (mscatter M T S); reflexivity.
  - cbn [mscatter]. rewrite IH. destruct (mscatter M T S); reflexivity.
Qed.

Lemma mscatter_one : forall {X} (pad : X) L C M T S, length L <= C ->
  mscatter (map (fun k => k <? length L) (seq 0 C) ++ M) (repeat pad C ++ T) (L ++ S) =
  option_map (app (L ++ repeat pad (C - length L))) (mscatter M T S).
Proof.
  intros X pad L. induction L as [|a L IH]; intros C M T S HC.
  - cbn [length app]. rewrite C03.ProofsTop.ltb0_map, Nat.sub_0_r. apply mscatter_false.
  - destruct C as [|C]; [cbn [length] in HC; lia|].
    rewrite <- cons_seq. cbn [map]. rewrite <- seq_shift, map_map.
    rewrite (map_ext _ (fun k => k <? length L)) by (intros k; reflexivity).
    change (0 <? length (a :: L)) with true.
    cbn [repeat app mscatter length Nat.sub]. rewrite IH by (cbn [length] in HC; lia).
    destruct (mscatter M T S); reflexivity.
Qed.

Lemma mscatter_rows : forall {X} (pad : X) C rows, (forall L, In L rows -> length L <= C) ->
  mscatter (concat (map (fun L => map (fun k => k <? length L) (seq 0 C)) rows)) (repeat pad (length rows * C)) (concat rows)
  = Some (concat (map (fun L => L ++ repeat pad (C - length L)) rows)).
Proof.
  intros X pad C rows. induction rows as [|L rows IH]; intros HC; [reflexivity|].
  cbn [length Nat.mul map concat]. rewrite repeat_app, mscatter_one by (apply HC; now left).
  rewrite IH by (intros L' H; apply HC; now right). reflexivity.
Qed.

(* ---- the cells in row-major order ------------------------------------------------------------------------------------- *)
Lemma flat_map_flat_map_map : forall {A B C} (F : B -> list C) (G : A -> list B) l,
  flat_map F (flat_map G l) = flat_map (fun a => flat_map F (G a)) l.
Proof. intros. induction l as [|a l IH]; [reflexivity|]. cbn [flat_map]. now rewrite flat_map_app, IH. Qed.

Lemma concat_flat_map : forall {A B} (G : A -> list (list B)) l, concat (flat_map G l) = flat_map (fun a => concat (G a)) l.
Proof. intros. induction l as [|a l IH]; [reflexivity|]. cbn [flat_map]. now rewrite concat_app, IH. Qed.

Lemma list_max_in : forall l, l <> [] -> In (list_max l) l.
Proof.
  induction l as [|a l IH]; intros H; [contradiction|]. destruct l as [|b l]; [left; cbn; lia|].
  change (list_max (a :: b :: l)) with (Nat.max a (list_max (b :: l))).
  destruct (Nat.max_spec a (list_max (b :: l))) as [[_ E]|[_ E]]; rewrite E; [right; apply IH; discriminate|now left].
Qed.

Lemma zmax_of_nat : forall l, l <> [] -> zmax_list (map Z.of_nat l) = Z.of_nat (list_max l).
Proof.
  intros l Hl. assert (Hm : map Z.of_nat l <> []) by (destruct l; [contradiction|discriminate]).
  apply Z.le_antisymm.
  - pose proof (zmax_list_in _ Hm) as Hin. apply in_map_iff in Hin as [x [Ex Hx]]. rewrite <- Ex.
    pose proof (proj1 (list_max_le l (list_max l)) (Nat.le_refl _)) as Hall. rewrite Forall_forall in Hall.
    specialize (Hall x Hx). lia.
  - apply zmax_list_ge. apply in_map. now apply list_max_in.
Qed.

Section Scatter.
  Variables (R' N K : nat) (rf : nat -> nat -> Z) (mk : nat -> nat -> nat -> bool) (pad : Z).
  Let R := S R'.
  Hypothesis HK : K <> 0.
  Hypothesis HN : N <> 0.

  (* the tokens cell (k, n) lists *)
  Definition selkn (k n : nat) : list Z := C03.ProofsSelect.pair_targets (rcolz R' rf n) (mrow R' mk k n).
  Definition sel_cells : list (list Z) := flat_map (fun k => map (selkn k) (seq 0 N)) (seq 0 K).
  Notation C := (widthf R' N K rf mk).

  Lemma sel_cells_length : length sel_cells = K * N.
  Proof. unfold sel_cells. rewrite (length_flat_map_const _ _ N) by (intros; apply length_row). now rewrite seq_length. Qed.

  Lemma sel_cells_nonempty : sel_cells <> [].
  Proof. intros E. apply (f_equal (@length (list Z))) in E. rewrite sel_cells_length in E. cbn [length] in E. nia. Qed.

  Lemma cell_select k n :
    mselect (map (finf R' rf mk k n) (seq 0 R)) (map (sref R' rf n) (seq 0 R)) = selkn k n.
  Proof. unfold R. rewrite fins_model, srefs_model, mselect_model. reflexivity. Qed.

  Lemma flatf_cells : flatf R' N K rf mk = concat sel_cells.
  Proof.
    unfold flatf, sel_cells. rewrite mselect_tab3, concat_flat_map.
    apply flat_map_ext_seq. intros k Hk. rewrite <- flat_map_concat_map. apply flat_map_ext_seq. intros n Hn.
    apply cell_select.
  Qed.

  Lemma cntf_cell k n : cntf R' rf mk k n = Z.of_nat (length (selkn k n)).
  Proof.
    unfold cntf, count_row, selkn. fold R. unfold R. rewrite fins_model, <- C03.ProofsSelect.pair_targets_count. reflexivity.
  Qed.

  Lemma counts_cells : tab2 K N (cntf R' rf mk) = map (fun L => Z.of_nat (length L)) sel_cells.
  Proof.
    unfold tab2, sel_cells. rewrite map_flat_map. apply flat_map_ext_seq. intros k Hk. rewrite map_map.
    apply map_ext_seq. intros n Hn. apply cntf_cell.
  Qed.

  Lemma width_cells : C = list_max (map (@length Z) sel_cells).
  Proof.
    unfold widthf. rewrite counts_cells, <- (map_map (@length Z) Z.of_nat), zmax_of_nat, Nat2Z.id; [reflexivity|].
    pose proof sel_cells_nonempty. destruct sel_cells; [contradiction|discriminate].
  Qed.

  Lemma cells_le L : In L sel_cells -> length L <= C.
  Proof.
    intros H. rewrite width_cells.
    pose proof (proj1 (list_max_le (map (@length Z) sel_cells) _) (Nat.le_refl _)) as Hall.
    rewrite Forall_forall in Hall. apply Hall. now apply in_map.
  Qed.

  Definition padcell (L : list Z) : list Z := L ++ repeat pad (C - length L).
  Definition outf (k n c : nat) : Z := nth c (padcell (selkn k n)) 0%Z.

  Lemma padcell_length L : In L sel_cells -> length (padcell L) = C.
  Proof. intros H. pose proof (cells_le L H). unfold padcell. rewrite app_length, repeat_length. lia. Qed.

  Lemma selkn_in k n : k < K -> n < N -> In (selkn k n) sel_cells.
  Proof.
    intros Hk Hn. unfold sel_cells. apply in_flat_map. exists k. split; [apply in_seq; lia|].
    apply in_map. apply in_seq. lia.
  Qed.

  Lemma out_cells : concat (map padcell sel_cells) = tab3 K N C outf.
  Proof.
    unfold sel_cells, tab3. rewrite <- flat_map_concat_map, flat_map_flat_map_map.
    apply flat_map_ext_seq. intros k Hk. rewrite flat_map_map. apply flat_map_ext_seq. intros n Hn.
    unfold outf. apply list_as_map_nth. apply padcell_length. apply selkn_in; lia.
  Qed.

  (* the flat masked_scatter_ succeeds and fills each cell's row: its tokens, then padding *)
  Theorem scatter_cells :
    mscatter (tab3 K N C (fun k n c => (cntf R' rf mk k n >? Z.of_nat c)%Z)) (tab3 K N C (fun _ _ _ => pad)) (flatf R' N K rf mk)
    = Some (tab3 K N C outf).
  Proof.
    rewrite flatf_cells, <- out_cells.
    replace (tab3 K N C (fun _ _ _ => pad)) with (repeat pad (length sel_cells * C))
      by (rewrite sel_cells_length, <- Nat.mul_assoc; apply repeat_tab3).
    replace (tab3 K N C (fun k n c => (cntf R' rf mk k n >? Z.of_nat c)%Z))
      with (concat (map (fun L => map (fun c => c <? length L) (seq 0 C)) sel_cells)).
    - apply mscatter_rows. exact cells_le.
    - unfold sel_cells, tab3. rewrite <- flat_map_concat_map, flat_map_flat_map_map.
      apply flat_map_ext_seq. intros k Hk. rewrite flat_map_map. apply flat_map_ext_seq. intros n Hn.
      apply map_ext_seq. intros c Hc. rewrite cntf_cell. lia.
  Qed.
End Scatter.
