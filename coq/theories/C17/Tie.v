(* C17 - source tie, composed statements: what the interpreted Python text of the two conversion workers does,
   said with the model's theorems (PV.C17.ProofsRle / ProofsDir) so that no model function is left in the
   conclusions.  Everything here follows from TieAli.ali2tok_tie / tok2ali_tie. *)
From Coq Require Import ZArith QArith List String Bool Arith Lia.
From PV Require Import C11.Model C17.Model C17.Spec C17.ProofsRle C17.ProofsDir.
From PV Require Import MiniPy.Syntax MiniPy.Interp MiniTorch.OpsC17 MiniTorch.ValueC17 Gen.C17Src
  C17.SrcRun C17.TieLib C17.TieAliSpec C17.TieAli C17.TieMom.
Import ListNotations.
Local Open Scope string_scope.

(* a worker run that saved exactly [t] at [p] and returned None *)
Definition saves (o : outcome val) (t : tensor) (p : val) : Prop :=
  exists st, o = Interp.Ok VNone st /\ events st = [save_event (enc_tensor t) p].
(* a worker run that raised [n] before any effect *)
Definition raises (o : outcome val) (n : string) : Prop :=
  exists st, o = Exc n st /\ events st = [].

Lemma rows3_of_partition : forall rows t T, partitions_from t rows T -> Forall (fun r => List.length r = 3%nat) rows.
Proof.
  induction rows as [|r rows IH]; intros t T P; [constructor|].
  cbn [partitions_from] in P. destruct P as (L & _ & _ & P). constructor; [exact L|eapply IH; exact P].
Qed.

(* tokens -> ali with the model's own feature-directory function *)
Theorem tok2ali_tie_model : forall fs b rd ad fdv fl n t,
  wf_tensor t -> dict_get fs (path rd b) = Some (enc_tensor t) -> feat_env fs b fdv fl ->
  worker_outcome (run_tok2ali fs b rd ad fdv) (path ad b) (ali_of_ref_feat (feats_of n fl) n t).
Proof. intros. rewrite <- ali_of_ref_fl_model. now apply tok2ali_tie. Qed.

(* alignment -> tokens -> alignment, purely about the interpreted source: whatever the first worker saved, the
   second worker, reading it back from any file system that holds it there, saves the original alignment *)
Theorem source_ali_roundtrip : forall v, v <> [] ->
  forall fs b ad rd, dict_get fs (path ad b) = Some (enc_tensor (Vec v)) ->
  exists x, (exists st, run_ali2tok fs b ad rd = Interp.Ok VNone st /\ events st = [save_event x (path rd b)])
    /\ forall fs' ad', dict_get fs' (path rd b) = Some x ->
         saves (run_tok2ali fs' b rd ad' VNone) (Vec v) (path ad' b).
Proof.
  intros v Hv fs b ad rd H. destruct (ali2tok_tie fs b ad rd v H) as [st [E1 E2]].
  exists (enc_tensor (Mat 3 (segs 0 (rle v)))). split; [exists st; split; assumption|].
  intros fs' ad' H'.
  pose proof (tok2ali_tie fs' b rd ad' VNone None (Mat 3 (segs 0 (rle v))) (segs_len3 _ _) H' eq_refl) as T.
  cbn [ali_of_ref_fl] in T. rewrite (ali_of_ref_of_ali v Hv) in T. exact T.
Qed.

(* tokens -> alignment -> tokens for contiguous, start-0, adjacent-distinct, positive-length segments *)
Theorem source_tokens_roundtrip : forall rows T, rows <> [] -> partitions_from 0 rows T -> maximal rows ->
  forall fs b rd ad, dict_get fs (path rd b) = Some (enc_tensor (Mat 3 rows)) ->
  exists x, (exists st, run_tok2ali fs b rd ad VNone = Interp.Ok VNone st /\ events st = [save_event x (path ad b)])
    /\ forall fs' rd', dict_get fs' (path ad b) = Some x ->
         saves (run_ali2tok fs' b ad rd') (Mat 3 rows) (path rd' b).
Proof.
  intros rows T Hne P M fs b rd ad H.
  pose proof (rows3_of_partition _ _ _ P) as W.
  pose proof (tok2ali_tie fs b rd ad VNone None (Mat 3 rows) W H eq_refl) as R. cbn [ali_of_ref_fl] in R.
  assert (A : ali_of_ref None (Mat 3 rows) = Done (Vec (expand_rows rows))).
  { apply ali_of_ref_accepts_iff; [exact W|]. split; [exact Hne|]. exists T. split; [exact P|exact I]. }
  rewrite A in R. exists (enc_tensor (Vec (expand_rows rows))). split; [exact R|].
  intros fs' rd' H'. destruct (ali2tok_tie fs' b ad rd' (expand_rows rows) H') as [st [E1 E2]].
  rewrite (segs_rle_expand rows 0 T P M) in E2. exists st. split; assumption.
Qed.

(* the worker (without --feat-dir) accepts exactly the partitions, and then saves the alignment they denote;
   otherwise it raises ValueError (a guard) or RuntimeError (a segment that ends before it starts), before any
   effect *)
Theorem source_tok2ali_accepts_iff_partition : forall fs b rd ad rows,
  Forall (fun r => List.length r = 3%nat) rows -> dict_get fs (path rd b) = Some (enc_tensor (Mat 3 rows)) ->
  (saves (run_tok2ali fs b rd ad VNone) (Vec (expand_rows rows)) (path ad b)
     <-> (rows <> [] /\ exists n, partitions_from 0 rows n))
  /\ (~ (rows <> [] /\ exists n, partitions_from 0 rows n) ->
      raises (run_tok2ali fs b rd ad VNone) "ValueError" \/ raises (run_tok2ali fs b rd ad VNone) "RuntimeError").
Proof.
  intros fs b rd ad rows W H.
  pose proof (tok2ali_tie fs b rd ad VNone None (Mat 3 rows) W H eq_refl) as R. cbn [ali_of_ref_fl] in R.
  pose proof (ali_of_ref_accepts_iff None rows W) as A.
  assert (A' : ali_of_ref None (Mat 3 rows) = Done (Vec (expand_rows rows))
               <-> rows <> [] /\ (exists n, partitions_from 0 rows n)).
  { rewrite A. split.
    - intros [N [n [P _]]]. split; [exact N|exists n; exact P].
    - intros [N [n P]]. split; [exact N|exists n; split; [exact P|exact I]]. }
  clear A. split; [split|].
  - intros [st [E1 E2]]. apply A'. destruct (ali_of_ref None (Mat 3 rows)) as [a|e] eqn:E.
    + destruct (ali_of_ref_result _ _ _ E) as [rows' [Er Ea]]. inversion Er; subst. reflexivity.
    + cbn [worker_outcome] in R. destruct R as [st' [E3 _]]. rewrite E1 in E3. discriminate.
  - intros C. apply A' in C. rewrite C in R. exact R.
  - intros C. destruct (ali_of_ref None (Mat 3 rows)) as [a|e] eqn:E.
    + exfalso. apply C, A'. destruct (ali_of_ref_result _ _ _ E) as [rows' [Er Ea]]. inversion Er; subst. reflexivity.
    + cbn [worker_outcome] in R.
      assert (He : e = EValue \/ e = ERuntime).
      { revert E. unfold ali_of_ref.
        repeat match goal with |- (if ?c then _ else _) = _ -> _ => destruct c end; intros E; inversion E; auto. }
      destruct He as [-> | ->]; [left|right]; exact R.
Qed.

Lemma filter_true_all' : forall A (l : list A), filter (fun _ => true) l = l /\ True.
Proof. intros. split; [|exact I]. induction l as [|x l IH]; cbn; [reflexivity|now rewrite IH]. Qed.

(* ---- length moments ------------------------------------------------------------------------------------------ *)
(* the interpreted ali worker returns the moments of exactly the list of lengths that Model.ali_dir_moments pools
   (ProofsDir.ali_dir_moments_pooled): the lengths of the maximal runs whose label is not excluded *)
Theorem source_ali_moments_lens : forall fs fn excl v,
  dict_get fs fn = Some (enc_tensor (Vec v)) ->
  exists st, run_ali_moments fs fn excl = Interp.Ok (mom_value (mom_of (ali_lens excl (Vec v)))) st /\ events st = [].
Proof. intros. rewrite <- ali_moments_lens. now apply ali_moments_tie. Qed.

Lemma sum_runs : forall rs, sumZ (map snd rs) = runs_total rs.
Proof. induction rs as [|[v c] t IH]; [reflexivity|]. unfold sumZ, runs_total in *. cbn [map snd fold_right]. now rewrite IH. Qed.

(* composed with the run-length lemmas, purely about the interpreted source: without exclusions the first figure is
   the number of frames of the alignment *)
Theorem source_ali_moments_frames : forall fs fn v,
  dict_get fs fn = Some (enc_tensor (Vec v)) ->
  exists ss c st, run_ali_moments fs fn None
                  = Interp.Ok (VTuple [VInt (Z.of_nat (List.length v)); VInt ss; VInt c]) st /\ events st = [].
Proof.
  intros fs fn v H. destruct (ali_moments_tie fs fn None v H) as [st [E1 E2]].
  unfold ali_moments, excluded, mom_of, mom_value in E1. cbn [negb] in E1.
  rewrite (proj1 (filter_true_all' _ (rle v))) in E1.
  rewrite sum_runs, <- (runs_total_len (rle v)) in E1 by (apply pos_nonneg, rle_pos). rewrite rle_expand in E1.
  eexists. eexists. exists st. split; [exact E1|exact E2].
Qed.
