(* C20 - the tensor operations of MiniTorch.OpsC20, composed the way the source composes them, compute
   what C20.Model.attend computes (pure algebra about the operations; the interpreter is in Tie.v).

   Everything is stated for ARBITRARY model tensors q k v m (shape + index function, any number of
   dimensions, any broadcasting the model accepts); the source sees their materialisations [mat q] ...
   The hypothesis [attend_facts] is what [Proofs.attend_inv] extracts from [attend ... = Some out]. *)
From Coq Require Import List ZArith QArith Bool Arith Lia.
From PV Require Import MiniPy.Syntax MiniTorch.Ops MiniTorch.OpsC07 MiniTorch.OpsC20 MiniTorch.LemmasC20.
From PV Require Import C20.Model C20.Spec C20.Index C20.Proofs C20.Broadcast.
Import ListNotations.
Local Open Scope nat_scope.

(* option Q (the model's masked scores) as float entries *)
Definition xo (o : option Q) : xq := match o with Some s => Fin s | None => NInf end.

Lemma valid_cons_tl s c i : valid s (c :: i) -> valid (tl s) i.
Proof. intros H. inversion H; subst. assumption. Qed.

Lemma intob_cons_tl x a s : intob (x :: a) s = true -> intob a (tl s) = true.
Proof. destruct s as [|y b]; [discriminate|]. cbn. intros H. apply andb_true_iff in H. apply H. Qed.

Section Ops.
  Variable expf : Q -> Q.
  Variables q k v : tensor Q.
  Variable m : option (tensor bool).
  Variable p : nat.
  Variables es ps : shape.
  Hypothesis F : attend_facts q k v m p es ps.

  Let pe := p - 1.
  Let Hp : p = S pe := f_p _ _ _ _ _ _ _ F.

  (* query and key have a feature axis *)
  Lemma shapes_qk : exists sq' sk', tshape q = hd 0 (tshape q) :: sq' /\ tshape k = hd 0 (tshape k) :: sk' /\
                                    pe <= length sq' /\ tl (tshape (unsq p q)) = ins pe 1 sq'.
  Proof.
    pose proof (af_qrank _ _ _ _ _ _ _ F) as Hq. pose proof (af_pk _ _ _ _ _ _ _ F) as Hpk.
    destruct (tshape q) as [|fq sq'] eqn:Eq; [cbn in Hq; lia|].
    destruct (tshape k) as [|fk sk'] eqn:Ek; [cbn in Hpk; lia|].
    exists sq', sk'. cbn [hd]. repeat split.
    - cbn in Hq, Hpk. lia.
    - rewrite unsq_shape, Eq, Hp, ins_S. reflexivity.
  Qed.

  (* ---- score: (query.unsqueeze(dim) * key).sum(-1) * scale_factor -------------------------------- *)
  Lemma dot_score_ops tanhf sc qs :
    hd 0 (tshape q) = qs -> hd 0 (tshape k) = qs ->
    exists P E,
      mul (runsq p (mat q)) (mat k) = Some P /\ sum_dim P (-1) = Some E /\
      mul_s E sc = mat (mkT es (e_at (score tanhf (Dot sc)) q k p)).
  Proof.
    intros Hq Hk.
    destruct shapes_qk as [sq' [sk' [Eq [Ek [Hpe Htl]]]]]. rewrite Hq in Eq. rewrite Hk in Ek.
    pose proof (af_es _ _ _ _ _ _ _ F) as Hes. rewrite Htl, Ek in Hes. cbn [tl] in Hes.
    assert (Hb : bshape (rev (shp (runsq p (mat q)))) (rev (shp (mat k))) = Some (qs :: es)).
    { rewrite rshp_runsq, !rshp_mat, Eq, Ek, Hp, ins_S. apply bshape_same_head, Hes. }
    pose (P := mat (mkT (qs :: es) (fun i => (bget (rd 0%Q (runsq p (mat q))) i * bget (rd 0%Q (mat k)) i)%Q))).
    assert (Hr : rpos (rank P) (-1) = Some 0) by (apply rpos_last; unfold P; rewrite rank_mat; cbn; lia).
    assert (HrP : rev (shp P) = qs :: es) by (unfold P; apply rshp_mat).
    exists P. eexists. split; [apply (mul_r _ _ _ Hb)|].
    split; [rewrite (sum_dim_r _ _ _ Hr), HrP, del_0; cbn [nth]; reflexivity|].
    rewrite mul_s_mat. cbn [tshape tat].
    apply mat_ext. intros j Hj.
    unfold e_at, score, qu, dotq, brow.
    rewrite unsq_shape, Eq, Ek, Hp, ins_S. cbn [hd]. rewrite <- Hp.
    rewrite vmul_map. f_equal. f_equal. apply map_ext_in. intros t Ht. apply in_seq in Ht.
    assert (Hv : valid (qs :: es) (t :: j)) by (apply valid_cons; [lia|exact Hj]).
    rewrite ins_0. unfold P. rewrite tat_rd_mat by exact Hv. cbn [tat].
    destruct (bshape_into _ _ _ Hb) as [Hi1 Hi2]. rewrite rshp_runsq, rshp_mat in Hi1. rewrite rshp_mat in Hi2.
    rewrite (bget_rd_runsq 0%Q p q (qs :: es)); [|rewrite Eq; cbn [length]; lia|exact Hi1|exact Hv].
    rewrite (bget_rd_mat 0%Q k (qs :: es)) by assumption.
    reflexivity.
  Qed.

  (* ---- mask: e.masked_fill(~mask, -inf) -------------------------------------------------------------- *)
  Variable sc : list Q -> list Q -> Q.
  Let E1 := mat (mkT es (e_at sc q k p)).
  Let E2 := mat (mkT es (fun i => xo (em_at sc q k m p i))).
  Let et := memo None (mkT es (em_at sc q k m p)).
  Let Ta := mkT es (a_at expf p et es).

  Lemma no_mask_ops : m = None -> mkTn (shp E1) (map Fin (dat E1)) = E2.
  Proof.
    intros ->. unfold E1, E2. rewrite (map_mat Fin). cbn [tshape tat]. reflexivity.
  Qed.

  Lemma mask_ops mt : m = Some mt -> masked_fill_ninf E1 (invert (mat mt)) = Some E2.
  Proof.
    intros Hm. pose proof (af_mask _ _ _ _ _ _ _ F) as Hi. rewrite Hm in Hi.
    unfold masked_fill_ninf. unfold invert at 1. cbn [shp]. unfold E1 at 1 2. rewrite !rshp_mat. cbn [tshape].
    rewrite Hi. f_equal. unfold E2. apply mat_ext. intros i Hv.
    rewrite (bget_rd_invert mt es) by assumption.
    unfold E1. rewrite tat_rd_mat by exact Hv. cbn [tat].
    unfold em_at, kept_at. rewrite Hm. destruct (bget mt i); reflexivity.
  Qed.

  (* ---- softmax over the sequence axis of e ------------------------------------------------------------- *)
  Lemma softmax_ops d : rpos (length es) d = Some pe -> softmax expf E2 d = Some (mat Ta).
  Proof.
    intros Hr.
    assert (Hr' : rpos (rank E2) d = Some pe) by (unfold E2; rewrite rank_mat; exact Hr).
    rewrite (softmax_r _ _ _ _ Hr'). cbv zeta. f_equal.
    assert (HrE : rev (shp E2) = es) by (unfold E2; apply rshp_mat). rewrite !HrE.
    unfold Ta. apply mat_ext. intros i Hv.
    assert (Hw : forall i', valid es i' ->
                   match tat (rd NInf E2) i' with Fin e => expf e | NInf => 0%Q end = w_at expf et i').
    { intros i' Hv'. unfold E2. rewrite tat_rd_mat by exact Hv'. cbn [tat].
      unfold w_at, et. rewrite memo_at by exact Hv'. cbn [tat].
      destruct (em_at sc q k m p i'); reflexivity. }
    unfold a_at, den_at. fold pe. rewrite (Hw i Hv). f_equal. f_equal.
    apply map_ext_in. intros t Ht. apply in_seq in Ht. apply Hw. apply valid_setp; [exact Hv|lia].
  Qed.

  (* ---- weighted sum: (a.unsqueeze(-1) * value).sum(dim) ------------------------------------------------ *)
  Lemma weighted_sum_ops d :
    rpos (length ps) d = Some p ->
    exists P, mul (runsq 0 (mat Ta)) (mat v) = Some P /\
              sum_dim P d = Some (mat (mkT (del p ps) (out_at v p (memo 0%Q Ta) ps))).
  Proof.
    intros Hr.
    pose proof (af_ps _ _ _ _ _ _ _ F) as Hps.
    assert (Hb : bshape (rev (shp (runsq 0 (mat Ta)))) (rev (shp (mat v))) = Some ps).
    { rewrite rshp_runsq, !rshp_mat. unfold Ta. cbn [tshape]. rewrite ins_0. exact Hps. }
    pose (P := mat (mkT ps (fun i => (bget (rd 0%Q (runsq 0 (mat Ta))) i * bget (rd 0%Q (mat v)) i)%Q))).
    exists P. split; [apply (mul_r _ _ _ Hb)|].
    assert (Hr' : rpos (rank P) d = Some p) by (unfold P; rewrite rank_mat; exact Hr).
    rewrite (sum_dim_r _ _ _ Hr'). f_equal.
    assert (HrP : rev (shp P) = ps) by (unfold P; apply rshp_mat). rewrite HrP.
    apply mat_ext. intros cj Hv. unfold out_at. f_equal.
    apply map_ext_in. intros t Ht. apply in_seq in Ht.
    assert (Hpl : p < length ps) by (rewrite (f_ps_len _ _ _ _ _ _ _ F); apply (af_pk _ _ _ _ _ _ _ F)).
    assert (HI : valid ps (ins p t cj)) by (apply valid_ins; [exact Hpl|exact Hv|lia]).
    unfold P. rewrite tat_rd_mat by exact HI. cbn [tat].
    destruct cj as [|c j].
    { apply valid_length in Hv. rewrite del_length in Hv by exact Hpl. cbn in Hv. lia. }
    rewrite (ins_pred p t c j (af_p _ _ _ _ _ _ _ F)) in *. fold pe in HI |- *.
    cbn [prod_at].
    destruct (bshape_into _ _ _ Hps) as [Hi1 Hi2].
    rewrite (bget_rd_runsq 0%Q 0 Ta ps); [|lia|unfold Ta; cbn [tshape]; rewrite ins_0; exact Hi1|exact HI].
    rewrite (bget_unsq 0 Ta) by lia. rewrite del_0.
    rewrite (bget_rd_mat 0%Q v ps) by assumption.
    f_equal. symmetry. apply (bget_memo 0%Q Ta (tl ps)).
    - unfold Ta. cbn [tshape]. apply (intob_cons_tl 1), Hi1.
    - apply (valid_cons_tl _ c), HI.
  Qed.
End Ops.

(* the r-positions the source's dimension arguments denote, from the model's axis_pos *)
Lemma attend_dims q k v m p es ps dim :
  attend_facts q k v m p es ps -> axis_pos dim (length (tshape k)) = Some p ->
  rpos (length ps) dim = Some p /\
  rpos (length es) (if (0 <=? dim)%Z then dim else (dim + 1)%Z) = Some (p - 1) /\
  wrap_dim (length (tshape k)) dim = Some (length (tshape k) - 1 - p).
Proof.
  intros F A. destruct (axis_pos_inv _ _ _ A) as [_ [H1 [H2 H3]]].
  rewrite (f_ps_len _ _ _ _ _ _ _ F), (f_es_len _ _ _ _ _ _ _ F). repeat split; assumption.
Qed.

(* ---- GeneralizedDotProductSoftAttention.score: (query.unsqueeze(dim) * linear(key, W, b)).sum(-1) ------- *)
Lemma nth_concat_rows {A} (d : A) n : forall (W : list (list A)) t j,
  Forall (fun w => length w = n) W -> t < length W -> j < n ->
  nth (t * n + j) (concat W) d = nth j (nth t W []) d.
Proof.
  induction W as [|w W IH]; intros t j Hall Ht Hj; [cbn in Ht; lia|].
  inversion Hall as [|? ? Hw Hall']; subst. cbn [concat].
  destruct t as [|t].
  - cbn [Nat.mul Nat.add nth]. apply app_nth1. lia.
  - rewrite app_nth2 by lia. replace (S t * length w + j - length w) with (t * length w + j) by lia.
    cbn [nth]. apply IH; [exact Hall'|cbn in Ht; lia|exact Hj].
Qed.

Lemma map_nth_seq {A} (d : A) (l : list A) : map (fun j => nth j l d) (seq 0 (length l)) = l.
Proof.
  induction l as [|x l IH]; [reflexivity|]. cbn [length seq map nth]. f_equal.
  rewrite <- seq_shift, map_map. exact IH.
Qed.

Lemma map_as_seq {A B} (d : A) (f : A -> B) (l : list A) : map f l = map (fun c => f (nth c l d)) (seq 0 (length l)).
Proof. rewrite <- (map_nth_seq d l) at 1. rewrite map_map. reflexivity. Qed.

Lemma vadd_as_seq (y bl : list Q) n : length y = n -> length bl = n ->
  vadd y bl = map (fun c => (nth c y 0 + nth c bl 0)%Q) (seq 0 n).
Proof.
  revert bl n. induction y as [|a y IH]; intros bl n Hy Hb.
  - cbn in Hy. subst n. reflexivity.
  - destruct bl as [|b bl]; [cbn in Hy, Hb; lia|]. destruct n as [|n]; [discriminate|].
    cbn in Hy, Hb. unfold vadd in *. cbn [combine map seq nth]. f_equal.
    rewrite <- seq_shift, map_map. apply (IH bl n); lia.
Qed.

(* the weight (rows W, each of length ks) and the bias as the flat parameters the module holds *)
Definition rows_tn (cols : nat) (W : list (list Q)) : tn Q := mkTn [length W; cols] (concat W).
Definition vec_tn (b : list Q) : tn Q := mkTn [length b] b.

Lemma clamp_head_lt n s c i : c < n -> clamp (n :: s) (c :: i) = c :: clamp s i.
Proof.
  intros H. cbn [clamp]. destruct (Nat.eqb_spec n 1); [|reflexivity]. f_equal. lia.
Qed.

Section General.
  Variables q k v : tensor Q.
  Variable m : option (tensor bool).
  Variable p : nat.
  Variables es ps : shape.
  Hypothesis F : attend_facts q k v m p es ps.

  Lemma general_score_ops tanhf W b qs ks :
    hd 0 (tshape q) = qs -> hd 0 (tshape k) = ks -> fl_sizes (General W b) qs ks = true ->
    exists WK P,
      OpsC20.linear (mat k) (rows_tn ks W) (option_map vec_tn b) = Some WK /\
      mul (runsq p (mat q)) WK = Some P /\
      sum_dim P (-1) = Some (mat (mkT es (e_at (score tanhf (General W b)) q k p))).
  Proof.
    intros Hq Hk Hfl.
    pose proof (f_p _ _ _ _ _ _ _ F) as Hp.
    destruct (shapes_qk q k v m p es ps F) as [sq' [sk' [Eq [Ek [Hpe Htl]]]]]. rewrite Hq in Eq. rewrite Hk in Ek.
    pose proof (af_es _ _ _ _ _ _ _ F) as Hes. rewrite Htl, Ek in Hes. cbn [tl] in Hes.
    cbn [fl_sizes] in Hfl. apply andb_true_iff in Hfl. destruct Hfl as [Hfl Hbl].
    apply andb_true_iff in Hfl. destruct Hfl as [HlW Hrows]. apply Nat.eqb_eq in HlW.
    assert (Hall : Forall (fun w => length w = ks) W).
    { apply Forall_forall. intros w Hw. rewrite forallb_forall in Hrows. apply Nat.eqb_eq, Hrows, Hw. }
    (* linear *)
    pose (TW := mkT (qs :: sk')
                    (fun ci => match ci with
                               | c :: i =>
                                   let y := dotq (map (fun j => tat (rd 0%Q (mat k)) (j :: i)) (seq 0 ks))
                                                 (map (fun j => tat (rd 0%Q (rows_tn ks W)) [j; c]) (seq 0 ks)) in
                                   match option_map vec_tn b with None => y | Some bt => (y + tat (rd 0%Q bt) [c])%Q end
                               | [] => 0%Q
                               end)).
    assert (Hlin : OpsC20.linear (mat k) (rows_tn ks W) (option_map vec_tn b) = Some (mat TW)).
    { unfold OpsC20.linear. cbn [rows_tn shp]. rewrite rshp_mat, Ek, Nat.eqb_refl, HlW.
      destruct b as [bl|]; cbn [option_map vec_tn shp nats_eqb andb].
      - apply Nat.eqb_eq in Hbl. rewrite Hbl, Nat.eqb_refl. reflexivity.
      - reflexivity. }
    exists (mat TW).
    assert (Hb : bshape (rev (shp (runsq p (mat q)))) (rev (shp (mat TW))) = Some (qs :: es)).
    { rewrite rshp_runsq, !rshp_mat, Eq. unfold TW. cbn [tshape]. rewrite Hp, ins_S. apply bshape_same_head, Hes. }
    pose (P := mat (mkT (qs :: es) (fun i => (bget (rd 0%Q (runsq p (mat q))) i * bget (rd 0%Q (mat TW)) i)%Q))).
    assert (Hr : rpos (rank P) (-1) = Some 0) by (apply rpos_last; unfold P; rewrite rank_mat; cbn; lia).
    assert (HrP : rev (shp P) = qs :: es) by (unfold P; apply rshp_mat).
    exists P. split; [exact Hlin|]. split; [apply (mul_r _ _ _ Hb)|].
    rewrite (sum_dim_r _ _ _ Hr), HrP, del_0. cbn [nth]. f_equal.
    apply mat_ext. intros j Hj.
    unfold e_at, score, qu, dotq, brow.
    rewrite unsq_shape, Eq, Ek, Hp, ins_S. cbn [hd]. rewrite <- Hp.
    set (krow := map (fun c => bget k (c :: j)) (seq 0 ks)).
    (* linear_row as a table over 0..qs-1 *)
    assert (Hlr : linear_row W b krow
                  = map (fun c => match b with
                                  | None => dotq krow (nth c W [])
                                  | Some bl => (dotq krow (nth c W []) + nth c bl 0)%Q
                                  end) (seq 0 qs)).
    { unfold linear_row. destruct b as [bl|].
      - apply Nat.eqb_eq in Hbl.
        rewrite (vadd_as_seq _ bl qs) by (rewrite ?map_length; assumption).
        apply map_ext_in. intros c Hc. apply in_seq in Hc. f_equal.
        rewrite (map_as_seq [] (fun w => dotq krow w) W), HlW.
        rewrite (nth_indep _ 0%Q (dotq krow (nth 0 W []))) by (rewrite map_length, seq_length; lia).
        rewrite (map_nth (fun c0 => dotq krow (nth c0 W []))), seq_nth by lia. reflexivity.
      - rewrite (map_as_seq [] (fun w => dotq krow w) W), HlW. reflexivity. }
    rewrite Hlr, vmul_map. f_equal. apply map_ext_in. intros t Ht. apply in_seq in Ht.
    assert (Hv : valid (qs :: es) (t :: j)) by (apply valid_cons; [lia|exact Hj]).
    rewrite ins_0. unfold P. rewrite tat_rd_mat by exact Hv. cbn [tat].
    destruct (bshape_into _ _ _ Hb) as [Hi1 Hi2]. rewrite rshp_runsq, rshp_mat in Hi1. rewrite rshp_mat in Hi2.
    rewrite (bget_rd_runsq 0%Q p q (qs :: es)); [|rewrite Eq; cbn [length]; lia|exact Hi1|exact Hv].
    rewrite (bget_rd_mat 0%Q TW (qs :: es)) by assumption.
    f_equal.
    (* the projected key at (t, j) *)
    unfold bget at 1. change (tshape TW) with (qs :: sk'). rewrite clamp_head_lt by lia. unfold TW. cbn [tat].
    pose proof (f_into_k _ _ _ _ _ _ _ F) as Hik. rewrite Ek in Hik. cbn [tl] in Hik.
    assert (Hvc : valid sk' (clamp sk' j)) by (apply (clamp_valid _ es); assumption).
    assert (Hrow : map (fun j0 => tat (rd 0%Q (mat k)) (j0 :: clamp sk' j)) (seq 0 ks) = krow).
    { unfold krow. apply map_ext_in. intros c Hc. apply in_seq in Hc.
      rewrite tat_rd_mat by (rewrite Ek; apply valid_cons; [lia|exact Hvc]).
      unfold bget. rewrite Ek, clamp_head_lt by lia. reflexivity. }
    rewrite Hrow.
    assert (Hw : map (fun j0 => tat (rd 0%Q (rows_tn ks W)) [j0; t]) (seq 0 ks) = nth t W []).
    { assert (Hlen : length (nth t W []) = ks).
      { rewrite Forall_forall in Hall. apply Hall, nth_In. lia. }
      etransitivity; [|apply (map_nth_seq 0%Q)]. rewrite Hlen.
      apply map_ext_in. intros c Hc. apply in_seq in Hc.
      unfold rd, rows_tn, of_flat. cbn [shp dat rev app tat rfi].
      replace ((0 * length W + t) * ks + c) with (t * ks + c) by lia.
      apply nth_concat_rows; [exact Hall|lia|lia]. }
    rewrite Hw.
    destruct b as [bl|]; cbn [option_map]; [|reflexivity].
    f_equal.
  Qed.
End General.
