(* C12 — tie (part 3d) of the blocks of `_info_and_validate`: the reference block.  See TieVTac.v for the method. *)
From Coq Require Import ZArith QArith List String Bool Arith Lia ZifyBool.
From PV Require Import MiniPy.Syntax MiniPy.Interp MiniPy.Lemmas MiniTorch.OpsC12 MiniTorch.LemmasC12 MiniTorch.LemmasC12V Gen.C12ValSrc.
From PV Require Import C12.SrcRun C12.SrcRunV C12.TieLib C12.TieLibV C12.TieVTac C12.TieVRef.
From PV Require C12.Model.
Import ListNotations.
Local Open Scope string_scope.

#[local] Arguments enc12 : simpl never.
#[local] Arguments dec12 !v /.
#[local] Arguments T1 : simpl never.
#[local] Arguments T2 : simpl never.
#[local] Arguments NZ : simpl never.
#[local] Arguments new_full : simpl never.
#[local] Arguments cat : simpl never.
#[local] Arguments ndim : simpl never.
#[local] Arguments size : simpl never.
#[local] Arguments numel : simpl never.
#[local] Arguments select_col : simpl never.
#[local] Arguments set_item : simpl never.
#[local] Arguments get_item : simpl never.
#[local] Arguments item : simpl never.
#[local] Arguments unsqueeze : simpl never.
#[local] Arguments slice0 : simpl never.
#[local] Arguments nonzero : simpl never.
#[local] Arguments eq_scalar : simpl never.
#[local] Arguments cpu : simpl never.
#[local] Arguments long : simpl never.
#[local] Arguments then_ ext b !c st /.
#[local] Arguments exec : simpl never.
#[local] Arguments for_loop : simpl never.
#[local] Arguments q_cmp : simpl never.
#[local] Arguments fill_slice : simpl never.
#[local] Arguments set_row : simpl never.
#[local] Arguments rows_of : simpl never.
#[local] Arguments tolist2 : simpl never.
#[local] Arguments full_long : simpl never.
#[local] Arguments row3 : simpl never.
#[local] Arguments inject_Z : simpl never.
#[local] Arguments firstn : simpl never.
#[local] Arguments skipn : simpl never.
#[local] Arguments cmp_eval op !a !b /.
#[local] Arguments Z.of_nat : simpl never.
#[local] Arguments torch_module : simpl never.
#[local] Arguments store : simpl never.
#[local] Arguments set_var x v !st /.
#[local] Arguments ext12 env f !args kw st /.
#[local] Arguments bind {A B} !o f /.
#[local] Arguments Z.add : simpl never.
#[local] Arguments Z.sub : simpl never.
#[local] Arguments ds_obj : simpl never.
#[local] Arguments isinstance12 : simpl never.
#[local] Arguments instance_of : simpl never.
#[local] Arguments feat_tens : simpl never.
#[local] Arguments ids_val : simpl never.
#[local] Arguments subscript !o !k st /.
#[local] Arguments utt_tuple : simpl never.
#[local] Arguments env_ds : simpl never.
#[local] Arguments class_token : simpl never.


Lemma set_nth_mid : forall {A} (l1 l2 : list A) x v, set_nth (l1 ++ x :: l2) (List.length l1) v = (l1 ++ v :: l2)%list.
Proof. induction l1 as [|y l1 IH]; intros; cbn; [reflexivity|]. now rewrite IH. Qed.

Lemma set_nth_mid_map : forall {A B} (f : A -> B) (l1 : list A) (l2 : list B) x v,
  set_nth (map f l1 ++ x :: l2) (List.length l1) v = (map f l1 ++ v :: l2)%list.
Proof. intros. rewrite <- (map_length f l1). apply set_nth_mid. Qed.

Lemma Forall_row3 : forall rows, Forall (fun r => List.length r = 3%nat) (map row3 rows).
Proof. induction rows as [|[[a b] cc] rows IH]; constructor; [reflexivity|exact IH]. Qed.

Section Ref2.
  Variables (c : Model.cfg) (d : Model.dir) (ids : list string) (fx : option Z).
  Variables (idx nf fdt feat ali prefix F Tp : val) (fnv : string) (T : nat).
  Local Notation ext := (ext12 (env_ds c d)).
  Local Notation stR := (stR ids fx idx nf fdt feat ali prefix F Tp fnv T).

  Lemma set_t1 : forall v r2d dir_ prefix_ msg ref wb t1 idx2 r t2 tok start end_ evs,
    set_var "$t1" v (stR r2d dir_ prefix_ msg ref wb t1 idx2 r t2 tok start end_ evs)
    = stR r2d dir_ prefix_ msg ref wb v idx2 r t2 tok start end_ evs.
  Proof. reflexivity. Qed.

  (* -- the loop `for idx2, r in enumerate(ref):` over the remaining rows -- *)
  Lemma rows_loop : forall rest done r2d dir_ prefix_ msg (wb : bool) t1 idx2 r t2 tok start end_ evs,
    let st := stR r2d dir_ prefix_ msg (enc12 (T2 false Model.DI64 3 (map row3 done ++ map row3 rest))) (VBool wb) t1 idx2 r t2 tok start end_ evs in
    let items := enum_from (Z.of_nat (List.length done)) (map (T1 false Model.DI64) (map row3 rest)) in
    match Model.rows_part fx (Z.of_nat T) rest with
    | inl _ => exists st', for_loop ext "$t1" row_body items st = Exc "ValueError" st' /\ events st' = evs
    | inr (rest', wbr) =>
        exists msg' t1' idx2' r',
        for_loop ext "$t1" row_body items st
        = Ok CNormal (stR r2d dir_ prefix_ msg' (enc12 (T2 false Model.DI64 3 (map row3 done ++ map row3 rest'))) (VBool (wb || wbr))
                          t1' idx2' r' t2 tok start end_ evs)
    end.
  Proof.
    induction rest as [|x rest IH]; intros done r2d dir_ prefix_ msg wb t1 idx2 r t2 tok start end_ evs st items; subst st items.
    - cbn [Model.rows_part map enum_from]. do 4 eexists. cbn [MiniPy.Lemmas.for_loop]. rewrite orb_false_r. reflexivity.
    - cbn [Model.rows_part map enum_from]. destruct x as [[a b] cc].
      change (MiniPy.Lemmas.for_loop ext "$t1" row_body (?i :: ?l) ?st)
        with (bind (exec ext row_body (set_var "$t1" i st))
                   (fun c0 st' => match c0 with CNormal => MiniPy.Lemmas.for_loop ext "$t1" row_body l st' | CReturn _ => Ok c0 st' end)).
      rewrite set_t1.
      assert (HF : Forall (fun x => List.length x = 3%nat) (map row3 done ++ row3 (a, b, cc) :: map row3 rest)).
      { apply Forall_app. split; [apply Forall_row3|]. constructor; [reflexivity|apply Forall_row3]. }
      assert (Hi : (List.length done < List.length (map row3 done ++ row3 (a, b, cc) :: map row3 rest))%nat).
      { rewrite app_length, map_length. cbn. lia. }
      pose proof (row_body_run c d ids fx idx nf fdt feat ali prefix F Tp fnv T r2d dir_ prefix_ msg _ wb (List.length done) idx2 r t2 tok start end_ evs a b cc HF Hi) as RB.
      cbv zeta in RB. change [a; b; cc] with (row3 (a, b, cc)) in RB.
      destruct (Model.row_part fx (Z.of_nat T) (a, b, cc)) as [e|[r' w1]].
      + destruct RB as [st' [E1 E2]]. exists st'. split; [|exact E2]. rewrite E1. reflexivity.
      + destruct RB as [msg' E1]. rewrite E1. cbn [bind].
        rewrite !set_nth_mid_map.
        specialize (IH (done ++ [r'])%list r2d dir_ prefix_ msg' (wb || w1)%bool
                       (VTuple [VInt (Z.of_nat (List.length done)); enc12 (T1 false Model.DI64 (row3 (a, b, cc)))])
                       (VInt (Z.of_nat (List.length done))) (enc12 (T1 false Model.DI64 (row3 r'))) t2 tok start end_ evs).
        cbv zeta in IH. rewrite map_app, <- app_assoc in IH. cbn [map app] in IH.
        replace (Z.of_nat (List.length (done ++ [r']))) with (Z.of_nat (List.length done) + 1)%Z in IH by (rewrite app_length; cbn; lia).
        destruct (Model.rows_part fx (Z.of_nat T) rest) as [e|[rest' w2]].
        * exact IH.
        * destruct IH as (msg'' & t1' & idx2' & r'' & IH). exists msg'', t1', idx2', r''. rewrite IH.
          cbn [map]. rewrite <- app_assoc, orb_assoc. reflexivity.
  Qed.

  Lemma eval_enumerate_ref : forall cu dt w rows r2d dir_ prefix_ msg wb t1 idx2 r t2 tok start end_ evs,
    Forall (fun x => List.length x = w) rows ->
    eval ext (ECall "enumerate" [EName "ref"] []) (stR r2d dir_ prefix_ msg (enc12 (T2 cu dt w rows)) wb t1 idx2 r t2 tok start end_ evs)
    = Ok (VList (enum_from 0 (map (T1 cu dt) rows))) (stR r2d dir_ prefix_ msg (enc12 (T2 cu dt w rows)) wb t1 idx2 r t2 tok start end_ evs).
  Proof.
    intros. unfold TieVRef.stR, mkvars. cbn. rewrite dec12_enc12. cbn. rewrite rows_of_T2 by assumption. reflexivity.
  Qed.

  Lemma ref_for_run : forall rows r2d dir_ prefix_ msg (wb : bool) t1 idx2 r t2 tok start end_ evs,
    let st := stR r2d dir_ prefix_ msg (enc12 (T2 false Model.DI64 3 (map row3 rows))) (VBool wb) t1 idx2 r t2 tok start end_ evs in
    match Model.rows_part fx (Z.of_nat T) rows with
    | inl _ => exists st', exec ext ref_for st = Exc "ValueError" st' /\ events st' = evs
    | inr (rows', wbr) =>
        exists msg' t1' idx2' r',
        exec ext ref_for st
        = Ok CNormal (stR r2d dir_ prefix_ msg' (enc12 (T2 false Model.DI64 3 (map row3 rows'))) (VBool (wb || wbr))
                          t1' idx2' r' t2 tok start end_ evs)
    end.
  Proof.
    intros rows r2d dir_ prefix_ msg wb t1 idx2 r t2 tok start end_ evs st. subst st.
    unfold ref_for. rewrite exec_for. fold row_body.
    rewrite eval_enumerate_ref by apply Forall_row3. cbn [bind iter_items container_items].
    exact (rows_loop rows [] r2d dir_ prefix_ msg wb t1 idx2 r t2 tok start end_ evs).
  Qed.

  Definition r2d_val (o : option bool) : val := match o with None => VNone | Some b => VBool b end.

  (* -- `if ref.ndim == 2: ... elif ref.ndim == 1: ... else: raise` -- *)
  Lemma dispatch_2d3 : forall rows s2d dir_ prefix_ msg (wb : bool) t1 idx2 r t2 tok start end_ evs,
    let st := stR (r2d_val s2d) dir_ prefix_ msg (enc12 (T2 false Model.DI64 3 (map row3 rows))) (VBool wb) t1 idx2 r t2 tok start end_ evs in
    match (match s2d with Some false => inl Model.ValueErr | _ => Model.rows_part fx (Z.of_nat T) rows end) with
    | inl _ => exists st', exec ext ref_dispatch st = Exc "ValueError" st' /\ events st' = evs
    | inr (rows', wbr) =>
        exists msg' t1' idx2' r',
        exec ext ref_dispatch st
        = Ok CNormal (stR (VBool true) dir_ prefix_ msg' (enc12 (T2 false Model.DI64 3 (map row3 rows'))) (VBool (wb || wbr))
                          t1' idx2' r' t2 tok start end_ evs)
    end.
  Proof.
    intros rows s2d dir_ prefix_ msg wb t1 idx2 r t2 tok start end_ evs st. subst st.
    pose proof (ref_for_run rows (VBool true) dir_ prefix_ msg wb t1 idx2 r t2 tok start end_ evs) as L. cbv zeta in L.
    assert (Hlen : List.length (map row3 rows) = List.length (map row3 rows)) by reflexivity.
    destruct s2d as [[|]|]; cbn [r2d_val].
    2: { eexists. split; [unfold ref_dispatch, TieVRef.stR, mkvars; run; reflexivity|reflexivity]. }
    all: destruct (Model.rows_part fx (Z.of_nat T) rows) as [e|[rows' wbr]].
    all: try (destruct L as [st' [L1 L2]]; exists st'; split; [|exact L2]; unfold ref_dispatch, TieVRef.stR, mkvars; run; apply L1).
    all: destruct L as (m' & t1' & i' & r' & L1); exists m', t1', i', r'; unfold ref_dispatch, TieVRef.stR, mkvars; run; apply L1.
  Qed.

  Lemma dispatch_2dw : forall cu dt w rows s2d dir_ prefix_ msg wb t1 idx2 r t2 tok start end_ evs,
    w <> 3%nat ->
    exists st', exec ext ref_dispatch (stR (r2d_val s2d) dir_ prefix_ msg (enc12 (T2 cu dt w rows)) wb t1 idx2 r t2 tok start end_ evs)
                = Exc "ValueError" st' /\ events st' = evs.
  Proof.
    intros cu dt w rows s2d dir_ prefix_ msg wb t1 idx2 r t2 tok start end_ evs Hw.
    assert (E : (w =? 3)%nat = false) by (apply Nat.eqb_neq; exact Hw).
    destruct s2d as [[|]|]; cbn [r2d_val]; eexists;
    (split; [unfold ref_dispatch, TieVRef.stR, mkvars; run; try reflexivity;
             change 3%Z with (Z.of_nat 3); rewrite of_nat_eqb, E; run; reflexivity | reflexivity]).
  Qed.

  Lemma dispatch_1d : forall cu dt l s2d dir_ prefix_ msg wb t1 idx2 r t2 tok start end_ evs,
    let st := stR (r2d_val s2d) dir_ prefix_ msg (enc12 (T1 cu dt l)) wb t1 idx2 r t2 tok start end_ evs in
    match s2d with
    | Some true => exists st', exec ext ref_dispatch st = Exc "ValueError" st' /\ events st' = evs
    | _ => exec ext ref_dispatch st = Ok CNormal (stR (VBool false) dir_ prefix_ msg (enc12 (T1 cu dt l)) wb t1 idx2 r t2 tok start end_ evs)
    end.
  Proof.
    intros cu dt l s2d dir_ prefix_ msg wb t1 idx2 r t2 tok start end_ evs st. subst st.
    destruct s2d as [[|]|]; cbn [r2d_val];
    [eexists; split; [unfold ref_dispatch, TieVRef.stR, mkvars; run; reflexivity|reflexivity]| |];
    unfold ref_dispatch, TieVRef.stR, mkvars; run; reflexivity.
  Qed.

  Lemma dispatch_other : forall t r2d dir_ prefix_ msg wb t1 idx2 r t2 tok start end_ evs,
    ndim t <> 1%nat -> ndim t <> 2%nat ->
    exists st', exec ext ref_dispatch (stR r2d dir_ prefix_ msg (enc12 t) wb t1 idx2 r t2 tok start end_ evs)
                = Exc "ValueError" st' /\ events st' = evs.
  Proof.
    intros t r2d dir_ prefix_ msg wb t1 idx2 r t2 tok start end_ evs H1 H2.
    assert (E1 : (Z.of_nat (ndim t) =? 1)%Z = false) by lia. assert (E2 : (Z.of_nat (ndim t) =? 2)%Z = false) by lia.
    eexists. split; [unfold ref_dispatch, TieVRef.stR, mkvars; run; reflexivity|reflexivity].
  Qed.

  (* -- `if write_back: torch.save(ref, os.path.join(dir_, fn))` -- *)
  Definition save_ev (t : tens) (dir_ : string) : event := ("torch.save", [enc12 t; VStr (dir_ ++ "/" ++ fnv)]).

  Lemma ref_save_run : forall r2d dir_ prefix_ msg t (wb : bool) t1 idx2 r t2 tok start end_ evs,
    exec ext ref_save (stR r2d (VStr dir_) prefix_ msg (enc12 t) (VBool wb) t1 idx2 r t2 tok start end_ evs)
    = Ok CNormal (stR r2d (VStr dir_) prefix_ msg (enc12 t) (VBool wb) t1 idx2 r t2 tok start end_
                      (if wb then evs ++ [save_ev t dir_] else evs)).
  Proof.
    intros. unfold ref_save, TieVRef.stR, mkvars, save_ev. destruct wb; run; reflexivity.
  Qed.

  (* -- `if ref.ndim == 1: ref = ref.unsqueeze(1); ref = torch.cat([ref, torch.full((ref.size(0), 2), -1, dtype=torch.long)], 1)` -- *)
  Lemma full_long_eq : forall s v, full_long s v = Some (mkT false Model.DI64 s (repeat v (numel_of s))).
  Proof. reflexivity. Qed.

  Lemma expand_1d : forall l r2d dir_ prefix_ msg wb t1 idx2 r t2 tok start end_ evs,
    exec ext ref_expand (stR r2d dir_ prefix_ msg (enc12 (T1 false Model.DI64 l)) wb t1 idx2 r t2 tok start end_ evs)
    = Ok CNormal (stR r2d dir_ prefix_ msg (enc12 (T2 false Model.DI64 3 (map (fun x => [x; (-1)%Z; (-1)%Z]) l))) wb t1 idx2 r t2 tok start end_ evs).
  Proof.
    intros. unfold ref_expand, TieVRef.stR, mkvars. run.
    rewrite unsqueeze_T1_1. run. rewrite map_length. run. rewrite full_long_eq. run.
    rewrite cat1_minus_ones. run. reflexivity.
  Qed.

  Lemma expand_2d : forall cu dt w rows r2d dir_ prefix_ msg wb t1 idx2 r t2 tok start end_ evs,
    exec ext ref_expand (stR r2d dir_ prefix_ msg (enc12 (T2 cu dt w rows)) wb t1 idx2 r t2 tok start end_ evs)
    = Ok CNormal (stR r2d dir_ prefix_ msg (enc12 (T2 cu dt w rows)) wb t1 idx2 r t2 tok start end_ evs).
  Proof. intros. unfold ref_expand, TieVRef.stR, mkvars. run. reflexivity. Qed.

  (* -- `for tok, start, end in ref.tolist(): if tok < 0: raise ...` (info = False) -- *)
  Definition row_val (x : Model.row) : val := VList (map VInt (row3 x)).

  Lemma set_t2 : forall v r2d dir_ prefix_ msg ref wb t1 idx2 r t2 tok start end_ evs,
    set_var "$t2" v (stR r2d dir_ prefix_ msg ref wb t1 idx2 r t2 tok start end_ evs)
    = stR r2d dir_ prefix_ msg ref wb t1 idx2 r v tok start end_ evs.
  Proof. reflexivity. Qed.

  Lemma tok_body_run : forall a b cc r2d dir_ prefix_ msg ref wb t1 idx2 r tok start end_ evs,
    exec ext tok_body (stR r2d dir_ prefix_ msg ref wb t1 idx2 r (VList [VInt a; VInt b; VInt cc]) tok start end_ evs)
    = if (a <? 0)%Z
      then Exc "ValueError" (stR r2d dir_ prefix_ msg ref wb t1 idx2 r (VList [VInt a; VInt b; VInt cc]) (VInt a) (VInt b) (VInt cc) evs)
      else Ok CNormal (stR r2d dir_ prefix_ msg ref wb t1 idx2 r (VList [VInt a; VInt b; VInt cc]) (VInt a) (VInt b) (VInt cc) evs).
  Proof.
    intros. unfold tok_body, TieVRef.stR, mkvars. destruct (a <? 0)%Z eqn:E; run; reflexivity.
  Qed.

  Lemma tok_loop : forall rows acc r2d dir_ prefix_ msg ref wb t1 idx2 r t2 tok start end_ evs,
    match Model.ref_info_rows false acc rows with
    | inl _ => exists st', for_loop ext "$t2" tok_body (map row_val rows)
                             (stR r2d dir_ prefix_ msg ref wb t1 idx2 r t2 tok start end_ evs) = Exc "ValueError" st'
                           /\ events st' = evs
    | inr _ => exists t2' tok' start' end', for_loop ext "$t2" tok_body (map row_val rows)
                             (stR r2d dir_ prefix_ msg ref wb t1 idx2 r t2 tok start end_ evs)
                           = Ok CNormal (stR r2d dir_ prefix_ msg ref wb t1 idx2 r t2' tok' start' end' evs)
    end.
  Proof.
    induction rows as [|[[a b] cc] rows IH]; intros.
    - cbn [Model.ref_info_rows map]. do 4 eexists. reflexivity.
    - cbn [Model.ref_info_rows map].
      change (MiniPy.Lemmas.for_loop ext "$t2" tok_body (?i :: ?l) ?st)
        with (bind (exec ext tok_body (set_var "$t2" i st))
                   (fun c0 st' => match c0 with CNormal => MiniPy.Lemmas.for_loop ext "$t2" tok_body l st' | CReturn _ => Ok c0 st' end)).
      rewrite set_t2. change (row_val (a, b, cc)) with (VList [VInt a; VInt b; VInt cc]). rewrite tok_body_run.
      destruct (a <? 0)%Z.
      + eexists. split; reflexivity.
      + cbn [bind]. apply IH.
  Qed.

  Lemma eval_tolist_ref : forall rows r2d dir_ prefix_ msg wb t1 idx2 r t2 tok start end_ evs,
    eval ext (EMeth (EName "ref") "tolist" [] []) (stR r2d dir_ prefix_ msg (enc12 (T2 false Model.DI64 3 (map row3 rows))) wb t1 idx2 r t2 tok start end_ evs)
    = Ok (VList (map row_val rows)) (stR r2d dir_ prefix_ msg (enc12 (T2 false Model.DI64 3 (map row3 rows))) wb t1 idx2 r t2 tok start end_ evs).
  Proof.
    intros. unfold TieVRef.stR, mkvars. cbn. rewrite method_enc12. cbn. rewrite dec12_enc12. cbn.
    rewrite tolist2_T2 by apply Forall_row3. rewrite map_map. reflexivity.
  Qed.

  Lemma ref_tokloop_run : forall rows acc r2d dir_ prefix_ msg wb t1 idx2 r t2 tok start end_ evs,
    let st := stR r2d dir_ prefix_ msg (enc12 (T2 false Model.DI64 3 (map row3 rows))) wb t1 idx2 r t2 tok start end_ evs in
    match Model.ref_info_rows false acc rows with
    | inl _ => exists st', exec ext ref_tokloop st = Exc "ValueError" st' /\ events st' = evs
    | inr _ => exists t2' tok' start' end',
        exec ext ref_tokloop st
        = Ok CNormal (stR r2d dir_ prefix_ msg (enc12 (T2 false Model.DI64 3 (map row3 rows))) wb t1 idx2 r t2' tok' start' end' evs)
    end.
  Proof.
    intros rows acc r2d dir_ prefix_ msg wb t1 idx2 r t2 tok start end_ evs st. subst st.
    unfold ref_tokloop. rewrite exec_for. fold tok_body. rewrite eval_tolist_ref. cbn [bind iter_items container_items].
    apply tok_loop.
  Qed.

  (* ---- the whole block ---- *)
  Definition ref_shape_ok2 (r : Model.ref) : Prop :=
    match Model.r_data r with
    | Model.R2w w rows => Forall (fun x => List.length x = w) rows /\ w <> 3%nat
    | Model.RN nd => nd <> 1%nat /\ nd <> 2%nat
    | _ => True
    end.

  Lemma ref_prefix : forall t r2d dir_ prefix_ msg t1 idx2 r t2 tok start end_ evs,
    exec ext iv_ref (stR r2d dir_ prefix_ msg (enc12 t) (VBool false) t1 idx2 r t2 tok start end_ evs)
    = bind (exec ext ref_vbody (stR r2d (VStr "d/ref") (VStr "") msg (enc12 t) (VBool false) t1 idx2 r t2 tok start end_ evs))
           (then_ ext (seq_drop 4 iv_ref)).
  Proof. intros. unfold iv_ref, TieVRef.stR, mkvars. do 13 xs. subst. reflexivity. Qed.

  (* a sub-lemma that says "raises ValueError, events unchanged": finish the (exception) goal with it *)
  Ltac use_exc L :=
    match goal with |- context [exec ?e ?s ?st] =>
      lazymatch st with ?f ?ev =>
      let H := fresh in let H2 := fresh in let st' := fresh "st'" in
      (assert (H : exists st', exec e s st = Exc "ValueError" st' /\ events st' = ev) by (apply L));
      destruct H as [st' [H H2]]; rewrite H; cbn [bind]; exists st'; split; [reflexivity|exact H2] end end.

  (* the last statement (the token loop), by ref_tokloop_run *)
  Ltac finish_tok rows acc :=
    match goal with |- context [exec ?e ?s (TieVRef.stR _ _ _ _ _ _ _ _ _ _ _ _ ?r2d ?dir_ ?prefix_ ?msg _ ?wb ?t1 ?idx2 ?r ?t2 ?tok ?start ?end_ ?evs)] =>
      let TL := fresh "TL" in
      pose proof (ref_tokloop_run rows acc r2d dir_ prefix_ msg wb t1 idx2 r t2 tok start end_ evs) as TL; cbv zeta in TL;
      destruct (Model.ref_info_rows false acc rows);
      [ let st' := fresh "st'" in let TL1 := fresh in let TL2 := fresh in
        destruct TL as [st' [TL1 TL2]]; exists st'; split; [exact TL1 | exact TL2]
      | let a1 := fresh in let a2 := fresh in let a3 := fresh in let a4 := fresh in let TL1 := fresh in
        destruct TL as (a1 & a2 & a3 & a4 & TL1); do 5 eexists; exists a1, a2, a3, a4; exact TL1 ]
    end.

  (* the dispatch on an (R, 3) reference, by dispatch_2d3: leaves the exception case closed and the normal case rewritten *)
  Ltac use_2d3 rows s2d :=
    match goal with |- context [exec ?e ?s (TieVRef.stR _ _ _ _ _ _ _ _ _ _ _ _ ?r2d ?dir_ ?prefix_ ?msg _ (VBool ?wb) ?t1 ?idx2 ?r ?t2 ?tok ?start ?end_ ?evs)] =>
      let D := fresh "D" in
      pose proof (dispatch_2d3 rows s2d dir_ prefix_ msg wb t1 idx2 r t2 tok start end_ evs) as D; cbv zeta in D; cbn [r2d_val] in D
    end.
  Ltac exc_by D :=
    let st' := fresh "st'" in let D1 := fresh in let D2 := fresh in
    destruct D as [st' [D1 D2]];
    match goal with |- context [exec ?e ?s ?st] =>
      let H := fresh in assert (H : exec e s st = Exc "ValueError" st') by (apply D1); rewrite H; cbn [bind];
      exists st'; split; [reflexivity|exact D2] end.

  Lemma tok_rows_1d : forall l, map (fun x : Z => [x; (-1)%Z; (-1)%Z]) l = map row3 (map (fun tok : Z => (tok, -1, -1)%Z) l).
  Proof. intros. rewrite map_map. reflexivity. Qed.

  Lemma ref_block : forall lr vst acc dir_ prefix_ msg t1 idx2 r t2 tok start end_ evs,
    ref_shape_ok2 lr ->
    let st := stR (r2d_val (Model.s_2d vst)) dir_ prefix_ msg (enc12 (tens_of_ref lr)) (VBool false) t1 idx2 r t2 tok start end_ evs in
    match Model.ref_part fx T vst lr with
    | inl _ => exists st', exec ext iv_ref st = Exc "ValueError" st' /\ events st' = evs
    | inr (r', wb, vst') =>
        let evs' := if wb then (evs ++ [save_ev (tens_of_ref r') "d/ref"])%list else evs in
        match Model.ref_rows (Model.r_data r') with
        | Some rows =>
            match Model.ref_info_rows false acc rows with
            | inl _ => exists st', exec ext iv_ref st = Exc "ValueError" st' /\ events st' = evs'
            | inr _ => exists msg' ref' t1' idx2' r'' t2' tok' start' end',
                exec ext iv_ref st
                = Ok CNormal (stR (r2d_val (Model.s_2d vst')) (VStr "d/ref") (VStr "") msg' ref' (VBool wb) t1' idx2' r'' t2' tok' start' end' evs')
            end
        | None => True
        end
    end.
  Proof.
    intros [cu dt data] vst acc dir_ prefix_ msg t1 idx2 r t2 tok start end_ evs Hok st. subst st.
    unfold ref_shape_ok2 in Hok. cbn [Model.r_data] in Hok.
    unfold Model.ref_part, tens_of_ref. cbn [Model.r_cuda Model.r_dtype Model.r_data].
    rewrite !ref_prefix. unfold ref_vbody.
    destruct data as [l|rows|w rows|nd]; cbn [tens_of_rdata].
    - (* 1-D *)
      xsc. usex ref_cuda_run. rewrite ?t_cuda_T1, ?cpu_T1.
      destruct (cu && negb (Model.is_some fx))%bool eqn:E1; [done_exc|].
      nxt. usex ref_long_run. unfold is_long, is_small. rewrite ?t_cuda_T1, ?t_dtype_T1, ?long_T1. cbn [negb andb].
      destruct (negb (Model.dtype_beq dt Model.DI64) && negb (Model.is_some fx && Model.upcastable dt))%bool eqn:E2; [done_exc|].
      nxt. destruct (Model.s_2d vst) as [[|]|] eqn:E2d; cbn [r2d_val].
      + use_exc (dispatch_1d false Model.DI64 l (Some true)).
      + use (dispatch_1d false Model.DI64 l (Some false)).
        cbv zeta. cbn [Model.ref_rows Model.r_data Model.r_cuda Model.r_dtype tens_of_ref tens_of_rdata Model.s_2d r2d_val orb].
        cbn [bind then_]. unfold_stmt. use ref_save_run.
        cbn [bind then_ seq_drop iv_ref]. xsc. use expand_1d. cbn [bind then_]. unfold_stmt. rewrite !tok_rows_1d.
        finish_tok (map (fun tok0 : Z => (tok0, -1, -1)%Z) l) acc.
      + use (dispatch_1d false Model.DI64 l (@None bool)).
        cbv zeta. cbn [Model.ref_rows Model.r_data Model.r_cuda Model.r_dtype tens_of_ref tens_of_rdata Model.s_2d r2d_val orb].
        cbn [bind then_]. unfold_stmt. use ref_save_run.
        cbn [bind then_ seq_drop iv_ref]. xsc. use expand_1d. cbn [bind then_]. unfold_stmt. rewrite !tok_rows_1d.
        finish_tok (map (fun tok0 : Z => (tok0, -1, -1)%Z) l) acc.
    - (* (R, 3) *)
      xsc. usex ref_cuda_run. rewrite ?t_cuda_T2, ?cpu_T2.
      destruct (cu && negb (Model.is_some fx))%bool eqn:E1; [done_exc|].
      nxt. usex ref_long_run. unfold is_long, is_small. rewrite ?t_cuda_T2, ?t_dtype_T2, ?long_T2. cbn [negb andb].
      destruct (negb (Model.dtype_beq dt Model.DI64) && negb (Model.is_some fx && Model.upcastable dt))%bool eqn:E2; [done_exc|].
      nxt. destruct (Model.s_2d vst) as [[|]|] eqn:E2d; cbn [r2d_val].
      + (* previous references were 2-D *)
        use_2d3 rows (Some true). destruct (Model.rows_part fx (Z.of_nat T) rows) as [e|[rows' wbr]]; [exc_by D|].
        destruct D as (m1 & t1' & i' & r' & D1). use D1.
        cbv zeta. cbn [Model.ref_rows Model.r_data Model.r_cuda Model.r_dtype tens_of_ref tens_of_rdata Model.s_2d r2d_val orb].
        cbn [bind then_]. unfold_stmt. use ref_save_run.
        cbn [bind then_ seq_drop iv_ref]. xsc. use expand_2d. cbn [bind then_]. unfold_stmt.
        finish_tok rows' acc.
      + (* previous references were 1-D *)
        use_2d3 rows (Some false). exc_by D.
      + use_2d3 rows (@None bool). destruct (Model.rows_part fx (Z.of_nat T) rows) as [e|[rows' wbr]]; [exc_by D|].
        destruct D as (m1 & t1' & i' & r' & D1). use D1.
        cbv zeta. cbn [Model.ref_rows Model.r_data Model.r_cuda Model.r_dtype tens_of_ref tens_of_rdata Model.s_2d r2d_val orb].
        cbn [bind then_]. unfold_stmt. use ref_save_run.
        cbn [bind then_ seq_drop iv_ref]. xsc. use expand_2d. cbn [bind then_]. unfold_stmt.
        finish_tok rows' acc.
    - (* (R, w), w <> 3 *)
      destruct Hok as [HF Hw].
      xsc. usex ref_cuda_run. rewrite ?t_cuda_T2, ?cpu_T2.
      destruct (cu && negb (Model.is_some fx))%bool eqn:E1; [done_exc|].
      nxt. usex ref_long_run. unfold is_long, is_small. rewrite ?t_cuda_T2, ?t_dtype_T2, ?long_T2. cbn [negb andb].
      destruct (negb (Model.dtype_beq dt Model.DI64) && negb (Model.is_some fx && Model.upcastable dt))%bool eqn:E2; [done_exc|].
      nxt.
      match goal with |- context [exec ?e ?s (TieVRef.stR _ _ _ _ _ _ _ _ _ _ _ _ ?r2d ?dir_ ?prefix_ ?msg _ ?wb ?t1 ?idx2 ?r ?t2 ?tok ?start ?end_ ?evs)] =>
        pose proof (dispatch_2dw false Model.DI64 w rows (Model.s_2d vst) dir_ prefix_ msg wb t1 idx2 r t2 tok start end_ evs Hw) as D end.
      exc_by D.
    - (* neither 1-D nor 2-D *)
      destruct Hok as [H1 H2].
      assert (Hn : forall cu' dt', ndim (mkT cu' dt' (repeat 1%nat nd) [0%Z]) = nd) by (intros; unfold ndim; cbn; apply repeat_length).
      xsc. usex ref_cuda_run. cbn [t_cuda].
      destruct (cu && negb (Model.is_some fx))%bool eqn:E1; [done_exc|].
      nxt. usex ref_long_run. unfold is_long, is_small, cpu. cbn [t_cuda t_dtype negb andb].
      destruct (negb (Model.dtype_beq dt Model.DI64) && negb (Model.is_some fx && Model.upcastable dt))%bool eqn:E2; [done_exc|].
      nxt. unfold long. cbn [t_cuda t_shape t_data].
      match goal with |- context [exec ?e ?s (TieVRef.stR _ _ _ _ _ _ _ _ _ _ _ _ ?r2d ?dir_ ?prefix_ ?msg (enc12 ?t) ?wb ?t1 ?idx2 ?r ?t2 ?tok ?start ?end_ ?evs)] =>
        pose proof (dispatch_other t r2d dir_ prefix_ msg wb t1 idx2 r t2 tok start end_ evs) as D end.
      rewrite Hn in D. specialize (D H1 H2). exc_by D.
  Qed.
End Ref2.
