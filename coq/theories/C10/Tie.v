(* C10 — tie between the Python text of `chunk_token_sequences_by_slices` and PV.C10.Model.chunk_tokens, checked
   by the kernel.  PV.Gen.C10Src.chunk_tokens_body is the MiniPy term that harness/py2coq/translate.py regenerates
   from /repo/src/pydrobert/torch/_feats.py on every run; PV.MiniPy.Interp is its semantics; the torch calls mean
   what PV.MiniTorch.OpsC10 says (through SrcRun.ext10).  The lemmas below say: for EVERY batch of N token rows of
   any common length R, every slice per row, ref_lens given or omitted, partial / retain set or not, interpreting the
   source returns exactly the model's (chunked, chunked_lens) - chunked with the cells past chunked_lens[n]
   UNDEFINED (they come from new_empty and are never written) - AS CODED (known finding K1: `+=` where the
   property wants `-=`); that it raises RuntimeError on the malformed shapes, and returns empty chunks for 2-D
   refs.  If the source is edited so that this stops being true, this file stops compiling and the C10 check
   reports the broken obligation. *)
From Coq Require Import ZArith List String Bool Arith Lia ZifyBool ZifyNat.
From PV Require Import MiniPy.Syntax MiniPy.Interp MiniTorch.Ops MiniTorch.Value MiniTorch.Lemmas.
From PV Require Import MiniTorch.OpsC10 MiniTorch.ValueC10 MiniTorch.LemmasC10 Gen.C10Src.
From PV Require Import C10.SrcRun.
From PV Require Import C10.Model C10.Spec C10.Lists C10.ProofsTokens C10.Proofs C10.TieModel.
Import ListNotations.
Local Open Scope string_scope.

(* ---- encoding ---- *)
Lemma dec_cells_enc : forall d, dec_cells (map enc_cell d) = Some d.
Proof. induction d as [|c d IH]; [reflexivity|]. destruct c; cbn [map enc_cell dec_cells]; now rewrite IH. Qed.

Lemma dec10_enc10 : forall t, dec10 (enc10 t) = Some t.
Proof.
  intros [sh d]. unfold dec10, enc10, enc_shape. cbn [ishape idata]. rewrite String.eqb_refl, dec_nats_enc, dec_cells_enc.
  reflexivity.
Qed.

Lemma operand_enc10 : forall t, operand (enc10 t) = Some t.
Proof. intros t. unfold operand. change (enc10 t) with (VTuple [VStr itensor_tag; VList (enc_shape (ishape t)); VList (map enc_cell (idata t))]) at 1. cbv beta iota. apply dec10_enc10. Qed.

Lemma on1_enc : forall why t k st, on1 why (enc10 t) k st = ret10 why (k t) st.
Proof. intros. unfold on1. now rewrite dec10_enc10. Qed.

Lemma on2_enc : forall why t u k st, on2 why (enc10 t) (enc10 u) k st = ret10 why (k t u) st.
Proof. intros. unfold on2. now rewrite !operand_enc10. Qed.

Lemma on2_enc_int : forall why t z k st, on2 why (enc10 t) (VInt z) k st = ret10 why (k t (scalar_int z)) st.
Proof. intros. unfold on2. now rewrite operand_enc10. Qed.

Lemma method_enc10 : forall t m args, method (enc10 t) m args = None.
Proof. reflexivity. Qed.
Lemma attribute_enc10 : forall ext t a st, attribute ext (enc10 t) a st = ext ("$attr." ++ a) [enc10 t] [] st.
Proof. reflexivity. Qed.
Lemma foreign_enc10 : forall t, foreign (enc10 t) = true.
Proof. reflexivity. Qed.
Lemma subscript_enc10 : forall t k st, subscript (enc10 t) (VTuple k) st = Stuck "subscript".
Proof. reflexivity. Qed.
Lemma subscript_enc10_t : forall t k st, subscript (enc10 t) (enc10 k) st = Stuck "subscript".
Proof. reflexivity. Qed.
Lemma binop_and_enc10 : forall t u st, binop_eval BitAnd (enc10 t) (enc10 u) st = Stuck "and".
Proof. reflexivity. Qed.
Lemma binop_add_enc10 : forall t u st, binop_eval Add (enc10 t) (enc10 u) st = Stuck "add".
Proof. reflexivity. Qed.
Lemma dec_index_enc10 : forall t, dec_index (enc10 t) = None.
Proof. reflexivity. Qed.
Lemma is_none_enc10 : forall t, cmp_eval Is (enc10 t) VNone = Some false.
Proof. reflexivity. Qed.

#[local] Arguments enc10 : simpl never.
#[local] Arguments dec10 : simpl never.
#[local] Arguments I1 : simpl never.
#[local] Arguments I2 : simpl never.
#[local] Arguments I3 : simpl never.
#[local] Arguments B2 : simpl never.
#[local] Arguments B3 : simpl never.
#[local] Arguments O3 : simpl never.
#[local] Arguments C1 : simpl never.
#[local] Arguments C2 : simpl never.
#[local] Arguments C3 : simpl never.
#[local] Arguments V1 : simpl never.
#[local] Arguments OpsC10.arange : simpl never.
#[local] Arguments OpsC10.unsqueeze : simpl never.
#[local] Arguments OpsC10.size : simpl never.
#[local] Arguments OpsC10.compare : simpl never.
#[local] Arguments OpsC10.logical_and : simpl never.
#[local] Arguments OpsC10.add : simpl never.
#[local] Arguments OpsC10.all_last : simpl never.
#[local] Arguments OpsC10.sum_last : simpl never.
#[local] Arguments OpsC10.long : simpl never.
#[local] Arguments OpsC10.select_last : simpl never.
#[local] Arguments OpsC10.slice_last : simpl never.
#[local] Arguments OpsC10.set_slice_last : simpl never.
#[local] Arguments OpsC10.expand : simpl never.
#[local] Arguments OpsC10.view : simpl never.
#[local] Arguments OpsC10.masked_select : simpl never.
#[local] Arguments OpsC10.masked_scatter : simpl never.
#[local] Arguments OpsC10.new_empty : simpl never.
#[local] Arguments OpsC10.new_zeros : simpl never.
#[local] Arguments OpsC10.ones_bool : simpl never.
#[local] Arguments OpsC10.ndim : simpl never.
#[local] Arguments Z.of_nat : simpl never.

(* `t is None` on a tensor, in the shape [cbn] gives it *)
Lemma is_none_enc10_cbn : forall t : itens,
  ltac:(let x := eval cbn in (cmp_eval Is (enc10 t) VNone) in exact (x = Some false)).
Proof. reflexivity. Qed.

Lemma ndim_I3 : forall n m k a, ndim (I3 n m k a) = 3%nat. Proof. reflexivity. Qed.
Lemma size_I3_0 : forall n m k a, OpsC10.size (I3 n m k a) 0 = Some n. Proof. reflexivity. Qed.
Lemma size_I3_1 : forall n m k a, OpsC10.size (I3 n m k a) 1 = Some m. Proof. reflexivity. Qed.
Lemma size_I3_2 : forall n m k a, OpsC10.size (I3 n m k a) 2 = Some k. Proof. reflexivity. Qed.
Lemma ishape_I3 : forall n m k a, ishape (I3 n m k a) = [n; m; k]. Proof. reflexivity. Qed.
Lemma ishape_I2 : forall m k a, ishape (I2 m k a) = [m; k]. Proof. reflexivity. Qed.
Lemma ishape_I1 : forall k a, ishape (I1 k a) = [k]. Proof. reflexivity. Qed.


Definition then_ (b : stmt) : ctl -> state -> outcome ctl :=
  fun c st1 => match c with CNormal => exec ext10 b st1 | CReturn v => Ok c st1 end.
Lemma exec_seq' : forall a b st, exec ext10 (SSeq a b) st = bind (exec ext10 a st) (then_ b).
Proof. reflexivity. Qed.
Lemma then_normal : forall b st, then_ b CNormal st = exec ext10 b st.
Proof. reflexivity. Qed.
Lemma then_return : forall b v st, then_ b (CReturn v) st = Ok (CReturn v) st.
Proof. reflexivity. Qed.
#[local] Arguments then_ : simpl never.

Lemma run_of_exec : forall body vars v st,
  exec ext10 body (mkState vars []) = Ok (CReturn v) st -> Interp.run ext10 body vars = Ok v st.
Proof. intros body vars v st H. unfold Interp.run. now rewrite H. Qed.

Lemma arange_nat : forall R, OpsC10.arange (Z.of_nat R) = Some (I1 R Z.of_nat).
Proof. intros R. unfold OpsC10.arange. replace (Z.of_nat R <? 0)%Z with false by lia. now rewrite Nat2Z.id. Qed.


(* ---- the operations on typed tabulated tensors ---- *)
Lemma ones_B2 : forall n m, ones_bool [n; m] = B2 n m (fun _ _ => true).
Proof. intros. unfold ones_bool. now rewrite full_2. Qed.
Lemma new_empty_3 : forall n m k, new_empty [n; m; k] = O3 n m k (fun _ _ _ => None).
Proof. intros. unfold new_empty. now rewrite full_3. Qed.
Lemma unsqueeze_I1_1 : forall n a, OpsC10.unsqueeze (I1 n a) 1 = Some (I2 n 1 (fun i _ => a i)).
Proof. intros. unfold I1. now rewrite unsqueeze_C1_1. Qed.
Lemma unsqueeze_B2_2 : forall n m b, OpsC10.unsqueeze (B2 n m b) 2 = Some (B3 n m 1 (fun i j _ => b i j)).
Proof. intros. unfold B2. now rewrite unsqueeze_C2_2. Qed.
Lemma slice_I3_from1 : forall n m a, slice_last (I3 n m 3 a) (Some 1%Z) None = Some (I3 n m 2 (fun i j l => a i j (S l))).
Proof. intros. unfold I3. now rewrite (slice_last_C3 n m 3 _ (Some 1%Z) None 1 2) by (reflexivity || lia). Qed.
Lemma slice_O3_from1 : forall n m h, slice_last (O3 n m 3 h) (Some 1%Z) None = Some (O3 n m 2 (fun i j l => h i j (S l))).
Proof. intros. unfold O3. now rewrite (slice_last_C3 n m 3 _ (Some 1%Z) None 1 2) by (reflexivity || lia). Qed.
Lemma slice_I2_to1 : forall n a, slice_last (I2 n 2 a) None (Some 1%Z) = Some (I2 n 1 (fun i l => a i l)).
Proof. intros. unfold I2. now rewrite (slice_last_C2 n 2 _ None (Some 1%Z) 0 1) by (reflexivity || lia). Qed.
Lemma slice_I2_from1 : forall n a, slice_last (I2 n 2 a) (Some 1%Z) None = Some (I2 n 1 (fun i l => a i (S l))).
Proof. intros. unfold I2. now rewrite (slice_last_C2 n 2 _ (Some 1%Z) None 1 1) by (reflexivity || lia). Qed.
Lemma select_I3_2 : forall n m a, select_last (I3 n m 3 a) 2 = Some (I2 n m (fun i j => a i j 2%nat)).
Proof. intros. unfold I3. now rewrite (select_last_C3 n m 3 _ 2%Z 2%nat) by reflexivity. Qed.
Lemma select_I3_1 : forall n m a, select_last (I3 n m 3 a) 1 = Some (I2 n m (fun i j => a i j 1%nat)).
Proof. intros. unfold I3. now rewrite (select_last_C3 n m 3 _ 1%Z 1%nat) by reflexivity. Qed.
Lemma select_I2_0 : forall n a, select_last (I2 n 2 a) 0 = Some (I1 n (fun i => a i 0%nat)).
Proof. intros. unfold I2. now rewrite (select_last_C2 n 2 _ 0%Z 0%nat) by reflexivity. Qed.
Lemma expand_B3_last : forall n m k b, expand (B3 n m 1 b) [n; m; k] = Some (B3 n m k (fun i j _ => b i j 0%nat)).
Proof. intros. unfold B3. now rewrite expand_C3_last. Qed.
Lemma view_I1_n11 : forall n a, view (I1 n a) [n; 1; 1]%nat = Some (I3 n 1 1 (fun i _ _ => a i)).
Proof. intros. unfold I1. now rewrite view_C1_n11. Qed.
Lemma expand_I3_n11 : forall n m k a, expand (I3 n 1 1 a) [n; m; k] = Some (I3 n m k (fun i _ _ => a i 0%nat 0%nat)).
Proof. intros. unfold I3. now rewrite expand_C3_n11. Qed.
Lemma masked_select_I3 : forall n m k a b,
  OpsC10.masked_select (I3 n m k a) (B3 n m k (fun i j _ => b i j)) = Some (V1 (sel3 n m k (fun i j l => CInt (a i j l)) b)).
Proof. intros. unfold I3. apply masked_select_C3. Qed.
Lemma set_slice_O3_from1 : forall n m h g,
  set_slice_last (O3 n m 3 h) (Some 1%Z) None (O3 n m 2 g)
  = Some (O3 n m 3 (fun i j l => match l with O => h i j O | S l' => g i j l' end)).
Proof.
  intros. unfold O3. rewrite (set_slice_last_C3 n m 3 _ (Some 1%Z) None 1 2) by (reflexivity || lia).
  unfold C3. f_equal.
Qed.
Lemma sum_long_B2 : forall m k (b : nat -> nat -> bool),
  sum_last (I2 m k (fun j l => if b j l then 1%Z else 0%Z)) 1 = Some (I1 m (fun j => count_row k (b j))).
Proof. intros. apply sum_last_I2. Qed.
#[local] Arguments count_row : simpl never.
Lemma leb_0_of_nat : forall n, (0 <=? Z.of_nat n)%Z = true.
Proof. intros. lia. Qed.

Ltac tstep :=
  cbn;
  change (Z.of_nat 3) with 3%Z; change (Z.of_nat 2) with 2%Z; change (Z.of_nat 1) with 1%Z;  change (Z.of_nat 0) with 0%Z;
  change (Pos.to_nat 1) with 1%nat; change (Pos.to_nat 2) with 2%nat; change (Pos.to_nat 3) with 3%nat;
  rewrite ?method_enc10, ?attribute_enc10, ?foreign_enc10, ?subscript_enc10, ?subscript_enc10_t, ?binop_and_enc10, ?binop_add_enc10,
    ?dec_index_enc10, ?is_none_enc10, ?is_none_enc10_cbn, ?dec10_enc10, ?on1_enc, ?on2_enc, ?on2_enc_int,
    ?ndim_I3, ?size_I3_0, ?size_I3_1, ?size_I3_2, ?ishape_I3, ?ishape_I2, ?ishape_I1, ?Z.eqb_refl, ?arange_nat,
    ?leb_0_of_nat, ?Nat2Z.id, ?ones_B2, ?new_empty_3, ?unsqueeze_I1_1, ?unsqueeze_B2_2, ?slice_I3_from1, ?slice_O3_from1,
    ?slice_I2_to1, ?slice_I2_from1, ?select_I3_2, ?select_I3_1, ?select_I2_0, ?expand_B3_last, ?view_I1_n11, ?expand_I3_n11,
    ?masked_select_I3, ?set_slice_O3_from1, ?compare_I2col_I1, ?compare_I2col_I2, ?compare_I2_I2, ?compare_I3_scalar,
    ?and_B2_B2, ?add_O3_I3, ?all_last_B3, ?long_B2, ?sum_long_B2.

(* ---- running the body one top-level statement at a time ------------------------------------------------------ *)
(* the statements that follow are hidden behind a variable while one is evaluated *)
Ltac open_seq := rewrite exec_seq'; match goal with |- context [then_ ?b] => let r := fresh "rest" in remember b as r end.
Ltac norm_state := unfold set_var; cbn [update vars events String.eqb Ascii.eqb Bool.eqb].
Ltac close_stmt := norm_state; rewrite then_normal; match goal with H : ?r = _ |- context [exec ext10 ?r _] => subst r end.
Ltac stmt := open_seq; repeat (progress tstep).

(* the k-th tail of a right-nested sequence *)
Fixpoint drop_seq (k : nat) (s : stmt) : stmt :=
  match k, s with S k', SSeq _ b => drop_seq k' b | _, _ => s end.


Lemma scatter_select_lens : forall n m k a b,
  OpsC10.masked_scatter (O3 n m k (fun _ _ _ => None))
     (B3 n m k (fun i j _ => (count_row m (b i) >? Z.of_nat j)%Z))
     (V1 (sel3 n m k (fun i j l => CInt (a i j l)) b))
  = Some (O3 n m k (fun i r l => option_map (fun p => a i p l) (nth_error (kept_idx m (b i)) r))).
Proof. intros. apply (scatter_of_select n m k a b (fun i => count_row m (b i))). intros. apply zsum_count. Qed.

(* what the body computes after the mask is known (statements 8..13: chunked_lens = ... to the return), whatever the mask *)
Definition tail_vars (N R : nat) rf sf (rl : val) (partial retain : bool) (keep : nat -> nat -> bool) : list (string * val) :=
  [("refs", enc10 (I3 N R 3 rf)); ("slices", enc10 (I2 N 2 sf)); ("ref_lens", rl);
   ("partial", VBool partial); ("retain", VBool retain); ("torch", torch_module);
   ("$t1", VTuple [VInt (Z.of_nat N); VInt (Z.of_nat R)]); ("N", VInt (Z.of_nat N)); ("R", VInt (Z.of_nat R));
   ("arange", enc10 (I1 R Z.of_nat)); ("mask", enc10 (B2 N R keep))].

Definition tail_result (N R : nat) rf sf keep (retain : bool) : val :=
  VTuple [enc10 (O3 N R 3 (out_cell retain R rf sf keep)); enc10 (I1 N (fun i => count_row R (keep i)))].

#[local] Arguments kept_cell : simpl never.


Lemma tail_run : forall N R rf sf rl partial retain keep,
  exists st, exec ext10 (drop_seq 7 chunk_tokens_body) (mkState (tail_vars N R rf sf rl partial retain keep) [])
             = Ok (CReturn (tail_result N R rf sf keep retain)) st.
Proof.
  intros. unfold chunk_tokens_body, tail_vars. cbn [drop_seq].
  stmt. close_stmt.
  stmt. close_stmt.
  stmt. close_stmt.
  stmt. rewrite scatter_select_lens. fold (kept_cell R rf keep). repeat (progress tstep). close_stmt.
  destruct retain.
  - stmt. close_stmt. repeat (progress tstep). eexists. reflexivity.
  - stmt. unfold enc10 at 1. repeat (progress tstep). close_stmt. repeat (progress tstep). eexists. reflexivity.
Qed.

(* ---- statements 1..7: the mask ------------------------------------------------------------------------------- *)
Definition tab_vars (N R : nat) rf sf (rl : option (nat -> Z)) (partial retain : bool) : list (string * val) :=
  tokens_vars_raw (I3 N R 3 rf) (I2 N 2 sf) (option_map (I1 N) rl) partial retain.

Lemma head_run : forall N R rf sf rl partial retain,
  exec ext10 chunk_tokens_body (mkState (tab_vars N R rf sf rl partial retain) [])
  = exec ext10 (drop_seq 7 chunk_tokens_body)
      (mkState (tail_vars N R rf sf (opt_tensor (option_map (I1 N) rl)) partial retain (head_keep rf sf rl partial)) []).
Proof.
  intros.
  remember (exec ext10 (drop_seq 7 chunk_tokens_body)
      (mkState (tail_vars N R rf sf (opt_tensor (option_map (I1 N) rl)) partial retain (head_keep rf sf rl partial)) [])) as RHS.
  unfold chunk_tokens_body, tab_vars, tokens_vars_raw.
  stmt. close_stmt.
  stmt. close_stmt.
  stmt. close_stmt.
  stmt. close_stmt.
  destruct rl as [lf|]; cbn [option_map opt_tensor] in *.
  - stmt. close_stmt.
    stmt. close_stmt.
    destruct partial; stmt; close_stmt; subst RHS; reflexivity.
  - stmt. close_stmt.
    stmt. close_stmt.
    destruct partial; stmt; close_stmt; subst RHS; reflexivity.
Qed.

(* ---- statements 1..13 on tabulated tensors ------------------------------------------------------------------------ *)
Lemma run_tab : forall N R rf sf rl partial retain,
  exists st, exec ext10 chunk_tokens_body (mkState (tab_vars N R rf sf rl partial retain) [])
             = Ok (CReturn (tail_result N R rf sf (head_keep rf sf rl partial) retain)) st.
Proof. intros. rewrite head_run. apply tail_run. Qed.

(* ---- the tie --------------------------------------------------------------------------------------------------------- *)
Lemma tokens_vars_tab : forall R refs slices ref_lens partial retain,
  Forall (fun r => List.length r = R) refs -> List.length slices = List.length refs ->
  lens_shape_ok (List.length refs) ref_lens ->
  tokens_vars R refs slices ref_lens partial retain
  = tab_vars (List.length refs) R (rfun refs) (sfun slices) (rl_of ref_lens) partial retain.
Proof.
  intros R refs slices ref_lens partial retain HR Hl Hs. unfold tokens_vars, tab_vars.
  rewrite (refs_tensor_tab R refs HR), slices_tensor_tab, Hl. f_equal.
  destruct ref_lens as [ls|]; [|reflexivity]. cbn [option_map rl_of]. cbn in Hs. now rewrite vec_tensor_tab, Hs.
Qed.

(* for every well-shaped input the interpreted source returns the model's result: chunked (cells past chunked_lens[n]
   undefined) and chunked_lens *)
Theorem tokens_tie : forall R refs slices ref_lens partial retain,
  Forall (fun r => List.length r = R) refs -> List.length slices = List.length refs ->
  lens_shape_ok (List.length refs) ref_lens ->
  exists st, run_tokens R refs slices ref_lens partial retain
             = Ok (result_value R (chunk_tokens as_coded refs slices ref_lens partial retain)) st.
Proof.
  intros R refs slices ref_lens partial retain HR Hl Hs. unfold run_tokens.
  rewrite (tokens_vars_tab R refs slices ref_lens partial retain HR Hl Hs).
  destruct (run_tab (List.length refs) R (rfun refs) (sfun slices) (rl_of ref_lens) partial retain) as [st Hrun].
  exists st. apply run_of_exec. rewrite Hrun. unfold tail_result, result_value.
  destruct (tab_result_is_model R refs slices ref_lens partial retain HR Hl) as [E1 E2].
  cbv zeta in E1, E2. now rewrite E1, E2.
Qed.

(* the model's result has the shape read_result expects *)
Lemma model_result_shape : forall R refs slices ref_lens partial retain,
  Forall (fun r => List.length r = R) refs -> List.length slices = List.length refs ->
  let M := chunk_tokens as_coded refs slices ref_lens partial retain in
  List.length (snd M) = List.length (fst M)
  /\ forall n, (n < List.length (fst M))%nat ->
       nth n (snd M) 0%Z = zlen (nth n (fst M) []) /\ (List.length (nth n (fst M) []) <= R)%nat.
Proof.
  intros R refs slices ref_lens partial retain HR Hl M.
  destruct refs as [|r0 refs'].
  - subst M. cbn. destruct retain; (split; [reflexivity|intros n Hn; cbn in Hn; lia]).
  - destruct (chunk_tokens_nth as_coded (r0 :: refs') slices ref_lens partial retain R 0 HR Hl) as (L1 & L2 & _);
      [cbn; lia|]. fold M in L1, L2. split; [congruence|]. intros n Hn. rewrite L1 in Hn.
    destruct (chunk_tokens_nth as_coded (r0 :: refs') slices ref_lens partial retain R n HR Hl Hn) as (_ & _ & E & El).
    fold M in E, El. split; [exact El|]. rewrite E. unfold row_out. rewrite map_length.
    etransitivity; [apply kept_row_length|]. rewrite Forall_forall in HR. rewrite (HR (nth n (r0 :: refs') [])); [lia|].
    now apply nth_In.
Qed.

(* the executable form the harness evaluates: for all well-shaped inputs it is the model *)
Theorem src_chunk_tokens_tie : forall R refs slices ref_lens partial retain,
  Forall (fun r => List.length r = R) refs -> List.length slices = List.length refs ->
  lens_shape_ok (List.length refs) ref_lens ->
  src_chunk_tokens R refs slices ref_lens partial retain
  = Some (chunk_tokens as_coded refs slices ref_lens partial retain).
Proof.
  intros R refs slices ref_lens partial retain HR Hl Hs. unfold src_chunk_tokens.
  destruct (tokens_tie R refs slices ref_lens partial retain HR Hl Hs) as [st ->]. unfold result_value.
  rewrite !dec10_enc10.
  destruct (model_result_shape R refs slices ref_lens partial retain HR Hl) as [L H].
  rewrite (read_model_result R _ _ L H). now destruct (chunk_tokens as_coded refs slices ref_lens partial retain).
Qed.

Theorem src_chunk_tokens_check_is_check : forall R refs slices ref_lens partial retain impl,
  Forall (fun r => List.length r = R) refs -> List.length slices = List.length refs ->
  lens_shape_ok (List.length refs) ref_lens ->
  src_chunk_tokens_check R refs slices ref_lens partial retain impl
  = check_tokens as_coded refs slices ref_lens partial retain impl.
Proof. intros. unfold src_chunk_tokens_check, check_tokens. now rewrite src_chunk_tokens_tie. Qed.

(* ---- composed with the model theorems: a statement purely about the interpreted source --------------------------------
   Whatever the arithmetic as coded does to the boundaries (K1), the tokens the source keeps in row n are exactly those
   whose known segment is contained in (partial: overlaps) the slice and that lie before ref_lens[n], in the order of the
   source; chunked_lens[n] counts them; and with retain they are returned unchanged. *)
Theorem source_tokens_kept_in_order : forall R refs slices ref_lens partial retain n,
  Forall (fun r => List.length r = R) refs -> List.length slices = List.length refs ->
  lens_shape_ok (List.length refs) ref_lens -> (n < List.length refs)%nat ->
  exists rows lens st spec_row,
    run_tokens R refs slices ref_lens partial retain = Ok (result_value R (rows, lens)) st
    /\ read_result (chunked_tensor R rows) (vec_tensor lens) = Some (rows, lens)
    /\ tokens_row_spec partial retain (rowL ref_lens n) (nth n slices (0, 0)%Z) (nth n refs []) spec_row
    /\ map tk_tok (nth n rows []) = map tk_tok spec_row
    /\ nth n lens 0%Z = zlen spec_row
    /\ (retain = true -> nth n rows [] = spec_row).
Proof.
  intros R refs slices ref_lens partial retain n HR Hl Hs Hn.
  set (M := chunk_tokens as_coded refs slices ref_lens partial retain).
  destruct (tokens_tie R refs slices ref_lens partial retain HR Hl Hs) as [st Hrun]. fold M in Hrun.
  destruct (model_result_shape R refs slices ref_lens partial retain HR Hl) as [L H]. fold M in L, H.
  exists (fst M), (snd M), st, (nth n (fst (chunk_tokens repaired refs slices ref_lens partial retain)) []).
  split; [now destruct M|]. split; [apply (read_model_result R _ _ L H)|].
  destruct (tokens_kept_spec repaired refs slices ref_lens partial retain R n (conj HR Hl) Hn (or_intror eq_refl))
    as (Sp & Ln & L1' & L2').
  destruct (tokens_order_preserved as_coded refs slices ref_lens partial retain R n (conj HR Hl) Hn) as (_ & Eq).
  fold M in Eq. split; [exact Sp|]. split; [exact Eq|].
  destruct (chunk_tokens_nth as_coded refs slices ref_lens partial retain R n HR Hl Hn) as (_ & _ & E & El).
  destruct (chunk_tokens_nth repaired refs slices ref_lens partial retain R n HR Hl Hn) as (_ & _ & E' & _).
  fold M in E, El. split.
  - rewrite El. unfold zlen. f_equal. rewrite <- (map_length tk_tok (nth n (fst M) [])), Eq. now rewrite map_length.
  - intros ->. rewrite E, E'. unfold row_out. apply map_ext. intros x. reflexivity.
Qed.

(* ---- the same statements under the model's own well-formedness predicate (Proofs.tokens_shape_ok) ------------------- *)
Theorem tokens_tie_ok : forall R refs slices ref_lens partial retain,
  tokens_shape_ok refs slices R -> lens_shape_ok (List.length refs) ref_lens ->
  exists st, Interp.run ext10 chunk_tokens_body (tokens_vars R refs slices ref_lens partial retain)
             = Ok (result_value R (chunk_tokens as_coded refs slices ref_lens partial retain)) st.
Proof. intros R refs slices ref_lens partial retain [HR Hl]. now apply tokens_tie. Qed.

Theorem src_chunk_tokens_tie_ok : forall R refs slices ref_lens partial retain,
  tokens_shape_ok refs slices R -> lens_shape_ok (List.length refs) ref_lens ->
  src_chunk_tokens R refs slices ref_lens partial retain = Some (chunk_tokens as_coded refs slices ref_lens partial retain).
Proof. intros R refs slices ref_lens partial retain [HR Hl]. now apply src_chunk_tokens_tie. Qed.

Theorem src_chunk_tokens_check_ok : forall R refs slices ref_lens partial retain impl,
  tokens_shape_ok refs slices R -> lens_shape_ok (List.length refs) ref_lens ->
  src_chunk_tokens_check R refs slices ref_lens partial retain impl
  = check_tokens as_coded refs slices ref_lens partial retain impl.
Proof. intros R refs slices ref_lens partial retain impl [HR Hl]. now apply src_chunk_tokens_check_is_check. Qed.

Theorem source_tokens_kept_in_order_ok : forall R refs slices ref_lens partial retain n,
  tokens_shape_ok refs slices R -> lens_shape_ok (List.length refs) ref_lens -> (n < List.length refs)%nat ->
  exists rows lens st spec_row,
    Interp.run ext10 chunk_tokens_body (tokens_vars R refs slices ref_lens partial retain) = Ok (result_value R (rows, lens)) st
    /\ read_result (chunked_tensor R rows) (vec_tensor lens) = Some (rows, lens)
    /\ tokens_row_spec partial retain (rowL ref_lens n) (nth n slices (0, 0)%Z) (nth n refs []) spec_row
    /\ map tk_tok (nth n rows []) = map tk_tok spec_row
    /\ nth n lens 0%Z = zlen spec_row
    /\ (retain = true -> nth n rows [] = spec_row).
Proof. intros R refs slices ref_lens partial retain n [HR Hl]. now apply source_tokens_kept_in_order. Qed.
