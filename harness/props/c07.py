"""C07 - sequence scores, random walks, the distribution wrapper and greedy CTC decoding:
correspondence between /repo (pydrobert.torch.functional.sequence_log_probs / ctc_greedy_search,
modules.RandomWalk, distributions.SequentialLanguageModelDistribution) and PV.C07.Model."""
import itertools
import json
import os
import math
import random
import warnings
from fractions import Fraction
from unittest import mock

import torch

from vlib import cb, cl, cn, co, cp, cz, coq_eval_bools, coq_eval_print, exc_kind, load_corpus, shrink

warnings.filterwarnings("ignore")

IMPORTS = "From PV Require Import C07.Model C07.Spec.\n"
SCALE = 2 ** 40
TOL = 512  # units of 2^-40  (4.7e-10); model inputs are rounded to the grid, <= 0.5 unit each
ATOL = 1e-9  # implementation-vs-implementation agreements
THEOREMS = {
    "slp": ["c07_slp_col_correct", "c07_slp_tensor_correct", "c07_slp_tensor_error", "c07_lens_from_eos"],
    "ps": ["c07_slp_packed_correct", "c07_slp_packed_sorted", "c07_slp_packed_eq_padded"],
    "walk": ["c07_walk_correct", "c07_dist_logprob_eq_walk_logp"],
    "dist": ["c07_dist_log_prob_spec", "c07_dist_logprob_eq_walk_logp", "c07_padding_keeps_score", "c07_stacked_logprob_eq_walk_logp", "c07_support_characterised",
             "c07_support_nodup", "c07_support_mass_one", "c07_samples_in_support"],
    "greedy": ["c07_greedy_argmax", "c07_greedy_correct", "c07_greedy_error"],
    "adv": ["c07_walk_correct"],
}


# ----------------------------------------------------------------------------------------
# literals
# ----------------------------------------------------------------------------------------

BIG = 2 ** 200  # stands for a non-finite implementation output: never within tolerance of a model value


def zs(x):
    """float -> Z on the 2^-40 grid (non-finite: a sentinel no model value is close to)"""
    x = float(x)
    if math.isnan(x):
        return 3 * BIG
    if math.isinf(x):
        return BIG if x > 0 else -BIG
    return int(round(Fraction(x) * SCALE))


def lz(x):
    if isinstance(x, (list, tuple)):
        return cl([lz(y) for y in x])
    return cz(x)


def ln(x):
    if isinstance(x, (list, tuple)):
        return cl([ln(y) for y in x])
    return cn(x)


def oz(x):
    return "None" if x is None else f"(Some {cz(x)})"


def on(x):
    return "None" if x is None else f"(Some {cn(x)})"


def rnd(case, tag):
    return random.Random(f"{case.get('seed', 0)}|{tag}")


def prod(xs):
    r = 1
    for x in xs:
        r *= x
    return r


def lsm_scaled(t):
    """float64 log_softmax over the last dim of an int-grid (k/4) tensor -> nested ints"""
    ls = (t.double() / 4).log_softmax(-1)
    return _scaled(ls)


def _scaled(t):
    if t.dim() == 0:
        return zs(t.item())
    return [_scaled(x) for x in t]


# ----------------------------------------------------------------------------------------
# extreme-magnitude regime ("xm"): logits far outside O(1)-O(10), still exact k/4 values in float32 and float64
# ----------------------------------------------------------------------------------------

XM_MODES = ("scale", "shift", "dom", "scale+shift", "dom+shift", "mix")
DTYPES = {None: torch.float64, "f64": torch.float64, "f32": torch.float32}


def xm_row(row, r, mode):
    """row of ints (units of 1/4 nat, |k| <= 8) -> extreme row, ints in units of 1/4 nat, |value| < 2^15 nats.
    scale: times 100..1000; shift: common offset of -1e3..+1e3 nats (differences stay O(1)); dom: one logit dominates by
    90..900 nats, so that the other probabilities are subnormal or exactly 0 in float32 (> ~104) / float64 (> ~745)"""
    if mode == "mix":
        mode = r.choice(("scale", "shift", "dom", "scale+shift", "dom+shift", "plain"))
    out = list(row)
    if not out:
        return out
    if "scale" in mode:
        k = r.randint(100, 1000)
        out = [v * k for v in out]
    if "dom" in mode:
        j = r.randrange(len(out))
        out[j] += 4 * r.choice((r.randint(90, 130), r.randint(130, 700), r.randint(700, 900)))
    if "shift" in mode:
        o = r.choice((-1, 1)) * r.choice((r.randint(0, 4000), r.randint(2800, 4000), 4000))
        out = [v + o for v in out]
    return out


def xm_apply(lg, V, case, tag):
    """apply the case's extreme regime row by row to a flat list of logits (rows of V)"""
    mode = case.get("xm")
    if not mode or V == 0:
        return lg
    r = rnd(case, "xm|" + tag)
    return [v for i in range(0, len(lg), V) for v in xm_row(lg[i:i + V], r, mode)]


def case_dtype(case):
    return DTYPES[case.get("dtype")]


def tols(case, nterms, maxv):
    """(tolerance in grid units for model-vs-implementation, float tolerance for implementation-vs-implementation) of a sum of
    nterms log-probabilities of magnitude <= maxv. Plain float64 cases: the fixed TOL. Extreme float64: plus the rounding of
    the implementation's own float64 sum, nterms * ulp(nterms * maxv). float32: the implementation's log_softmax and sum are
    float32, 2^-19 * (nterms + 1) * (1 + maxv) bounds (nterms <= 12) 1.5 ulp per term plus the rounding of the partial sums"""
    if case.get("dtype") == "f32":
        f = (nterms + 1) * (1.0 + maxv) * 2.0 ** -19
        return TOL + int(math.ceil(f * SCALE)), f
    if case.get("xm"):
        return TOL + int(math.ceil((nterms + 1) * maxv * 2.0 ** -50 * SCALE)), ATOL
    return TOL, ATOL


def absmax(t):
    return float(t.abs().max()) if t.numel() else 0.0


# ----------------------------------------------------------------------------------------
# robustness dimensions: entry points, memory layouts, call history (the logical input and the model term stay the same)
# ----------------------------------------------------------------------------------------

GEN_INPLACE = True    # dist: log_prob after the caller edited the sample (or a returned log-prob tensor) in place.  With
#                       cache_samples=True the unchanged tree answers from the stale cache: known finding K8
#                       (known_findings.d/C07.json, signature kind "inplace-after-cache"); see dist_history and signature().


class Variant(Exception):
    """raised by the harness's call wrappers for a broken relation (not an exception of the implementation)"""


def as_view(t, form):
    """the same values as a NON-CONTIGUOUS tensor: 0 = transposed storage, 1 = every second entry of the last dimension
    of a wider buffer (storage offset 1), 2 = every second entry of the first dimension"""
    if t.dim() == 0 or t.numel() == 0:
        return t
    form %= 3
    if form == 0:
        if t.dim() < 2:
            form = 1
        else:
            return t.transpose(0, -1).contiguous().transpose(0, -1)
    d = -1 if form == 1 else 0
    shape = list(t.shape)
    shape[d] = 2 * shape[d] + 1
    buf = torch.full(shape, 3, dtype=t.dtype)
    idx = [slice(None)] * t.dim()
    idx[d] = slice(1, None, 2)
    buf[tuple(idx)] = t
    return buf[tuple(idx)]


def same_tensor(a, b):
    return a.shape == b.shape and a.dtype == b.dtype and bool(((a == b) | ((a != a) & (b != b))).all())


def call_checked(fn, tensors):
    """run fn(); afterwards no argument tensor may have changed.  An exception raised inside TorchScript (torch.jit.Error)
    stands for the RuntimeError the eager code raises."""
    saved = [t.clone() for t in tensors]
    try:
        out = fn()
    except torch.jit.Error as e:
        raise RuntimeError(str(e)[:300]) from None
    if any(not same_tensor(a, b) for a, b in zip(saved, tensors)):
        raise Variant("the call overwrote one of its argument tensors in place")
    return out


def call_slp(case, logits, hyp, dim, eos):
    """sequence_log_probs through the entry point / layout / history named by case['via'] (tensor or packed logits)"""
    from pydrobert.torch.functional import sequence_log_probs
    from pydrobert.torch.modules import SequenceLogProbabilities
    via, form = case.get("via"), case.get("form", 0)
    packed = not isinstance(logits, torch.Tensor)
    if via == "views":
        hyp = as_view(hyp, form + 1)
        if not packed:
            logits = as_view(logits, form)
    if via == "module":
        fn = lambda: SequenceLogProbabilities(dim, eos)(logits, hyp)  # noqa: E731
    elif via == "script":
        fn = lambda: torch.jit.script(SequenceLogProbabilities(dim, eos))(logits, hyp)  # noqa: E731
    elif via == "kw":
        kw = {}
        if dim != 0 or form % 2:
            kw["dim"] = dim
        if eos is not None or form % 4 >= 2:
            kw["eos"] = eos
        fn = lambda: sequence_log_probs(hyp=hyp, logits=logits, **kw)  # noqa: E731
    else:
        fn = lambda: sequence_log_probs(logits, hyp, dim, eos)  # noqa: E731
    tensors = [hyp] + ([logits.data] if packed else [logits])
    out = call_checked(fn, tensors)
    if via == "twice":
        out2 = call_checked(fn, tensors)
        if not same_tensor(out, out2):
            raise Variant(f"two identical calls differ: {out.tolist()} vs {out2.tolist()}")
    return out


SLP_VIAS = ("module", "script", "kw", "views", "twice")
PS_VIAS = ("module", "script", "views", "twice")
GREEDY_VIAS = ("module", "script", "kw", "views", "twice")
WALK_VIAS = ("script", "kw", "reuse", "noinit")


# ----------------------------------------------------------------------------------------
# sequence_log_probs (tensor)
# ----------------------------------------------------------------------------------------

def slp_data(case):
    shape, V = case["shape"], case["V"]
    n = prod(shape)
    if "hyp" in case:
        hyp = list(case["hyp"])
    else:
        r = rnd(case, "hyp")
        eos = case["eos"]
        pool = list(range(V)) * 3 + [-1, V, V + 2, -3] + ([eos] * 3 if eos is not None else [])
        hyp = [r.choice(pool) for _ in range(n)]
    if "logits" in case:
        lg = list(case["logits"])
    else:
        r = rnd(case, "logits")
        lg = [r.randint(-8, 8) for _ in range(n * V)]
    return hyp, xm_apply(lg, V, case, "slp")


def slp_eval(case):
    from pydrobert.torch.functional import sequence_log_probs
    shape, V, dim, eos = case["shape"], case["V"], case["dim"], case["eos"]
    hyp_l, lg_l = slp_data(case)
    hyp = torch.tensor(hyp_l, dtype=torch.long).view(shape)
    logits = (torch.tensor(lg_l, dtype=torch.float64).view(shape + [V]) / 4).to(case_dtype(case))  # exact in float32 too
    nd = len(shape)
    res = {"terms": [], "spec": [], "fail": [], "nontrivial": False}
    try:
        out = call_slp(case, logits, hyp, dim, eos)
        exc = None
    except Variant as e:
        res["impl"] = "variant"
        res["fail"].append(f"sequence_log_probs via {case.get('via')}: {e}")
        return res
    except Exception as e:  # noqa: BLE001
        out, exc = None, exc_kind(e)
    if dim < -nd or dim > nd - 1:
        res["impl"] = exc
        if exc != "RuntimeError":
            res["fail"].append(f"dim {dim} out of range for {nd}-d hyp should raise RuntimeError, got {exc}")
        return res
    d = dim % nd
    A_, T, B_ = prod(shape[:d]), shape[d], prod(shape[d + 1:])
    hyp3 = hyp.reshape(A_, T, B_)
    ls = logits.double().log_softmax(-1).reshape(A_, T, B_, V)  # the oracle is float64 whatever the input dtype
    tol, _ = tols(case, T, absmax(ls))
    if case.get("xm") and V:
        p = logits.softmax(-1).reshape(A_, T, B_, V)
        inv = (hyp3 >= 0) & (hyp3 < V)
        res["zero_prob_token"] = bool(((p.gather(-1, hyp3.clamp(0, V - 1).unsqueeze(-1)).squeeze(-1) == 0) & inv).any())
    lp_c = lz(_scaled(ls))
    if exc is not None:
        res["impl"] = exc
        impl_c = "None"
        if exc != "RuntimeError" or not (eos is not None and T == 0):
            # the only modelled error: eos set and a zero-length time dimension
            res["fail"].append(f"sequence_log_probs raised {exc} on a valid input")
    else:
        if tuple(out.shape) != tuple(shape[:d] + shape[d + 1:]):
            res["fail"].append(f"output shape {tuple(out.shape)}")
            res["impl"] = "badshape"
            return res
        o2 = out.reshape(A_, B_)
        res["impl"] = o2.tolist()
        impl_c = co(lz(_scaled(o2)))
        if out.dtype != logits.dtype:
            res["fail"].append(f"output dtype {out.dtype} for {logits.dtype} logits")
        if not torch.isfinite(out).all():
            res["fail"].append("non-finite output (finite logits: every log-probability is finite, the float64 oracle's is)")
    res["terms"].append(("model", f"check_slp_tensor {cz(tol)} {cz(V)} {oz(eos)} {cn(T)} {cn(B_)} {lp_c} {lz(hyp3.tolist())} {impl_c}"))
    if exc is None:
        lps, hyps, flat = [], [], []
        for a in range(A_):
            for b in range(B_):
                lps.append(_scaled(ls[a, :, b]) if T else [])
                hyps.append(hyp3[a, :, b].tolist())
                flat.append(zs(o2[a, b].item()))
        res["spec"].append(("spec_slp", f"spec_slp_okb {cz(tol)} {cz(V)} {oz(eos)} {lz(lps)} {lz(hyps)} {lz(flat)}"))
        # non-trivial: some sequence has an out-of-vocabulary token or an eos before its last position
        for h in hyps:
            if len(h) >= 2 and (any(k < 0 or k >= V for k in h) or (eos is not None and eos in h[:-1])):
                res["nontrivial"] = True
    return res


# ----------------------------------------------------------------------------------------
# sequence_log_probs (packed)
# ----------------------------------------------------------------------------------------

def valid_orders(lens):
    """every longest-first order of the batch (= every legal sorted_indices of a PackedSequence with these lengths): the
    elements of equal length may come in any order"""
    groups = {}
    for i, l in enumerate(lens):
        groups.setdefault(l, []).append(i)
    parts = [list(itertools.permutations(groups[l])) for l in sorted(groups, reverse=True)]
    return [[i for g in combo for i in g] for combo in itertools.product(*parts)]


def pack_with_order(lg, lens, sidx):
    """the PackedSequence of the padded time-major lg (T, N, V) whose sorted_indices is the given longest-first order: what a
    collate function that sorts the lengths itself, another device's sort or a re-packing module hands over.  It is a legal
    PackedSequence of lg: pad_packed_sequence gives lg back (asserted here; Model.check_pack re-checks data/batch_sizes)"""
    rnn = torch.nn.utils.rnn
    lens_t, sidx_t = torch.tensor(lens), torch.tensor(sidx, dtype=torch.long)
    inner = rnn.pack_padded_sequence(lg.index_select(1, sidx_t), lens_t[sidx_t], enforce_sorted=True)
    uidx_t = torch.empty_like(sidx_t)
    uidx_t[sidx_t] = torch.arange(len(sidx))
    ps = rnn.PackedSequence(inner.data, inner.batch_sizes, sidx_t, uidx_t)
    back, blens = rnn.pad_packed_sequence(ps, total_length=lg.size(0))
    m = (torch.arange(lg.size(0)).unsqueeze(1) < lens_t).unsqueeze(-1)
    assert blens.tolist() == list(lens) and torch.equal(back.masked_fill(~m, 0), lg.masked_fill(~m, 0)), "harness: not a PackedSequence of lg"
    return ps


def ps_eval(case):
    from pydrobert.torch.functional import sequence_log_probs
    lens, V, dim, eos = list(case["lens"]), case["V"], case["dim"], case["eos"]
    if case["sorted"]:
        lens = sorted(lens, reverse=True)
    N, Tm = len(lens), max(lens)
    Th = Tm + case["Tpad"]
    r = rnd(case, "ps")
    lg = xm_apply([r.randint(-8, 8) for _ in range(Tm * N * V)], V, case, "ps")
    lg = (torch.tensor(lg, dtype=torch.float64).view(Tm, N, V) / 4).to(case_dtype(case))
    pool = list(range(V)) * 3 + [-1, V] + ([eos] if eos is not None else [])
    hyp = torch.tensor([r.choice(pool) for _ in range(Th * N)], dtype=torch.long).view(Th, N)
    order_kind = None
    if case.get("order") is not None:
        # a hand-made PackedSequence: the order-th of all legal longest-first sorted_indices (ties in any order)
        orders = valid_orders(lens)
        sidx_l = orders[case["order"] % len(orders)]
        ps = pack_with_order(lg, lens, sidx_l)
        own = torch.sort(torch.tensor(lens), descending=True)[1].tolist()
        order_kind = "hand-made,same-as-torch.sort" if sidx_l == own else "hand-made,tie-broken-differently-from-torch.sort"
    else:
        ps = torch.nn.utils.rnn.pack_padded_sequence(lg, torch.tensor(lens), enforce_sorted=bool(case["sorted"]))
    bf = dim in (1, -1)
    hyp_in = hyp.T.contiguous() if bf else hyp
    res = {"terms": [], "spec": [], "fail": [], "nontrivial": len(set(lens)) > 1 or (order_kind or "").endswith("from-torch.sort")}
    if order_kind:
        res["order_kind"] = order_kind
    try:
        out = call_slp(case, ps, hyp_in, dim, eos)
    except Variant as e:
        res["impl"] = "variant"
        res["fail"].append(f"sequence_log_probs (packed) via {case.get('via')}: {e}")
        return res
    except Exception as e:  # noqa: BLE001
        res["impl"] = exc_kind(e)
        res["fail"].append(f"packed input, dim={dim}: raised {exc_kind(e)} ({str(e)[:80]})")
        res["raised"] = True
        return res
    res["impl"] = out.tolist()
    if tuple(out.shape) != (N,):
        res["fail"].append(f"output shape {tuple(out.shape)}")
        return res
    if out.dtype != lg.dtype:
        res["fail"].append(f"output dtype {out.dtype} for {lg.dtype} logits")
    if not torch.isfinite(out).all():
        res["fail"].append("non-finite output (finite logits: every log-probability is finite, the float64 oracle's is)")
    ls = lg.double().log_softmax(-1)  # the oracle is float64 whatever the input dtype
    tol, atol = tols(case, Tm, absmax(ls))
    data = _scaled(ps.data.double().log_softmax(-1))
    bs = ps.batch_sizes.tolist()
    sidx = None if ps.sorted_indices is None else ps.sorted_indices.tolist()
    uidx = None if ps.unsorted_indices is None else ps.unsorted_indices.tolist()
    impl = [zs(x) for x in out.tolist()]
    res["terms"].append(("model", f"check_slp_ps {cz(tol)} {cz(V)} {lz(data)} {ln(bs)} {co(ln(sidx)) if sidx is not None else 'None'} "
                                  f"{co(ln(uidx)) if uidx is not None else 'None'} {cn(N)} {lz(hyp.tolist())} {lz(impl)}"))
    res["terms"].append(("model_pack", f"check_pack {8 if case.get('xm') else 2} {lz(_scaled(ls))} {ln(lens)} {co(ln(sidx)) if sidx is not None else 'None'} "
                                       f"{lz(data)} {ln(bs)}"))
    lps = [_scaled(ls[:lens[n], n]) for n in range(N)]
    hyps = [hyp[:lens[n], n].tolist() for n in range(N)]
    res["spec"].append(("spec_slp_packed", f"spec_slp_okb {cz(tol)} {cz(V)} None {lz(lps)} {lz(hyps)} {lz(impl)}"))
    # the property: identical for padded and packed input (padding made out-of-vocabulary)
    hyp_m = hyp[:Tm].clone()
    for n in range(N):
        hyp_m[lens[n]:, n] = -1
    try:
        pad = sequence_log_probs(lg, hyp_m, 0, None)
        if not torch.allclose(pad, out, atol=atol, rtol=0):
            res["fail"].append(f"packed {out.tolist()} != padded {pad.tolist()}")
    except Exception as e:  # noqa: BLE001
        res["fail"].append(f"padded tensor path raised {exc_kind(e)}: {str(e)[:80]}")
    return res


# ----------------------------------------------------------------------------------------
# language model given by a table, multinomial scripted or recorded
# ----------------------------------------------------------------------------------------

def lm_logits(lmseed, by_n, n, prefix, V, xm=None):
    r = random.Random(f"{lmseed}|{n if by_n else 0}|{','.join(str(int(k)) for k in prefix)}")
    row = [r.randint(-8, 8) for _ in range(V)]
    return xm_row(row, r, xm) if xm else row


SLM_M, SLM_A = 7, 3


def slm_table(case, V):
    """logits table (M x V, quarter units) of the scriptable hash LM used by the scripted walk"""
    r = random.Random(f"{case['lmseed']}|slm")
    rows = [[r.randint(-8, 8) for _ in range(V)] for _ in range(SLM_M)]
    return [xm_row(row, r, case["xm"]) for row in rows] if case.get("xm") else rows


def slm_logits(case, n, prefix, V):
    h = n % SLM_M if case["by_n"] else 0
    for tok in prefix:
        h = (SLM_A * h + int(tok) + 1) % SLM_M
    return list(slm_table(case, V)[h])


def case_logits(case, n, prefix, V):
    """the model's logits for (path n, prefix) as the case defines them, initial-state bias included"""
    if case.get("via") == "script" and case["api"] == "walk":
        row = slm_logits(case, n, prefix, V)
    else:
        row = lm_logits(case["lmseed"], case["by_n"], n, prefix, V, case.get("xm"))
    if case.get("bias") is not None:
        row = [a + b for a, b in zip(row, case["bias"])]
    return row


def make_lm(V, lmseed, by_n, rec, xm=None, dtype=torch.float64):
    from pydrobert.torch.modules import SequentialLanguageModel

    class TableLM(SequentialLanguageModel):
        def calc_idx_log_probs(self, hist, prev, idx):
            i, N = int(idx), hist.size(1)
            rows = []
            for n in range(N):
                pre = tuple(int(x) for x in hist[:i, n])
                row = lm_logits(lmseed, by_n, n, pre, V, xm)
                # conditioning through the state dictionary: an initial state {"bias": (V,)} shifts every row;
                # a caller that forgets to hand the initial state to the model scores another distribution
                bias = prev.get("bias") if isinstance(prev, dict) else None
                if bias is not None:
                    row = [a + int(b) for a, b in zip(row, bias.tolist())]
                rec[(n, pre)] = row
                rows.append(row)
            return (torch.tensor(rows, dtype=torch.float64).view(N, V) / 4).to(dtype), prev

    return TableLM(V)


_SWLM = None


def make_script_lm(case, V, dtype):
    """TorchScript-compatible LM with the state threaded through `prev` (the library's tests script RandomWalk over a scripted
    LM): row = table[h], h = hash of (path index if by_n, tokens so far); an initial state {"bias": (V,)} shifts every row"""
    global _SWLM
    if _SWLM is None:
        from typing import Dict, Tuple
        from pydrobert.torch.modules import SequentialLanguageModel

        class SWalkLM(SequentialLanguageModel):
            def __init__(self, V: int, M: int, a: int, table: torch.Tensor, by_n: bool):
                super().__init__(V)
                self.M, self.a, self.by_n = M, a, by_n
                self.register_buffer("table", table)

            @torch.jit.export
            def update_input(self, prev: Dict[str, torch.Tensor], hist: torch.Tensor) -> Dict[str, torch.Tensor]:
                if "h" in prev:
                    return prev
                N = hist.size(1)
                h = torch.arange(N) % self.M if self.by_n else torch.zeros(N, dtype=torch.long)
                out = {"h": h}
                for k, v in prev.items():
                    out[k] = v
                return out

            @torch.jit.export
            def calc_idx_log_probs(self, hist: torch.Tensor, prev: Dict[str, torch.Tensor],
                                   idx: torch.Tensor) -> Tuple[torch.Tensor, Dict[str, torch.Tensor]]:
                i = int(idx.item())
                h = prev["h"]
                if i > 0:
                    h = (self.a * h + hist[i - 1] + 1) % self.M
                logits = self.table[h]
                if "bias" in prev:
                    logits = logits + (prev["bias"].to(torch.float64) / 4).to(logits.dtype)
                out = {"h": h}
                for k, v in prev.items():
                    if k != "h":
                        out[k] = v
                return logits, out

        _SWLM = SWalkLM
    tab = (torch.tensor(slm_table(case, V), dtype=torch.float64).view(SLM_M, V) / 4).to(dtype)
    return torch.jit.script(_SWLM(V, SLM_M, SLM_A, tab, bool(case["by_n"])))


def table_term(rec):
    items = []
    for (n, pre), row in sorted(rec.items()):
        ls = (torch.tensor(row, dtype=torch.float64) / 4).log_softmax(-1)
        items.append(cp(cn(n), lz(list(pre)), lz([zs(x) for x in ls.tolist()])))
    return cl(items)


class Sampler:
    """replacement for torch.multinomial: scripted intentions or the real generator, recorded"""

    def __init__(self, case, eos):
        self.case, self.eos = case, eos
        self.walk_idx = -1
        self.cur = None
        self.real = torch.multinomial

    def new_walk(self):
        self.walk_idx += 1
        self.cur = []
        return self.cur

    def __call__(self, probs, num_samples, replacement=False, **kw):
        assert num_samples == 1
        step = len(self.cur)
        script = self.case.get("script")
        N, V = probs.shape
        toks = []
        if script is None and step < 8:
            toks = [int(x) for x in self.real(probs, 1, True).view(-1)]
        else:
            for n in range(N):
                w = None
                if script and step < len(script):
                    row = script[(step + self.walk_idx) % len(script)]
                    w = row[(n + self.walk_idx) % len(row)] if row else None
                if w is None or not (0 <= w < V) or float(probs[n, w]) <= 0:
                    if script and step < len(script) or self.eos is None or float(probs[n, self.eos]) <= 0:
                        w = int(probs[n].argmax())
                    else:
                        w = self.eos  # past the script: end the path
                toks.append(w)
        self.cur.append(toks)
        return torch.tensor(toks, dtype=torch.long).view(N, 1)


def norm_eos(eos, V):
    return None if eos is None else (eos + V) % V


def walk_maxv(case):
    """a drawn token has a non-zero probability in the walk's dtype: |log-probability| < 104 (float32), < 746 (float64)"""
    if not case.get("xm"):
        return 8.0
    return 110.0 if case.get("dtype") == "f32" else 750.0


def walk_terms(case, V, eos, N, max_iters, rec_tab, draws, y, lens, lp, res, tag=""):
    """y: S x N list, lens list, lp list of floats"""
    S = len(y)
    tol, _ = tols(case, S, walk_maxv(case))
    res["terms"].append((f"model_walk{tag}", f"check_walk {cz(tol)} {rec_tab} {oz(eos)} {cn(N)} {on(max_iters)} {lz(draws)} "
                                             f"{lz(y)} {ln(lens)} {lz([zs(x) for x in lp])}"))
    paths = [[y[t][n] for t in range(S)] for n in range(N)]
    rows = []
    for n in range(N):
        rr = []
        for t in range(S):
            lg = case_logits(case, n, paths[n][:t], V)
            rr.append([zs(x) for x in (torch.tensor(lg, dtype=torch.float64) / 4).log_softmax(-1).tolist()])
        rows.append(rr)
    res["spec"].append((f"spec_walk{tag}", f"spec_walk_okb {cz(tol)} {cz(V)} {oz(eos)} {on(max_iters)} {lz(paths)} {lz(rows)} {ln(lens)} "
                                           f"{lz([zs(x) for x in lp])}"))
    return paths


def walk_eval(case):
    from pydrobert.torch.modules import RandomWalk
    from pydrobert.torch.functional import sequence_log_probs
    V, N, max_iters = case["V"], case["N"], case["max_iters"]
    res = {"terms": [], "spec": [], "fail": [], "nontrivial": False}
    rec = {}
    via, form = case.get("via"), case.get("form", 0)
    scripted = via == "script"
    lm = make_script_lm(case, V, case_dtype(case)) if scripted else \
        make_lm(V, case["lmseed"], case["by_n"], rec, case.get("xm"), case_dtype(case))
    try:
        walk = RandomWalk(lm, case["eos"])
    except ValueError:
        res["impl"] = "ValueError"
        if -V <= (case["eos"] if case["eos"] is not None else 0) <= V - 1:
            res["fail"].append("constructor rejected an in-range eos")
        return res
    if case["eos"] is not None and not (-V <= case["eos"] <= V - 1):
        res["fail"].append("constructor accepted an out-of-range eos")
        return res
    eos = norm_eos(case["eos"], V)
    sampler = Sampler(case, eos)
    draws = sampler.new_walk()
    if case.get("tseed") is not None:
        torch.manual_seed(case["tseed"])
    init = dict()
    if case.get("bias") is not None:
        # an initial state the LM's output depends on
        init = {"bias": torch.tensor(case["bias"], dtype=torch.long)}
    try:
        if scripted:
            # torch.multinomial cannot be replaced inside TorchScript: the real generator draws, the draws are read back
            # from the returned paths (an ended path can only draw eos), and the model re-runs the walk on them
            walk = torch.jit.script(walk)
            torch.manual_seed(case.get("tseed") or 0)
            y, lens, lp = walk(init, N, max_iters)
            draws[:] = (y if y.dim() == 2 else y.unsqueeze(1)).tolist()
        else:
            with mock.patch.object(torch, "multinomial", sampler):
                if via == "reuse":
                    # the module object is first used for another walk (other batch size and step limit)
                    try:
                        walk(dict(init), (N or 1) + 1 + form % 2, 1 + form % 3)
                    except Exception:  # noqa: BLE001
                        pass
                    rec.clear()
                    draws = sampler.new_walk()
                if via == "kw":
                    kw = {}
                    if N is not None or form % 2:
                        kw["batch_size"] = N
                    if max_iters is not None or form % 4 >= 2:
                        kw["max_iters"] = max_iters
                    y, lens, lp = walk(init, **kw) if (init or form % 3) else walk(**kw)
                elif via == "noinit" and not init:
                    y, lens, lp = walk(None, N, max_iters) if form % 2 else walk(batch_size=N, max_iters=max_iters)
                else:
                    y, lens, lp = walk(init, N, max_iters)
        if init and not torch.equal(init["bias"], torch.tensor(case["bias"], dtype=torch.long)):
            res["fail"].append("the walk overwrote the caller's initial state")
    except Exception as e:  # noqa: BLE001
        res["impl"] = exc_kind(e)
        expect = eos is None and max_iters is None or (max_iters is not None and max_iters < 0)
        if not (expect and exc_kind(e) == "RuntimeError"):
            res["fail"].append(f"walk raised {exc_kind(e)}: {str(e)[:80]}")
        return res
    if eos is None and max_iters is None:
        res["fail"].append("walk without eos and max_iters did not raise")
        return res
    Nn = 1 if N is None else N
    if N is None:
        if y.dim() != 1 or lens.dim() != 0 or lp.dim() != 0:
            res["fail"].append("unbatched walk returned batched shapes")
            return res
        y, lens, lp = y.unsqueeze(1), lens.unsqueeze(0), lp.unsqueeze(0)
    if y.dim() != 2 or y.size(1) != Nn or tuple(lens.shape) != (Nn,) or tuple(lp.shape) != (Nn,):
        res["fail"].append(f"shapes {tuple(y.shape)} {tuple(lens.shape)} {tuple(lp.shape)}")
        return res
    yl, ll, lpl = y.tolist(), lens.tolist(), lp.tolist()
    res["impl"] = {"y": yl, "lens": ll, "lp": lpl, "draws": draws}
    if not torch.isfinite(lp).all():
        res["fail"].append(f"non-finite walk log-probability {lpl} (a drawn token has a non-zero probability)")
    if scripted:
        if any(not (0 <= k < V) for row in yl for k in row):
            res["fail"].append(f"scripted walk returned tokens outside the vocabulary: {yl}")
            return res
        for n in range(Nn):
            for t in range(len(yl) + 1):
                pre = tuple(yl[k][n] for k in range(t))
                rec[(n, pre)] = case_logits(case, n, pre, V)
    paths = walk_terms(case, V, eos, Nn, max_iters, table_term(rec), draws, yl, ll, lpl, res)
    S = len(yl)
    # the three-way agreement of the property, on the implementation itself
    if S and Nn:
        lg = (torch.tensor([[case_logits(case, n, paths[n][:t], V) for n in range(Nn)]
                            for t in range(S)], dtype=torch.float64).view(S, Nn, V) / 4).to(case_dtype(case))
        _, atol = tols(case, S, walk_maxv(case))
        try:
            slp = sequence_log_probs(lg, y, 0, eos)
            if not torch.allclose(slp.double(), lp.double(), atol=atol, rtol=0):
                res["fail"].append(f"walk log-probs {lpl} != sequence_log_probs of the model outputs {slp.tolist()}")
        except Exception as e:  # noqa: BLE001
            res["fail"].append(f"sequence_log_probs on the walk's paths raised {exc_kind(e)}: {str(e)[:80]}")
    res["nontrivial"] = S >= 2 and Nn >= 1 and (eos is None or any(l < S for l in ll) or S == max_iters)
    return res


# ----------------------------------------------------------------------------------------
# random_walk_advance driven directly (prompts of ragged length: the token goes to position y_prev_lens[n], the buffer
# grows only when some prompt fills it)
# ----------------------------------------------------------------------------------------

ADV_VIAS = ("kw", "views", "script", "twice")


def adv_eval(case):
    from pydrobert.torch.functional import random_walk_advance
    N, V, S, lens = case["N"], case["V"], case["S"], case["lens"]
    via, form = case.get("via"), case.get("form", 0)
    res = {"terms": [], "spec": [], "fail": [], "nontrivial": False}
    r = rnd(case, "adv")
    y_l = [[r.randrange(V) for _ in range(N)] for _ in range(S)]
    # log-probabilities in quarter units (NOT normalised: the function does not require it), zero-probability tokens as -inf
    lpt_l = [[(None if r.random() < case.get("pinf", 0.0) else r.randint(-12, 0)) for _ in range(V)] for _ in range(N)]
    for row in lpt_l:
        if all(v is None for v in row):
            row[r.randrange(V)] = 0
    prev_l = [r.randint(-40, 0) for _ in range(N)]
    dt = case_dtype(case)
    y = torch.tensor(y_l, dtype=torch.long).view(S, N)
    lpt = torch.tensor([[-math.inf if v is None else v / 4 for v in row] for row in lpt_l], dtype=torch.float64).view(N, V).to(dt)
    prev = (torch.tensor(prev_l, dtype=torch.float64) / 4).to(dt)
    lt = None if lens is None else torch.tensor(lens, dtype=torch.long)
    if via == "views":
        y, lpt, prev = as_view(y, form), as_view(lpt, form + 1), as_view(prev, 2)
        if lt is not None:
            lt = as_view(lt, 2)
    seen = {}

    def sampler(probs, num_samples, replacement=False, **kw):
        seen["probs"] = probs.clone()
        toks = []
        for n in range(probs.size(0)):
            ok = [v for v in range(probs.size(1)) if float(probs[n, v]) > 0]
            toks.append(r.choice(ok) if ok else 0)
        return torch.tensor(toks, dtype=torch.long).view(-1, 1)

    scripted = via == "script"
    fnc = torch.jit.script(random_walk_advance) if scripted else random_walk_advance
    if via == "kw":
        kw = dict(y_prev=y, log_probs_prev=prev, log_probs_t=lpt)
        if lt is not None or form % 2:
            kw["y_prev_lens"] = lt
        fn = lambda: fnc(**kw)  # noqa: E731
    elif lt is None and form % 2:
        fn = lambda: fnc(lpt, prev, y)  # noqa: E731
    else:
        fn = lambda: fnc(lpt, prev, y, lt)  # noqa: E731
    tensors = [lpt, prev, y] + ([lt] if lt is not None else [])
    try:
        if scripted:
            torch.manual_seed(case.get("tseed") or 0)
            yn, lpn = call_checked(fn, tensors)
        else:
            with mock.patch.object(torch, "multinomial", sampler):
                yn, lpn = call_checked(fn, tensors)
                if via == "twice":
                    yn, lpn = call_checked(fn, tensors)     # a second call on the same tensors is judged
    except Variant as e:
        res["impl"] = "variant"
        res["fail"].append(f"random_walk_advance via {via}: {e}")
        return res
    except Exception as e:  # noqa: BLE001
        res["impl"] = exc_kind(e)
        res["fail"].append(f"random_walk_advance raised {exc_kind(e)} on valid arguments: {str(e)[:80]}")
        return res
    eff = [S] * N if lens is None else list(lens)
    grow = S == 0 or max(eff + [0]) >= S
    if tuple(yn.shape) != (S + (1 if grow else 0), N) or tuple(lpn.shape) != (N,) or yn.dtype != torch.long or lpn.dtype != dt:
        res["impl"] = "badshape"
        res["fail"].append(f"shapes/dtypes {tuple(yn.shape)} {yn.dtype} {tuple(lpn.shape)} {lpn.dtype}")
        return res
    ynl = yn.tolist()
    res["impl"] = {"y": ynl, "lp": lpn.tolist()}
    # the draw: handed over by the replaced multinomial, or (scripted) read back from where it must have been written
    yt = [ynl[0][n] if S == 0 else ynl[eff[n]][n] for n in range(N)]
    if any(not (0 <= k < V) for k in yt):
        res["fail"].append(f"token outside the vocabulary written: {yt}")
        return res
    if not scripted and N and V:
        w = seen.get("probs")
        if w is None or tuple(w.shape) != (N, V):
            res["fail"].append("torch.multinomial was not asked for one draw per path over the vocabulary")
            return res
        ref = lpt.double().exp()
        wn, rn = w.double() / w.double().sum(1, keepdim=True), ref / ref.sum(1, keepdim=True)
        if not torch.allclose(wn, rn, atol=1e-6 if dt == torch.float32 else 1e-12, rtol=0):
            res["fail"].append(f"draw weights {w.tolist()} are not proportional to exp(log_probs_t)")
    for n in range(N):
        if lpt_l[n][yt[n]] is None:
            res["fail"].append(f"path {n}: a zero-probability token was drawn")
            return res
        want = (prev_l[n] + lpt_l[n][yt[n]]) / 4
        if float(lpn[n]) != want:
            res["fail"].append(f"path {n}: log_probs_next {float(lpn[n])} != log_probs_prev + log_probs_t[token] = {want}")
    res["terms"].append(("model_advance", f"zmat_eqb (rw_advance {lz(y_l)} {ln(eff)} {lz(yt)}) {lz(ynl)}"))
    res["nontrivial"] = S >= 1 and N >= 2 and len(set(eff)) > 1
    return res


# ----------------------------------------------------------------------------------------
# SequentialLanguageModelDistribution
# ----------------------------------------------------------------------------------------

def ref_log_prob(case, value, V, eos):
    """the definition, in float64 with torch: value (..., S) long; row r of value.reshape(-1, Nn, S)[m] is path r (unbatched: the
    flat index).  Sum of log_softmax(logits of the case's LM after the prefix)[token] up to and including the first eos."""
    bsz = case["batch_size"]
    S = value.size(-1)
    flat = value.reshape(-1, S) if bsz is None else value.reshape(-1, bsz, S)
    out, table = [], {}
    for m in range(flat.size(0)):
        rows = [flat[m].tolist()] if bsz is None else flat[m].tolist()
        for j, seq in enumerate(rows):
            n = m if bsz is None else j
            tot, ended = 0.0, False
            for t, tok in enumerate(seq):
                pre = tuple(seq[:t])
                lg = case_logits(case, n, pre, V)
                table[(n, pre)] = lg
                if 0 <= tok < V and not ended:
                    tot += float((torch.tensor(lg, dtype=torch.float64) / 4).log_softmax(-1)[tok])
                ended = ended or (eos is not None and tok == eos)
            out.append(tot)
    return torch.tensor(out, dtype=torch.float64).view(value.shape[:-1]), table


def dist_history(case, dist, sample, walk_lp, walks, exp_prefix, V, eos, T, S, Nn, atol, tol, sampler, res):
    """call-history checks on ONE distribution object (cache_samples on or off): log_prob must depend on the VALUE it is
    given, not on what was sampled or scored before."""
    bsz = case["batch_size"]
    num = sample.numel() // max(1, S * Nn)

    def ask(value, what):
        try:
            lp = dist.log_prob(value)
        except Exception as e:  # noqa: BLE001
            res["fail"].append(f"log_prob ({what}) raised {exc_kind(e)}: {str(e)[:70]}")
            return None
        if tuple(lp.shape) != exp_prefix:
            res["fail"].append(f"log_prob ({what}) shape {tuple(lp.shape)}")
            return None
        return lp

    def judge_other(other, lp, what):
        ref, table = ref_log_prob(case, other, V, eos)
        if not torch.isfinite(lp).all() or not torch.allclose(lp.double(), ref, atol=atol, rtol=0):
            res["fail"].append(f"log_prob ({what}) {lp.tolist()} != the definition on that value {ref.tolist()}")
        tab = cl([cp(cn(n), lz(list(pre)), lz([zs(x) for x in (torch.tensor(row, dtype=torch.float64) / 4).log_softmax(-1).tolist()]))
                  for (n, pre), row in sorted(table.items())])
        if bsz is None:
            res["terms"].append((f"model_log_prob_{what}", f"check_dist_log_prob {cz(tol)} {tab} {cz(V)} {oz(eos)} "
                                 f"{lz(other.reshape(-1, S).tolist())} {lz([zs(x) for x in lp.reshape(-1).tolist()])}"))
        else:
            res["terms"].append((f"model_log_prob_{what}", f"check_dist_log_prob_batched {cz(tol)} {tab} {cz(V)} {oz(eos)} "
                                 f"{lz(other.reshape(-1, bsz, S).tolist())} {lz([[zs(x) for x in r] for r in lp.reshape(-1, bsz).tolist()])}"))

    def edited(value):
        """another member of the support with the same shape: the first token of the first sequence replaced (the result stays
        complete when it fills max_iters or still contains eos)"""
        o = value.clone()
        first = o.reshape(-1, S)[0]
        for new in range(V):
            if new == int(first[0]):
                continue
            cand = first.clone()
            cand[0] = new
            done = (T is not None and S == T) or (eos is not None and bool((cand == eos).any()))
            if done or not case["validate"]:
                o.reshape(-1, S)[0, 0] = new
                return o
        return None

    # (a) a different tensor of the same shape and dtype as the one just scored / sampled
    other = edited(sample)
    if other is not None and not torch.equal(other, sample):
        lp = ask(other, "edited_copy")
        if lp is not None:
            judge_other(other, lp, "edited_copy")
        # (b) ... and the original again (the cache now belongs to the edited copy)
        lp = ask(sample, "original_after_edited_copy")
        if lp is not None and not torch.allclose(lp.double(), walk_lp, atol=atol, rtol=0):
            res["fail"].append(f"log_prob (original after an edited copy) {lp.tolist()} != walk log-probs {walk_lp.tolist()}")
    # (c) other legal dtypes / layouts of the same value
    for what, v in (("int32", sample.to(torch.int32)), ("float64", sample.double()), ("view", as_view(sample, case.get("form", 0)))):
        lp = ask(v, what)
        if lp is not None and not torch.allclose(lp.double(), walk_lp, atol=atol, rtol=0):
            res["fail"].append(f"log_prob of the same value as {what} {lp.tolist()} != walk log-probs {walk_lp.tolist()}")
    # (d) the caller edits the sample IN PLACE and asks again (same tensor object)
    if case.get("inplace") and other is not None and not torch.equal(other, sample):
        keep = sample.clone()
        before = ask(sample, "before_in_place_edit")
        sample.copy_(other)
        lp = ask(sample, "edited_in_place")
        sample.copy_(keep)
        if lp is not None and before is not None:
            ref, _ = ref_log_prob(case, other, V, eos)
            if torch.isfinite(lp).all() and torch.allclose(lp.double(), ref, atol=atol, rtol=0):
                judge_other(other, lp, "edited_in_place")
            else:
                # wrong.  K8 = exactly the log-probabilities of the PRE-edit contents (stale cache hit), cache_samples on
                stale = bool(case["cache"]) and torch.allclose(lp.double(), before.double(), atol=atol, rtol=0) \
                    and torch.allclose(before.double(), walk_lp, atol=atol, rtol=0)
                res.setdefault("k8", []).append({"sub": "sample_edited_in_place", "stale": stale})
                res["fail"].append(f"log_prob after the caller edited the sample in place {lp.tolist()} != the definition on the "
                                   f"edited value {ref.tolist()}" + (" (= the log-probabilities of the contents before the edit)" if stale else ""))
    # (e) the returned log-probabilities belong to the caller: editing them must not change later answers
    if case.get("inplace"):
        lp = ask(sample, "before_result_edit")
        if lp is not None:
            lp.fill_(-7.25)
            lp2 = ask(sample, "after_result_edit")
            if lp2 is not None and not torch.allclose(lp2.double(), walk_lp, atol=atol, rtol=0):
                stale = bool(case["cache"]) and bool((lp2 == -7.25).all())
                res.setdefault("k8", []).append({"sub": "returned_log_probs_edited_in_place", "stale": stale})
                res["fail"].append(f"log_prob after the caller overwrote the previously returned tensor with -7.25: {lp2.tolist()} != "
                                   f"{walk_lp.tolist()}" + (" (= the caller's edit: the cache hands out its own tensor)" if stale else ""))
            dist.clear_cache()
    # (f) a second sample replaces the cache: it must score as ITS walks did, and the first sample still as its own
    n0 = len(walks)
    try:
        with mock.patch.object(torch, "multinomial", sampler):
            second = dist.sample(torch.Size(case["sample_shape"]))
    except Exception as e:  # noqa: BLE001
        res["fail"].append(f"second sample raised {exc_kind(e)}")
        return
    new = [w["out"][2].double() for w in walks[n0:]]
    if new and second.size(-1) > 0:
        lp_new = (new[0] if bsz is None else torch.stack(new)).view(walk_lp.shape)
        lp = ask(second, "second_sample")
        if lp is not None and not torch.allclose(lp.double(), lp_new, atol=atol, rtol=0):
            res["fail"].append(f"log_prob of the second sample {lp.tolist()} != its walk log-probs {lp_new.tolist()} "
                               f"(first sample's: {walk_lp.tolist()})")
    lp = ask(sample, "first_sample_after_second_sample")
    if lp is not None and not torch.allclose(lp.double(), walk_lp, atol=atol, rtol=0):
        res["fail"].append(f"log_prob of the first sample after a second sample {lp.tolist()} != walk log-probs {walk_lp.tolist()} "
                           f"(second sample {second.tolist()})")


def dist_eval(case):
    from pydrobert.torch.modules import RandomWalk
    from pydrobert.torch.distributions import SequentialLanguageModelDistribution
    V, bsz, T, shape = case["V"], case["batch_size"], case["max_iters"], list(case["sample_shape"])
    res = {"terms": [], "spec": [], "fail": [], "nontrivial": False}
    rec = {}
    lm = make_lm(V, case["lmseed"], case["by_n"], rec, case.get("xm"), case_dtype(case))
    walk = RandomWalk(lm, case["eos"])
    eos = norm_eos(case["eos"], V)
    init = None
    if case.get("bias") is not None:
        init = {"bias": torch.tensor(case["bias"], dtype=torch.long)}
    dist = SequentialLanguageModelDistribution(walk, bsz, init, T, cache_samples=case["cache"],
                                               validate_args=case["validate"])
    sampler = Sampler(case, eos)
    walks = []
    orig = walk.forward

    def fwd(*a, **k):
        w = {"draws": sampler.new_walk(), "N": a[1]}
        walks.append(w)
        w["out"] = orig(*a, **k)
        return w["out"]

    walk.forward = fwd
    if case.get("tseed") is not None:
        torch.manual_seed(case["tseed"])
    num = prod(shape)
    Nn = 1 if bsz is None else bsz
    try:
        with mock.patch.object(torch, "multinomial", sampler):
            sample = dist.sample(torch.Size(shape))
    except Exception as e:  # noqa: BLE001
        res["impl"] = "sample:" + exc_kind(e)
        res["fail"].append(f"sample raised {exc_kind(e)}: {str(e)[:80]}")
        return res
    exp_prefix = tuple(shape) + (() if bsz is None else (bsz,))
    if tuple(sample.shape[:-1]) != exp_prefix:
        res["fail"].append(f"sample shape {tuple(sample.shape)}")
        return res
    res["impl"] = {"sample": sample.tolist()}
    if num == 0:
        return res
    S = sample.size(-1)
    tab_walk = table_term(rec)
    wlp = []
    ys = []
    for i, w in enumerate(walks):
        y, lens, lp = w["out"]
        ys.append(y.tolist())
        walk_terms(case, V, eos, w["N"], T, tab_walk, w["draws"], y.tolist(), lens.tolist(), lp.tolist(), res, tag=f"_{i}")
        wlp.append(lp.double())
    # stacking
    if bsz is None:
        if len(walks) != 1 or walks[0]["N"] != num:
            res["fail"].append("unbatched sample must be one walk over all samples")
            return res
        flat = sample.reshape(num, S)
        res["terms"].append(("model_stack", f"zmat_eqb (paths_of {cn(num)} {lz(ys[0])}) {lz(flat.tolist())}"))
        walk_lp = wlp[0].view(shape)
    else:
        if len(walks) != num or any(w["N"] != bsz for w in walks):
            res["fail"].append("batched sample must be one walk per sample")
            return res
        flat = sample.reshape(num, bsz, S)
        res["terms"].append(("model_stack", f"check_stack {oz(eos)} {cn(bsz)} {lz(ys)} {lz(flat.tolist())}"))
        walk_lp = torch.stack(wlp).view(shape + [bsz])
    if S == 0:
        return res
    try:
        if not bool(dist.support.check(sample).all()):
            res["fail"].append("sample outside the wrapper's own support constraint")
    except Exception as e:  # noqa: BLE001
        res["fail"].append(f"support.check raised {exc_kind(e)}")
    # re-scoring
    res["nontrivial"] = True
    tol, atol = tols(case, S, walk_maxv(case))
    lps = []
    for variant in ("first", "again", "cleared"):
        if variant == "cleared":
            dist.clear_cache()
        try:
            lps.append(dist.log_prob(sample))
        except Exception as e:  # noqa: BLE001
            res["impl"]["log_prob"] = exc_kind(e)
            res["fail"].append(f"log_prob of the wrapper's own sample (sample_shape={shape}, batch_size={bsz}) raised "
                               f"{exc_kind(e)}: {str(e)[:70]}")
            res["logprob_raised"] = exc_kind(e)
            res["S"] = S
            return res
    res["impl"]["log_prob"] = lps[2].tolist()
    for v, lp in zip(("first", "again", "cleared"), lps):
        if tuple(lp.shape) != exp_prefix:
            res["fail"].append(f"log_prob shape {tuple(lp.shape)} ({v})")
            return res
        if not torch.isfinite(lp).all():
            res["fail"].append(f"non-finite log_prob ({v}) {lp.tolist()} of the wrapper's own sample")
        elif not torch.allclose(lp.double(), walk_lp, atol=atol, rtol=0):
            res["fail"].append(f"log_prob ({v}) {lp.tolist()} != walk log-probs {walk_lp.tolist()}")
    tab = table_term(rec)
    if bsz is None:
        res["terms"].append(("model_log_prob", f"check_dist_log_prob {cz(tol)} {tab} {cz(V)} {oz(eos)} {lz(flat.tolist())} "
                                               f"{lz([zs(x) for x in lps[2].reshape(num).tolist()])}"))
    else:
        res["terms"].append(("model_log_prob", f"check_dist_log_prob_batched {cz(tol)} {tab} {cz(V)} {oz(eos)} {lz(flat.tolist())} "
                                               f"{lz([[zs(x) for x in r] for r in lps[2].reshape(num, bsz).tolist()])}"))
    if case.get("hist"):
        dist_history(case, dist, sample, walk_lp, walks, exp_prefix, V, eos, T, S, Nn, atol, tol, sampler, res)
    # support
    if T is not None and 1 <= T and V ** T <= 100 and case.get("support", True):
        try:
            sup = dist.enumerate_support()
        except Exception as e:  # noqa: BLE001
            res["fail"].append(f"enumerate_support raised {exc_kind(e)}: {str(e)[:80]}")
            return res
        K = sup.size(0)
        if bsz is not None:
            if tuple(sup.shape) != (K, bsz, T) or not bool((sup == sup[:, :1]).all()):
                res["fail"].append("expanded support is not a copy per batch element")
                return res
            sup2 = sup[:, 0]
        else:
            sup2 = sup
        res["terms"].append(("model_support", f"check_support {oz(eos)} {cn(T)} {cn(V)} {lz(sup2.tolist())}"))
        res["spec"].append(("spec_support", f"forallb (in_support {oz(eos)} {cn(T)} {cz(V)}) {lz(sup2.tolist())} && "
                                            f"(List.length {lz(sup2.tolist())} =? List.length (enumerate_support {oz(eos)} {cn(T)} {cn(V)}))%nat"))
        dist.clear_cache()
        try:
            slp = dist.log_prob(sup)
        except Exception as e:  # noqa: BLE001
            res["fail"].append(f"log_prob of the enumerated support raised {exc_kind(e)}: {str(e)[:80]}")
            return res
        mass = slp.double().exp().sum(0)
        if not torch.allclose(mass, torch.ones_like(mass), atol=1e-4 if case.get("dtype") == "f32" else 1e-9, rtol=0):
            res["fail"].append(f"probabilities over the enumerated support sum to {mass.tolist()}")
        if case.get("xm"):
            # extreme regime: most of the support has probability exactly 0 in floating point, yet every member's
            # log-probability is finite and is the model's (the table now also holds the rows asked for by this call)
            if not torch.isfinite(slp).all():
                res["fail"].append("non-finite log_prob of a member of the enumerated support (finite logits)")
            tab = table_term(rec)
            ls_all = torch.tensor([row for row in rec.values()], dtype=torch.float64) / 4
            tol_s, _ = tols(case, T, absmax(ls_all.log_softmax(-1)))
            if bsz is None:
                res["terms"].append(("model_log_prob_support", f"check_dist_log_prob {cz(tol_s)} {tab} {cz(V)} {oz(eos)} "
                                     f"{lz(sup.tolist())} {lz([zs(x) for x in slp.tolist()])}"))
            else:
                res["terms"].append(("model_log_prob_support", f"check_dist_log_prob_batched {cz(tol_s)} {tab} {cz(V)} {oz(eos)} "
                                     f"{lz(sup.tolist())} {lz([[zs(x) for x in r] for r in slp.tolist()])}"))
        padded = torch.nn.functional.pad(sample, (0, T - S), value=eos if eos is not None else 0).reshape(-1, T)
        member = (padded.unsqueeze(1) == sup2.unsqueeze(0)).all(-1).any(1)
        if not bool(member.all()):
            res["fail"].append("a sample is not in the enumerated support")
    return res


# ----------------------------------------------------------------------------------------
# SequentialLanguageModelDistribution: call sequences on ONE object ("dseq").  Every answer of every method must be what a
# fresh object would give: whatever was asked before (enumerate_support with the other `expand`, samples, log_probs,
# clear_cache) and whatever the caller did IN PLACE to the tensors handed out earlier.
# ops: ["sup", form]  enumerate_support(), (True), (False), (expand=True), (expand=False)  - judged by Model.check_support
#      ["edit_sup", k, how]  overwrite the k-th last returned support in place (add 1 / fill V+1 / one cell)
#      ["sample", shape]     - members of the support; their walks' log-probs are kept
#      ["edit_sample"]       overwrite the last returned sample with V+1 (never a legal value: it is not asked about again)
#      ["lp_sample"]         log_prob(a copy of the last sample's original contents) == its walks' == Model.dist_log_prob
#      ["lp_sup"]            log_prob(enumerate_support()) == Model.dist_log_prob / the definition; mass 1 per batch element
#      ["edit_lp"]           overwrite the last returned log-prob tensor (cache_samples=True: followed by clear_cache(); the
#                            unprotected variant is K8 and stays in dist_history (e))
#      ["clear"], ["has"]
# None of these sequences contains the two K8 patterns (log_prob of the SAME tensor object after an in-place edit; log_prob of
# the cached value after an edit of its returned log-prob tensor without clear_cache), so K8 never applies to api "dseq".
# ----------------------------------------------------------------------------------------

SUP_FORMS = {"default": ((), {}, True), "pos_true": ((True,), {}, True), "pos_false": ((False,), {}, False),
             "kw_true": ((), {"expand": True}, True), "kw_false": ((), {"expand": False}, False)}


def canonical_support_set(V, T, eos):
    """the definition: all token sequences of length T, everything after the first eos replaced by eos"""
    out = set()
    for s in itertools.product(range(V), repeat=T):
        s = list(s)
        if eos is not None and eos in s:
            i = s.index(eos)
            s = s[:i + 1] + [eos] * (T - i - 1)
        out.add(tuple(s))
    return out


def log_prob_term(case, value, lp, V, eos, tol, name, res):
    """Model.dist_log_prob on `value` (the table = the case's LM on the prefixes of value) vs the implementation's lp"""
    bsz, S = case["batch_size"], value.size(-1)
    ref, table = ref_log_prob(case, value, V, eos)
    tab = cl([cp(cn(n), lz(list(pre)), lz([zs(x) for x in (torch.tensor(row, dtype=torch.float64) / 4).log_softmax(-1).tolist()]))
              for (n, pre), row in sorted(table.items())])
    if bsz is None:
        res["terms"].append((name, f"check_dist_log_prob {cz(tol)} {tab} {cz(V)} {oz(eos)} "
                             f"{lz(value.reshape(-1, S).tolist())} {lz([zs(x) for x in lp.reshape(-1).tolist()])}"))
    else:
        res["terms"].append((name, f"check_dist_log_prob_batched {cz(tol)} {tab} {cz(V)} {oz(eos)} "
                             f"{lz(value.reshape(-1, bsz, S).tolist())} {lz([[zs(x) for x in r] for r in lp.reshape(-1, bsz).tolist()])}"))
    return ref


def dseq_eval(case):
    from pydrobert.torch.modules import RandomWalk
    from pydrobert.torch.distributions import SequentialLanguageModelDistribution
    V, bsz, T = case["V"], case["batch_size"], case["max_iters"]
    res = {"terms": [], "spec": [], "fail": [], "nontrivial": False, "situations": []}
    rec = {}
    lm = make_lm(V, case["lmseed"], case["by_n"], rec, None, torch.float64)
    walk = RandomWalk(lm, case["eos"])
    eos = norm_eos(case["eos"], V)
    init = None
    if case.get("bias") is not None:
        init = {"bias": torch.tensor(case["bias"], dtype=torch.long)}
    dist = SequentialLanguageModelDistribution(walk, bsz, init, T, cache_samples=case["cache"], validate_args=case["validate"])
    sampler = Sampler(case, eos)
    walks = []
    orig = walk.forward

    def fwd(*a, **k):
        w = {"draws": sampler.new_walk(), "N": a[1]}
        walks.append(w)
        w["out"] = orig(*a, **k)
        return w["out"]

    walk.forward = fwd
    torch.manual_seed(case.get("tseed") or 0)
    Nn = 1 if bsz is None else bsz
    bshape = () if bsz is None else (bsz,)
    members = canonical_support_set(V, T, eos) if T is not None else None
    sups, samples, seen_sup, impl = [], [], {}, []
    last_lp, last_sup_form = None, None
    tol, atol = TOL, ATOL

    def fail(i, op, msg):
        res["fail"].append(f"op {i} {op}: {msg} [after {json.dumps(case['ops'][:i])}]")

    for i, op in enumerate(case["ops"]):
        kind = op[0]
        try:
            if kind == "sup":
                args, kw, expand = SUP_FORMS[op[1]]
                if last_sup_form is not None:
                    res["situations"].append(f"dseq.sup:{'expand' if last_sup_form[0] else 'compact'}->{'expand' if expand else 'compact'}"
                                             + (",edited-between" if last_sup_form[1] else ""))
                try:
                    sup = dist.enumerate_support(*args, **kw)
                except NotImplementedError:
                    impl.append("NotImplementedError")
                    if T is not None:
                        fail(i, op, "enumerate_support raised NotImplementedError although max_iters is set")
                    continue
                if T is None:
                    fail(i, op, "enumerate_support without max_iters did not raise NotImplementedError")
                    continue
                last_sup_form = [expand, False]
                sups.append(sup)
                K = len(members)
                want = (K,) + (() if bsz is None else ((bsz,) if expand else (1,))) + (T,)
                impl.append({"shape": list(sup.shape)})
                if tuple(sup.shape) != want:
                    fail(i, op, f"support of shape {tuple(sup.shape)}, expected {want} ({K} sequences"
                                + ("" if bsz is None else ", one copy per batch element" if expand else ", compact") + ")")
                    continue
                if sup.dtype != torch.long:
                    fail(i, op, f"support dtype {sup.dtype}")
                    continue
                cols = [sup] if bsz is None else [sup[:, j] for j in range(sup.size(1))]
                rows = cols[0].tolist()
                if any(c.tolist() != rows for c in cols[1:]):
                    fail(i, op, "the batch elements do not get the same enumeration")
                    continue
                if set(map(tuple, rows)) != members or len(rows) != K:
                    fail(i, op, f"not an enumeration of the support: {rows[:6]}...")
                key = json.dumps(rows)
                if key not in seen_sup:
                    seen_sup[key] = len(seen_sup)
                    res["terms"].append((f"model_support_op{i}", f"check_support {oz(eos)} {cn(T)} {cn(V)} {lz(rows)}"))
                    res["spec"].append((f"spec_support_op{i}", f"forallb (in_support {oz(eos)} {cn(T)} {cz(V)}) {lz(rows)} && "
                                        f"(List.length {lz(rows)} =? List.length (enumerate_support {oz(eos)} {cn(T)} {cn(V)}))%nat"))
            elif kind == "edit_sup":
                if sups:
                    t = sups[-1 - op[1] % len(sups)]
                    base = t if t.dim() == 2 else t.select(1, 0)       # an expanded support has stride 0 over the batch
                    if op[2] == "add":
                        base.add_(1)
                    elif op[2] == "fill":
                        base.fill_(V + 1)
                    else:
                        base[0, 0] = V + 2
                    if last_sup_form is not None:
                        last_sup_form[1] = True
                    res["situations"].append("dseq.edit:returned-support-in-place")
            elif kind == "sample":
                shape = list(op[1])
                n0 = len(walks)
                with mock.patch.object(torch, "multinomial", sampler):
                    s = dist.sample(torch.Size(shape))
                impl.append({"sample": s.tolist()})
                if tuple(s.shape[:-1]) != tuple(shape) + bshape or s.size(-1) == 0:
                    fail(i, op, f"sample shape {tuple(s.shape)}")
                    continue
                new = [w["out"][2].double().clone() for w in walks[n0:]]
                if (bsz is None and len(new) != 1) or (bsz is not None and len(new) != prod(shape)):
                    fail(i, op, "number of walks behind the sample")
                    continue
                wlp = (new[0] if bsz is None else torch.stack(new)).reshape(tuple(shape) + bshape)
                samples.append({"t": s, "orig": s.clone(), "wlp": wlp})
                S = s.size(-1)
                if members is not None:
                    flat = torch.nn.functional.pad(s, (0, T - S), value=eos if eos is not None else 0).reshape(-1, T).tolist()
                    bad = [r for r in flat if tuple(r) not in members]
                    if S > T or bad:
                        fail(i, op, f"sample {bad[:2]} is not in the support")
                if not bool(dist.support.check(s).all()):
                    fail(i, op, "sample rejected by the wrapper's own support constraint")
            elif kind == "edit_sample":
                if samples:
                    samples[-1]["t"].fill_(V + 1)
                    res["situations"].append("dseq.edit:returned-sample-in-place,cache=%s" % case["cache"])
            elif kind == "lp_sample":
                if samples:
                    v = samples[-1]["orig"].clone()
                    lp = dist.log_prob(v)
                    impl.append({"log_prob": lp.tolist()})
                    if tuple(lp.shape) != tuple(v.shape[:-1]):
                        fail(i, op, f"log_prob shape {tuple(lp.shape)}")
                        continue
                    if not torch.equal(v, samples[-1]["orig"]):
                        fail(i, op, "log_prob overwrote its argument")
                    last_lp = lp
                    if not torch.isfinite(lp).all() or not torch.allclose(lp.double(), samples[-1]["wlp"], atol=atol, rtol=0):
                        fail(i, op, f"log_prob of a copy of the sample {lp.tolist()} != its walks' log-probs {samples[-1]['wlp'].tolist()}")
                    log_prob_term(case, v, lp, V, eos, tol, f"model_log_prob_op{i}", res)
                    res["nontrivial"] = True
            elif kind == "lp_sup":
                if T is not None:
                    sup = dist.enumerate_support()
                    sups.append(sup)
                    keep = sup.clone()
                    lp = dist.log_prob(sup)
                    impl.append({"log_prob_support": lp.tolist()})
                    if tuple(lp.shape) != (len(members),) + bshape or tuple(sup.shape) != (len(members),) + bshape + (T,):
                        fail(i, op, f"log_prob of enumerate_support(): shapes {tuple(sup.shape)} -> {tuple(lp.shape)}")
                        continue
                    if not torch.equal(sup, keep):
                        fail(i, op, "log_prob overwrote its argument")
                    last_lp = lp
                    mass = lp.double().exp().sum(0)
                    if not torch.allclose(mass, torch.ones_like(mass), atol=1e-9, rtol=0):
                        fail(i, op, f"probabilities over enumerate_support() sum to {mass.tolist()}")
                    if len(members) * Nn <= 48:
                        ref = log_prob_term(case, keep, lp, V, eos, tol, f"model_log_prob_support_op{i}", res)
                    else:
                        ref, _ = ref_log_prob(case, keep, V, eos)
                    if not torch.allclose(lp.double(), ref, atol=atol, rtol=0):
                        fail(i, op, f"log_prob of enumerate_support() {lp.tolist()} != the definition {ref.tolist()}")
                    res["nontrivial"] = True
            elif kind == "edit_lp":
                if last_lp is not None:
                    last_lp.fill_(-7.25)
                    res["situations"].append("dseq.edit:returned-log-probs-in-place,cache=%s" % case["cache"])
                    if case["cache"]:
                        dist.clear_cache()
            elif kind == "clear":
                dist.clear_cache()
            elif kind == "has":
                if bool(dist.has_enumerate_support) != (T is not None):
                    fail(i, op, f"has_enumerate_support = {dist.has_enumerate_support}")
            else:
                raise AssertionError(f"harness: unknown op {op}")
        except AssertionError:
            raise
        except Exception as e:  # noqa: BLE001
            import traceback
            if not any("/pydrobert/torch/" in f.filename for f in traceback.extract_tb(e.__traceback__)):
                raise
            impl.append(exc_kind(e))
            fail(i, op, f"raised {exc_kind(e)}: {str(e)[:80]}")
    res["impl"] = impl
    if init is not None and not torch.equal(init["bias"], torch.tensor(case["bias"], dtype=torch.long)):
        res["fail"].append("the wrapper overwrote the caller's initial state")
    return res


# ----------------------------------------------------------------------------------------
# ctc_greedy_search
# ----------------------------------------------------------------------------------------

def call_greedy(case, inp, lt, blank, bf, ip):
    """ctc_greedy_search through the entry point / layout / history named by case['via']"""
    from pydrobert.torch.functional import ctc_greedy_search
    from pydrobert.torch.modules import CTCGreedySearch
    via, form = case.get("via"), case.get("form", 0)
    if via == "views":
        inp = as_view(inp, form)
        if lt is not None:
            lt = as_view(lt, 2)
    if via == "module":
        fn = lambda: CTCGreedySearch(blank, bf, ip)(inp, lt)  # noqa: E731
    elif via == "script":
        fn = lambda: torch.jit.script(CTCGreedySearch(blank, bf, ip))(inp, lt)  # noqa: E731
    elif via == "kw":
        kw = {}
        if lt is not None or form % 2:
            kw["in_lens"] = lt
        if blank != -1 or form % 4 >= 2:
            kw["blank_idx"] = blank
        if bf or form % 3 == 0:
            kw["batch_first"] = bf
        if ip or form % 5 == 0:
            kw["is_probs"] = ip
        fn = lambda: ctc_greedy_search(logits=inp, **kw)  # noqa: E731
    else:
        fn = lambda: ctc_greedy_search(inp, lt, blank, bf, ip)  # noqa: E731
    tensors = [inp] + ([lt] if lt is not None else [])
    out = call_checked(fn, tensors)
    if via == "twice":
        out2 = call_checked(fn, tensors)
        T = inp.size(1 if bf else 0)
        m = torch.arange(T).unsqueeze(0) < out[2].unsqueeze(1)
        p1, p2 = (out[1], out2[1]) if bf else (out[1].t(), out2[1].t())
        if not (same_tensor(out[0], out2[0]) and same_tensor(out[2], out2[2]) and p1.shape == p2.shape
                and same_tensor(p1.masked_fill(~m, 0), p2.masked_fill(~m, 0))):
            raise Variant("two identical calls differ")
    return out


def greedy_eval(case):
    from pydrobert.torch.functional import ctc_greedy_search
    N, T, V, blank, bf, ip, lens = (case[k] for k in ("N", "T", "V", "blank", "batch_first", "is_probs", "lens"))
    if "vals" in case:
        vals = list(case["vals"])
    else:
        r = rnd(case, "greedy")
        hi = 8 if ip else 6
        lo = 0 if ip else -6
        vals = [r.randint(lo, hi) for _ in range(N * T * V)]
        if not ip:
            vals = xm_apply(vals, V, case, "greedy")
    x = (torch.tensor(vals, dtype=torch.float64).view(N, T, V) / (8 if ip else 4)).to(torch.float64 if ip else case_dtype(case))
    inp = x if bf else x.transpose(0, 1).contiguous()
    lt = None if lens is None else torch.tensor(lens, dtype=torch.long)
    res = {"terms": [], "spec": [], "fail": [], "nontrivial": False}
    try:
        sc, paths, olens = call_greedy(case, inp, lt, blank, bf, ip)
        exc = None
    except Variant as e:
        res["impl"] = "variant"
        res["fail"].append(f"ctc_greedy_search via {case.get('via')}: {e}")
        return res
    except Exception as e:  # noqa: BLE001
        exc = exc_kind(e)
    if ip:
        lp, one, tol = [[[int(v) for v in row] for row in el] for el in (x * 8).tolist()], 8, 0
    else:
        ls = x.double().log_softmax(-1)  # the oracle is float64 whatever the input dtype
        lp, one = _scaled(ls), 0
        # the score sums the frame maxima, each in [-log V, 0] however extreme the logits
        tol, _ = tols(case, T, absmax(ls.max(-1)[0]) if V else 0.0)
    lp_c = lz(lp)
    lens_c = "None" if lens is None else co(lz(lens))
    if exc is not None:
        res["impl"] = exc
        if exc != "RuntimeError" or -V <= blank <= V - 1:
            res["fail"].append(f"raised {exc}")
        impl_c = "None"
    else:
        if not bf:
            paths = paths.t()
        if tuple(sc.shape) != (N,) or tuple(paths.shape) != (N, T) or tuple(olens.shape) != (N,):
            res["fail"].append("output shapes")
            return res
        if not torch.isfinite(sc).all():
            res["fail"].append(f"non-finite score {sc.tolist()} (finite logits: the best label of a frame has log-probability >= -log V)")
            res["impl"] = {"score": [str(v) for v in sc.tolist()]}
            return res  # a NaN / inf has no integer image for the model term; the failure is already concrete
        if ip:
            scz = []
            for v in sc.tolist():
                f = Fraction(v) * 8 ** T
                if f.denominator != 1:
                    res["fail"].append(f"score {v} is not the exact product of the dyadic frame maxima")
                    f = Fraction(round(f))
                scz.append(int(f))
        else:
            scz = [zs(v) for v in sc.tolist()]
        pl, ol = paths.tolist(), olens.tolist()
        res["impl"] = {"score": sc.tolist(), "paths": [p[:l] for p, l in zip(pl, ol)], "lens": ol}
        if any(l < 0 or l > T for l in ol):
            res["fail"].append("out_lens out of range")
            return res
        impl_c = co(cp(lz(scz), ln(pl), ln(ol)))
        b = (blank + V) % V
        res["spec"].append(("spec_greedy", f"spec_greedy_okb {cz(tol)} {cb(ip)} {cz(one)} {cn(b)} {cn(T)} {lens_c} {lp_c} "
                                           f"{lz(scz)} {ln(pl)} {ln(ol)}"))
        eff = [T if lens is None else max(0, min(T, lens[n])) for n in range(N)]
        res["nontrivial"] = any(ol[n] < eff[n] and eff[n] >= 2 for n in range(N))
    res["terms"].append(("model", f"check_greedy {cz(tol)} {cb(ip)} {cz(one)} {cz(V)} {cz(blank)} {cn(T)} {lens_c} {lp_c} {impl_c}"))
    return res


EVAL = {"slp": slp_eval, "ps": ps_eval, "walk": walk_eval, "dist": dist_eval, "greedy": greedy_eval, "adv": adv_eval,
        "dseq": dseq_eval}
THEOREMS["dseq"] = THEOREMS["dist"]


# ----------------------------------------------------------------------------------------
# generators
# ----------------------------------------------------------------------------------------

def gen_exhaustive(chk):
    thorough = chk.tier == "thorough"
    cases = []
    # (a) one sequence over tokens {-1,0,1,2} with V=2, every eos choice, T<=3 (quick) / T<=4 (thorough)
    maxT = 4 if thorough else 3
    for T in range(0, maxT + 1):
        for toks in itertools.product([-1, 0, 1, 2], repeat=T):
            for eos in (None, 0, 1, -1, 2):
                if not thorough and T == 3 and eos in (-1,) and toks[0] == 2:
                    continue
                lg = [((3 * t + 5 * v + sum(toks[:t])) % 9) - 4 for t in range(T) for v in range(2)]
                cases.append(dict(api="slp", shape=[T], dim=0, V=2, eos=eos, hyp=list(toks), logits=lg, stream="exh-slp"))
    # (b) every packed length pattern
    maxN, maxL = (4, 4) if thorough else (3, 3)
    for N in range(1, maxN + 1):
        for lens in itertools.product(range(1, maxL + 1), repeat=N):
            for dim in (0, 1, -1, -2):
                if dim < 0 and (sum(lens) + N + dim) % 2:
                    continue
                srt = list(lens) == sorted(lens, reverse=True) and (sum(lens) + dim) % 2 == 0
                cases.append(dict(api="ps", lens=list(lens), Tpad=(sum(lens) + N) % 2, V=2 + sum(lens) % 2, dim=dim, sorted=srt,
                                  eos=None if sum(lens) % 3 else 1, seed=sum(l * 7 ** i for i, l in enumerate(lens)), stream="exh-ps"))
    # (c) greedy: every label sequence over V=3, T<=3 (one-hot-ish rows with a tie pattern), every blank, every len
    maxT = 4 if thorough else 3
    for T in range(0, maxT + 1):
        for labs in itertools.product(range(3), repeat=T):
            for blank in range(-3, 3):
                if not thorough and (sum(labs) + blank + T) % 2:
                    continue
                for ln_ in [None] + list(range(-1, T + 2)):
                    if not thorough and ln_ is not None and (ln_ + sum(labs)) % 2 and T == 3:
                        continue
                    ip = (sum(labs) + (ln_ or 0)) % 2 == 0
                    vals = []
                    for t, a in enumerate(labs):
                        row = [1 + (t + v) % 2 for v in range(3)]
                        row[a] = 4
                        if a < 2 and (t + a) % 2 == 0:
                            row[2] = 4  # tie: the first maximal label wins
                        vals += row
                    cases.append(dict(api="greedy", N=1, T=T, V=3, blank=blank, batch_first=bool((T + blank) % 2), is_probs=ip,
                                      lens=None if ln_ is None else [ln_], vals=vals, stream="exh-greedy"))
    # (d) walks: every script over V=2 (eos=1) / V=3, up to 3 steps, batch of 2 with a shifted second path
    for V, eos in ((2, 1), (2, None), (3, 0), (3, -1)):
        for L in range(1, 4):
            for sc in itertools.product(range(V), repeat=L):
                for mi in (None, L, L + 1) if eos is not None else (L,):
                    if not thorough and V == 3 and L == 3 and (sum(sc) + (mi or 0)) % 3:
                        continue
                    script = [[a, sc[(i + 1) % L]] for i, a in enumerate(sc)]
                    cases.append(dict(api="walk", V=V, eos=eos, N=2, max_iters=mi, lmseed=sum(sc) + L, by_n=bool(L % 2),
                                      script=script, stream="exh-walk"))
    # (e) wrapper: every (eos, batch_size, max_iters<=3, sample shape) with the support enumerated
    for V in (2, 3):
        for eos in (None, 0, V - 1):
            for bsz in (None, 1, 2):
                for T in (1, 2, 3):
                    for shape in ([1], [2], [3, 1]) + (([2, 2],) if bsz is not None else ()):
                        if not thorough and (V + T + len(shape) + (bsz or 0)) % 2:
                            continue
                        cases.append(dict(api="dist", V=V, eos=eos, batch_size=bsz, max_iters=T, sample_shape=shape,
                                          cache=bool(T % 2), validate=bool(V % 2), lmseed=V * 10 + T, by_n=bsz is not None,
                                          tseed=V + T + (bsz or 0), stream="exh-dist"))
    chk.extra["exhaustive"] = True
    chk.extra["exhaustive_scope"] = (
        ("full: " if thorough else "slice of: ") +
        "single sequences over tokens {-1,0,1,2}, V=2, T<=%d x eos in {None,0,1,-1,2}; packed length patterns N<=%d, len<=%d x dim; "
        "greedy label sequences V=3, T<=%d x blank in -3..2 x in_lens in {None,-1..T+1}; scripted walks V in {2,3}, <=3 steps; "
        "wrapper over V in {2,3}, eos, batch_size in {None,1,2}, max_iters<=3 with full support enumeration"
        % ((4, 4, 4, 4) if thorough else (3, 3, 3, 3)))
    return cases


def _g_slp(rng):
    nd = rng.choice([1, 2, 2, 3, 3, 4])
    shape = [rng.choice([0, 1, 1, 2, 2, 3]) for _ in range(nd)]
    d = rng.randrange(nd)
    shape[d] = rng.choice([0, 1, 2, 3, 4, 5, 6])
    V = rng.choice([1, 2, 3, 3, 4, 5])
    eos = rng.choice([None, None, rng.randrange(V), rng.randrange(V), -1, V, V + 2])
    dim = rng.choice([d, d - nd])
    if rng.random() < 0.04:
        dim = rng.choice([nd, -nd - 1, nd + 2])
    return dict(api="slp", shape=shape, dim=dim, V=V, eos=eos, seed=rng.randrange(2 ** 31), stream="rnd-slp")


def _g_ps(rng):
    N = rng.choice([1, 2, 3, 3, 4, 5])
    lens = [rng.choice([1, 1, 2, 3, 4, 5]) for _ in range(N)]
    V = rng.choice([1, 2, 3, 4])
    return dict(api="ps", lens=lens, Tpad=rng.choice([0, 0, 1, 2]), V=V, dim=rng.choice([0, 1, -1, -2]), sorted=rng.random() < 0.3,
                eos=rng.choice([None, 0, V - 1]), seed=rng.randrange(2 ** 31), stream="rnd-ps")


def _g_walk(rng):
    V = rng.choice([1, 2, 2, 3, 3, 4])
    eos = rng.choice([None, None] + [rng.randrange(-V, V)] * 3)
    N = rng.choice([None, 0, 1, 2, 2, 3, 3, 4])
    mi = rng.choice([None, 0, 1, 2, 3, 4, 5, 6])
    c = dict(api="walk", V=V, eos=eos, N=N, max_iters=mi, lmseed=rng.randrange(10 ** 6), by_n=rng.random() < 0.6, stream="rnd-walk")
    if rng.random() < 0.5:
        c["script"] = [[rng.randrange(V) for _ in range(rng.randint(1, 4))] for _ in range(rng.randint(1, 6))]
    else:
        c["tseed"] = rng.randrange(2 ** 31)
    if rng.random() < 0.02:
        c["eos"] = rng.choice([V, -V - 1])
    return c


def _g_dist(rng):
    V = rng.choice([2, 2, 3, 3, 4])
    eos = rng.choice([None, rng.randrange(-V, V), rng.randrange(-V, V)])
    bsz = rng.choice([None, None, 1, 2, 3])
    mi = rng.choice([1, 2, 3, 4, 5] + ([None] if eos is not None else []))
    shape = rng.choice([[1], [2], [3], [4], [2, 1], [1, 3], [0], [2, 0]] + ([[2, 2], [1, 1, 2]] if bsz is not None else []))
    c = dict(api="dist", V=V, eos=eos, batch_size=bsz, max_iters=mi, sample_shape=shape, cache=rng.random() < 0.5,
             validate=rng.random() < 0.5, lmseed=rng.randrange(10 ** 6), by_n=bsz is not None, stream="rnd-dist")
    if rng.random() < 0.4:
        c["script"] = [[rng.randrange(V) for _ in range(rng.randint(1, 3))] for _ in range(rng.randint(1, 5))]
    else:
        c["tseed"] = rng.randrange(2 ** 31)
    if rng.random() < 0.4:
        # an initial state the model's output depends on (a (V,) bias in quarter units, broadcast over all paths)
        c["bias"] = [rng.randint(-10, 10) for _ in range(V)]
    return c


def _g_greedy(rng):
    N, T, V = rng.choice([0, 1, 1, 2, 3]), rng.choice([0, 1, 2, 3, 4, 5, 6, 8]), rng.choice([1, 2, 2, 3, 3, 4])
    blank = rng.randrange(-V, V)
    if rng.random() < 0.04:
        blank = rng.choice([V, -V - 1, V + 3])
    lens = None if rng.random() < 0.3 else [rng.choice([0, 1, T - 1, T, T, T + 1, rng.randint(0, T + 1), -1]) for _ in range(N)]
    return dict(api="greedy", N=N, T=T, V=V, blank=blank, batch_first=rng.random() < 0.5, is_probs=rng.random() < 0.5,
                lens=lens, seed=rng.randrange(2 ** 31), stream="rnd-greedy")


def _g_greedy_ragged(rng):
    """a blank that is NOT the last label (given as a positive or a negative index), a batch of ragged in_lens with empty
    and full elements; the frames beyond an element's length repeat its last valid label or show the blank / another label"""
    V = rng.choice([2, 3, 3, 4, 5])
    N, T = rng.choice([2, 2, 3, 4]), rng.choice([2, 3, 4, 5, 6])
    b = rng.randrange(0, V - 1)
    blank = b if rng.random() < 0.5 else b - V
    lens = [rng.choice([0, T, rng.randint(0, T), rng.randint(1, T)]) for _ in range(N)]
    if len(set(lens)) == 1:
        lens[0] = (lens[0] + 1 + rng.randrange(T)) % (T + 1)
    ip = rng.random() < 0.4
    hi, lo = (8, 0) if ip else (6, -6)
    vals = []
    for n in range(N):
        labs = [rng.choice([b, b, rng.randrange(V), rng.randrange(V)]) for _ in range(T)]
        for t in range(1, T):
            if rng.random() < 0.35:
                labs[t] = labs[t - 1]                      # repeats, also across the length boundary
        for t in range(T):
            row = [rng.randint(lo, hi - 2) for _ in range(V)]
            row[labs[t]] = hi - (1 if rng.random() < 0.3 else 0)
            vals += row
    return dict(api="greedy", N=N, T=T, V=V, blank=blank, batch_first=rng.random() < 0.5, is_probs=ip, lens=lens, vals=vals,
                stream="rb-greedy-ragged")


def _g_adv(rng):
    """random_walk_advance on prompts: S rows in the buffer, lengths ragged (some fill the buffer: it grows; or none does:
    it must not), unset, or all equal"""
    N, V, S = rng.choice([1, 2, 2, 3, 4]), rng.choice([1, 2, 3, 3, 4]), rng.choice([0, 1, 2, 3, 3, 4, 5])
    mode = rng.choice(["none", "full", "ragged-grow", "ragged-grow", "ragged-nogrow", "ragged-nogrow", "zeros", "any"])
    if S == 0:
        lens = None if mode == "none" else [0] * N
    elif mode == "none":
        lens = None
    elif mode == "full":
        lens = [S] * N
    elif mode == "zeros":
        lens = [0] * N
    elif mode == "ragged-grow":
        lens = [rng.randint(0, S) for _ in range(N)]
        lens[rng.randrange(N)] = S
    elif mode == "ragged-nogrow":
        lens = [rng.randint(0, S - 1) for _ in range(N)]
    else:
        lens = [rng.randint(0, S) for _ in range(N)]
    c = dict(api="adv", N=N, V=V, S=S, lens=lens, pinf=rng.choice([0.0, 0.0, 0.2]), seed=rng.randrange(2 ** 31), stream="rb-adv")
    if rng.random() < 0.5:
        c["via"], c["form"] = rng.choice(ADV_VIAS), rng.randrange(12)
        if c["via"] == "script":
            c["tseed"] = rng.randrange(2 ** 31)
    if rng.random() < 0.3:
        c["dtype"] = "f32"
    return c


def gen_ps_orders(chk):
    """every legal PackedSequence layout of a small scope: every length pattern (N<=3, len<=3; thorough N<=4) x EVERY legal
    longest-first sorted_indices (ties in any order, hand-made PackedSequence) + torch's own packing + enforce_sorted=True input
    (sorted_indices None) where the pattern is non-increasing, hyp time-major and batch-major (positive and negative dim)"""
    thorough = chk.tier == "thorough"
    maxN, maxL = (4, 3) if thorough else (3, 3)
    cases = []
    k = 0
    for N in range(1, maxN + 1):
        for lens in itertools.product(range(1, maxL + 1), repeat=N):
            layouts = [(o, False) for o in range(len(valid_orders(lens)))] + [(None, False)]
            if list(lens) == sorted(lens, reverse=True):
                layouts.append((None, True))
            for order, srt in layouts:
                for dim in (0, 1, -1, -2):
                    k += 1
                    if not thorough and (N >= 3 and k % 2 or len(set(lens)) == N and order is not None and k % 4):
                        continue         # quick: half of the N=3 layouts; a quarter of the hand-made ones without a tie
                    cases.append(dict(api="ps", lens=list(lens), Tpad=k % 2, V=2 + k % 3, dim=dim, sorted=srt, order=order,
                                      eos=None if k % 3 else 1, seed=1000 + k, stream="exh-ps-order"))
    return cases


def _g_ps_order(rng):
    """ragged batch with TIES (lengths from a small pool), a random legal sorted_indices (hand-made), torch's own, or already
    sorted input with sorted_indices None / the explicit identity-up-to-ties"""
    N = rng.choice([2, 3, 3, 4, 4, 5])
    pool = rng.sample([1, 2, 3, 4, 5], rng.choice([1, 2, 2, 3]))
    lens = [rng.choice(pool) for _ in range(N)]
    V = rng.choice([1, 2, 3, 4])
    mode = rng.choice(["hand", "hand", "hand", "torch", "sorted-none", "sorted-hand"])
    c = dict(api="ps", lens=lens, Tpad=rng.choice([0, 0, 1, 2]), V=V, dim=rng.choice([0, 1, -1, -2]),
             sorted=mode.startswith("sorted"), order=None if mode in ("torch", "sorted-none") else rng.randrange(720),
             eos=rng.choice([None, 0, V - 1]), seed=rng.randrange(2 ** 31), stream="rb-ps-order")
    if rng.random() < 0.5:
        c["via"], c["form"] = rng.choice(PS_VIAS), rng.randrange(12)
    if rng.random() < 0.25:
        c["dtype"] = "f32"
    return c


DSEQ_BETWEEN = ([], [["edit_sup", 0, "add"]], [["edit_sup", 0, "cell"]], [["clear"]], [["sample", [2]], ["lp_sample"]],
                [["lp_sup"], ["edit_lp"]], [["edit_sup", 0, "fill"], ["clear"]])


def gen_dseq_exh(chk):
    """two enumerate_support calls on one object: every pair of call forms (default / positional / keyword, expand True / False,
    both orders) x what happens in between (nothing, in-place edit of the first result, clear_cache, a sample scored, the
    support scored and its log-probs overwritten) x batch_size None/1/2/3; then the support scored and a sample drawn+scored"""
    thorough = chk.tier == "thorough"
    cases, k = [], 0
    forms = list(SUP_FORMS)
    for bsz in (None, 1, 2, 3):
        for a in forms:
            for b in forms:
                for j, mid in enumerate(DSEQ_BETWEEN):
                    k += 1
                    if not thorough and j != 1 and j != (k // len(DSEQ_BETWEEN)) % len(DSEQ_BETWEEN):
                        continue
                    V = 2 + k % 2
                    T = 2 + (k // 2) % 2 if V == 2 or bsz != 3 else 2
                    ops = [["sup", a]] + [list(o) for o in mid] + [["sup", b], ["lp_sup"], ["sample", [2]], ["lp_sample"], ["has"]]
                    cases.append(dict(api="dseq", V=V, eos=(None, 0, V - 1, -1)[k % 4], batch_size=bsz, max_iters=T, ops=ops,
                                      cache=bool(k % 3 == 0), validate=bool(k % 2), lmseed=500 + k, by_n=bsz is not None,
                                      tseed=k, stream="exh-dseq"))
    return cases


def _g_dseq(rng):
    """a random call sequence over all methods of one distribution object, with in-place edits of the returned tensors"""
    V = rng.choice([2, 2, 3, 3, 4])
    eos = rng.choice([None, rng.randrange(-V, V), rng.randrange(-V, V)])
    bsz = rng.choice([None, 1, 2, 2, 3, 3])
    T = rng.choice([t for t in (1, 2, 3, 4) if V ** t <= 81] + ([None] if eos is not None else []))
    shapes = [[1], [2], [3], [2, 1]] + ([[2, 2]] if bsz is not None else [])
    ops = []
    for _ in range(rng.randint(3, 9)):
        kind = rng.choice(["sup"] * 4 + ["edit_sup"] * 3 + ["sample"] * 3 + ["lp_sample"] * 3 + ["lp_sup"] * 2 +
                          ["edit_sample"] * 2 + ["edit_lp"] * 2 + ["clear", "has"])
        if kind == "sup":
            ops.append(["sup", rng.choice(list(SUP_FORMS))])
        elif kind == "edit_sup":
            ops.append(["edit_sup", rng.randrange(3), rng.choice(["add", "fill", "cell"])])
        elif kind == "sample":
            ops.append(["sample", rng.choice(shapes)])
        else:
            ops.append([kind])
    ops += [["sup", rng.choice(list(SUP_FORMS))], ["lp_sup"]]
    c = dict(api="dseq", V=V, eos=eos, batch_size=bsz, max_iters=T, ops=ops, cache=rng.random() < 0.5, validate=rng.random() < 0.5,
             lmseed=rng.randrange(10 ** 6), by_n=bsz is not None, tseed=rng.randrange(2 ** 31), stream="rb-dseq")
    if rng.random() < 0.4:
        c["bias"] = [rng.randint(-10, 10) for _ in range(V)]
    return c


def gen_round4(chk):
    """drawn after every older stream (those stay per seed what they were): legal PackedSequence layouts, call sequences on one
    distribution object"""
    rng = chk.rng
    n = dict(ps=900, dseq=1500) if chk.tier == "thorough" else dict(ps=110, dseq=150)
    cases = gen_ps_orders(chk) + gen_dseq_exh(chk)
    cases += [_g_ps_order(rng) for _ in range(n["ps"])]
    cases += [_g_dseq(rng) for _ in range(n["dseq"])]
    return cases


def _robust(rng, api):
    """a case of the plain generator run through another entry point / call form / layout / history (same model term)"""
    c = GEN[api](rng)
    c["stream"] = "rb-" + api
    vias = {"slp": SLP_VIAS, "ps": PS_VIAS, "greedy": GREEDY_VIAS, "walk": WALK_VIAS}.get(api)
    if vias:
        c["via"], c["form"] = rng.choice(vias), rng.randrange(12)
    if api in ("slp", "ps", "greedy", "walk") and rng.random() < 0.25:
        c["dtype"] = "f32"
    if api == "walk":
        if rng.random() < 0.5 and c["via"] != "noinit":
            c["bias"] = [rng.randint(-10, 10) for _ in range(c["V"])]
        if c["via"] == "script":
            c.pop("script", None)
            c["tseed"] = rng.randrange(2 ** 31)
            if c["max_iters"] is None:
                c["max_iters"] = rng.randint(1, 6)      # the real generator draws: no forced end of a path
            if c["N"] == 0:
                c["N"] = 2
    if api == "dist":
        c["hist"], c["form"] = True, rng.randrange(12)
        c["cache"] = rng.random() < 0.75
        if GEN_INPLACE and rng.random() < 0.5:
            c["inplace"] = True
        if c["sample_shape"] in ([0], [2, 0]):
            c["sample_shape"] = [2]
    return c


GEN = {"slp": _g_slp, "ps": _g_ps, "walk": _g_walk, "dist": _g_dist, "greedy": _g_greedy}


def gen_robust(chk):
    """drawn after every older stream, so those are per seed what they were"""
    rng = chk.rng
    thorough = chk.tier == "thorough"
    n = dict(slp=1200, ps=700, greedy=1000, walk=1000, dist=600, adv=1500, ragged=800) if thorough else \
        dict(slp=100, ps=60, greedy=90, walk=100, dist=60, adv=120, ragged=70)
    cases = [_robust(rng, api) for api in ("slp", "ps", "greedy", "walk", "dist") for _ in range(n[api])]
    cases += [_g_adv(rng) for _ in range(n["adv"])]
    for _ in range(n["ragged"]):
        c = _g_greedy_ragged(rng)
        if rng.random() < 0.4:
            c["via"], c["form"] = rng.choice(GREEDY_VIAS), rng.randrange(12)
        cases.append(c)
    return cases


def gen_random(chk):
    rng = chk.rng
    thorough = chk.tier == "thorough"
    n = dict(slp=4000, ps=2500, walk=2500, dist=1500, greedy=4000) if thorough else dict(slp=420, ps=260, walk=260, dist=140, greedy=420)
    return [GEN[api](rng) for api in ("slp", "ps", "walk", "dist", "greedy") for _ in range(n[api])]


def gen_extreme(chk):
    """the same structured streams with logits of extreme magnitude (every API that normalises logits), float32 and float64.
    Drawn after gen_random, so the plain streams of a seed are what they were before this regime existed"""
    rng = chk.rng
    thorough = chk.tier == "thorough"
    n = dict(slp=1200, ps=800, walk=800, dist=500, greedy=1200) if thorough else dict(slp=130, ps=80, walk=90, dist=50, greedy=110)
    cases = []
    for api in ("slp", "ps", "walk", "dist", "greedy"):
        for k in range(n[api]):
            c = GEN[api](rng)
            c["xm"] = XM_MODES[k % len(XM_MODES)] if k < 2 * len(XM_MODES) else rng.choice(XM_MODES)
            c["dtype"] = ("f32", "f64")[(k // len(XM_MODES)) % 2] if k < 2 * len(XM_MODES) else rng.choice(["f32", "f64"])
            c["stream"] = "xm-" + api
            if api == "greedy":
                c["is_probs"] = False  # probabilities are not normalised by the API
                c["V"] = max(c["V"], rng.choice([1, 2, 3]))
            if api in ("slp", "ps"):
                c["V"] = max(c["V"], 2)  # one class: log_softmax is 0 whatever the magnitude
            cases.append(c)
    return cases


# ----------------------------------------------------------------------------------------
# known-finding signatures (only consulted for entries listed in known_findings.d/C07.json)
# ----------------------------------------------------------------------------------------

def signature(entry, rec):
    sig = entry.get("signature", {})
    c = rec["case"]
    if sig.get("api") != c["api"]:
        return False
    if sig.get("kind") == "log_prob_sample_shape":
        # log_prob raises on the wrapper's own sample unless sample_shape has exactly one dimension
        # (batched: at least one)
        nd = len(c["sample_shape"])
        bad_shape = nd == 0 or (c["batch_size"] is None and nd != 1)
        return rec.get("logprob_raised") in ("RuntimeError", "IndexError") and bad_shape
    if sig.get("kind") == "log_prob_validate_short_sample":
        # validate_args=True rejects a sample that ended (by eos) after 1 < S < max_iters steps
        return (rec.get("logprob_raised") == "ValueError" and c["validate"] and c["eos"] is not None
                and c["max_iters"] is not None and 1 < rec.get("S", 0) < c["max_iters"])
    if sig.get("kind") == "packed_negative_dim":
        return bool(rec.get("raised")) and c["dim"] < 0
    if sig.get("kind") == "inplace-after-cache":
        # K8, narrow: the distribution wrapper with cache_samples=True, the in-place sub-checks only, EVERY failure of the case
        # is one of them, and each wrong answer is exactly the stale one (the log-probabilities of the contents before the
        # edit / the caller's own overwrite of the returned tensor); the model terms of the case must all hold
        k8 = rec.get("k8") or []
        return (bool(c.get("cache")) and bool(sig.get("cache", True)) and bool(c.get("inplace")) and len(k8) > 0
                and rec.get("fail_n") == len(k8) and rec.get("model_ok") is True and all(e.get("stale") is True for e in k8))
    return False


# ----------------------------------------------------------------------------------------
# driver
# ----------------------------------------------------------------------------------------

from vlib import time_limit as vlib_time_limit, ImplTimeout  # noqa: E402


def nontrivial_key(case):
    return case


def _term(res):
    ts = [t for _, t in res["terms"]] + [t for _, t in res["spec"]]
    return "(" + " && ".join(ts) + ")" if ts else "true"


_TIMEOUTS = [0]


def _safe_eval(case):
    try:
        # one case normally takes milliseconds; a library whose walk no longer sees its eos runs to the 'practically
        # infinite' default step limit - that must be a verdict about this case, not a check that hangs
        # (after three such timeouts the budget of a case drops to 5 s: the verdict is established, the run must end)
        lim = int(os.environ.get("VERIF_CASE_TIMEOUT") or 60) if _TIMEOUTS[0] < 3 else 5
        with vlib_time_limit(lim, "implementation call"):
            return EVAL[case["api"]](case)
    except ImplTimeout as e:
        _TIMEOUTS[0] += 1
        return {"terms": [], "spec": [], "nontrivial": False, "impl": "timeout",
                "fail": [f"implementation did not return ({e}); every path must end at its first eos or at the step limit"]}
    except Exception as e:
        import traceback
        if any("/pydrobert/torch/" in f.filename for f in traceback.extract_tb(e.__traceback__)):
            # an exception out of the implementation in a place where none is a legal outcome
            return {"terms": [], "spec": [], "nontrivial": False, "impl": "exc:" + exc_kind(e),
                    "fail": [f"implementation raised {exc_kind(e)} unexpectedly: {str(e)[:100]}"]}
        # harness trouble is not a verdict; surface it loudly
        raise RuntimeError(f"harness error on case {json.dumps(case)}: {type(e).__name__}: {e}") from e


def _fails(chk, case):
    res = _safe_eval(case)
    if res["fail"]:
        return True
    return not coq_eval_bools(chk.workdir, IMPORTS, [_term(res)], tag="shr")[0]


def _cands(case):
    api = case["api"]

    def mod(**kw):
        c = dict(case)
        c.update(kw)
        return c

    if api == "slp" and "hyp" not in case:
        for i, s in enumerate(case["shape"]):
            if s > (1 if i != case["dim"] % len(case["shape"]) else 0):
                sh = list(case["shape"])
                sh[i] -= 1
                yield mod(shape=sh)
        if case["V"] > 1:
            yield mod(V=case["V"] - 1)
        if case["eos"] is not None:
            yield mod(eos=None)
    elif api == "ps":
        if len(case["lens"]) > 1:
            for i in range(len(case["lens"])):
                yield mod(lens=case["lens"][:i] + case["lens"][i + 1:])
        for i, l in enumerate(case["lens"]):
            if l > 1:
                yield mod(lens=case["lens"][:i] + [l - 1] + case["lens"][i + 1:])
        if case["Tpad"]:
            yield mod(Tpad=0)
        if case["V"] > 1:
            yield mod(V=case["V"] - 1)
    elif api == "walk":
        if case["N"] not in (None, 0, 1):
            yield mod(N=case["N"] - 1)
        if case["max_iters"]:
            yield mod(max_iters=case["max_iters"] - 1)
        if case.get("script") and len(case["script"]) > 1:
            yield mod(script=case["script"][:-1])
        if case["by_n"]:
            yield mod(by_n=False)
    elif api == "dist":
        if case["sample_shape"] and max(case["sample_shape"]) > 1:
            yield mod(sample_shape=[max(1, s - 1) for s in case["sample_shape"]])
        if case["batch_size"] not in (None, 1):
            yield mod(batch_size=case["batch_size"] - 1)
        if case["max_iters"] and case["max_iters"] > 1:
            yield mod(max_iters=case["max_iters"] - 1)
        if case["cache"]:
            yield mod(cache=False)
        if case["validate"]:
            yield mod(validate=False)
    elif api == "dseq":
        for i in range(len(case["ops"])):
            yield mod(ops=case["ops"][:i] + case["ops"][i + 1:])
        if case["batch_size"] not in (None, 1):
            yield mod(batch_size=case["batch_size"] - 1)
        if case["max_iters"] and case["max_iters"] > 1:
            yield mod(max_iters=case["max_iters"] - 1)
        if case["cache"]:
            yield mod(cache=False)
        if case["validate"]:
            yield mod(validate=False)
        if case.get("bias") is not None:
            yield mod(bias=None)
    elif api == "greedy" and "vals" not in case:
        if case["N"] > 1:
            yield mod(N=case["N"] - 1, lens=None if case["lens"] is None else case["lens"][:-1])
        if case["T"] > 0:
            yield mod(T=case["T"] - 1)
        if case["V"] > 1 and -case["V"] + 1 <= case["blank"] <= case["V"] - 2:
            yield mod(V=case["V"] - 1)
        if case["lens"] is not None:
            yield mod(lens=None)


def judge(chk, case, res, model_ok):
    """build the record of a failing case; returns (record, concrete?)"""
    rec = {"case": case, "impl": res.get("impl"), "correspondence": "corr:C07:" + case["api"],
           "theorems_at_stake": THEOREMS[case["api"]], "impl_level_failures": res["fail"]}
    for k in ("raised", "logprob_raised", "S", "k8"):
        if res.get(k) is not None:
            rec[k] = res[k]
    sub = {}
    if res["terms"]:
        vals = coq_eval_bools(chk.workdir, IMPORTS, [t for _, t in res["terms"]], tag="sub")
        sub = {n: v for (n, _), v in zip(res["terms"], vals)}
    rec["model_agrees"] = sub
    spec = {}
    if res["spec"]:
        vals = coq_eval_bools(chk.workdir, IMPORTS, [t for _, t in res["spec"]], tag="spec")
        spec = {n: v for (n, _), v in zip(res["spec"], vals)}
    rec["spec_accepts_impl"] = spec
    concrete = bool(res["fail"]) or not all(spec.values())
    if not concrete and all(sub.values()) and res["terms"]:
        return rec, False
    if res["fail"]:
        rec["what"] = "; ".join(res["fail"])[:400]
    elif concrete:
        rec["what"] = "implementation output rejected by the property's boolean reading: " + ", ".join(k for k, v in spec.items() if not v)
    else:
        rec["what"] = ("implementation differs from the model (" + ", ".join(k for k, v in sub.items() if not v) +
                       ") but every output satisfies the property's boolean reading")
    return rec, concrete


def run(chk, cases=None):
    chk.rule = (
        "five APIs. slp: sequence_log_probs on an N-d tensor (normal form (outer,time,inner) taken by the harness) vs Model.slp_tensor; "
        "ps: the same on a PackedSequence vs Model.slp_ps fed with torch's batch_sizes/indices, plus packed==padded on the implementation; "
        "walk: RandomWalk with torch.multinomial scripted or recorded vs Model.walk driven by the recorded draws and the recorded LM table, "
        "plus walk log-prob == sequence_log_probs of the LM outputs; dist: SequentialLanguageModelDistribution.sample stacking, log_prob "
        "(three times: first, cached, cleared) == walk log-probs == Model.dist_log_prob, enumerate_support == Model.enumerate_support, mass "
        "over the support == 1, samples in support; greedy: ctc_greedy_search vs Model.ctc_greedy (exact on dyadic probabilities when "
        "is_probs). float64 log_softmax results enter the model on a 2^-40 grid, tolerance 512 units. Extreme-magnitude streams (xm-*): "
        "every API that normalises logits also runs on rows scaled by 100..1000, shifted by a common -1e3..+1e3, or with one logit "
        "dominating by 90..900 nats (other probabilities subnormal or exactly 0), as float32 and float64 (values are exact k/4 in "
        "both); the oracle stays torch's float64 log_softmax of the same values; tolerance there = 512 units + the rounding of the "
        "implementation's own sum (float64: (n+1)*max|lp|*2^-50; float32: (n+1)*(1+max|lp|)*2^-19); a non-finite output is a "
        "failure by itself (finite logits have finite log-probabilities; the zero-probability token scores -(hundreds), not -inf). non-trivial = (slp) a sequence of "
        "length>=2 with an out-of-vocabulary token or an eos before its end; (ps) ragged lengths; (walk) >=2 steps and a path that ended "
        "early or the step limit hit; (dist) a non-empty sample re-scored; (greedy) a repeat or blank removed inside the valid length. "
        "Robustness streams (rb-*, drawn last): the same generators through every public entry point (functional, modules.* wrapper, "
        "torch.jit.script of the wrapper / of RandomWalk over a scripted LM, keyword arguments with defaults omitted), through "
        "non-contiguous views of every argument, in float32, called twice (answers bit-identical, arguments not overwritten); walks "
        "with an initial state the LM depends on, with initial_state None / omitted, on a module object used before; adv: "
        "functional.random_walk_advance driven directly on prompts with ragged y_prev_lens (buffer grows / must not grow; the token "
        "goes to position y_prev_lens[n]) vs Model.rw_advance, log_probs_next exact, draw weights proportional to exp(log_probs_t); "
        "dist call history on ONE object (cache on/off): log_prob of an edited COPY of the sample (judged by Model.dist_log_prob and by "
        "the definition), the original again, the same value as int32 / float64 / non-contiguous, a second sample (scores as its own "
        "walks, the first sample still as its own), and - known finding K8 when cache_samples=True - after the caller edited the sample "
        "or a returned log-prob tensor in place; greedy with a non-last blank (positive and negative index) and ragged in_lens incl. 0. "
        "Round-4 streams (drawn last): exh-ps-order / rb-ps-order = packed input in EVERY legal PackedSequence layout: for each length "
        "pattern every longest-first sorted_indices (tied lengths in any order; PackedSequence built by hand, pad_packed_sequence "
        "round-trip asserted), torch's own packing, enforce_sorted=True input (sorted_indices None), hyp time- and batch-major, "
        "all entry points; same terms (Model.slp_ps with the PackedSequence's own indices, check_pack, spec, packed==padded). "
        "exh-dseq / rb-dseq = call sequences on ONE distribution object over enumerate_support (default/positional/keyword, expand "
        "True/False, every ordered pair), sample, log_prob, clear_cache, has_enumerate_support with in-place edits of every tensor "
        "handed out earlier (supports, samples, log-probs): each enumerate_support result vs Model.enumerate_support (shape: one copy "
        "per batch element iff expand), each log_prob vs Model.dist_log_prob and the walks' log-probs, mass over the support == 1, "
        "samples in the support")
    chk.assumptions += [
        "torch.log_softmax (float64) is an oracle: its result is data for the model (regime T of DESIGN.md section 3); for float32 "
        "inputs the oracle is the float64 log_softmax of the same (exactly representable) logits",
        "torch.multinomial never returns a zero-probability index (scripted draws respect this)",
        "the language model is a per-element function of (batch index, prefix); RandomWalk.update_log_probs_for_step is the default",
        "max_iters=None is modelled as 'no limit' (the code uses 2^30)",
        "PackedSequence inputs are those torch's pack_padded_sequence produces, or (streams *-ps-order) the same data/batch_sizes with "
        "any other longest-first sorted_indices and its inverse, which pad_packed_sequence maps back to the same padded tensor; hyp "
        "covers the longest sequence",
        "scripted RandomWalk / random_walk_advance: torch.multinomial cannot be replaced inside TorchScript, so the real generator draws "
        "and the draws are read back from the returned paths (the model then re-runs the walk on them and checks every cell)",
        "K8 (known_findings.d/C07.json): with cache_samples=True an in-place edit of the sample (or of a returned log-prob tensor) makes "
        "log_prob answer from the stale cache; matched only when every failure of the case is such a stale answer (signature())",
    ]
    replaying = cases is not None
    if cases is None:
        cases = gen_exhaustive(chk) + [dict({k: v for k, v in c.items() if k != "note"}, stream="corpus") for c in load_corpus("C07") if "api" in c] + gen_random(chk) + gen_extreme(chk) + gen_robust(chk) + gen_round4(chk)
    results, terms, streams = [], [], []
    for c in cases:
        stream = c.pop("stream", "random")
        streams.append(stream)
        res = _safe_eval(c)
        results.append(res)
        terms.append(_term(res))
        chk.note_case(c, res["nontrivial"], stream)
        chk.count("api=" + c["api"])
        if c.get("xm"):
            chk.count(f"xm.{c['api']}.mode={c['xm']}")
            chk.count(f"xm.{c['api']}.dtype={c.get('dtype', 'f64')}")
            if "zero_prob_token" in res:
                chk.count(f"xm.slp.hyp_through_zero_probability_token={res['zero_prob_token']}")
        for k in ("eos", "dim", "batch_first", "is_probs", "sorted", "batch_size", "max_iters", "cache", "N", "blank"):
            if k in c and c["api"] in ("slp", "ps", "walk", "dist", "greedy"):
                v = c[k]
                if k == "eos" and v is not None:
                    v = "in-vocab" if 0 <= (v + c["V"] if v < 0 and c["api"] in ("walk", "dist") else v) < c["V"] else "out-of-vocab"
                chk.count(f"{c['api']}.{k}={v}")
        out = res.get("impl")
        chk.count(f"{c['api']}.outcome=" + (out if isinstance(out, str) else "ok"))
        if c.get("via"):
            chk.count(f"{c['api']}.via={c['via']}")
        if c["api"] == "adv":
            eff = [c["S"]] * c["N"] if c["lens"] is None else c["lens"]
            chk.count("adv.lens=" + ("unset" if c["lens"] is None else "uniform" if len(set(eff)) <= 1 else
                                     "ragged,buffer_grows" if max(eff) >= c["S"] else "ragged,buffer_kept"))
        if c["api"] == "greedy" and c["lens"] is not None and c["V"] >= 2 and (c["blank"] + c["V"]) % c["V"] != c["V"] - 1 \
                and -c["V"] <= c["blank"] < c["V"] and len(set(c["lens"])) > 1:
            chk.count("situation:greedy,non_last_blank,ragged_in_lens" + (",with_empty_element" if 0 in c["lens"] else ""))
        if c["api"] == "dist" and c.get("hist"):
            chk.count("situation:dist,call_history,cache=%s" % c["cache"])
        if c["api"] == "walk" and c.get("bias") is not None:
            chk.count("walk.initial_state=bias")
        if c["api"] == "ps" and res.get("order_kind"):
            chk.count("situation:ps,sorted_indices=" + res["order_kind"] + (",batch-major-hyp" if c["dim"] in (1, -1) else ",time-major-hyp"))
        if c["api"] == "ps" and c.get("order") is None and len(set(c["lens"])) < len(c["lens"]):
            chk.count("situation:ps,tied-lengths,sorted_indices=" + ("None(enforce_sorted)" if c["sorted"] else "torch's-own"))
        if c["api"] == "dseq":
            for s in sorted(set(res.get("situations", []))):
                chk.count("situation:" + s + ("" if c["batch_size"] is None else ",batched"))
            for k in ("batch_size", "max_iters", "cache"):
                chk.count(f"dseq.{k}={c[k]}")
    ok = coq_eval_bools(chk.workdir, IMPORTS, terms)
    bad = [i for i in range(len(cases)) if results[i]["fail"] or not ok[i]]
    for i in bad:
        if not (results[i].get("k8") and len(results[i]["k8"]) == len(results[i]["fail"]) and ok[i]):
            chk.count("failing:stream=%s" % streams[i])       # absent on a tree the check accepts (K8 cases aside)
    chk.extra["model_disagreements"] = sum(1 for i in range(len(cases)) if not ok[i])
    chk.extra["impl_level_failures"] = sum(1 for r in results if r["fail"])
    reported_concrete, pending_nfi, seen = 0, [], set()
    for i in bad:
        case, res = cases[i], results[i]
        quick = {"case": case, "raised": res.get("raised"), "logprob_raised": res.get("logprob_raised"), "S": res.get("S"),
                 "k8": res.get("k8"), "fail_n": len(res["fail"]), "model_ok": bool(ok[i]), "api": case["api"]}
        if res["fail"] and chk.known_match(signature, quick) is not None:
            chk.report(quick, signature)  # counted under its known-findings entry
            continue
        key = (case["api"], tuple(sorted(f[:30] for f in res["fail"])), bool(ok[i]))
        if key in seen or len(seen) >= 5:
            continue
        seen.add(key)
        if not replaying:
            case = shrink(case, lambda c: _fails(chk, c), _cands, budget=20)
            res = _safe_eval(case)
        rec, concrete = judge(chk, case, res, ok[i])
        if concrete:
            reported_concrete += 1
            chk.report(rec, signature)
        else:
            pending_nfi.append(rec)
    if pending_nfi and not reported_concrete:
        chk.report(pending_nfi[0], no_failing_input=True)
    elif pending_nfi:
        chk.extra["model_only_disagreements"] = [r["case"] for r in pending_nfi[:5]]
    source_tie(chk, cases, results)
    from props import c07_tie   # second tie: ctc_greedy_search, random_walk_advance, _sequence_log_probs_ps (PV.C07.SrcRunB)
    c07_tie.source_tieB(chk, cases, results)


# ----------------------------------------------------------------------------------------
# source tie (tensor slp): the translated Python text of _sequence_log_probs_tensor / _lens_from_eos, interpreted inside
# Coq (PV.MiniPy.Interp, torch calls = PV.MiniTorch.OpsC07 through SrcRun.ext07), on the slp cases of this run
# ----------------------------------------------------------------------------------------
IMPORTS_SRC = IMPORTS + "From PV Require C07.SrcRun.\n"
SRC_TIE_MAX = 1500     # cases evaluated per run (an evenly spaced sample beyond that; ~7 ms each)
SRC_TIE_THEOREMS = ["c07_source_slp_is_model", "c07_source_slp_raises", "c07_source_lens_is_model", "c07_source_slp_eq_spec"]


def _src_slp_nd_term(case, res):
    """the interpreted source on the case's ORIGINAL layout (any number of dimensions, the case's own dim - also out of
    range -, flat row-major data; the oracle = torch's float64 log_softmax on the 2^-40 grid, as for the model) against
    the implementation's outcome: an exception, or the output shape and values within the case's tolerance"""
    impl = res.get("impl")
    if impl is None or impl in ("variant", "badshape"):
        return None
    shape, V, dim, eos = list(case["shape"]), case["V"], case["dim"], case["eos"]
    if V < 1 or prod(shape) * V > 2000:
        return None
    hyp_l, lg_l = slp_data(case)
    logits = (torch.tensor(lg_l, dtype=torch.float64).view(shape + [V]) / 4).to(case_dtype(case))
    ls = logits.double().log_softmax(-1)
    nd = len(shape)
    if isinstance(impl, str):
        tol, impl_c = TOL, "None"
    else:
        d = dim % nd
        tol, _ = tols(case, shape[d], absmax(ls))
        flat = [zs(x) for row in impl for x in row]
        impl_c = co(cp(ln(shape[:d] + shape[d + 1:]), lz(flat)))
    return (f"SrcRun.src_slp_nd_check {cz(tol)} {ln(shape)} {cn(V)} {cz(dim)} {oz(eos)} "
            f"{lz(_scaled(ls.reshape(-1)))} {lz(hyp_l)} {impl_c}")


def _time_pos(case):
    nd, dim = len(case["shape"]), case["dim"]
    if dim < -nd or dim > nd - 1:
        return "out-of-range"
    d = dim % nd
    return "first" if d == 0 else "last" if d == nd - 1 else "middle"


def src_slp_term(case, res):
    """bool: (a) SrcRun.src_slp_check on exactly the arguments of the model term (normal form (outer, time, inner), dim 1:
    the statement of c07_source_slp_is_model), and (b) the same source on the original layout (_src_slp_nd_term)"""
    parts = ["SrcRun.src_slp_check " + t[len("check_slp_tensor "):] for n, t in res["terms"]
             if n == "model" and t.startswith("check_slp_tensor ") and case["V"] >= 1]
    nd = _src_slp_nd_term(case, res)
    if nd is not None:
        parts.append(nd)
    return "(" + " && ".join(parts) + ")" if parts else None


def source_tie(chk, cases, results):
    """validates the translator, MiniPy's semantics, ext07 and the MiniTorch definitions against CPython + torch on the
    run's own tensor slp cases; independent of whether the tie lemmas still compile"""
    import time
    from vlib import CoqError
    idx, terms = [], []
    for i, (c, r) in enumerate(zip(cases, results)):
        if c.get("api") != "slp":
            continue
        try:
            t = src_slp_term(c, r)
        except Exception:  # noqa: BLE001  (a case the generator itself cannot rebuild is not a verdict here)
            t = None
        if t is not None:
            idx.append(i)
            terms.append(t)
    if not idx:
        chk.extra["source_tie_run"] = {"cases": 0, "disagreements": 0}
        return
    eligible = len(idx)
    if eligible > SRC_TIE_MAX:
        keep = sorted({(k * eligible) // SRC_TIE_MAX for k in range(SRC_TIE_MAX)})
        idx, terms = [idx[k] for k in keep], [terms[k] for k in keep]
    t0 = time.time()
    try:
        res = coq_eval_bools(chk.workdir, IMPORTS_SRC, terms, shard=60, tag="src")
    except CoqError as e:
        chk.extra["source_tie_run"] = "not evaluated: " + str(e)[-400:]
        return
    bad = [idx[j] for j, ok in enumerate(res) if not ok]
    chk.extra["source_tie_run"] = {
        "cases": len(idx), "eligible": eligible, "disagreements": len(bad), "wall_s": round(time.time() - t0, 1),
        "eos_set": sum(1 for i in idx if cases[i]["eos"] is not None),
        "raised": sum(1 for i in idx if isinstance(results[i].get("impl"), str)),
        "dims": sorted({len(cases[i]["shape"]) for i in idx}),
        "time_dim": {k: sum(1 for i in idx if _time_pos(cases[i]) == k) for k in ("first", "middle", "last", "out-of-range")}}
    chk.count("source_tie_cases", len(idx))
    if bad:
        i = bad[0]
        chk.report({"case": cases[i], "impl": results[i].get("impl"),
                    "what": "the Python source of _sequence_log_probs_tensor / _lens_from_eos as translated to MiniPy and "
                            "interpreted in Coq (PV.C07.SrcRun.src_slp_check / src_slp_nd_check, torch calls = "
                            "PV.MiniTorch.OpsC07) does not reproduce the implementation's output: translator / interpreter / "
                            "ext07 / MiniTorch no longer describe the code",
                    "disagreeing_cases": len(bad),
                    "correspondence": "tie:C07:py2coq+MiniPy.Interp+MiniTorch:_sequence_log_probs_tensor",
                    "theorems_at_stake": SRC_TIE_THEOREMS}, no_failing_input=True)


def replay(chk, path):
    rec = json.loads(open(path).read())
    case = dict(rec["case"])
    case.pop("stream", None)
    run(chk, [case])
