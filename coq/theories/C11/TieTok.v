(* C11 source tie - transcript_to_token, whole function: the prelude (unk resolution, torch.empty), one iteration =
   the model's per-item row (TieTokTry.try_tie, TieTokStore.id_tie and the store_tie lemmas), the loop (invariant: the rows written so
   far, the rest of the tensor unwritten), the result.  Main result: [to_token_tie]. *)
From Coq Require Import ZArith QArith Qround List String Ascii Bool Lia.
From PV Require C11.Spec.
From PV Require Import C11.Model MiniPy.Syntax MiniPy.Interp MiniPy.Lemmas MiniTorch.OpsC11 Gen.C11Src C11.SrcRun C11.TieBase
  C11.TieTokTry C11.TieTokStore.
Import ListNotations.
Local Open Scope string_scope.

#[local] Arguments Z.of_nat : simpl never.
#[local] Arguments qtrunc : simpl never.
#[local] Arguments dec_lt : simpl never.
#[local] Arguments tempty : simpl never.
#[local] Arguments Qeq_bool : simpl never.
#[local] Arguments inject_Z : simpl never.

(* ---- the model, item by item ------------------------------------------------------------------------------------------------ *)
Definition unk_res (t2i : option (list (tk * Z))) (unk : option tk) : option tk :=
  match t2i, unk with
  | Some d, Some u => match assoc tk_eqb u d with Some i => Some (TInt i) | None => Some u end
  | _, _ => unk
  end.

Definition tok_row (t2i : option (list (tk * Z))) (fs : option Q) (unk' : option tk) (skip : bool) (it : Model.item)
  : res (Z * Z * Z) :=
  match id_of t2i unk' (C11.Spec.item_tok it) with
  | TInt i => Model.Ok (i, if skip then (-1)%Z else fst (times_of fs it), if skip then (-1)%Z else snd (times_of fs it))
  | TStr _ => Raise TypeError
  end.

Lemma model_is_map_res tr t2i fs unk skip :
  Model.transcript_to_token tr t2i fs unk skip = map_res (tok_row t2i fs (unk_res t2i unk) skip) tr.
Proof.
  unfold Model.transcript_to_token. fold (unk_res t2i unk).
  induction tr as [|it tr IH]; [reflexivity|].
  cbn [map_res]. rewrite IH.
  replace (tok_row t2i fs (unk_res t2i unk) skip it) with
    (let '(t, (s, e)) := match it with
                         | Plain t => (t, ((-1)%Z, (-1)%Z))
                         | Timed t s e => (t, frames_of fs s e)
                         end in
     match match t2i with
           | None => t
           | Some d => match assoc tk_eqb t d with
                       | Some i => TInt i
                       | None => match unk_res t2i unk with None => t | Some u => u end
                       end
           end with
     | TInt i => Model.Ok (i, if skip then (-1)%Z else s, if skip then (-1)%Z else e)
     | TStr _ => Raise TypeError
     end); [reflexivity|].
  unfold tok_row, id_of, times_of. destruct it as [t|t s e]; cbn [C11.Spec.item_tok]; [reflexivity|].
  destruct (frames_of fs s e) as [sf ef]. reflexivity.
Qed.

(* ---- the statements ---------------------------------------------------------------------------------------------------------- *)
Definition tk_pre : stmt :=
  match tk_body with SSeq a1 (SSeq a2 (SSeq a3 _)) => SSeq a1 (SSeq a2 a3) | _ => SPass end.

Lemma exec_seq6 ext a1 a2 a3 t i s st :
  exec ext (SSeq a1 (SSeq a2 (SSeq a3 (SSeq t (SSeq i s))))) st =
  bind (exec ext (SSeq a1 (SSeq a2 a3)) st) (fun c st1 =>
    match c with CNormal => exec ext (SSeq t (SSeq i s)) st1 | CReturn v => Ok c st1 end).
Proof.
  cbn [exec]. destruct (exec ext a1 st) as [[|v] st1|n st1|w]; cbn [bind]; try reflexivity.
  destruct (exec ext a2 st1) as [[|v] st2|n st2|w]; cbn [bind]; try reflexivity.
Qed.

Lemma exec_body st :
  exec ext11 tk_body st =
  bind (exec ext11 tk_pre st) (fun c st1 =>
    match c with CNormal => exec ext11 (SSeq tk_try (SSeq tk_id tk_store)) st1 | CReturn v => Ok c st1 end).
Proof. exact (exec_seq6 ext11 _ _ _ _ _ _ st). Qed.

Definition pre_rest (k : Z) (itv : val) (rest : list (string * val)) : list (string * val) :=
  update "end" (VInt (-1)) (update "start" (VInt (-1)) (update "token" itv (update "i" (VInt k)
    (update "$t3" (VTuple [VInt k; itv]) rest)))).

Lemma pre_tie TR T2I FS UNK skip SZ TOK k itv rest evs :
  exec ext11 tk_pre (set_var "$t3" (VTuple [VInt k; itv]) (mkState (kbase TR T2I FS UNK skip SZ TOK ++ rest) evs))
  = Ok CNormal (mkState (kbase TR T2I FS UNK skip SZ TOK ++ pre_rest k itv rest) evs).
Proof. unfold tk_pre, tk_body, src_to_token, kbase, pre_rest. norm. reflexivity. Qed.

(* ---- the tensor being filled --------------------------------------------------------------------------------------------------- *)
Definition row_cells (r : Z * Z * Z) : list cell := [Some (fst (fst r)); Some (snd (fst r)); Some (snd r)].
Definition blank : list cell := [None; None; None].
Definition tens (skip : bool) (done : list (Z * Z * Z)) (n : nat) : ltens :=
  if skip then T1 (map (fun r => Some (fst (fst r))) done ++ repeat None n)
  else T2 (map row_cells done ++ repeat blank n).

Lemma exec_seq_n ext a b st :
  exec ext (SSeq a b) st =
  bind (exec ext a st) (fun c st1 => match c with CNormal => exec ext b st1 | CReturn v => Ok c st1 end).
Proof. reflexivity. Qed.

Lemma tk_step TR t2i fs unk' skip SZ it done n rest evs : fs_ok fs ->
  let P := fun TOK => kbase TR (enc_t2i t2i) (enc_fs fs) (enc_unk unk') skip SZ TOK in
  let st := set_var "$t3" (VTuple [VInt (Z.of_nat (List.length done)); enc_item it])
              (mkState (P (enc_lt (tens skip done (S n))) ++ rest) evs) in
  match tok_row t2i fs unk' skip it with
  | Model.Ok r => exists rest', exec ext11 tk_body st
                                = Ok CNormal (mkState (P (enc_lt (tens skip (done ++ [r]) n)) ++ rest') evs)
  | Model.Raise e => exists st', exec ext11 tk_body st = Exc (exn_name e) st'
  end.
Proof.
  intros Hfs P st. subst P st. cbv beta. rewrite exec_body, pre_tie. cbn [bind].
  set (rest0 := pre_rest (Z.of_nat (List.length done)) (enc_item it) rest).
  assert (Ht0 : lookup "token" rest0 = Some (enc_item it)) by (unfold rest0, pre_rest; lk; reflexivity).
  assert (Hs0 : lookup "start" rest0 = Some (VInt (-1))) by (unfold rest0, pre_rest; lk; reflexivity).
  assert (He0 : lookup "end" rest0 = Some (VInt (-1))) by (unfold rest0, pre_rest; lk; reflexivity).
  assert (Hi0 : lookup "i" rest0 = Some (VInt (Z.of_nat (List.length done))))
    by (unfold rest0, pre_rest; lk; reflexivity).
  rewrite exec_seq_n.
  destruct (try_tie TR (enc_t2i t2i) fs (enc_unk unk') skip SZ (enc_lt (tens skip done (S n))) it rest0 evs
              Hfs Ht0 Hs0 He0) as (rest1 & sv & ev & Hx & Ht1 & Hs1 & He1 & Hsf & Hef & Hi1).
  rewrite Hx. cbn [bind]. rewrite exec_seq_n.
  destruct (id_tie TR t2i (enc_fs fs) unk' skip SZ (enc_lt (tens skip done (S n))) (C11.Spec.item_tok it) rest1 evs Ht1)
    as (rest2 & Hy & Hid & Hi2 & Hs2 & He2).
  rewrite Hy. cbn [bind].
  rewrite Hi1, Hi0 in Hi2. rewrite Hs1 in Hs2. rewrite He1 in He2.
  unfold tok_row. unfold tens. destruct skip.
  - (* (R,) tensor *)
    cbn [repeat].
    replace (List.length done) with (List.length (map (fun r : Z * Z * Z => Some (fst (fst r))) done)) in Hi2
      by apply map_length.
    pose proof (store_tie_skip TR (enc_t2i t2i) (enc_fs fs) (enc_unk unk') SZ
                  (map (fun r : Z * Z * Z => Some (fst (fst r))) done) None (repeat None n) rest2 evs
                  (id_of t2i unk' (C11.Spec.item_tok it)) Hi2 Hid) as Hst. cbv zeta in Hst.
    destruct (id_of t2i unk' (C11.Spec.item_tok it)) as [z|s].
    + exists rest2. etransitivity; [exact Hst|]. rewrite map_app, <- app_assoc. reflexivity.
    + destruct Hst as [st' Hst]. exists st'. exact Hst.
  - cbn [repeat]. unfold blank at 1.
    replace (List.length done) with (List.length (map row_cells done)) in Hi2 by apply map_length.
    pose proof (store_tie_full TR (enc_t2i t2i) (enc_fs fs) (enc_unk unk') SZ (map row_cells done) None None None
                  (repeat blank n) rest2 evs (id_of t2i unk' (C11.Spec.item_tok it)) sv ev _ _ Hi2 Hid Hs2 He2 Hsf Hef)
      as Hst. cbv zeta in Hst.
    destruct (id_of t2i unk' (C11.Spec.item_tok it)) as [z|s].
    + exists rest2. etransitivity; [exact Hst|]. rewrite map_app, <- app_assoc. reflexivity.
    + destruct Hst as [st' Hst]. exists st'. exact Hst.
Qed.

(* ---- the loop ------------------------------------------------------------------------------------------------------------------- *)
Lemma tk_loop TR t2i fs unk' skip SZ : fs_ok fs -> forall items done rest evs,
  let P := fun TOK => kbase TR (enc_t2i t2i) (enc_fs fs) (enc_unk unk') skip SZ TOK in
  let st := mkState (P (enc_lt (tens skip done (List.length items))) ++ rest) evs in
  let its := enum_from (Z.of_nat (List.length done)) (map enc_item items) in
  match map_res (tok_row t2i fs unk' skip) items with
  | Model.Ok rows => exists rest', for_loop ext11 "$t3" tk_body its st
                                   = Ok CNormal (mkState (P (enc_lt (tens skip (done ++ rows) 0)) ++ rest') evs)
  | Model.Raise e => exists st', for_loop ext11 "$t3" tk_body its st = Exc (exn_name e) st'
  end.
Proof.
  intros Hfs. induction items as [|it items IH]; intros done rest evs; cbv zeta.
  - cbn [map_res map enum_from for_loop List.length]. exists rest. rewrite app_nil_r. reflexivity.
  - cbn [map_res map enum_from for_loop List.length].
    pose proof (tk_step TR t2i fs unk' skip SZ it done (List.length items) rest evs Hfs) as Hstep. cbv zeta in Hstep.
    destruct (tok_row t2i fs unk' skip it) as [r|e].
    + destruct Hstep as [rest1 Hx]. rewrite Hx. cbn [bind].
      specialize (IH (done ++ [r])%list rest1 evs). cbv zeta in IH.
      replace (Z.of_nat (List.length (done ++ [r]))) with (Z.of_nat (List.length done) + 1)%Z in IH
        by (rewrite app_length; cbn [List.length]; lia).
      destruct (map_res (tok_row t2i fs unk' skip) items) as [rows|e].
      * destruct IH as [rest2 Hy]. exists rest2. rewrite Hy. rewrite <- app_assoc. reflexivity.
      * exact IH.
    + destruct Hstep as [st' Hx]. rewrite Hx. exists st'. reflexivity.
Qed.

(* ---- the prelude ---------------------------------------------------------------------------------------------------------------- *)
Lemma mem_keys u (d : list (tk * Z)) :
  mem (enc_tk u) (map fst (map (fun kv => (enc_tk (fst kv), VInt (snd kv))) d))
  = match assoc tk_eqb u d with Some _ => true | None => false end.
Proof.
  induction d as [|[k v] d IH]; [reflexivity|].
  cbn [map fst snd mem assoc]. rewrite val_eqb_enc_tk. destruct (tk_eqb u k); [reflexivity|exact IH].
Qed.

Lemma mem_none (d : list (tk * Z)) :
  mem VNone (map fst (map (fun kv => (enc_tk (fst kv), VInt (snd kv))) d)) = false.
Proof.
  induction d as [|[k v] d IH]; [reflexivity|].
  cbn [map fst snd mem]. rewrite IH. destruct k as [z|[|c s]]; reflexivity.
Qed.

Lemma tempty1 m : tempty [Z.of_nat m] = Some (T1 (repeat None m)).
Proof.
  unfold tempty. destruct (Z.leb_spec 0 (Z.of_nat m)); [|lia]. rewrite Nat2Z.id. reflexivity.
Qed.

Lemma tempty2 m : tempty [Z.of_nat m; 3%Z] = Some (T2 (repeat blank m)).
Proof.
  unfold tempty. destruct (Z.leb_spec 0 (Z.of_nat m)); [|lia]. rewrite Nat2Z.id. reflexivity.
Qed.

Definition tk_prelude : stmt :=
  match src_to_token with SSeq s0 (SSeq s1 (SSeq s2 (SSeq s3 _))) => SSeq s0 (SSeq s1 (SSeq s2 s3)) | _ => SPass end.
Definition tk_tail : stmt :=
  match src_to_token with SSeq _ (SSeq _ (SSeq _ (SSeq _ t))) => t | _ => SPass end.

Lemma exec_seq5 ext s0 s1 s2 s3 t st :
  exec ext (SSeq s0 (SSeq s1 (SSeq s2 (SSeq s3 t)))) st =
  bind (exec ext (SSeq s0 (SSeq s1 (SSeq s2 s3))) st) (fun c st1 =>
    match c with CNormal => exec ext t st1 | CReturn v => Ok c st1 end).
Proof.
  cbn [exec]. destruct (exec ext s0 st) as [[|v] st1|n st1|w]; cbn [bind]; try reflexivity.
  destruct (exec ext s1 st1) as [[|v] st2|n st2|w]; cbn [bind]; try reflexivity.
  destruct (exec ext s2 st2) as [[|v] st3|n st3|w]; cbn [bind]; try reflexivity.
Qed.

Lemma exec_whole st :
  exec ext11 src_to_token st =
  bind (exec ext11 tk_prelude st) (fun c st1 =>
    match c with CNormal => exec ext11 tk_tail st1 | CReturn v => Ok c st1 end).
Proof. exact (exec_seq5 ext11 _ _ _ _ _ st). Qed.

Definition size_of (skip : bool) (n : nat) : val :=
  VTuple (VInt (Z.of_nat n) :: if skip then [] else [VInt 3]).

Lemma prelude_tie (tr : list Model.item) t2i fs unk skip :
  let TR := VList (map enc_item tr) in
  exec ext11 tk_prelude
    (mkState [("transcript", TR); ("token2id", enc_t2i t2i); ("frame_shift_ms", enc_fs fs); ("unk", enc_unk unk);
              ("skip_frame_times", VBool skip); ("torch", torch_obj)] [])
  = Ok CNormal (mkState (kbase TR (enc_t2i t2i) (enc_fs fs) (enc_unk (unk_res t2i unk)) skip
                           (size_of skip (List.length tr)) (enc_lt (tens skip [] (List.length tr))) ++ []) []).
Proof.
  cbv zeta. unfold tk_prelude, src_to_token, kbase, size_of, unk_res, tens.
  destruct t2i as [d|]; unfold enc_t2i; (destruct unk as [u|]; unfold enc_unk); destruct skip.
  all: norm_with ltac:(rewrite ?mem_keys, ?mem_none, ?t2i_get, ?map_length, ?tempty1, ?tempty2).
  all: try (destruct (assoc tk_eqb u d) as [i|];
            norm_with ltac:(rewrite ?mem_keys, ?mem_none, ?t2i_get, ?map_length, ?tempty1, ?tempty2)).
  all: reflexivity.
Qed.

(* ---- the whole function --------------------------------------------------------------------------------------------------------- *)
(* the tensor returned: shape (R, 3), or (R,) with skip_frame_times *)
Definition enc_rows (skip : bool) (rows : list (Z * Z * Z)) : val := enc_lt (tens skip rows 0).

Theorem to_token_tie tr t2i fs unk skip : fs_ok fs ->
  match Model.transcript_to_token tr t2i fs unk skip with
  | Model.Ok rows => exists st, run_to_token (VList (map enc_item tr)) (enc_t2i t2i) (enc_fs fs) (enc_unk unk) skip
                                = Ok (enc_rows skip rows) st
  | Model.Raise e => exists st, run_to_token (VList (map enc_item tr)) (enc_t2i t2i) (enc_fs fs) (enc_unk unk) skip
                                = Exc (exn_name e) st
  end.
Proof.
  intros Hfs. unfold run_to_token, Interp.run. rewrite model_is_map_res, exec_whole.
  pose proof (prelude_tie tr t2i fs unk skip) as Hp. cbv zeta in Hp. rewrite Hp. clear Hp. cbn [bind].
  set (TR := VList (map enc_item tr)).
  change tk_tail with (SSeq (SFor "$t3" (ECall "enumerate" [EName "transcript"] []) tk_body) (SReturn (EName "tok"))).
  rewrite exec_seq_n, exec_for.
  change (eval ext11 (ECall "enumerate" [EName "transcript"] []) ?s)
    with (Ok (VList (enum_from 0 (map enc_item tr))) s).
  cbn [bind iter_items container_items].
  pose proof (tk_loop TR t2i fs (unk_res t2i unk) skip (size_of skip (List.length tr)) Hfs tr [] [] []) as Hl.
  cbv zeta in Hl. change (Z.of_nat (List.length (@nil (Z * Z * Z)))) with 0%Z in Hl.
  destruct (map_res (tok_row t2i fs (unk_res t2i unk) skip) tr) as [rows|e].
  - destruct Hl as [rest' Hf]. eexists. rewrite Hf. cbn [bind app]. unfold kbase. cbn. reflexivity.
  - destruct Hl as [st' Hf]. exists st'. rewrite Hf. reflexivity.
Qed.
