"""C20 second source tie, harness side: the Python text of `MultiHeadedAttention.forward` / `check_input`,
`ConcatSoftAttention.score` and `_concat_soft_attention` (src/pydrobert/torch/_attn.py), translated to MiniPy by py2coq on
this run (PV.Gen.C20BSrc; `GlobalSoftAttention.forward` / `check_input` and the dot / general score bodies come from the
first tie's PV.Gen.C20Src) and interpreted INSIDE Coq with the torch calls given the meaning of PV.MiniTorch.OpsC20 /
OpsC20B (PV.C20.SrcRunB.ext_mha / ext_concat, exp and tanh = the run's oracle tables), is run on the multi-headed and
concat cases of the run and compared with what the implementation returned - same arguments, tables and tolerance as
the model terms (Model.check_mha / check_single).  This validates translator + interpreter + ext + op semantics against
CPython/torch on every run and is independent of whether C20/TieB*.v still compile."""
import json
import time

from vlib import coq_eval_bools

IMPORTS_SRCB = "From PV Require Import C20.Model C20.Spec.\nFrom PV Require C20.SrcRunB.\n"
SRCB_TIE_CAP = 600
SRCB_COST = 4000
SRCB_THEOREMS = ["c20_source_mha_forward_is_model", "c20_source_mha_forward_any_score",
                 "c20_source_single_head_every_flavour", "c20_source_mha_is_composition",
                 "c20_source_mha_blind_to_masked", "c20_source_mha_rejects_rank",
                 "c20_source_concat_score_is_model", "c20_source_concat_forward_is_model",
                 "c20_source_concat_in_kept_range"]


def _eligible(c20, case):
    """multi-headed cases (any wrapped flavour) and single-head concat cases, every stream (scripted / traced / keyword
    entries must give what the eager text gives); size-threshold cases only where the interpreter can afford them"""
    if case["flavour"] not in ("mha", "concat"):
        return False
    return c20.model_cost(case) <= SRCB_COST


def src_term(c20, case, res):
    t = c20.model_term(case, res)
    if t.startswith("(check_mha "):
        return "(SrcRunB.src_mha_check " + t[len("(check_mha "):]
    assert t.startswith("(check_single ")
    return "(SrcRunB.src_concat_check " + t[len("(check_single "):]


def source_tieB(chk, cases, results):
    import props.c20 as c20
    from vlib import CoqError
    chk.extra["source_tieB"] = {
        "unit": "C20BSrc (+ C20Src)", "functions": ["MultiHeadedAttention.forward", "MultiHeadedAttention.check_input",
                                                    "ConcatSoftAttention.score", "_concat_soft_attention"],
        "theorems": SRCB_THEOREMS}
    idx = [i for i, c in enumerate(cases) if _eligible(c20, c)]
    total = len(idx)
    if len(idx) > SRCB_TIE_CAP:  # evenly spaced sample
        idx = [idx[(j * len(idx)) // SRCB_TIE_CAP] for j in range(SRCB_TIE_CAP)]
    if not idx:
        chk.extra["source_tieB_run"] = {"cases": 0, "disagreements": 0}
        return
    t0 = time.time()
    try:
        terms = [src_term(c20, cases[i], results[i]) for i in idx]
        oks = coq_eval_bools(chk.workdir, IMPORTS_SRCB, terms, shard=max(4, -(-len(terms) // 16)), tag="srcB")
    except (CoqError, AssertionError) as e:
        chk.extra["source_tieB_run"] = "not evaluated: " + str(e)[-400:]
        return
    bad = [i for i, ok in zip(idx, oks) if not ok]
    sel = [cases[i] for i in idx]
    mha = [c for c in sel if c["flavour"] == "mha"]
    chk.extra["source_tieB_run"] = {
        "cases": len(idx), "eligible": total, "disagreements": len(bad), "wall_s": round(time.time() - t0, 1),
        "mha": len(mha), "mha_wrapping": {k: sum(1 for c in mha if c["score"]["kind"] == k) for k in c20.SINGLE},
        "mha_bias_combos": len({tuple(c["mha"]["bias"]) for c in mha}),
        "mha_heads": sorted({c["mha"]["H"] for c in mha}),
        "concat": sum(1 for c in sel if c["flavour"] == "concat"),
        "masked": sum(1 for c in sel if c.get("mshape") is not None),
        "negative_dim": sum(1 for c in sel if c["dim"] < 0),
        "raising": sum(1 for i in idx if results[i]["out"] is None),
        "key_ranks": sorted({len(c["kshape"]) for c in sel}),
        "entries_other_than_eager": sum(1 for c in sel if c.get("script") or c.get("trace") or c.get("kwcall"))}
    chk.count("source_tieB_cases", len(idx))
    if bad:
        i = min(bad, key=lambda j: len(json.dumps(cases[j])))
        fn = ("MultiHeadedAttention.forward" if cases[i]["flavour"] == "mha"
              else "GlobalSoftAttention.forward + ConcatSoftAttention.score")
        chk.report({"case": cases[i], "impl": c20._summ(results[i]),
                    "what": f"the Python source of {fn} as translated to MiniPy and interpreted in Coq (PV.C20.SrcRunB, torch "
                            "calls = PV.MiniTorch.OpsC20 / OpsC20B, exp and tanh = the run's oracle tables) does not "
                            "reproduce the implementation's output: translator / interpreter / ext / MiniTorch no longer "
                            "describe the code",
                    "disagreeing_cases": len(bad),
                    "correspondence": f"tie:C20:py2coq+MiniPy.Interp+MiniTorch:{fn}",
                    "theorems_at_stake": SRCB_THEOREMS}, no_failing_input=True)
