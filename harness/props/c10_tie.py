"""C10 second source tie, harness side: the Python text of `slice_spect_data` (src/pydrobert/torch/_feats.py, the whole
body: policies fixed / ali / ref), translated to MiniPy by py2coq on this run (PV.Gen.C10BSrc.slice_body) and interpreted
INSIDE Coq with the torch calls given the meaning of PV.MiniTorch.OpsC10 / OpsC10B (PV.C10.SrcRunB.extB), is run on the
slice cases of the run and compared with what the implementation returned (windows + sources, or RuntimeError) - same
literals and comparison as Model.check_slice.  This validates translator + interpreter + extB + op semantics against
CPython/torch on every run and is independent of whether C10/TieB*.v still compile."""
import json
import time
import warnings

import torch

from vlib import coq_eval_bools, cb, cl, cn

IMPORTS_SRCB = "From PV Require Import C10.Model.\nFrom PV Require C10.SrcRunB.\n"
SRCB_THEOREMS = ["c10_source_slice_fixed_is_model", "c10_source_slice_fixed_windows", "c10_source_slice_empty",
                 "c10_source_slice_raises_lobe", "c10_source_slice_raises_window", "c10_source_slice_fixed_raises_in_lens"]
# (input shape, in_lens shape, other_lens shape, policy, window_type, valid_only, lobe): calls the source must reject with
# RuntimeError (True) or accept (False); compared with what the implementation does
SRCB_SHAPES = [((3,), None, None, "fixed", "symmetric", True, 0), ((1, 3, 3), None, None, "fixed", "centered", True, 0),
               ((1, 3, 3), None, None, "segments", "symmetric", True, 0), ((1, 3, 3), None, None, "ali", "symmetric", True, 0),
               ((1, 3), None, None, "ref", "symmetric", True, 0), ((1, 3, 2), None, (1,), "ref", "symmetric", True, 0),
               ((2, 3), (3,), None, "fixed", "causal", False, 1), ((2, 3), (2, 1), None, "ali", "future", True, 1),
               ((2, 3, 3), None, (3,), "ref", "future", True, 1), ((1, 3, 3), None, None, "fixed", "future", False, -1),
               ((2, 0), None, None, "segments", "centered", True, -1), ((2, 3, 3), (2,), (2,), "ref", "causal", False, 2),
               ((2, 4, 5, 6), (2,), None, "fixed", "symmetric", False, 3)]


def _slice_eligible(case, impl):
    if case.get("kind") != "slice":
        return False
    if impl[0] == "ok":
        return True
    return impl[0] == "exc" and impl[1] == "RuntimeError"


def src_slice_term(c10, case, impl):
    """bool: the interpreted source on this case returns what the implementation returned"""
    if impl[0] == "exc":
        out = "None"
    else:
        out = "(Some " + cl([f"(({c10.z(a)}, {c10.z(b)}), {c10.z(s)})" for a, b, s in impl[1]]) + ")"
    return f"SrcRunB.src_check_slice {c10._slice_args(case)} {out}"


def _cnl(shape):
    return cl([cn(x) for x in shape])


def _oshape(s):
    return "None" if s is None else f"(Some {_cnl(s)})"


def source_tieB(chk, cases, impls, with_fixed=True):
    import props.c10 as c10
    from vlib import CoqError
    chk.extra["source_tieB"] = {"unit": "C10BSrc", "functions": ["slice_spect_data"], "theorems": SRCB_THEOREMS}
    idx = [i for i, (c, im) in enumerate(zip(cases, impls)) if _slice_eligible(c, im)]
    skipped = sum(1 for c, im in zip(cases, impls) if c.get("kind") == "slice") - len(idx)
    fixed = []
    if with_fixed:
        F = c10._api()
        for ish, ls, os_, pol, wt, vo, lobe in SRCB_SHAPES:
            try:
                with warnings.catch_warnings():
                    warnings.simplefilter("ignore")
                    F.slice_spect_data(torch.zeros(ish, dtype=torch.long), None if ls is None else torch.zeros(ls, dtype=torch.long),
                                       None if os_ is None else torch.zeros(os_, dtype=torch.long), pol, wt, vo, lobe)
                got = False
            except RuntimeError:
                got = True
            except Exception:
                continue
            fixed.append((f"shapes input={ish} in_lens={ls} other_lens={os_} {pol} {wt} valid_only={vo} lobe={lobe}: RuntimeError",
                          f'SrcRunB.src_slice_rejects {_cnl(ish)} {_oshape(ls)} {_oshape(os_)} "{pol}"%string "{wt}"%string {cb(vo)} {c10.z(lobe)}',
                          got))
    if not idx and not fixed:
        chk.extra["source_tieB_run"] = {"cases": 0, "disagreements": 0}
        return
    t0 = time.time()
    try:
        terms = [src_slice_term(c10, cases[i], impls[i]) for i in idx] + [t for _, t, _ in fixed]
        res = coq_eval_bools(chk.workdir, IMPORTS_SRCB, terms, shard=max(40, -(-len(terms) // 16)), tag="srcB")
    except CoqError as e:
        chk.extra["source_tieB_run"] = "not evaluated: " + str(e)[-400:]
        return
    bad = [idx[j] for j in range(len(idx)) if not res[j]]
    bad_fixed = [fixed[j][0] for j in range(len(fixed)) if res[len(idx) + j] != fixed[j][2]]
    sel = [cases[i] for i in idx]
    chk.extra["source_tieB_run"] = {
        "cases": len(idx), "skipped_non_runtime_error": skipped, "disagreements": len(bad),
        "fixed_calls": len(fixed), "fixed_disagreements": bad_fixed, "wall_s": round(time.time() - t0, 1),
        "policy": {p: sum(1 for c in sel if c["policy"] == p) for p in ("fixed", "ali", "ref")},
        "window": {w: sum(1 for c in sel if c["wt"] == w) for w in c10.WTS},
        "valid_only": sum(1 for c in sel if c["vo"]), "lobe>0": sum(1 for c in sel if c["lobe"] > 0),
        "in_lens_given": sum(1 for c in sel if c["in_lens"] is not None),
        "other_lens_omitted": sum(1 for c in sel if c["policy"] == "ref" and c.get("other_lens") is None),
        "raising": sum(1 for i in idx if impls[i][0] == "exc"), "T=0": sum(1 for c in sel if c["T"] == 0),
        "max_T": max([c["T"] for c in sel] + [0]), "max_windows": max([len(impls[i][1]) for i in idx if impls[i][0] == "ok"] + [0])}
    chk.count("source_tieB_cases", len(idx))
    if bad or bad_fixed:
        rec = {"what": "the Python source of slice_spect_data as translated to MiniPy and interpreted in Coq (PV.C10.SrcRunB.src_slice, "
                       "torch calls = PV.MiniTorch.OpsC10 / OpsC10B) does not reproduce the implementation's outcome: translator / "
                       "interpreter / extB / MiniTorch no longer describe the code",
               "disagreeing_cases": len(bad), "disagreeing_fixed_calls": bad_fixed,
               "correspondence": "tie:C10:py2coq+MiniPy.Interp+MiniTorch:slice_spect_data",
               "theorems_at_stake": SRCB_THEOREMS}
        if bad:
            i = min(bad, key=lambda k: len(json.dumps(cases[k])))
            rec["case"], rec["impl"] = c10._clean(cases[i]), impls[i]
        else:
            rec["case"] = {"kind": "rejection", "name": bad_fixed[0]}
        chk.report(rec, no_failing_input=True)
