(* C07 - sequence_log_probs, tensor path: the mask arithmetic computes the declarative sum. *)
From Coq Require Import List ZArith Bool Arith Lia.
From PV Require Import C07.Model C07.Spec C07.Lib.
Import ListNotations.

(* ---------- _lens_from_eos = position of the first eos ------------------------------ *)

Definition hits (e : Z) (acc : nat) (col : list Z) : list bool :=
  map2 andb (map (Nat.eqb 1) (cumsum_from acc (map b2n (map (Z.eqb e) col)))) (map (Z.eqb e) col).

Lemma hits_cons e acc k t :
  hits e acc (k :: t) =
  ((1 =? acc + b2n (Z.eqb e k)) && Z.eqb e k) :: hits e (acc + b2n (Z.eqb e k)) t.
Proof. reflexivity. Qed.

Lemma hits_none e col : forall acc, 1 <= acc -> first_true (hits e acc col) = None.
Proof.
  induction col as [|k t IH]; intros acc Hacc; [reflexivity|].
  rewrite hits_cons. cbn [first_true].
  rewrite IH by lia.
  destruct (Z.eqb e k); cbn [b2n].
  - replace (1 =? acc + 1) with false by (symmetry; apply Nat.eqb_neq; lia). reflexivity.
  - rewrite andb_false_r. reflexivity.
Qed.

Lemma hits_first e col : first_true (hits e 0 col) = first_eos e col.
Proof.
  induction col as [|k t IH]; [reflexivity|].
  rewrite hits_cons. cbn [first_true first_eos].
  rewrite (Z.eqb_sym k e).
  destruct (Z.eqb e k); cbn [b2n Nat.add Nat.eqb andb].
  - reflexivity.
  - rewrite IH. reflexivity.
Qed.

Lemma lens_from_eos_spec e col :
  lens_from_eos e col = match first_eos e col with Some i => i | None => length col end.
Proof.
  unfold lens_from_eos, max_first_bool, cumsum.
  change (map2 andb _ _) with (hits e 0 col).
  rewrite hits_first. destruct (first_eos e col); reflexivity.
Qed.

Lemma first_eos_lt e col i : first_eos e col = Some i -> i < length col.
Proof.
  revert i; induction col as [|k t IH]; intros i H; cbn in *; [discriminate|].
  destruct (k =? e)%Z.
  - injection H as <-. lia.
  - destruct (first_eos e t) as [j|]; cbn in H; [|discriminate].
    injection H as <-. specialize (IH j eq_refl). lia.
Qed.

(* ---------- the masked sum ---------------------------------------------------------------- *)

Section Slp.
  Context {A : Type} (op : A -> A -> A) (unit : A).
  Hypothesis unit_l : forall x, op unit x = x.

  Lemma in_vocab_oov V k : in_vocab V k = negb (oov V k).
  Proof. unfold in_vocab, oov. destruct (Z.ltb_spec k 0), (Z.leb_spec V k), (Z.leb_spec 0 k), (Z.ltb_spec k V); cbn; try reflexivity; lia. Qed.

  (* the gather/mask/sum on a suffix that starts at absolute position s, with the cut L *)
  Definition msum (V : Z) (mk : nat -> bool) (s : nat) (lp : list (list A)) (col : list Z) : A :=
    sum_list op unit
      (gather_masked unit (map2 orb (map (oov V) col) (map mk (seq s (length col)))) lp col).

  Lemma msum_cons V mk s row lp k col :
    msum V mk s (row :: lp) (k :: col) =
    op (if oov V k || mk s then unit else nth (Z.to_nat k) row unit) (msum V mk (S s) lp col).
  Proof.
    unfold msum, gather_masked. cbn [length seq map map2 sum_list fold_right].
    destruct (oov V k || mk s); reflexivity.
  Qed.

  Lemma msum_all_masked V mk : forall col s lp,
    (forall t, s <= t -> mk t = true) -> msum V mk s lp col = unit.
  Proof.
    induction col as [|k col IH]; intros s lp H.
    - unfold msum, gather_masked. destruct lp; reflexivity.
    - destruct lp as [|row lp]; [reflexivity|].
      rewrite msum_cons, (H s), orb_true_r, unit_l by lia.
      apply IH. intros t Ht. apply H. lia.
  Qed.

  Lemma msum_no_eos V : forall col s lp, length lp = length col ->
    msum V (fun _ => false) s lp col = spec_slp op unit V None lp col.
  Proof.
    induction col as [|k col IH]; intros s lp Hl.
    - destruct lp; [reflexivity|discriminate].
    - destruct lp as [|row lp]; [discriminate|].
      rewrite msum_cons, orb_false_r. cbn [spec_slp].
      rewrite in_vocab_oov. rewrite IH by (cbn in Hl; lia).
      destruct (oov V k); cbn; [apply unit_l|reflexivity].
  Qed.

  Lemma msum_eos V e : forall col s lp L, length lp = length col ->
    L = match first_eos e col with Some i => s + i | None => s + length col end ->
    msum V (fun t => L + 1 <=? t) s lp col = spec_slp op unit V (Some e) lp col.
  Proof.
    induction col as [|k col IH]; intros s lp L Hl HL.
    - destruct lp; [reflexivity|discriminate].
    - destruct lp as [|row lp]; [discriminate|].
      rewrite msum_cons. cbn [spec_slp first_eos] in *.
      rewrite in_vocab_oov.
      replace (L + 1 <=? s) with false
        by (symmetry; apply Nat.leb_gt; destruct (k =? e)%Z; [|destruct (first_eos e col); cbn in HL]; lia).
      rewrite orb_false_r.
      destruct (k =? e)%Z eqn:E.
      + rewrite msum_all_masked
          by (intros t Ht; apply Nat.leb_le; lia).
        destruct (oov V k); cbn; [apply unit_l|reflexivity].
      + rewrite (IH (S s) lp L) by
          (cbn in Hl; try lia; destruct (first_eos e col); cbn in HL |- *; lia).
        destruct (oov V k); cbn; [apply unit_l|reflexivity].
  Qed.

  Lemma orb_false_mask {X} (f : X -> bool) : forall (col : list X) (l : list nat),
    length col <= length l ->
    map2 orb (map f col) (map (fun _ => false) l) = map f col.
  Proof.
    induction col as [|k col IH]; intros l H; [reflexivity|].
    destruct l as [|x l]; cbn in H; [lia|].
    cbn [map map2]. rewrite orb_false_r, IH by lia. reflexivity.
  Qed.

  Lemma slp_col_correct V eos lp col : length lp = length col ->
    slp_col op unit V eos lp col = spec_slp op unit V eos lp col.
  Proof.
    intros Hl. unfold slp_col, slp_mask. destruct eos as [e|].
    - rewrite lens_from_eos_spec.
      apply (msum_eos V e col 0 lp _ Hl).
      destruct (first_eos e col); reflexivity.
    - rewrite <- (msum_no_eos V col 0 lp Hl). unfold msum.
      rewrite orb_false_mask by (rewrite seq_length; lia). reflexivity.
  Qed.

  (* the normal form: every (outer, inner) position holds the declarative sum of its fibre *)
  Lemma slp_tensor_correct V eos T B lp hyp :
    (eos = None \/ 0 < T) -> length lp = length hyp ->
    (forall a, a < length hyp -> length (nth a lp []) = T /\ length (nth a hyp []) = T) ->
    slp_tensor op unit V eos T B lp hyp =
    Some (map2 (fun lp_a hyp_a =>
                  map (fun b => spec_slp op unit V eos (column [] b lp_a) (column 0%Z b hyp_a))
                      (seq 0 B)) lp hyp).
  Proof.
    intros HT Hl Hrows. unfold slp_tensor.
    assert (E : match eos, T with Some _, 0 => false | _, _ => true end = true)
      by (destruct eos, T; try reflexivity; destruct HT; [discriminate|lia]).
    destruct eos as [e|], T as [|T']; try discriminate E; f_equal; apply map2_ext_in;
      intros a dx dy H1 H2; apply map_ext; intros b; apply slp_col_correct;
      rewrite !column_length;
      destruct (Hrows a H2) as [Ha Hb];
      rewrite (nth_indep lp dx [] H1), (nth_indep hyp dy [] H2); congruence.
  Qed.

  Lemma slp_tensor_error V eos T B lp hyp :
    slp_tensor op unit V eos T B lp hyp = None <-> (eos <> None /\ T = 0).
  Proof.
    unfold slp_tensor. destruct eos as [e|], T as [|T']; split; intros H;
      try discriminate; try reflexivity; try (split; [discriminate|reflexivity]);
      destruct H as [H1 H2]; try discriminate; congruence.
  Qed.
End Slp.

(* the declarative sum commutes with any homomorphism of the score monoid (e.g. exp from
   (log-probabilities, +, 0) to (probabilities, *, 1)) *)
Lemma spec_slp_hom {A B : Type} (op : A -> A -> A) (unit : A) (op' : B -> B -> B) (unit' : B)
  (h : A -> B) : h unit = unit' -> (forall x y, h (op x y) = op' (h x) (h y)) ->
  forall V eos lp toks,
    h (spec_slp op unit V eos lp toks) = spec_slp op' unit' V eos (map (map h) lp) toks.
Proof.
  intros Hu Hop V eos lp toks. revert lp. induction toks as [|k toks IH]; intros lp; [destruct lp; exact Hu|].
  destruct lp as [|row lp]; [exact Hu|]. cbn [map spec_slp].
  assert (Hn : h (nth (Z.to_nat k) row unit) = nth (Z.to_nat k) (map h row) unit')
    by (rewrite <- Hu; symmetry; apply map_nth).
  destruct eos as [e|]; [destruct (k =? e)%Z|]; destruct (in_vocab V k);
    rewrite ?Hop, ?IH, ?Hn, ?Hu; reflexivity.
Qed.
