(* C20, second tie - `ConcatSoftAttention.score` / `_concat_soft_attention` (_attn.py) and the forward pass of a
   ConcatSoftAttention against PV.C20.Model.attend with the concat score; then the multi-headed theorems for every
   wrapped flavour and their composition with the model theorems.  See TieB.v (environment lemmas), TieBOps.v (algebra),
   TieBMha.v (MultiHeadedAttention.forward). *)
From Coq Require Import ZArith QArith List String Bool Arith Lia ZifyBool ZifyNat.
From PV Require Import MiniPy.Syntax MiniPy.Interp MiniTorch.Ops MiniTorch.OpsC07 MiniTorch.OpsC20 MiniTorch.LemmasC20.
From PV Require Import MiniTorch.OpsC20B MiniTorch.LemmasC20B.
From PV Require Import Gen.C20Src Gen.C20BSrc C20.SrcRun C20.SrcRunB C20.TieOps C20.Tie C20.TieB.
From PV Require C20.Model C20.ModelB C20.Spec C20.Index C20.Proofs C20.Broadcast C20.MHA MiniTorch.LemmasC07.
Import ListNotations.
Local Open Scope string_scope.

#[local] Arguments enc_b : simpl never.
#[local] Arguments enc_f : simpl never.
#[local] Arguments enc_q : simpl never.
#[local] Arguments dec_b : simpl never.
#[local] Arguments dec_q : simpl never.
#[local] Arguments dec_x : simpl never.
#[local] Arguments mat : simpl never.
#[local] Arguments rd : simpl never.
#[local] Arguments runsq : simpl never.
#[local] Arguments Z.add : simpl never.
#[local] Arguments Z.sub : simpl never.
#[local] Arguments Z.of_nat : simpl never.
#[local] Arguments Z.eqb : simpl never.
#[local] Arguments Z.ltb : simpl never.
#[local] Arguments Z.leb : simpl never.
#[local] Arguments Nat.mul : simpl never.
#[local] Arguments dec_nats : simpl never.
#[local] Arguments extB_ops : simpl never.
#[local] Arguments ext20_ops : simpl never.
#[local] Arguments cmp_eval : simpl never.
#[local] Arguments subscript : simpl never.
#[local] Arguments broadcast_shapes : simpl never.
#[local] Arguments shape_val : simpl never.
#[local] Arguments call_with : simpl never.
#[local] Arguments single_forward : simpl never.
#[local] Arguments linear_layer : simpl never.
#[local] Arguments linear_val : simpl never.
#[local] Arguments rows_tensor : simpl never.
#[local] Arguments vec_tensor : simpl never.
From PV Require Import C20.TieBMha.
From PV Require C20.TieBOps C20.MHARel.
#[local] Arguments bias_val : simpl never.

Ltac bstep :=
  cstep;
  rewrite ?extB_device_q, ?extB_ones, ?extB_float_inf;
  cbn.

(* ---- _concat_soft_attention ------------------------------------------------------------------------------------- *)
Lemma container_items_shape s : container_items (shape_val s) = Some (map (fun n => VInt (Z.of_nat n)) s).
Proof. reflexivity. Qed.

Lemma enc_snoc s n :
  (map (fun n => VInt (Z.of_nat n)) s ++ [VInt (Z.of_nat n)])%list = map (fun n => VInt (Z.of_nat n)) (s ++ [n]).
Proof. rewrite map_app. reflexivity. Qed.

Definition csa_vars (q k w : tn Q) (bo : option (tn Q)) (vv : tn Q) (dim : Z) : list (string * val) :=
  ("query", enc_q q) :: ("key", enc_q k) :: ("weight", enc_q w) :: ("bias", bias_val bo) :: ("v", enc_q vv)
  :: ("dim", VInt dim) :: globals20.

Lemma csa_run expf tanhf (q k w : tn Q) bo (vv : tn Q) dim qs ks uq' sk' qu es QE KE CAT WC VU L2 E :
  unsqueeze q dim = Some qu ->
  rev (shp qu) = qs :: uq' -> rev (shp k) = ks :: sk' -> Model.bshape uq' sk' = Some es ->
  expand_to qu (rev es ++ [qs]) = Some QE -> expand_to k (rev es ++ [ks]) = Some KE ->
  cat_last QE KE = Some CAT -> linear CAT w bo = Some WC ->
  unsqueeze vv 0 = Some VU -> linear (tanh_t tanhf WC) VU None = Some L2 -> squeeze_dim L2 (-1) = Some E ->
  exists st, Interp.run (extB_ops expf tanhf) csa (csa_vars q k w bo vv dim) = Ok (enc_q E) st.
Proof.
  intros Hu Hsu Hsk Hes HQE HKE HCAT HWC HVU HL2 HE.
  unfold Interp.run, csa, csa_vars, globals20.
  bstep. rewrite extB_unsqueeze, Hu. bstep.
  rewrite extB_shape_q. bstep. rewrite subscript_slice, extB_shape_init. bstep.
  rewrite extB_shape_q. bstep. rewrite subscript_slice, extB_shape_init. bstep.
  rewrite extB_bshapes, (bshapes_init _ _ _ _ _ _ _ Hsu Hsk Hes). bstep.
  rewrite container_items_shape. bstep.
  rewrite extB_size_q, (size_dim_last _ _ _ Hsu). bstep.
  rewrite enc_snoc, extB_expand, HQE. bstep.
  rewrite extB_size_q, (size_dim_last _ _ _ Hsk). bstep.
  rewrite enc_snoc, extB_expand, HKE. bstep.
  rewrite extB_cat, HCAT. bstep.
  unfold bias_val. rewrite extB_linear, HWC. bstep.
  rewrite extB_tanh. bstep.
  rewrite extB_unsqueeze, HVU. bstep.
  rewrite (extB_linear expf tanhf _ _ None), HL2. bstep.
  rewrite extB_squeeze, HE. bstep.
  eexists. reflexivity.
Qed.

(* ---- ConcatSoftAttention.score ------------------------------------------------------------------------------------- *)
Lemma concat_score_run expf tanhf d (q k w : tn Q) bo vv dim E :
  dict_get d (VStr "dim") = Some (VInt dim) -> dict_get d (VStr "weight") = Some (enc_q w) ->
  dict_get d (VStr "bias") = Some (bias_val bo) -> dict_get d (VStr "v") = Some (enc_q vv) ->
  (forall st, call_with (extB_ops expf tanhf) csa (csa_vars q k w bo vv dim) st = Ok (enc_q E) st) ->
  exists st, Interp.run (ext_fn expf tanhf) concat_score (score_vars (VDict d) q k) = Ok (enc_q E) st.
Proof.
  intros Hd Hw Hb Hv Hcsa. unfold Interp.run, concat_score, score_vars, globals20.
  bstep. rewrite Hw. bstep. rewrite Hb. bstep. rewrite Hv. bstep. rewrite Hd. bstep.
  unfold csa_vars, globals20 in Hcsa. rewrite Hcsa. bstep. eexists. reflexivity.
Qed.

(* ---- GlobalSoftAttention.forward run on a ConcatSoftAttention ([ext_concat]) ---------------------------------------- *)
Section ForwardC.
  Variables (expf tanhf : Q -> Q) (d : list (val * val)) (dim : Z) (q k v : tn Q).
  Hypothesis Hd : dict_get d (VStr "dim") = Some (VInt dim).
  Variables (E1 A AU P2 OUT : tn Q).
  Hypothesis Hscore : forall st, call_with (ext_fn expf tanhf) concat_score (score_vars (VDict d) q k) st = Ok (enc_q E1) st.
  Hypothesis Hau : unsqueeze A (-1) = Some AU.
  Hypothesis Hp2 : mul AU v = Some P2.
  Hypothesis Hout : sum_dim P2 dim = Some OUT.

  Lemma concat_forward_run_nomask :
    (forall st, call_with (extB_ops expf tanhf) gsa_check_input
                          (forward_vars_v (VDict d) (enc_q q) (enc_q k) (enc_q v) (enc_b (ones_bool [1%nat]))) st = Ok VNone st) ->
    softmax expf (mkTn (shp E1) (map Fin (dat E1))) (if (0 <=? dim)%Z then dim else (dim + 1)%Z) = Some A ->
    exists st, run_single expf tanhf ConcatB (VDict d) q k v None = Ok (enc_q OUT) st.
  Proof.
    intros Hci Hsm. unfold run_single, single_forward, Interp.run, gsa_forward, forward_vars_v, mask_val, globals20.
    bstep. bstep. bstep. fold globals20.
    fold (forward_vars_v (VDict d) (enc_q q) (enc_q k) (enc_q v) (enc_b (ones_bool [1%nat]))). rewrite Hci. bstep.
    fold (score_vars (VDict d) q k). rewrite Hscore. bstep. bstep. rewrite Hd. bstep.
    destruct (0 <=? dim)%Z; bstep; rewrite ?Hd; bstep; rewrite extB_softmax_q, Hsm; bstep;
      rewrite extB_unsqueeze, Hau; bstep; rewrite extB_mul, Hp2; bstep; rewrite Hd; bstep;
      rewrite extB_sum, Hout; bstep; eexists; reflexivity.
  Qed.

  Lemma concat_forward_run_mask mt E2 :
    (forall st, call_with (extB_ops expf tanhf) gsa_check_input
                          (forward_vars_v (VDict d) (enc_q q) (enc_q k) (enc_q v) (enc_b mt)) st = Ok VNone st) ->
    masked_fill_ninf E1 (invert mt) = Some E2 ->
    softmax expf E2 (if (0 <=? dim)%Z then dim else (dim + 1)%Z) = Some A ->
    exists st, run_single expf tanhf ConcatB (VDict d) q k v (Some mt) = Ok (enc_q OUT) st.
  Proof.
    intros Hci Hmf Hsm. unfold run_single, single_forward, Interp.run, gsa_forward, forward_vars_v, mask_val, globals20.
    bstep. bstep. fold globals20.
    fold (forward_vars_v (VDict d) (enc_q q) (enc_q k) (enc_q v) (enc_b mt)). rewrite Hci. bstep.
    fold (score_vars (VDict d) q k). rewrite Hscore. bstep. bstep.
    rewrite extB_invert. bstep. rewrite extB_masked_fill, Hmf. bstep. rewrite Hd. bstep.
    destruct (0 <=? dim)%Z; bstep; rewrite ?Hd; bstep; rewrite extB_softmax_f, Hsm; bstep;
      rewrite extB_unsqueeze, Hau; bstep; rewrite extB_mul, Hp2; bstep; rewrite Hd; bstep;
      rewrite extB_sum, Hout; bstep; eexists; reflexivity.
  Qed.
End ForwardC.

(* ---- the tie: forward of a ConcatSoftAttention = Model.attend with the concat score ----------------------------------- *)
Import C20.Model C20.Spec C20.Index C20.Proofs.
Local Open Scope nat_scope.

Lemma check_input_run_B expf tanhf q k v m dim p es ps d qs ks (mt : tn bool) :
  axis_pos dim (List.length (tshape k)) = Some p -> attend_facts q k v m p es ps ->
  dict_get d (VStr "dim") = Some (VInt dim) ->
  dict_get d (VStr "query_size") = Some (VInt (Z.of_nat qs)) ->
  dict_get d (VStr "key_size") = Some (VInt (Z.of_nat ks)) ->
  hd 0 (tshape q) = qs -> hd 0 (tshape k) = ks ->
  intob (rev (shp mt)) es = true ->
  forall st, call_with (extB_ops expf tanhf) gsa_check_input
               (forward_vars_v (VDict d) (enc_q (flat q)) (enc_q (flat k)) (enc_q (flat v)) (enc_b mt)) st = Ok VNone st.
Proof.
  intros Hax F Hd Hqs Hks Hq Hk Hm. apply call_with_ok.
  destruct (shapes_qk _ _ _ _ _ _ _ F) as [sq' [sk' [Eq [Ek [Hpe Htl]]]]]. rewrite Hq in Eq. rewrite Hk in Ek.
  pose proof (af_es _ _ _ _ _ _ _ F) as Hes. rewrite Htl, Ek in Hes. cbn [tl] in Hes.
  pose proof (f_p _ _ _ _ _ _ _ F) as Hp.
  apply (gsa_check_input_accepts_B expf tanhf d (flat q) (flat k) (flat v) mt dim qs ks sq' sk'
           (runsq p (mat q)) (ins (p - 1) 1 sq') es es ps); try assumption.
  - unfold flat. rewrite !shp_mat, !rev_length. apply (af_qrank _ _ _ _ _ _ _ F).
  - unfold flat. rewrite !shp_mat, !rev_length. apply (af_vrank _ _ _ _ _ _ _ F).
  - unfold flat. rewrite rshp_mat. exact Eq.
  - unfold flat. rewrite rshp_mat. exact Ek.
  - unfold flat. rewrite shp_mat, rev_length. apply (axis_pos_range _ _ _ Hax).
  - apply (unsqueeze_query q k v m dim p Hax es ps F).
  - rewrite rshp_runsq, rshp_mat, Eq. rewrite Hp at 1. rewrite ins_S. reflexivity.
  - apply intob_bshape, Hm.
  - unfold flat. rewrite rshp_mat. apply (af_ps _ _ _ _ _ _ _ F).
Qed.

(* ConcatSoftAttention.score (through _concat_soft_attention) returns the model's score tensor *)
Lemma concat_score_tie expf tanhf W b vv dim qs ks q k v m p es ps :
  axis_pos dim (List.length (tshape k)) = Some p -> attend_facts q k v m p es ps ->
  hd 0 (tshape q) = qs -> hd 0 (tshape k) = ks -> fl_sizes (Concat W b vv) qs ks = true ->
  exists st, Interp.run (ext_fn expf tanhf) concat_score
               (score_vars (self_concat dim qs ks W b vv) (flat q) (flat k))
             = Ok (enc_q (mat (mkT es (e_at (score tanhf (Concat W b vv)) q k p)))) st.
Proof.
  intros Hax F Hq Hk Hfl.
  destruct (shapes_qk _ _ _ _ _ _ _ F) as [sq' [sk' [Eq [Ek [Hpe Htl]]]]]. rewrite Hq in Eq. rewrite Hk in Ek.
  pose proof (af_es _ _ _ _ _ _ _ F) as Hes. rewrite Htl, Ek in Hes. cbn [tl] in Hes.
  pose proof (f_p _ _ _ _ _ _ _ F) as Hp.
  destruct (TieBOps.concat_score_ops q k v m p es ps F tanhf W b vv qs ks Hq Hk Hfl)
    as [QE [KE [CAT [WC [L2 [HQE [HKE [HCAT [HWC [HL2 HE]]]]]]]]]].
  unfold self_concat.
  apply (concat_score_run expf tanhf _ (flat q) (flat k) (rows_tensor (qs + ks) W) (option_map vec_tensor b)
           (vec_tensor vv) dim); try reflexivity.
  - destruct b; reflexivity.
  - apply call_with_ok.
    apply (csa_run expf tanhf (flat q) (flat k) _ _ _ dim qs ks (ins (p - 1) 1 sq') sk' (runsq p (mat q)) es
             QE KE CAT WC (LemmasC20B.rows_tn (List.length vv) [vv]) L2); try assumption.
    + apply (unsqueeze_query q k v m dim p Hax es ps F).
    + rewrite rshp_runsq, rshp_mat, Eq. rewrite Hp at 1. rewrite ins_S. reflexivity.
    + unfold flat. rewrite rshp_mat. exact Ek.
    + apply unsqueeze_vec.
Qed.

Theorem forward_concat_tie expf tanhf W b vv dim qs ks q k v m p out :
  axis_pos dim (List.length (tshape k)) = Some p ->
  fl_sizes (Concat W b vv) qs ks = true ->
  attend expf (score tanhf (Concat W b vv)) q k v m p qs ks = Some out ->
  exists st, run_single expf tanhf ConcatB (self_concat dim qs ks W b vv) (flat q) (flat k) (flat v) (option_map flat m)
             = Ok (enc_q (flat out)) st.
Proof.
  intros Hax Hfl Hatt. set (sc := score tanhf (Concat W b vv)) in *.
  destruct (attend_heads _ _ _ _ _ _ _ _ _ _ Hatt) as [Hq Hk].
  destruct (attend_inv _ _ _ _ _ _ _ _ _ _ Hatt) as [es [ps [F ->]]].
  destruct (attend_dims _ _ _ _ _ _ _ _ F Hax) as [Hr1 [Hr2 _]].
  set (et := memo None (mkT es (em_at sc q k m p))).
  set (Ta := mkT es (a_at expf p et es)).
  destruct (weighted_sum_ops expf q k v m p es ps F sc dim Hr1) as [P2 [Hp2 Hout]].
  fold et in Hp2, Hout. fold Ta in Hp2, Hout.
  assert (Hflat : flat (memo 0%Q (mkT (del p ps) (out_at v p (memo 0%Q Ta) ps)))
                  = mat (mkT (del p ps) (out_at v p (memo 0%Q Ta) ps))).
  { unfold flat. rewrite mat_memo. reflexivity. }
  rewrite Hflat.
  pose proof (softmax_ops expf q k v m p es ps F sc _ Hr2) as Hsm. fold et in Hsm. fold Ta in Hsm.
  assert (Hscore : forall st, call_with (ext_fn expf tanhf) concat_score
                                (score_vars (self_concat dim qs ks W b vv) (flat q) (flat k)) st
                              = Ok (enc_q (mat (mkT es (e_at sc q k p)))) st).
  { apply call_with_ok. apply (concat_score_tie expf tanhf W b vv dim qs ks q k v m p es ps Hax F Hq Hk Hfl). }
  unfold self_concat in *.
  match type of Hscore with context [VDict ?l] => set (d := l) in * end.
  assert (Hd : dict_get d (VStr "dim") = Some (VInt dim)) by reflexivity.
  destruct m as [mt|].
  - cbn [option_map].
    apply (concat_forward_run_mask expf tanhf d dim (flat q) (flat k) (flat v) Hd
             (mat (mkT es (e_at sc q k p))) (mat Ta) (runsq 0 (mat Ta)) P2 _
             Hscore (unsqueeze_last _) Hp2 Hout (flat mt)
             (mat (mkT es (fun i => xo (em_at sc q k (Some mt) p i))))).
    + apply (check_input_run_B expf tanhf q k v (Some mt) dim p es ps d qs ks); try reflexivity; try assumption.
      unfold flat. rewrite rshp_mat. apply (af_mask _ _ _ _ _ _ _ F).
    + apply (mask_ops q k v (Some mt) p es ps F sc mt eq_refl).
    + exact Hsm.
  - cbn [option_map].
    apply (concat_forward_run_nomask expf tanhf d dim (flat q) (flat k) (flat v) Hd
             (mat (mkT es (e_at sc q k p))) (mat Ta) (runsq 0 (mat Ta)) P2 _
             Hscore (unsqueeze_last _) Hp2 Hout).
    + apply (check_input_run_B expf tanhf q k v None dim p es ps d qs ks); try reflexivity; try assumption.
      apply (es_nonempty _ _ _ _ _ _ _ F).
    + rewrite (no_mask_ops expf q k v None p es ps F sc eq_refl). exact Hsm.
Qed.

Lemma single_tie_concat expf tanhf W b vv dim dq dk :
  fl_sizes (Concat W b vv) dq dk = true ->
  single_tie expf tanhf ConcatB (self_concat dim dq dk W b vv) (score tanhf (Concat W b vv)) dim dq dk.
Proof. intros Hfl q k v m p out Hax Hatt. exact (forward_concat_tie expf tanhf W b vv dim dq dk q k v m p out Hax Hfl Hatt). Qed.

(* ---- every flavour ----------------------------------------------------------------------------------------------------- *)
Lemma single_tie_fl expf tanhf fl dim dq dk :
  fl_sizes fl dq dk = true ->
  single_tie expf tanhf (cls_of fl) (self_single dim dq dk fl) (score tanhf fl) dim dq dk.
Proof.
  destruct fl as [sc|W b|W b vv]; cbn [cls_of self_single]; intros Hfl.
  - cbn [fl_sizes] in Hfl. apply Nat.eqb_eq in Hfl. subst dk. apply single_tie_dot.
  - apply single_tie_general, Hfl.
  - apply single_tie_concat, Hfl.
Qed.

(* GlobalSoftAttention.forward on a module of any of the three single-head classes = Model.attend *)
Theorem forward_fl_tie expf tanhf fl dim qs ks q k v m p out :
  axis_pos dim (List.length (tshape k)) = Some p ->
  fl_sizes fl qs ks = true ->
  attend expf (score tanhf fl) q k v m p qs ks = Some out ->
  exists st, run_single expf tanhf (cls_of fl) (self_single dim qs ks fl) (flat q) (flat k) (flat v) (option_map flat m)
             = Ok (enc_q (flat out)) st.
Proof. intros Hax Hfl Hatt. exact (single_tie_fl expf tanhf fl dim qs ks Hfl q k v m p out Hax Hatt). Qed.

(* MultiHeadedAttention.forward wrapping a module of any of the three classes = Model.mha *)
Theorem mha_fl_tie expf tanhf fl P dim qs ks vs q k v m p out :
  (0 <= dim)%Z ->
  axis_pos dim (List.length (tshape k)) = Some p ->
  ModelB.mha_sizes P qs ks vs = true -> fl_sizes fl (d_q P) (d_k P) = true ->
  mha expf (score tanhf fl) P q k v m p 0 qs ks vs = Some out ->
  exists st, run_mha expf tanhf (cls_of fl) (self_mha dim qs ks vs P (self_single dim (d_q P) (d_k P) fl))
                     (flat q) (flat k) (flat v) (option_map flat m)
             = Ok (enc_q (flat out)) st.
Proof.
  intros H0 Hax Hsz Hfl Hm.
  exact (mha_forward_tie expf tanhf (cls_of fl) _ (score tanhf fl) P dim qs ks vs q k v m p out
           (single_tie_fl expf tanhf fl dim (d_q P) (d_k P) Hfl) H0 Hax Hsz Hm).
Qed.

(* ---- composed with the model theorems ------------------------------------------------------------------------------------ *)
Lemma mha_sizes_lengths P qs ks vs : ModelB.mha_sizes P qs ks vs = true ->
  List.length (WQ P) = num_heads P * d_q P /\ List.length (WK P) = num_heads P * d_k P
  /\ List.length (WV P) = num_heads P * d_v P.
Proof.
  unfold ModelB.mha_sizes. intros Hsz. apply andb_true_iff in Hsz. destruct Hsz as [Hsz SC].
  apply andb_true_iff in Hsz. destruct Hsz as [Hsz SV]. apply andb_true_iff in Hsz. destruct Hsz as [SQ SK].
  destruct (mat_sizes_inv _ _ _ _ SQ) as [LQ _]. destruct (mat_sizes_inv _ _ _ _ SK) as [LK _].
  destruct (mat_sizes_inv _ _ _ _ SV) as [LV _]. repeat split; assumption.
Qed.

(* the tensor the interpreted MultiHeadedAttention.forward returns is W^C [head_1; ...; head_H] (+ b^C), head_h = the
   wrapped attention on the h-th blocks of the projected query, key and value with the caller's mask (Spec.mha_spec) *)
Theorem source_mha_is_composition expf tanhf cls sha sc P dim qs ks vs q k v m p out :
  single_tie expf tanhf cls sha sc dim (d_q P) (d_k P) ->
  (0 <= dim)%Z -> axis_pos dim (List.length (tshape k)) = Some p ->
  ModelB.mha_sizes P qs ks vs = true ->
  mha expf sc P q k v m p 0 qs ks vs = Some out -> seq_agree k v p ->
  exists r st,
    run_mha expf tanhf cls (self_mha dim qs ks vs P sha) (flat q) (flat k) (flat v) (option_map flat m) = Ok (enc_q r) st /\
    (forall h, h < num_heads P -> exists o, head expf sc P q k v m p h = Some o) /\
    forall i, valid (rev (shp r)) i ->
      (tat (rd 0%Q r) i == tat (mha_spec expf sc P q k v m p (tl (rev (shp r)))) i)%Q.
Proof.
  intros Hs H0 Hax Hsz Hm Hagree.
  destruct (mha_forward_tie expf tanhf cls sha sc P dim qs ks vs q k v m p out Hs H0 Hax Hsz Hm) as [st Hrun].
  destruct (mha_sizes_lengths _ _ _ _ Hsz) as [LQ [LK LV]].
  destruct (MHA.multihead_is_composition expf sc P q k v m p qs ks vs out Hm LQ LK LV Hagree) as [Hheads Hval].
  exists (flat out), st. split; [exact Hrun|]. split; [exact Hheads|].
  intros i Hv. rewrite read_flat by exact Hv. unfold flat in *. rewrite rshp_mat in *. apply Hval, Hv.
Qed.

(* ... and does not change when keys and values at masked positions are replaced by anything *)
Theorem source_mha_blind_to_masked expf tanhf cls sha sc P dim qs ks vs q k v k' v' m p out out' :
  single_tie expf tanhf cls sha sc dim (d_q P) (d_k P) ->
  (0 <= dim)%Z -> axis_pos dim (List.length (tshape k)) = Some p ->
  ModelB.mha_sizes P qs ks vs = true ->
  mha expf sc P q k v m p 0 qs ks vs = Some out ->
  mha expf sc P q k' v' m p 0 qs ks vs = Some out' ->
  tshape k' = tshape k -> tshape v' = tshape v -> seq_agree k v p ->
  exists r r' st st',
    run_mha expf tanhf cls (self_mha dim qs ks vs P sha) (flat q) (flat k) (flat v) (option_map flat m) = Ok (enc_q r) st /\
    run_mha expf tanhf cls (self_mha dim qs ks vs P sha) (flat q) (flat k') (flat v') (option_map flat m) = Ok (enc_q r') st' /\
    forall c j, valid (rev (shp r)) (c :: j) ->
      (forall t, t < nth p (tshape k) 0 -> kept_at m (ins (p - 1) t j) = true ->
                 brow k' (ins (p - 1) t j) = brow k (ins (p - 1) t j)
                 /\ brow v' (ins (p - 1) t j) = brow v (ins (p - 1) t j)) ->
      (tat (rd 0%Q r') (c :: j) == tat (rd 0%Q r) (c :: j))%Q.
Proof.
  intros Hs H0 Hax Hsz Hm Hm' Ek Ev Hagree.
  assert (Hax' : axis_pos dim (List.length (tshape k')) = Some p) by (rewrite Ek; exact Hax).
  destruct (mha_forward_tie expf tanhf cls sha sc P dim qs ks vs q k v m p out Hs H0 Hax Hsz Hm) as [st Hrun].
  destruct (mha_forward_tie expf tanhf cls sha sc P dim qs ks vs q k' v' m p out' Hs H0 Hax' Hsz Hm') as [st' Hrun'].
  destruct (mha_sizes_lengths _ _ _ _ Hsz) as [LQ [LK LV]].
  exists (flat out), (flat out'), st, st'. split; [exact Hrun|]. split; [exact Hrun'|].
  intros c j Hv Hsame.
  assert (Hv2 : valid (tshape out) (c :: j)) by (unfold flat in Hv; rewrite rshp_mat in Hv; exact Hv).
  assert (Hsh : tshape out' = tshape out).
  { destruct (MHA.mha_inv _ _ _ _ _ _ _ _ _ _ _ _ _ Hm) as [_ [cat [Hc ->]]].
    destruct (MHA.mha_inv _ _ _ _ _ _ _ _ _ _ _ _ _ Hm') as [_ [cat' [Hc' ->]]].
    rewrite !MHA.linear_shape. f_equal. cbn [flatten_last2 tshape].
    assert (E : tshape cat' = tshape cat).
    { apply (MHARel.attend_shape_det _ _ _ _ _ _ _ _ _ _ _ _ _ _ _ _ _ _ _ Hc Hc').
      - unfold q_heads. reflexivity.
      - unfold k_heads. rewrite !MHA.unflatten_shape, !memo_shape, !MHA.linear_shape, Ek. reflexivity.
      - unfold v_heads. rewrite !MHA.unflatten_shape, !memo_shape, !MHA.linear_shape, Ev. reflexivity. }
    rewrite E. reflexivity. }
  rewrite !read_flat by (unfold flat; rewrite rshp_mat, ?Hsh; exact Hv2).
  exact (MHARel.multihead_blind_to_masked expf sc P q k v k' v' m p qs ks vs out out' Hm Hm' Ek Ev LQ LK LV Hagree c j Hv2 Hsame).
Qed.

(* ConcatSoftAttention: every cell of the tensor the interpreted forward returns lies within any bounds on the kept
   values at that coordinate *)
Theorem source_concat_in_kept_range expf tanhf W b vv dim qs ks q k v m p :
  (forall x, (0 < expf x)%Q) ->
  axis_pos dim (List.length (tshape k)) = Some p -> fl_sizes (Concat W b vv) qs ks = true ->
  legal_input q k v m p qs ks -> seq_agree k v p ->
  exists r st,
    run_single expf tanhf ConcatB (self_concat dim qs ks W b vv) (flat q) (flat k) (flat v) (option_map flat m)
    = Ok (enc_q r) st /\
    forall c j lo hi, valid (rev (shp r)) (c :: j) ->
      (exists t, t < nth p (tshape k) 0 /\ kept_at m (ins (p - 1) t j) = true) ->
      (forall t, t < nth p (tshape k) 0 -> kept_at m (ins (p - 1) t j) = true ->
                 (lo <= bget v (c :: ins (p - 1) t j) <= hi)%Q) ->
      (lo <= tat (rd 0%Q r) (c :: j) <= hi)%Q.
Proof.
  intros Hpos Hax Hfl Hleg Hagree.
  destruct (legal_attend expf (score tanhf (Concat W b vv)) _ _ _ _ _ _ _ Hleg) as [out Hatt].
  destruct (forward_concat_tie expf tanhf W b vv dim qs ks q k v m p out Hax Hfl Hatt) as [st Hrun].
  exists (flat out), st. split; [exact Hrun|].
  intros c j lo hi Hv Hex Hb. rewrite read_flat by exact Hv.
  unfold flat in Hv. rewrite rshp_mat in Hv.
  exact (attention_in_kept_range expf _ q k v m p qs ks out Hpos Hatt Hagree c j lo hi Hv Hex Hb).
Qed.

(* where the model rejects (a query of the wrong rank), the interpreted MultiHeadedAttention.forward raises RuntimeError *)
Theorem mha_forward_rejects_rank expf tanhf cls dim qs ks vs P sha (q k v : tensor Q) (m : option (tensor bool)) :
  S (List.length (tshape q)) <> List.length (tshape k) ->
  exists st, run_mha expf tanhf cls (self_mha dim qs ks vs P sha) (flat q) (flat k) (flat v) (option_map flat m)
             = Exc runtime_error st.
Proof.
  intros H. apply mha_run_exc. intros mt st. apply call_with_exc. unfold self_mha.
  apply mha_check_input_rejects_rank. unfold flat. rewrite !shp_mat, !rev_length. exact H.
Qed.

Import C20.Broadcast.

(* ---- statements purely about the source: legal SHAPES instead of "the model accepts" ------------------------------------ *)
(* the inputs are legal for a MultiHeadedAttention of sizes qs ks vs: ranks, feature sizes, position of the sequence axis
   and the three broadcasts of check_input (Model.mha_legalb, a function of the shapes), and the mask expands to the score
   shape (what masked_fill needs; check_input only asks for broadcastability) *)
Definition legal_mha_input (q k v : tensor Q) (m : option (tensor bool)) (p qs ks vs : nat) : Prop :=
  mha_legalb q k v m p qs ks vs = true /\
  match m with
  | None => True
  | Some mt => forall es, bshape (tl (tshape (unsq p q))) (tl (tshape k)) = Some es -> intob (tshape mt) es = true
  end.

Lemma legal_mha expf sc P q k v m p qs ks vs :
  legal_mha_input q k v m p qs ks vs -> exists out, mha expf sc P q k v m p 0 qs ks vs = Some out.
Proof.
  intros [Hleg Hmask]. unfold mha. rewrite Hleg.
  destruct (mha_legal_inv _ _ _ _ _ _ _ _ Hleg)
    as [sq' [sk' [sv' [es [ps [Eq [Ek [Ev [Hqr [Hvr [Hp1 [Hpk [Hes [_ Hps]]]]]]]]]]]]]].
  set (H := num_heads P). set (dq := d_q P). set (dk := d_k P). set (dv := d_v P).
  assert (Sqh : tshape (q_heads P q) = dq :: H :: sq').
  { unfold q_heads. rewrite MHA.unflatten_shape, memo_shape, MHA.linear_shape, Eq. reflexivity. }
  assert (Skh : tshape (k_heads P k) = dk :: H :: sk').
  { unfold k_heads. rewrite MHA.unflatten_shape, memo_shape, MHA.linear_shape, Ek. reflexivity. }
  assert (Svh : tshape (v_heads P v) = dv :: H :: sv').
  { unfold v_heads. rewrite MHA.unflatten_shape, memo_shape, MHA.linear_shape, Ev. reflexivity. }
  rewrite Ev, bshape_cons in Hps. destruct (bshape es sv') as [r|] eqn:Er; [|discriminate].
  rewrite bdim_one_l in Hps. injection Hps as <-.
  assert (L : legal_input (q_heads P q) (k_heads P k) (v_heads P v) (mask_heads m 0) (S p) dq dk).
  { exists (H :: es), (dv :: H :: r). split; [|rewrite Sqh, Skh; split; reflexivity].
    constructor.
    - lia.
    - rewrite Skh. cbn [List.length]. lia.
    - rewrite Sqh, Skh. cbn [List.length]. lia.
    - rewrite Svh, Skh. cbn [List.length]. lia.
    - rewrite unsq_shape, Sqh, Skh. replace (S p) with (S (S (p - 1))) by lia. rewrite !ins_S. cbn [tl].
      apply bshape_same_head, Hes.
    - destruct m as [mt|]; [|reflexivity]. cbn [mask_heads]. rewrite unsq_shape, ins_0. cbn [intob].
      rewrite orb_true_r. cbn [andb]. apply Hmask.
      rewrite unsq_shape, Eq, Ek. replace p with (S (p - 1)) at 1 by lia. rewrite ins_S. cbn [tl]. exact Hes.
    - rewrite Svh, bshape_cons, (bshape_same_head H _ _ _ Er), bdim_one_l. reflexivity. }
  destruct (legal_attend expf sc _ _ _ _ _ _ _ L) as [cat Hcat].
  fold dq dk. rewrite Hcat. eexists. reflexivity.
Qed.

(* on inputs of legal shapes the interpreted MultiHeadedAttention.forward RETURNS, and what it returns is
   W^C [head_1; ...; head_H] (+ b^C) *)
Theorem source_mha_is_composition_legal expf tanhf fl P dim qs ks vs q k v m p :
  (0 <= dim)%Z -> axis_pos dim (List.length (tshape k)) = Some p ->
  ModelB.mha_sizes P qs ks vs = true -> fl_sizes fl (d_q P) (d_k P) = true ->
  legal_mha_input q k v m p qs ks vs -> seq_agree k v p ->
  exists r st,
    run_mha expf tanhf (cls_of fl) (self_mha dim qs ks vs P (self_single dim (d_q P) (d_k P) fl))
            (flat q) (flat k) (flat v) (option_map flat m) = Ok (enc_q r) st /\
    (forall h, h < num_heads P -> exists o, head expf (score tanhf fl) P q k v m p h = Some o) /\
    forall i, valid (rev (shp r)) i ->
      (tat (rd 0%Q r) i == tat (mha_spec expf (score tanhf fl) P q k v m p (tl (rev (shp r)))) i)%Q.
Proof.
  intros H0 Hax Hsz Hfl Hleg Hagree.
  destruct (legal_mha expf (score tanhf fl) P _ _ _ _ _ _ _ _ Hleg) as [out Hm].
  exact (source_mha_is_composition expf tanhf (cls_of fl) _ (score tanhf fl) P dim qs ks vs q k v m p out
           (single_tie_fl expf tanhf fl dim (d_q P) (d_k P) Hfl) H0 Hax Hsz Hm Hagree).
Qed.
