"""C12 — source tie, harness side: runs the TRANSLATED SOURCE of `_load_ref`, `_write_hyp` and of the blocks of
`_info_and_validate` (PV.Gen.C12Src, interpreted by PV.MiniPy.Interp with the torch calls given the meaning of
PV.MiniTorch.OpsC12 through PV.C12.SrcRun.ext12) inside Coq on the cases of the run and compares with what the
implementation did.  This validates translator + interpreter + ext12 + op semantics against CPython/torch on every
run and still works when the Tie*.v lemmas no longer compile."""
import json
import os
import re
import time
from concurrent.futures import ThreadPoolExecutor
from pathlib import Path

import vlib

IMPORTS_SRC = "From PV Require Import C12.Model.\nFrom PV Require C12.SrcRun C12.SrcRunV.\n"

SRC_TIE_THEOREMS = ["c12_source_load_ref_is_model", "c12_source_src_load_ref_is_model", "c12_source_load_ref_wraps_1d",
                    "c12_source_load_ref_wraps_2d", "c12_source_load_ref_wraps_tokens_only", "c12_source_write_hyp_is_model",
                    "c12_source_src_write_hyp_is_model", "c12_source_write_hyp_strips", "c12_source_roundtrip_1d",
                    "c12_source_roundtrip_2d", "c12_source_step_is_model_partial", "c12_source_validate_is_model_partial",
                    "c12_source_strict_accepts_iff_wellformed_partial", "c12_source_strict_never_writes_partial",
                    "c12_source_fix_result_is_repair_partial"]


def _eval_bitlists(workdir, terms, shard=150, tag="srcbits", timeout=900):
    if not terms:
        return []
    workdir = Path(workdir)
    files = []
    for k in range(0, len(terms), shard):
        f = workdir / f"{tag}_{k // shard}.v"
        body = ";\n  ".join(terms[k:k + shard])
        f.write_text(vlib._HEADER + IMPORTS_SRC + f"\nDefinition vcases : list (list bool) := [\n  {body}\n].\n"
                     "Definition vres := Eval vm_compute in vcases.\nPrint vres.\n")
        files.append(f)

    def one(f):
        out = vlib._coqc_file(f, timeout)
        m = re.search(r"vres\s*=\s*(.*?)\s*:\s*list \(list bool\)", out, flags=re.S)
        if not m:
            raise vlib.CoqError(f"cannot parse coqc output for {f}: {out[-500:]}")
        txt = m.group(1).replace("true", "1").replace("false", "0").replace(";", ",")
        return [[bool(b) for b in row] for row in json.loads(txt)]

    with ThreadPoolExecutor(max_workers=min(int(os.environ.get("VERIF_JOBS", "16")), 8)) as ex:
        parts = list(ex.map(one, files))
    return [r for p in parts for r in p]


def _ok_hyp_shape(h):
    return len(h["shape"]) == 1 or (len(h["shape"]) == 2 and h["shape"][1] == 3)


def rw_terms(c12, case, res):
    """-> [(kind, term)] for one rw case: the load, and every hypothesis written without an exception"""
    cfg = case["cfg"]
    out = []
    ld = res["loaded"]
    o = f"(inl {c12.EXN.get(ld['exc'], 'OtherErr')})" if "exc" in ld else f"(inr {c12.c_ref(ld)})"
    out.append(("load", f"SrcRun.src_check_load {c12.c_cfg(cfg)} {c12.c_ref(case['ref'])} {o}"))
    for w in res["written"]:
        h = w["hyp"]
        if "exc" in w or not _ok_hyp_shape(h):
            continue
        out.append(("write", f"SrcRun.src_check_write_hyp {c12.c_oz(cfg.get('sos'))} {c12.c_oz(cfg.get('eos'))} "
                             f"{c12.c_cuda(h)} {c12.c_dtype(h)} {c12.c_rdata(h)} {c12.c_rdata(w['out'])}"))
    return out


def validate_terms(c12, case, res):
    """-> [(step index, term)]: every validate_spect_data_set call of a directory case, from the observed pre-state
    (suppress_alis=True is outside the tie: the translator renders the failing 3-name unpacking of a 2-tuple as IndexError)"""
    cfg = case.get("cfg", {})
    if cfg.get("suppress_alis"):
        return []
    out = []
    for si, st in enumerate(res.get("steps", [])):
        op = st["op"]
        if op["api"] != "validate":
            continue
        f = op["fix"]
        fa = "FNone" if f is None else (f"(FBool {c12.cb(f)})" if isinstance(f, bool) else f"(FInt {c12.cz(f)})")
        exc = st["out"]["exc"]
        o = "None" if exc is None else f"(Some {c12.EXN.get(exc, 'OtherErr')})"
        out.append((si, f"SrcRunV.src_check_validate {c12.c_cfg(cfg)} {fa} {c12.c_dir(st['pre'])} {c12.c_dir(st['post'])} {o}"))
    return out


def source_tie(chk, cases, outs):
    from props import c12
    t0 = time.time()
    terms, owner = [], []
    for i, (c, r) in enumerate(zip(cases, outs)):
        if not isinstance(r, dict) or "harness_error" in r:
            continue
        if c["kind"] == "rw":
            for kind, t in rw_terms(c12, c, r):
                terms.append(t)
                owner.append((i, kind, None))
        elif c["kind"] == "dir":
            for si, t in validate_terms(c12, c, r):
                terms.append(t)
                owner.append((i, "validate", si))
    if not terms:
        chk.extra["source_tie_run"] = {"cases": 0, "disagreements": 0}
        return
    try:
        vals = _eval_bitlists(chk.workdir, terms)
    except vlib.CoqError as e:
        chk.extra["source_tie_run"] = "not evaluated: " + str(e)[-400:]
        return
    kinds, bad, outside = {}, [], {}
    for (i, kind, si), v, t in zip(owner, vals, terms):
        kinds[kind] = kinds.get(kind, 0) + 1
        if not v[0]:
            outside[kind] = outside.get(kind, 0) + 1
        elif not v[1]:
            bad.append((i, kind, si, t))
    chk.extra["source_tie"] = {
        "units": ["C12Src", "C12ValSrc"], "theorems": SRC_TIE_THEOREMS,
        "what": "translated _load_ref / _write_hyp (whole bodies) and the three blocks of _info_and_validate's loop body (under the "
                "glue of C12/SrcRunV.v) interpreted in Coq vs the implementation: loaded tensor / exception; stored hypothesis; "
                "exception and files after validate_spect_data_set"}
    chk.extra["source_tie_run"] = {"cases": len(terms), "by_kind": kinds, "disagreements": len(bad),
                                   "outside_modelled_domain": outside, "wall_s": round(time.time() - t0, 1)}
    chk.count("source_tie_cases", len(terms))
    if bad:
        i, kind, si, t = min(bad, key=lambda b: len(json.dumps(cases[b[0]], default=str)))
        rec = {"what": "the Python source of _datasets.py (%s) as translated to MiniPy and interpreted in Coq (PV.C12.SrcRun, "
                       "torch calls = PV.MiniTorch.OpsC12) does not reproduce the implementation's output: translator / "
                       "interpreter / ext12 / MiniTorch no longer describe the code" % kind,
               "disagreeing_checks": len(bad), "kind": kind, "step": si, "term": t[:2000],
               "case": {k: v for k, v in cases[i].items() if k != "stream"}, "impl": outs[i],
               "correspondence": "tie:C12:py2coq+MiniPy.Interp+MiniTorch:" + kind,
               "theorems_at_stake": SRC_TIE_THEOREMS}
        chk.report(rec, no_failing_input=True)
