(* MiniTorch, unit C02Src — the torch operations that the `return_mistakes = True` configuration of the
   translated `_string_matching` (_string.py; what `error_rate` calls) needs beyond those of
   PV.MiniTorch.OpsC01 (which this file imports and does not change): the comparison of two float
   tensors (`row[1:] >= sub_row`, `del_ >= row[ref_idx]`), a float tensor plus a Python number
   (`row[ref_idx - 1] + del_cost`, `mistakes[ref_idx - 1] + 1.0`) and the assignment of one row
   (`row[ref_idx] = ...`, `mistakes[ref_idx] = ...`).  DEFINITIONS ONLY; the algebra is in LemmasC02.v.

   Tensors, float elements [fx] (exact rational | +inf | -inf | NaN), the encodings and everything that
   is not modelled (rounding, signed zeros, dtypes' ranges, devices, strides / aliasing of views) are
   those of OpsC01.v / OpsC07.v.  Every operation returns [None] outside the domain stated with it; the
   unit's [ext] turns [None] into [Stuck] (fail-closed).  This file is TRUSTED by the C02 tie; it is
   exercised on every run by the harness-side [C02.SrcRun.src_error_rate_check] (torch vs the interpreted
   source on the same inputs). *)
From Coq Require Import List ZArith QArith Bool Arith String.
From PV Require Import MiniPy.Syntax MiniTorch.Ops MiniTorch.OpsC07 MiniTorch.OpsC01.
Import ListNotations.
Local Open Scope nat_scope.

(* torch.ge(input, other): "Computes input >= other element-wise. ... Returns: A boolean tensor that is
   True where input is greater than or equal to other and False elsewhere".  On IEEE values every
   ordered comparison with a NaN is False; +inf >= x and x >= -inf hold for every non-NaN x (also
   inf >= inf); finite values compare as the rationals they are *)
Definition fge (a b : fx) : bool :=
  match a, b with
  | FNaN, _ | _, FNaN => false
  | FPInf, _ => true
  | _, FNInf => true
  | FNInf, _ => false
  | _, FPInf => false
  | Fq p, Fq q => Qle_bool q p
  end.

(* a comparison of two float tensors (torch.ge / Tensor.__ge__: "The second argument can be a number or
   a tensor whose shape is broadcastable with the first argument"): OpsC07.broadcast, a bool tensor *)
Definition cmp_f (f : fx -> fx -> bool) (a b : tn fx) : option (tn bool) := broadcast f FNaN FNaN a b.

(* torch.add(input, other) with a Python number: "Adds other, scaled by alpha, to input. ... other
   (Tensor or Number) - the tensor or number to add to input": out_i = input_i + other (alpha = 1) *)
Definition add_scalar_f (x : tn fx) (q : Q) : tn fx := map_t (fun e => fadd e (Fq q)) x.

(* x[i] = v with an integer i (negative counts from the end): row i of the first dimension is
   replaced by v, which must have exactly the shape of x[i] (torch would also broadcast v: not
   modelled, None).  Some None: index out of range (IndexError).  None: x is 0-dimensional or v has
   another shape *)
Definition set_select0 {X} (x : tn X) (i : Z) (v : tn X) : option (option (tn X)) :=
  match shp x with
  | n :: rest =>
      let j := if (i <? 0)%Z then (i + Z.of_nat n)%Z else i in
      if ((0 <=? j) && (j <? Z.of_nat n))%Z
      then let w := numel rest in
           if nats_eqb (shp v) rest && (List.length (dat v) =? w)
           then Some (Some (mkTn (shp x) (firstn (Z.to_nat j * w) (dat x) ++ dat v ++ skipn (S (Z.to_nat j) * w) (dat x))))
           else None
      else Some None
  | [] => None
  end.
