(* C05, second tie, part 1: the MiniPy terms of the loop body and the epilogue of `CTCPrefixSearch.forward`
   (PV.Gen.C05BSrc.fwd_frame / fwd_final, regenerated from /repo on every run), interpreted with [SrcRunB.extB], ARE
   the programs [frame_prog] / [final_prog] below - straight-line compositions of the operations of
   PV.MiniTorch.OpsC05 / OpsC05B, of the language-model state machine and of ONE call of the interpreted step function
   ([SrcRunB.adv_call]) - for every topk oracle, every LM oracle, every module configuration (lm / beta /
   valid_mixture / width), every batch size and ALL argument tensors (any shapes, any data): the same carried variables
   afterwards, outside the modelled domain together ([simF] / [simR]).  Nothing here knows the model; part 2 (TieB.v)
   evaluates the programs on the encoding of the model's beam.  If the source is edited, the regenerated terms change and
   this file is re-checked against them. *)
From Coq Require Import ZArith QArith Qcanon List String Bool Arith Lia ZifyBool ZifyNat.
From PV Require Import MiniPy.Syntax MiniPy.Interp MiniPy.Lemmas MiniTorch.Ops MiniTorch.OpsC05 MiniTorch.OpsC05B
  Gen.C05Src Gen.C05BSrc.
From PV Require Import C05.Model C05.ModelB C05.SrcRun C05.SrcRunB C05.TieRun.
Import ListNotations.
Local Open Scope string_scope.

(* ---- values ------------------------------------------------------------------------------------------------ *)
Lemma dec_st_enc s : dec_st (enc_st s) = Some s.
Proof. unfold dec_st, enc_st. apply dec_nats_enc. Qed.

Lemma dec_sts_enc St : dec_sts (enc_sts St) = Some St.
Proof. unfold dec_sts, enc_sts. apply dec_list_map. apply dec_st_enc. Qed.

Lemma dec_lms_enc St : dec_tagged tag_lms (enc_lms St) = Some St.
Proof. unfold dec_tagged, enc_lms. change (String.eqb tag_lms tag_lms) with true. apply dec_sts_enc. Qed.
Lemma dec_logits_enc St : dec_tagged tag_logits (enc_logits St) = Some St.
Proof. unfold dec_tagged, enc_logits. change (String.eqb tag_logits tag_logits) with true. apply dec_sts_enc. Qed.
Lemma dec_logsm_enc St : dec_tagged tag_logsm (enc_logsm St) = Some St.
Proof. unfold dec_tagged, enc_logsm. change (String.eqb tag_logsm tag_logsm) with true. apply dec_sts_enc. Qed.

Lemma dec_outs7_enc o : dec_outs7 (enc_outs7 o) = Some o.
Proof.
  destruct o as [y l ln nb b isp src ne]. unfold dec_outs7, enc_outs7. cbn [o7_y o7_last o7_lens o7_nb o7_b o7_isp o7_src o7_ne].
  now rewrite !dec_enc_i, !dec_enc_f, !dec_enc_b.
Qed.

(* ---- the programs -------------------------------------------------------------------------------------------- *)
Record carT := mkCarT
  { k_pw : Z; k_nb : tn mass; k_b : tn mass; k_y : tn Z; k_last : tn Z; k_lens : tn Z; k_isp : tn bool; k_prev : val }.

Definition enc_carT (c : carT) : carried :=
  mkCar (VInt (k_pw c)) (enc_f (k_nb c)) (enc_f (k_b c)) (enc_i (k_y c)) (enc_i (k_last c)) (enc_i (k_lens c))
        (enc_b (k_isp c)) (k_prev c).

Local Open Scope Z_scope.

Section Prog.
Variable sel : nat -> list mass -> nat -> list nat.
Variable lmS : list nat -> list Qc.
Variable beta : Q.
Variables sos Vv : nat.
Variables (has_lm vm : bool) (width N V : nat).
Let zW := Z.of_nat width.
Let zN := Z.of_nat N.
Let zV := Z.of_nat V.

Definition fused : bool := has_lm && negb (Qeq_bool beta 0).

(* `if self.lm is None or not self.beta: ... else: ...`: ext_probs_t and in_next *)
Definition prog_fuse (zK : Z) (y ylens : tn Z) (St : list (list nat)) (nonext_t blank_t : tn mass)
  : option (tn mass * list (list nat)) :=
  if fused then
    do h <- flatten1_3 0 y;
    do ix <- flatten2 0 ylens;
    do St' <- lm_calc sos h St ix;
    if vm then
      do v <- viewB NegInf (lm_rows lmS Vv St') [zN; zK; zV];
      do m1 <- smul (Q2Qc beta) v;
      do bv <- viewB NegInf blank_t [zN; 1; 1];
      do rb <- rsub_s (Q2Qc (inject_Z 1)) bv;
      do lmp <- fmul m1 rb;
      do nu <- unsqueeze NegInf nonext_t 1;
      do m2 <- smul (Q2Qc (Qred (1 - beta))) nu;
      do e <- fadd m2 lmp;
      Some (e, St')
    else
      do v <- viewB NegInf (lm_rows lmS Vv St') [zN; zK; zV];
      do nu <- unsqueeze NegInf nonext_t 1;
      do e <- fmul v nu;
      Some (e, St')
  else
    do nu <- unsqueeze NegInf nonext_t 1;
    do e <- expand NegInf nu [zN; zK; zV];
    Some (e, []).

(* `if self.lm is not None and self.beta:` the LM states follow their slots *)
Definition prog_lmstate (zK : Z) (St St' : list (list nat)) (src : tn Z) (ne : tn bool) : option (list (list nat)) :=
  do ar <- arange3 0 (zK * zN) zK;
  do au <- unsqueeze 0 ar 1;
  do ns <- iadd au src;
  do fl <- flatten2 0 ns;
  do P1 <- lm_extract St fl;
  do P2 <- lm_extract St' fl;
  do nf <- flatten2 false ne;
  lm_mix P1 P2 nf.

(* `if valid_mask is None: ... else: ...`: (nb_probs_prev, b_probs_prev, y_next, y_prev_lens) *)
Definition prog_mask (vmask : option (tn bool)) (pad_y : tn Z) (c : carT) (o : outs7)
  : option (tn mass * tn mass * tn Z * tn Z) :=
  match vmask with
  | None => Some (o7_nb o, o7_b o, o7_y o, o7_lens o)
  | Some m =>
      do ye <- expand_keep 0 (k_y c) [-1; -1; zW];
      do yp <- cat2 0 ye pad_y 0;
      do mu <- unsqueeze false m 0;
      do yn <- where_b 0 mu (o7_y o) yp;
      do ln <- where_b 0 m (o7_lens o) (k_lens c);
      do nbb <- (if k_pw c <? zW then
                   if k_pw c =? 1 then
                     do ninf <- full [zN; zW - k_pw c] NegInf;
                     do a <- cat2 NegInf (k_nb c) ninf 1;
                     do b <- cat2 NegInf (k_b c) ninf 1;
                     Some (a, b)
                   else None
                 else Some (k_nb c, k_b c));
      do nb' <- where_b NegInf m (o7_nb o) (fst nbb);
      do b' <- where_b NegInf m (o7_b o) (snd nbb);
      Some (nb', b', yn, ln)
  end.

(* one iteration of the loop.  [St]: the LM states held by `prev` when the module fuses (then k_prev = enc_lms St) *)
Definition frame_prog (t len_min : Z) (lens : tn Z) (nonext_probs blank_probs : tn mass) (pad_y : tn Z)
  (c : carT) (St : list (list nat)) : option carT :=
  do vmask <- (if t <? len_min then Some None else option_map Some (unsqueeze false (ilt_rs t lens) 1));
  do nonext_t <- select0 NegInf nonext_probs t;
  do blank_t <- select0 NegInf blank_probs t;
  do eS <- prog_fuse (k_pw c) (k_y c) (k_lens c) St nonext_t blank_t;
  do o <- adv_call sel [VTuple [enc_f (fst eS); enc_f nonext_t; enc_f blank_t]; VInt zW;
                        VTuple [enc_f (k_nb c); enc_f (k_b c)]; enc_i (k_y c); enc_i (k_last c); enc_i (k_lens c);
                        enc_b (k_isp c)];
  do prev' <- (if fused then option_map enc_lms (prog_lmstate (k_pw c) St (snd eS) (o7_src o) (o7_ne o))
               else Some (k_prev c));
  do r <- prog_mask vmask pad_y c o;
  Some (mkCarT zW (fst (fst (fst r))) (snd (fst (fst r))) (snd (fst r)) (o7_last o) (snd r) (o7_isp o) prev').

(* the epilogue: (y, y_lens, y_probs) *)
Definition final_prog (c : carT) : option (tn Z * tn Z * tn mass) :=
  do p <- fadd (k_nb c) (k_b c);
  if k_pw c =? 1 then
    if negb (1 =? zW) then
      do y' <- repeat_ 0 (k_y c) [1; 1; zW];
      do l' <- repeat_ 0 (k_lens c) [1; zW];
      do nf <- full [zN; zW - k_pw c] NegInf;
      do p' <- cat2 NegInf p nf 1;
      Some (y', l', p')
    else Some (k_y c, k_lens c, p)
  else Some (k_y c, k_lens c, p).
End Prog.

Local Close Scope Z_scope.

(* the interpreter's outcome and a program's agree (an AssertionError of `assert prev_width == 1` counts as outside
   the domain, like Stuck) *)
Definition simF (o : outcome val) (r : option carT) : Prop :=
  match o, r with
  | Ok v st, Some c => v = VNone /\ read_carried (vars st) = Some (enc_carT c)
  | Stuck _, None => True
  | Exc _ _, None => True
  | _, _ => False
  end.

Definition simR (o : outcome val) (r : option (tn Z * tn Z * tn mass)) : Prop :=
  match o, r with
  | Ok v _, Some (y, l, p) => v = VTuple [enc_i y; enc_i l; enc_f p]
  | Stuck _, None => True
  | _, _ => False
  end.

(* ---- what each call reaches in extB ---------------------------------------------------------------------- *)
Section ExtLemmas.
Variable sel : nat -> list mass -> nat -> list nat.
Variable lmS : list nat -> list Qc.
Variable beta : Q.
Variables sos Vv : nat.
Notation EB := (extB sel lmS beta sos Vv).
Notation E := (ext05 sel).

(* names extB does not know: the first tie's environment *)
Definition b_name (f : string) : bool :=
  existsb (String.eqb f)
    ["ctc_prefix_search_advance"; "self.lm.calc_idx_log_probs"; "self.lm.extract_by_src"; "self.lm.mix_by_mask";
     "self.lm.update_input"; "$method.softmax"; "$method.log_softmax"; "$method.exp"; "operator"; "compare"; "$getitem";
     "$method.expand"; "$method.view"; "$method.flatten"; "$method.repeat"; "$method.new_full"; "torch.arange";
     "torch.where"; "torch.ones"; "torch.full"].

Lemma extB_other f args kw st : b_name f = false -> EB f args kw st = E f args kw st.
Proof.
  intros H. unfold b_name in H. cbn [existsb] in H. repeat (apply orb_false_iff in H; destruct H as [? H]).
  unfold extB, is. repeat match goal with Hx : String.eqb f _ = false |- _ => rewrite Hx; clear Hx end. reflexivity.
Qed.

Ltac extb_tac := intros; unfold extB; cbn - [dec enc_f enc_i enc_b dec_tagged enc_lms enc_logits enc_logsm enc_scaled ext05];
  rewrite ?dec_enc_f, ?dec_enc_i, ?dec_enc_b, ?dec_int, ?dec_q, ?dec_inf, ?dec_lms_enc, ?dec_logits_enc, ?dec_logsm_enc;
  try reflexivity.

Lemma extB_adv a0 a1 a2 a3 a4 a5 a6 st :
  EB "ctc_prefix_search_advance" [a0; a1; a2; a3; a4; a5; a6] [] st
  = match adv_call sel [a0; a1; a2; a3; a4; a5; a6] with
    | Some o => Ok (enc_outs7 o) st
    | None => Stuck (undef "ctc_prefix_search_advance")
    end.
Proof. reflexivity. Qed.

Lemma extB_calc h St idx st :
  EB "self.lm.calc_idx_log_probs" [enc_i h; enc_lms St; enc_i idx] [] st
  = okS "calc_idx_log_probs" (fun s => VTuple [enc_logits s; enc_lms s]) (lm_calc sos h St idx) st.
Proof. extb_tac. Qed.
Lemma extB_extract St src st :
  EB "self.lm.extract_by_src" [enc_lms St; enc_i src] [] st = okS "extract_by_src" enc_lms (lm_extract St src) st.
Proof. extb_tac. Qed.
Lemma extB_mix A B m st :
  EB "self.lm.mix_by_mask" [enc_lms A; enc_lms B; enc_b m] [] st = okS "mix_by_mask" enc_lms (lm_mix A B m) st.
Proof. extb_tac. Qed.
Lemma extB_softmax St st : EB "$method.softmax" [enc_logits St; VInt (-1)] [] st = Ok (enc_f (lm_rows lmS Vv St)) st.
Proof. extb_tac. Qed.
Lemma extB_log_softmax St st : EB "$method.log_softmax" [enc_logits St; VInt (-1)] [] st = Ok (enc_logsm St) st.
Proof. extb_tac. Qed.
Lemma extB_exp St st : EB "$method.exp" [enc_scaled beta St] [] st = Ok (enc_f (lm_rows lmS Vv St)) st.
Proof.
  unfold extB, enc_scaled. cbn - [dec enc_f dec_sts enc_sts Qeq_bool].
  change (String.eqb tag_scaled tag_scaled) with true. rewrite Qeq_bool_refl. cbn [andb]. now rewrite dec_sts_enc.
Qed.
Lemma as_qc_f t : as_qc (enc_f t) = None. Proof. reflexivity. Qed.
Lemma extB_scale q St st : EB "operator" [VStr "mul"; VQ q; enc_logsm St] [] st = Ok (enc_scaled q St) st.
Proof. extb_tac. Qed.
Lemma extB_smul q x st : EB "operator" [VStr "mul"; VQ q; enc_f x] [] st = okf "mul" (smul (Q2Qc q) x) st.
Proof. extb_tac. Qed.
Lemma extB_rsub z x st : EB "operator" [VStr "sub"; VInt z; enc_f x] [] st = okf "rsub" (rsub_s (Q2Qc (inject_Z z)) x) st.
Proof. extb_tac. Qed.
Lemma extB_op_ff o x y st : EB "operator" [VStr o; enc_f x; enc_f y] [] st = E "operator" [VStr o; enc_f x; enc_f y] [] st.
Proof. reflexivity. Qed.
Lemma extB_op_ii o x y st : EB "operator" [VStr o; enc_i x; enc_i y] [] st = E "operator" [VStr o; enc_i x; enc_i y] [] st.
Proof. reflexivity. Qed.
Lemma extB_lt_rs t x st : EB "compare" [VStr "lt"; VInt t; enc_i x] [] st = Ok (enc_b (ilt_rs t x)) st.
Proof. extb_tac. Qed.
Lemma extB_getitem_f x i st : EB "$getitem" [enc_f x; VInt i] [] st = okf "getitem" (select0 NegInf x i) st.
Proof. extb_tac. Qed.
Lemma extB_expand_keep_i x w st :
  EB "$method.expand" [enc_i x; VInt (-1); VInt (-1); VInt w] [] st = oki "expand" (expand_keep 0%Z x [(-1)%Z; (-1)%Z; w]) st.
Proof. extb_tac. Qed.
Lemma extB_expand_f x a b c st :
  EB "$method.expand" [enc_f x; VInt (Z.of_nat a); VInt (Z.of_nat b); VInt (Z.of_nat c)] [] st
  = E "$method.expand" [enc_f x; VInt (Z.of_nat a); VInt (Z.of_nat b); VInt (Z.of_nat c)] [] st.
Proof.
  unfold extB. cbn - [ext05 enc_f has_minus1]. unfold has_minus1. cbn [existsb]. rewrite !val_eqb_int.
  replace (-1 =? Z.of_nat a)%Z with false by lia. replace (-1 =? Z.of_nat b)%Z with false by lia.
  replace (-1 =? Z.of_nat c)%Z with false by lia. reflexivity.
Qed.
Lemma extB_view_f x a b c st :
  EB "$method.view" [enc_f x; VInt a; VInt b; VInt c] [] st = okf "view" (viewB NegInf x [a; b; c]) st.
Proof. extb_tac. Qed.
Lemma extB_flatten_i x st : EB "$method.flatten" [enc_i x] [] st = oki "flatten" (flatten2 0%Z x) st.
Proof. extb_tac. Qed.
Lemma extB_flatten_b x st : EB "$method.flatten" [enc_b x] [] st = okb "flatten" (flatten2 false x) st.
Proof. extb_tac. Qed.
Lemma extB_flatten1_i x st : EB "$method.flatten" [enc_i x; VInt 1] [] st = oki "flatten" (flatten1_3 0%Z x) st.
Proof. extb_tac. Qed.
Lemma extB_repeat3_i x a b c st :
  EB "$method.repeat" [enc_i x; VInt a; VInt b; VInt c] [] st = oki "repeat" (repeat_ 0%Z x [a; b; c]) st.
Proof. extb_tac. Qed.
Lemma extB_repeat2_i x a b st :
  EB "$method.repeat" [enc_i x; VInt a; VInt b] [] st = oki "repeat" (repeat_ 0%Z x [a; b]) st.
Proof. extb_tac. Qed.
Lemma extB_new_full x a b st :
  EB "$method.new_full" [enc_f x; VTuple [VInt a; VInt b]; VInf false] [] st = okf "new_full" (full [a; b] NegInf) st.
Proof. extb_tac. Qed.
Lemma extB_arange s e k st :
  EB "torch.arange" [VInt s; VInt e; VInt k] [("device", device_token)] st = oki "arange" (arange3 s e k) st.
Proof. reflexivity. Qed.
Lemma extB_where_f c x y st : EB "torch.where" [enc_b c; enc_f x; enc_f y] [] st = okf "where" (where_b NegInf c x y) st.
Proof. extb_tac. Qed.
Lemma extB_where_i c x y st : EB "torch.where" [enc_b c; enc_i x; enc_i y] [] st = oki "where" (where_b 0%Z c x y) st.
Proof. extb_tac. Qed.
End ExtLemmas.

(* ---- the symbolic runs ---------------------------------------------------------------------------------------- *)
Lemma exec_assert ext e st :
  exec ext (SAssert e) st = bind (eval ext e st) (fun v st1 => if truthy v then Ok CNormal st1 else Exc "AssertionError" st1).
Proof. reflexivity. Qed.

#[local] Arguments exec : simpl never.
#[local] Arguments extB : simpl never.
#[local] Arguments ext05 : simpl never.
#[local] Arguments enc_f : simpl never.
#[local] Arguments enc_i : simpl never.
#[local] Arguments enc_b : simpl never.
#[local] Arguments enc_lms : simpl never.
#[local] Arguments enc_logits : simpl never.
#[local] Arguments enc_logsm : simpl never.
#[local] Arguments enc_scaled : simpl never.
#[local] Arguments enc_outs7 : simpl never.
#[local] Arguments cmp_eval : simpl never.
#[local] Arguments foreign : simpl never.
#[local] Arguments val_eqb : simpl never.
#[local] Arguments method : simpl never.
#[local] Arguments binop_eval : simpl never.
#[local] Arguments Qeq_bool : simpl never.
#[local] Arguments Qred : simpl never.
#[local] Arguments Q2Qc : simpl never.
#[local] Arguments inject_Z : simpl never.
#[local] Arguments Z.of_nat !_.
#[local] Arguments Z.eqb !_ !_.
#[local] Arguments Z.ltb !_ !_.
#[local] Arguments Z.leb !_ !_.
#[local] Arguments Z.add !_ !_.
#[local] Arguments Z.sub !_ !_.
#[local] Arguments Z.mul !_ !_.
#[local] Arguments unsqueeze : simpl never.
#[local] Arguments expand : simpl never.
#[local] Arguments expand_keep : simpl never.
#[local] Arguments viewB : simpl never.
#[local] Arguments flatten2 : simpl never.
#[local] Arguments flatten1_3 : simpl never.
#[local] Arguments repeat_ : simpl never.
#[local] Arguments arange3 : simpl never.
#[local] Arguments select0 : simpl never.
#[local] Arguments smul : simpl never.
#[local] Arguments rsub_s : simpl never.
#[local] Arguments ilt_rs : simpl never.
#[local] Arguments where_b : simpl never.
#[local] Arguments cat2 : simpl never.
#[local] Arguments fadd : simpl never.
#[local] Arguments fmul : simpl never.
#[local] Arguments iadd : simpl never.
#[local] Arguments full : simpl never.
#[local] Arguments lm_rows : simpl never.
#[local] Arguments lm_calc : simpl never.
#[local] Arguments lm_extract : simpl never.
#[local] Arguments lm_mix : simpl never.
#[local] Arguments adv_call : simpl never.
#[local] Arguments prog_fuse : simpl never.
#[local] Arguments prog_lmstate : simpl never.
#[local] Arguments prog_mask : simpl never.
#[local] Arguments fin !_ /.
#[local] Arguments okf _ !_ _ /.
#[local] Arguments oki _ !_ _ /.
#[local] Arguments okb _ !_ _ /.
#[local] Arguments oka _ !_ _ /.
#[local] Arguments okv _ !_ _ /.
#[local] Arguments okS _ _ !_ _ /.

Section Run.
Variable sel : nat -> list mass -> nat -> list nat.
Variable lmS : list nat -> list Qc.
Variable beta : Q.
Variables sos Vv : nat.
Notation EB := (extB sel lmS beta sos Vv).

Lemma attributeB_f : forall t a st, attribute EB (enc_f t) a st = EB ("$attr." ++ a) [enc_f t] [] st. Proof. reflexivity. Qed.
Lemma attributeB_i : forall t a st, attribute EB (enc_i t) a st = EB ("$attr." ++ a) [enc_i t] [] st. Proof. reflexivity. Qed.
Lemma subscript_f : forall t i st, subscript (enc_f t) (VInt i) st = Stuck "item of a library object". Proof. reflexivity. Qed.
Lemma method_logits : forall s m args, method (enc_logits s) m args = None. Proof. reflexivity. Qed.
Lemma method_scaled : forall q s m args, method (enc_scaled q s) m args = None. Proof. reflexivity. Qed.
Lemma foreign_cons_b : forall t l, foreign (VTuple (enc_b t :: l)) = false. Proof. reflexivity. Qed.
Lemma cmp_is_none_none : cmp_eval Is VNone VNone = Some true. Proof. reflexivity. Qed.
Lemma cmp_is_str_none s : cmp_eval Is (VStr s) VNone = Some false. Proof. reflexivity. Qed.
Lemma cmp_isnot_none_none : cmp_eval IsNot VNone VNone = Some false. Proof. reflexivity. Qed.
Lemma cmp_isnot_str_none s : cmp_eval IsNot (VStr s) VNone = Some true. Proof. reflexivity. Qed.
Lemma cmp_is_b_none t : cmp_eval Is (enc_b t) VNone = Some false. Proof. reflexivity. Qed.
Lemma cmp_eq_int a b : cmp_eval Eq (VInt a) (VInt b) = Some (a =? b)%Z. Proof. reflexivity. Qed.
Lemma binop_sub_qq p q st : binop_eval Sub (VQ p) (VQ q) st = Ok (VQ (Qred (Qminus p q))) st. Proof. reflexivity. Qed.
Lemma binop_q_f q t st : binop_eval Mul (VQ q) (enc_f t) st = Stuck "mul". Proof. reflexivity. Qed.
Lemma binop_q_logsm q s st : binop_eval Mul (VQ q) (enc_logsm s) st = Stuck "mul". Proof. reflexivity. Qed.
Lemma binop_z_f op z t st : op = Sub -> binop_eval op (VInt z) (enc_f t) st = Stuck (binmsg op). Proof. intros ->. reflexivity. Qed.
Lemma subscript_o7_0 o st : subscript (enc_outs7 o) (VInt 0) st = Ok (enc_i (o7_y o)) st. Proof. reflexivity. Qed.
Lemma subscript_o7_1 o st : subscript (enc_outs7 o) (VInt 1) st = Ok (enc_i (o7_last o)) st. Proof. reflexivity. Qed.
Lemma subscript_o7_2 o st : subscript (enc_outs7 o) (VInt 2) st = Ok (enc_i (o7_lens o)) st. Proof. reflexivity. Qed.
Lemma subscript_o7_3 o st : subscript (enc_outs7 o) (VInt 3) st = Ok (VTuple [enc_f (o7_nb o); enc_f (o7_b o)]) st. Proof. reflexivity. Qed.
Lemma subscript_o7_4 o st : subscript (enc_outs7 o) (VInt 4) st = Ok (enc_b (o7_isp o)) st. Proof. reflexivity. Qed.
Lemma subscript_o7_5 o st : subscript (enc_outs7 o) (VInt 5) st = Ok (enc_i (o7_src o)) st. Proof. reflexivity. Qed.
Lemma subscript_o7_6 o st : subscript (enc_outs7 o) (VInt 6) st = Ok (enc_b (o7_ne o)) st. Proof. reflexivity. Qed.
Lemma Qeq_bool_same q : Qeq_bool q q = true. Proof. apply Qeq_bool_refl. Qed.

Ltac unhide := match goal with |- context [exec EB ?r ?st] => is_var r; subst r end.
Ltac step0 :=
  match goal with
  | |- context [exec EB (SAssign [TName _] _) _] => rewrite exec_assign1
  | |- context [exec EB (SIf ?c ?a ?b) ?st] => rewrite (exec_if EB c a b st)
  | |- context [exec EB (SAssert _) _] => rewrite exec_assert
  | |- context [exec EB (SReturn _) _] => rewrite exec_return
  | |- context [exec EB SPass _] => rewrite exec_pass
  | |- context [exec EB (SSeq ?a ?b) ?st] =>
      rewrite (exec_seq EB a b st); let r := fresh "rest" in remember b as r
  end.
Ltac step := try unhide; step0.

(* the first tie's calls: extB hands them to ext05 *)
Ltac other f := rewrite (extB_other sel lmS beta sos Vv f) by reflexivity.

Ltac ext05_rw f a :=
  lazymatch f with
  | "$attr.device" => lazymatch a with [enc_i _] => rewrite ext_device_i | [enc_f _] => rewrite ext_device_f end
  | "float" => lazymatch a with [VStr "inf"] => rewrite ext_float_inf end
  | "$method.unsqueeze" =>
      lazymatch a with
      | [enc_f _; VInt _] => rewrite ext_unsqueeze_f
      | [enc_i _; VInt _] => rewrite ext_unsqueeze_i
      | [enc_b _; VInt _] => rewrite ext_unsqueeze_b
      end
  | "$method.expand" => lazymatch a with [enc_f _; VInt _; VInt _; VInt _] => rewrite ext_expand_f end
  | "operator" =>
      lazymatch a with
      | [VStr "add"; enc_f _; enc_f _] => rewrite ext_add_ff
      | [VStr "mul"; enc_f _; enc_f _] => rewrite ext_mul_ff
      | [VStr "add"; enc_i _; enc_i _] => rewrite ext_add_ii
      end
  | "torch.cat" =>
      lazymatch a with
      | [VList [enc_f _; enc_f _]; VInt _] => rewrite ext_cat_f
      | [VList [enc_i _; enc_i _]; VInt _] => rewrite ext_cat_i
      end
  end.

Ltac extB_rw f a k :=
  lazymatch f with
  | "ctc_prefix_search_advance" => rewrite extB_adv
  | "self.lm.calc_idx_log_probs" => rewrite extB_calc
  | "self.lm.extract_by_src" => rewrite extB_extract
  | "self.lm.mix_by_mask" => rewrite extB_mix
  | "$method.softmax" => rewrite extB_softmax
  | "$method.log_softmax" => rewrite extB_log_softmax
  | "$method.exp" => rewrite extB_exp
  | "operator" =>
      lazymatch a with
      | [VStr "mul"; VQ _; enc_logsm _] => rewrite extB_scale
      | [VStr "mul"; VQ _; enc_f _] => rewrite extB_smul
      | [VStr "sub"; VInt _; enc_f _] => rewrite extB_rsub
      | [VStr _; enc_f _; enc_f _] => rewrite extB_op_ff
      | [VStr _; enc_i _; enc_i _] => rewrite extB_op_ii
      end
  | "compare" => lazymatch a with [VStr "lt"; VInt _; enc_i _] => rewrite extB_lt_rs end
  | "$getitem" => lazymatch a with [enc_f _; VInt _] => rewrite extB_getitem_f end
  | "$method.expand" =>
      lazymatch a with
      | [enc_i _; VInt (-1); VInt (-1); VInt _] => rewrite extB_expand_keep_i
      | [enc_f _; VInt (Z.of_nat _); VInt (Z.of_nat _); VInt (Z.of_nat _)] => rewrite extB_expand_f
      end
  | "$method.view" => lazymatch a with [enc_f _; VInt _; VInt _; VInt _] => rewrite extB_view_f end
  | "$method.flatten" =>
      lazymatch a with
      | [enc_i _; VInt 1] => rewrite extB_flatten1_i
      | [enc_i _] => rewrite extB_flatten_i
      | [enc_b _] => rewrite extB_flatten_b
      end
  | "$method.repeat" =>
      lazymatch a with
      | [enc_i _; VInt _; VInt _; VInt _] => rewrite extB_repeat3_i
      | [enc_i _; VInt _; VInt _] => rewrite extB_repeat2_i
      end
  | "$method.new_full" => rewrite extB_new_full
  | "torch.arange" => rewrite extB_arange
  | "torch.where" =>
      lazymatch a with
      | [enc_b _; enc_f _; enc_f _] => rewrite extB_where_f
      | [enc_b _; enc_i _; enc_i _] => rewrite extB_where_i
      end
  | _ => other f
  end.

Ltac rw :=
  repeat match goal with
  | H : Qeq_bool ?q _ = _ |- context [Qeq_bool ?q _] => rewrite H
  | |- context [Qeq_bool ?q ?q] => rewrite Qeq_bool_same
  | |- context [extB sel lmS beta sos Vv ?f ?a ?k _] => extB_rw f a k
  | |- context [ext05 sel ?f ?a ?k _] => ext05_rw f a
  | |- context [method ?v _ _] =>
      lazymatch v with
      | enc_f _ => rewrite method_f | enc_i _ => rewrite method_i | enc_b _ => rewrite method_b
      | enc_logits _ => rewrite method_logits | enc_scaled _ _ => rewrite method_scaled
      end
  | |- context [attribute EB ?v _ _] =>
      lazymatch v with enc_f _ => rewrite attributeB_f | enc_i _ => rewrite attributeB_i end
  | |- context [subscript ?v (VInt ?i) _] =>
      lazymatch v with
      | enc_f _ => rewrite subscript_f
      | enc_outs7 _ =>
          lazymatch i with
          | 0%Z => rewrite subscript_o7_0 | 1%Z => rewrite subscript_o7_1 | 2%Z => rewrite subscript_o7_2
          | 3%Z => rewrite subscript_o7_3 | 4%Z => rewrite subscript_o7_4 | 5%Z => rewrite subscript_o7_5
          | 6%Z => rewrite subscript_o7_6
          end
      end
  | |- context [foreign ?v] =>
      lazymatch v with
      | enc_f _ => rewrite foreign_f | enc_i _ => rewrite foreign_i | enc_b _ => rewrite foreign_b
      | VInt _ => rewrite foreign_int | VInf _ => rewrite foreign_inf
      | VTuple (VInt _ :: _) => rewrite foreign_cons_int
      | VTuple (enc_f _ :: _) => rewrite foreign_cons_f
      | VTuple (enc_i _ :: _) => rewrite foreign_cons_i
      | VTuple (enc_b _ :: _) => rewrite foreign_cons_b
      | VTuple [] => rewrite foreign_nil
      end
  | |- context [val_eqb ?x ?y] =>
      lazymatch x with
      | VInt _ => rewrite val_eqb_int
      | VStr _ => rewrite val_eqb_str
      end
  | |- context [binop_eval ?op ?x ?y _] =>
      lazymatch x with
      | VInt _ =>
          lazymatch y with
          | VInt _ => lazymatch op with Add => rewrite binop_add_zz | Sub => rewrite binop_sub_zz | Mul => rewrite binop_mul_zz end
          | enc_f _ => rewrite binop_z_f by reflexivity
          end
      | VQ _ =>
          lazymatch y with
          | VQ _ => rewrite binop_sub_qq
          | enc_f _ => rewrite binop_q_f
          | enc_logsm _ => rewrite binop_q_logsm
          end
      | enc_f _ => rewrite binop_ff
      | enc_i _ => lazymatch y with enc_i _ => rewrite binop_ii end
      end
  | |- context [Pos.to_nat 1] => rewrite p2n1
  | |- context [Pos.to_nat 2] => rewrite p2n2
  | |- context [Pos.to_nat 3] => change (Pos.to_nat 3) with 3%nat
  | |- context [Pos.to_nat 4] => change (Pos.to_nat 4) with 4%nat
  | |- context [Pos.to_nat 5] => change (Pos.to_nat 5) with 5%nat
  | |- context [Pos.to_nat 6] => change (Pos.to_nat 6) with 6%nat
  | |- context [cmp_eval ?op ?x ?y] =>
      lazymatch op with
      | Lt => rewrite cmp_lt_int
      | NotEq => rewrite cmp_ne
      | Eq => rewrite cmp_eq_int
      | Is => lazymatch x with VNone => rewrite cmp_is_none_none | VStr _ => rewrite cmp_is_str_none | enc_b _ => rewrite cmp_is_b_none end
      | IsNot => lazymatch x with VNone => rewrite cmp_isnot_none_none | VStr _ => rewrite cmp_isnot_str_none end
      end
  end.

Ltac go := repeat (progress (unfold set_var, vnat; cbn; rw)).

Ltac dcondF := match goal with |- simF ?L ?R => match L with context [if ?c then _ else _] => match R with context [c] => destruct c eqn:? end end end.
Ltac doptF := match goal with
   | H : ?o = _ |- context [okf _ ?o _] => rewrite H
   | H : ?o = _ |- context [oki _ ?o _] => rewrite H
   | H : ?o = _ |- context [okb _ ?o _] => rewrite H
   | H : ?o = _ |- context [okS _ _ ?o _] => rewrite H
   | |- simF ?L ?R => match L with
     | context [okf _ ?o _] => match R with context [o] => destruct o eqn:? end
     | context [oki _ ?o _] => match R with context [o] => destruct o eqn:? end
     | context [okb _ ?o _] => match R with context [o] => destruct o eqn:? end
     | context [okS _ _ ?o _] => match R with context [o] => destruct o eqn:? end
     | context [adv_call ?a ?b] => match R with context [adv_call a b] => destruct (adv_call a b) eqn:? end
     end
   end.
Ltac unfF := first [ progress unfold frame_prog | progress unfold prog_fuse | progress unfold prog_lmstate | progress unfold prog_mask ].
Ltac auto1F := first [ dcondF; go | doptF; go | step; go | unfF; go ].
Ltac closeF := try lazymatch goal with
  | |- True => exact I
  | |- _ /\ _ => split; reflexivity
  end.
Ltac auto2F := auto1F; closeF.

Lemma fused_false_l b : fused b false = false. Proof. reflexivity. Qed.

Ltac dcondR := match goal with |- simR ?L ?R => match L with context [if ?c then _ else _] => match R with context [c] => destruct c eqn:? end end end.
Ltac doptR := match goal with
   | |- simR ?L ?R => match L with
     | context [okf _ ?o _] => match R with context [o] => destruct o eqn:? end
     | context [oki _ ?o _] => match R with context [o] => destruct o eqn:? end
     end
   end.
Ltac auto2R := first [ dcondR; go | doptR; go | step; go | progress unfold final_prog; go ];
  try lazymatch goal with |- True => exact I | |- @eq val _ _ => reflexivity end.

Theorem final_is_prog : forall has_lm vm width N Kp nb b y ylens last isp pv,
  let c := mkCarT (Z.of_nat Kp) nb b y last ylens isp pv in
  simR (Interp.run EB fwd_final (final_vars (self_val has_lm beta vm width) (VInt (Z.of_nat N)) (enc_carT c)))
       (final_prog width N c).
Proof.
  intros has_lm vm width N Kp nb b y ylens last isp pv c. subst c.
  match goal with |- simR (Interp.run ?e ?s ?vs) _ => change (Interp.run e s vs) with (fin (exec e s (mkState vs []))) end.
  unfold fwd_final, final_vars, enc_carT, self_val.
  cbn [k_pw k_nb k_b k_y k_last k_lens k_isp k_prev cr_pw cr_nb cr_b cr_y cr_last cr_lens cr_isp cr_prev].
  repeat auto2R.
Time Qed.

Theorem frame_is_prog : forall has_lm vm width N V Kp t len_min lens nonext_probs blank_probs pad_y nb b y last ylens isp St pv,
  let c := mkCarT (Z.of_nat Kp) nb b y last ylens isp (if fused beta has_lm then enc_lms St else pv) in
  simF (Interp.run EB fwd_frame
          (frame_vars (self_val has_lm beta vm width) (VInt (Z.of_nat N)) (VInt (Z.of_nat V)) t len_min (enc_i lens)
             (enc_f nonext_probs) (enc_f blank_probs) (enc_i pad_y) (enc_carT c)))
       (frame_prog sel lmS beta sos Vv has_lm vm width N V t len_min lens nonext_probs blank_probs pad_y c St).
Proof.
  intros has_lm vm width N V Kp t len_min lens nonext_probs blank_probs pad_y nb b y last ylens isp St pv c.
  subst c.
  match goal with |- simF (Interp.run ?e ?s ?vs) _ => change (Interp.run e s vs) with (fin (exec e s (mkState vs []))) end.
  unfold fwd_frame, frame_vars, enc_carT, self_val, fused, lm_token.
  cbn [k_pw k_nb k_b k_y k_last k_lens k_isp k_prev cr_pw cr_nb cr_b cr_y cr_last cr_lens cr_isp cr_prev].
  destruct has_lm.
  2:{ cbn [andb]. repeat auto2F. }
  cbn [andb]. destruct (Qeq_bool beta 0) eqn:Hb; cbn [negb].
  - repeat auto2F.
  - destruct vm.
    + repeat auto2F.
    + repeat auto2F.
Time Qed.
End Run.
