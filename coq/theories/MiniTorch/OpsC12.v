(* MiniTorch, unit C12Src — the meaning given to the torch operations that occur in `_load_ref`, `_write_hyp`
   and `_info_and_validate` (src/pydrobert/torch/_datasets.py).  DEFINITIONS ONLY; the algebra is in
   LemmasC12.v, the unit's [ext] in C12/SrcRun.v.

   A tensor here is (device is cuda?, dtype, shape, row-major INTEGER payload): what PV.C12.Model keeps of a
   stored tensor.  Integers are UNBOUNDED; a value is only ever WRITTEN into a tensor (new_full, x[i] = v,
   torch.full) when it is representable in the tensor's dtype ([in_range]) - the one exception is the
   constant -1 written into a uint8 tensor, which torch 2.x wraps to 255 (observed; Model.minus1) - anything
   else is outside the modelled domain.  Float tensors carry integer payloads (the data the harness stores);
   `.long()` keeps the payload.  Feature tensors are represented without payload (data = []): only their
   metadata is looked at by the tied code.  Strides / views are not modelled: a tensor is its logical content
   (the harness stores non-contiguous views too).

   Operations are defined on the ranks stated with each of them and return [Undef] ([None]) outside that
   domain; the unit's [ext] turns that into [Stuck], so a tie lemma about a run that leaves the domain cannot
   be proved (fail-closed).  [Raise e] = the Python exception torch raises there (observed with torch 2.x,
   exercised by the harness-side source run).

   Each definition quotes the sentence of the torch documentation (2.x) it models.  This file is TRUSTED by the
   C12 source tie; it is exercised on every run by harness/props/c12_tie.py (CPython/torch vs the interpreted
   source on the same inputs). *)
From Coq Require Import List ZArith Bool Arith String.
From PV Require Import C12.Model.     (* dtype, dtype_beq, minus1 *)
Import ListNotations.
Local Open Scope string_scope.
Local Open Scope list_scope.

Record tens := mkT { t_cuda : bool; t_dtype : dtype; t_shape : list nat; t_data : list Z }.

Inductive res (A : Type) := Val (a : A) | Raise (e : string) | Undef.
Arguments Val {A}. Arguments Raise {A}. Arguments Undef {A}.

Definition numel_of (s : list nat) : nat := fold_right Nat.mul 1%nat s.

(* the data cut into [cnt] consecutive rows of length [k] *)
Fixpoint chunks {A} (cnt k : nat) (d : list A) : list (list A) :=
  match cnt with O => [] | S c => firstn k d :: chunks c k (skipn k d) end.

Fixpoint shape_eqb (a b : list nat) : bool :=
  match a, b with
  | [], [] => true
  | x :: a', y :: b' => (x =? y)%nat && shape_eqb a' b'
  | _, _ => false
  end.

(* the canonical 1-D and 2-D tensors *)
Definition T1 (cu : bool) (dt : dtype) (l : list Z) : tens := mkT cu dt [List.length l] l.
Definition T2 (cu : bool) (dt : dtype) (w : nat) (rows : list (list Z)) : tens :=
  mkT cu dt [List.length rows; w] (List.concat rows).

(* ---- values a dtype can hold (as far as the tie needs: what may be written into a tensor) ------------------- *)
Definition in_range (dt : dtype) (v : Z) : bool :=
  match dt with
  | DU8 => (0 <=? v)%Z && (v <=? 255)%Z
  | DI8 => (-128 <=? v)%Z && (v <=? 127)%Z
  | DI16 => (-32768 <=? v)%Z && (v <=? 32767)%Z
  | DI32 => (-2147483648 <=? v)%Z && (v <=? 2147483647)%Z
  | DI64 => true                           (* integers are unbounded here: no int64 wrap-around is modelled *)
  | DF16 => (-2048 <=? v)%Z && (v <=? 2048)%Z                         (* integers exactly representable *)
  | DF32 => (-16777216 <=? v)%Z && (v <=? 16777216)%Z
  | DF64 => (-9007199254740992 <=? v)%Z && (v <=? 9007199254740992)%Z
  | DBool | DOther => false                                            (* not modelled *)
  end.

(* the element stored when the Python number v is written into a tensor of dtype dt; -1 into uint8 is 255 *)
Definition cast_fill (dt : dtype) (v : Z) : option Z :=
  if in_range dt v then Some v
  else match dt with DU8 => if (v =? -1)%Z then Some 255%Z else None | _ => None end.

(* ---- metadata ---------------------------------------------------------------------------------------------------- *)
(* Tensor.ndim / Tensor.dim(): "Returns the number of dimensions of self tensor." *)
Definition ndim (t : tens) : nat := List.length (t_shape t).

(* Tensor.size(dim): "Returns the size of the self tensor. If dim is specified, returns an int holding the size of
   that dimension."  (0 <= dim < ndim only) *)
Definition size (t : tens) (d : Z) : option nat :=
  if (d <? 0)%Z then None else nth_error (t_shape t) (Z.to_nat d).

(* Tensor.numel(): "Returns the total number of elements in the input tensor." *)
Definition numel (t : tens) : nat := numel_of (t_shape t).

(* Tensor.cpu(): "Returns a copy of this object in CPU memory. If this object is already in CPU memory ... then no
   copy is performed and the original object is returned." *)
Definition cpu (t : tens) : tens := mkT false (t_dtype t) (t_shape t) (t_data t).

(* Tensor.long(): "self.long() is equivalent to self.to(torch.int64)."  (integer payloads are kept) *)
Definition long (t : tens) : tens := mkT (t_cuda t) DI64 (t_shape t) (t_data t).

(* ---- construction ------------------------------------------------------------------------------------------------ *)
(* Tensor.new_full(size, fill_value): "Returns a Tensor of size size filled with fill_value. By default, the
   returned Tensor has the same torch.dtype and torch.device as this tensor." *)
Definition new_full (t : tens) (s : list nat) (v : Z) : option tens :=
  match cast_fill (t_dtype t) v with
  | Some x => Some (mkT (t_cuda t) (t_dtype t) s (repeat x (numel_of s)))
  | None => None
  end.

(* torch.full(size, fill_value, dtype=torch.long): "Creates a tensor of size size filled with fill_value."  (CPU) *)
Definition full_long (s : list nat) (v : Z) : option tens := Some (mkT false DI64 s (repeat v (numel_of s))).

(* Tensor.unsqueeze(dim): "Returns a new tensor with a dimension of size one inserted at the specified position."
   (0 <= dim <= ndim; the row-major content is unchanged) *)
Definition unsqueeze (t : tens) (d : Z) : option tens :=
  if ((0 <=? d)%Z && (Z.to_nat d <=? ndim t)%nat)%bool
  then Some (mkT (t_cuda t) (t_dtype t)
                 (firstn (Z.to_nat d) (t_shape t) ++ 1%nat :: skipn (Z.to_nat d) (t_shape t)) (t_data t))
  else None.

(* torch.cat(tensors, dim): "Concatenates the given sequence of tensors in the given dimension. All tensors must
   either have the same shape (except in the concatenating dimension) or be a 1-D empty tensor with size (0,)."
   Two tensors, dim 0 (any rank >= 1) or dim 1 (rank 2), same dtype and device (otherwise type promotion /
   a device error: not modelled).  A shape mismatch raises RuntimeError ("Tensors must have same number of
   dimensions", "zero-dimensional tensor cannot be concatenated", "Sizes of tensors must match"); the legacy
   exemption of a (0,) tensor next to a tensor of another rank is not modelled. *)
Definition is_empty_1d (t : tens) : bool := match t_shape t with [O] => true | _ => false end.

Definition cat (a b : tens) (d : Z) : res tens :=
  if negb (dtype_beq (t_dtype a) (t_dtype b) && Bool.eqb (t_cuda a) (t_cuda b)) then Undef
  else
  match t_shape a, t_shape b with
  | n1 :: s1, n2 :: s2 =>
      if (d =? 0)%Z then
        if shape_eqb s1 s2 then Val (mkT (t_cuda a) (t_dtype a) ((n1 + n2)%nat :: s1) (t_data a ++ t_data b))
        else if (negb (List.length s1 =? List.length s2)%nat && (is_empty_1d a || is_empty_1d b))%bool then Undef
        else Raise "RuntimeError"
      else if (d =? 1)%Z then
        match s1, s2 with
        | [w1], [w2] =>
            if (n1 =? n2)%nat
            then Val (mkT (t_cuda a) (t_dtype a) [n1; (w1 + w2)%nat]
                          (List.concat (map (fun p => fst p ++ snd p) (combine (chunks n1 w1 (t_data a)) (chunks n2 w2 (t_data b))))))
            else Raise "RuntimeError"
        | _, _ => Undef
        end
      else Undef
  | _, _ => if (d =? 0)%Z then Raise "RuntimeError" else Undef     (* a 0-d tensor cannot be concatenated *)
  end.

(* ---- reading ------------------------------------------------------------------------------------------------------ *)
(* x[..., c] / x[:, c] on a 2-D tensor: column c ("index c is out of bounds for dimension 1" -> IndexError);
   negative c not modelled *)
Definition select_col (t : tens) (c : Z) : res tens :=
  match t_shape t with
  | [n; w] =>
      if (c <? 0)%Z then Undef
      else if (Z.to_nat c <? w)%nat
      then Val (mkT (t_cuda t) (t_dtype t) [n] (map (fun r => nth (Z.to_nat c) r 0%Z) (chunks n w (t_data t))))
      else Raise "IndexError"
  | _ => Undef
  end.

(* Python's clipping of a slice bound against a length n *)
Definition clip (n : nat) (dflt : nat) (b : option Z) : nat :=
  match b with
  | None => dflt
  | Some z => if (z <? 0)%Z then Z.to_nat (Z.max 0 (z + Z.of_nat n)) else Nat.min n (Z.to_nat z)
  end.

(* x[a:b] (basic slicing of the first dimension, no step, Python's clipping); rank 1 or 2 *)
Definition slice0 (t : tens) (a b : option Z) : option tens :=
  match t_shape t with
  | [n] =>
      let lo := clip n 0 a in let hi := clip n n b in
      let sel := firstn (hi - lo) (skipn lo (t_data t)) in
      Some (mkT (t_cuda t) (t_dtype t) [List.length sel] sel)
  | [n; w] =>
      let lo := clip n 0 a in let hi := clip n n b in
      let sel := firstn (hi - lo) (skipn lo (chunks n w (t_data t))) in
      Some (mkT (t_cuda t) (t_dtype t) [List.length sel; w] (List.concat sel))
  | _ => None
  end.

(* x[i] with an integer i (negative: from the end; out of range: IndexError): an element of a 1-D tensor (a 0-d
   tensor, represented by its integer, see SrcRun.v) or a row of a 2-D tensor *)
Definition norm_index (n : nat) (i : Z) : option nat :=
  let j := if (i <? 0)%Z then (i + Z.of_nat n)%Z else i in
  if ((0 <=? j)%Z && (j <? Z.of_nat n)%Z)%bool then Some (Z.to_nat j) else None.

Definition get_item (t : tens) (i : Z) : res (Z + tens) :=
  match t_shape t with
  | [n] => match norm_index n i with
           | Some j => Val (inl (nth j (t_data t) 0%Z))
           | None => Raise "IndexError"
           end
  | [n; w] => match norm_index n i with
              | Some j => Val (inr (mkT (t_cuda t) (t_dtype t) [w] (nth j (chunks n w (t_data t)) [])))
              | None => Raise "IndexError"
              end
  | _ => Undef
  end.

(* Tensor.item(): "Returns the value of this tensor as a standard Python number. This only works for tensors with
   one element." *)
Definition item (t : tens) : option Z :=
  match t_data t with [x] => if (numel t =? 1)%nat then Some x else None | _ => None end.

(* Tensor.tolist() of a 2-D tensor: "Returns the tensor as a (nested) list." *)
Definition tolist2 (t : tens) : option (list (list Z)) :=
  match t_shape t with [n; w] => Some (chunks n w (t_data t)) | _ => None end.

(* iterating over a 2-D tensor (enumerate(x)): its rows x[0], x[1], ... as 1-D tensors *)
Definition rows_of (t : tens) : option (list tens) :=
  match t_shape t with
  | [n; w] => Some (map (fun r => mkT (t_cuda t) (t_dtype t) [w] r) (chunks n w (t_data t)))
  | _ => None
  end.

(* Tensor.eq(other): "Computes element-wise equality. other: the tensor or value to compare.  Returns a boolean
   tensor that is True where input is equal to other and False elsewhere."  (other a Python int) *)
Definition eq_scalar (t : tens) (s : Z) : tens :=
  mkT (t_cuda t) DBool (t_shape t) (map (fun x => if (x =? s)%Z then 1%Z else 0%Z) (t_data t)).

(* torch.nonzero(input, as_tuple=False): "Returns a tensor containing the indices of all non-zero elements of
   input. Each row in the result contains the indices of a non-zero element in input ... the resulting tensor is
   of size z x n" (long, on input's device).  1-D input only. *)
Fixpoint nonzero_idx (i : Z) (l : list Z) : list Z :=
  match l with
  | [] => []
  | x :: r => if (x =? 0)%Z then nonzero_idx (i + 1) r else i :: nonzero_idx (i + 1) r
  end.

Definition nonzero (t : tens) : option tens :=
  match t_shape t with
  | [n] => let idx := nonzero_idx 0 (t_data t) in
           Some (mkT (t_cuda t) DI64 [List.length idx; 1%nat] idx)
  | _ => None
  end.

(* ---- writing ------------------------------------------------------------------------------------------------------ *)
Fixpoint set_nth {A} (l : list A) (i : nat) (v : A) : list A :=
  match l, i with
  | [], _ => []
  | _ :: r, O => v :: r
  | x :: r, S i' => x :: set_nth r i' v
  end.

(* x[i] = v on a 1-D tensor, v a Python int (0 <= i; "index i is out of bounds" -> IndexError) *)
Definition set_item (t : tens) (i : Z) (v : Z) : res tens :=
  match t_shape t with
  | [n] =>
      if (i <? 0)%Z then Undef
      else if (Z.to_nat i <? n)%nat then
        match cast_fill (t_dtype t) v with
        | Some x => Val (mkT (t_cuda t) (t_dtype t) [n] (set_nth (t_data t) (Z.to_nat i) x))
        | None => Undef
        end
      else Raise "IndexError"
  | _ => Undef
  end.

(* x[a:b] = v on a 1-D tensor, v a Python int: every selected element becomes v *)
Definition fill_slice (t : tens) (a b : option Z) (v : Z) : option tens :=
  match t_shape t, cast_fill (t_dtype t) v with
  | [n], Some x =>
      let lo := clip n 0 a in let hi := clip n n b in
      Some (mkT (t_cuda t) (t_dtype t) [n]
                ((firstn lo (t_data t) ++ repeat x (List.length (firstn (hi - lo) (skipn lo (t_data t))))
                 ++ skipn (lo + (hi - lo)) (t_data t))))
  | _, _ => None
  end.

(* x[i] = r on a 2-D tensor, r a 1-D tensor of x's width, dtype and device (0 <= i < n): row i becomes r *)
Definition set_row (t : tens) (i : Z) (r : tens) : option tens :=
  match t_shape t, t_shape r with
  | [n; w], [w'] =>
      if ((0 <=? i)%Z && (Z.to_nat i <? n)%nat && (w =? w')%nat
          && dtype_beq (t_dtype t) (t_dtype r) && Bool.eqb (t_cuda t) (t_cuda r))%bool
      then Some (mkT (t_cuda t) (t_dtype t) [n; w] (List.concat (set_nth (chunks n w (t_data t)) (Z.to_nat i) (t_data r))))
      else None
  | _, _ => None
  end.

(* ---- classes ------------------------------------------------------------------------------------------------------ *)
(* isinstance(x, torch.LongTensor) etc.: the legacy tensor types are the CPU tensors of one dtype ("torch.LongTensor:
   64-bit integer (signed), CPU tensor"; ByteTensor uint8, CharTensor int8, ShortTensor int16, IntTensor int32);
   every tensor is a torch.Tensor *)
Definition class_dtype (c : string) : option dtype :=
  if String.eqb c "LongTensor" then Some DI64
  else if String.eqb c "ByteTensor" then Some DU8
  else if String.eqb c "CharTensor" then Some DI8
  else if String.eqb c "ShortTensor" then Some DI16
  else if String.eqb c "IntTensor" then Some DI32
  else None.

Definition instance_of (t : tens) (c : string) : option bool :=
  if String.eqb c "Tensor" then Some true
  else match class_dtype c with
       | Some dt => Some (negb (t_cuda t) && dtype_beq (t_dtype t) dt)
       | None => None
       end.

Definition dtype_name (d : dtype) : string :=
  match d with
  | DF16 => "float16" | DF32 => "float32" | DF64 => "float64" | DI64 => "int64" | DI32 => "int32"
  | DI16 => "int16" | DI8 => "int8" | DU8 => "uint8" | DBool => "bool" | DOther => "other"
  end.

Definition dtype_of_name (s : string) : option dtype :=
  if String.eqb s "float16" then Some DF16 else if String.eqb s "float32" then Some DF32
  else if String.eqb s "float64" then Some DF64 else if String.eqb s "int64" then Some DI64
  else if String.eqb s "int32" then Some DI32 else if String.eqb s "int16" then Some DI16
  else if String.eqb s "int8" then Some DI8 else if String.eqb s "uint8" then Some DU8
  else if String.eqb s "bool" then Some DBool else if String.eqb s "other" then Some DOther else None.
