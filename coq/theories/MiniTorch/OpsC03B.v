(* MiniTorch, unit C03BSrc — the meaning given to the torch operations that occur in the translated
   `hard_optimal_completion_distillation_loss` (_string.py), IN ADDITION to those of OpsC03.v / OpsC01.v /
   OpsC07.v (imported read-only).  DEFINITIONS ONLY; the algebra is in LemmasC03B.v.

   Tensors are PV.MiniTorch.OpsC07.tn: (shape, row-major flat data) over bool / Z (torch.long, unbounded) /
   OpsC01.fx (exact rational, +inf, -inf, NaN).  IEEE rounding, signed zeros, dtypes' ranges, devices,
   strides / contiguity and the aliasing of views are NOT modelled.  Every operation returns [None] outside the
   domain stated with it; the unit's [ext] turns [None] into [Stuck] (fail-closed).

   log_softmax is NOT defined here: the logarithm of the softmax of one row of logits is an ORACLE
   [lsm : list fx -> list Q] (regime T of DESIGN.md: torch's log_softmax values are data, finite rationals);
   the tie theorems hold for every such function.

   Each definition quotes the sentence of the torch documentation (2.x) it models.  This file is TRUSTED by
   the second C03 tie; it is exercised on every run by the harness-side [C03.SrcRunB.src_loss_check]
   (torch vs the interpreted source on the same inputs). *)
From Coq Require Import List ZArith QArith Bool Arith String.
From PV Require Import MiniPy.Syntax MiniTorch.Ops MiniTorch.OpsC07 MiniTorch.OpsC01 MiniTorch.OpsC03.
Import ListNotations.
Local Open Scope nat_scope.

(* ---- shape queries and shape-only operations ------------------------------------------------------------ *)
(* Tensor.size(dim): "Returns the size of the self tensor.  If dim is not specified, the returned value is a
   torch.Size ...  If dim is specified, returns an int holding the size of that dimension."  Negative dim
   counts from the end.  None: dim outside [-rank, rank) (torch: IndexError) *)
Definition size_dim {X} (x : tn X) (d : Z) : option nat :=
  option_map (extent (shp x)) (wrap_dim (rank x) d).

(* Tensor.expand( *sizes) of a 4-D tensor to 4 sizes: "Returns a new view of the self tensor with singleton
   dimensions expanded to a larger size.  Passing -1 as the size for a dimension means not changing the size of
   that dimension."  Each size is -1, the present size, or the present size is 1 (OpsC01.expand_size); along an
   expanded dimension the single entry is repeated.  None otherwise *)
Definition expand4 {X} (d : X) (x : tn X) (s0 s1 s2 s3 : Z) : option (tn X) :=
  match shp x with
  | [a; b; c; e] =>
      match expand_size a s0, expand_size b s1, expand_size c s2, expand_size e s3 with
      | Some a', Some b', Some c', Some e' =>
          Some (mkTn [a'; b'; c'; e']
                  (tab4 a' b' c' e' (fun i j k l => nth (((bidx a i * b + bidx b j) * c + bidx c k) * e + bidx e l) (dat x) d)))
      | _, _, _, _ => None
      end
  | _ => None
  end.

(* Tensor.contiguous(): "Returns a contiguous in memory tensor containing the same data as self tensor."
   Every tensor of this model is row-major: the same tensor. *)

(* Tensor.flatten(start_dim=0, end_dim=-1): "Flattens input by reshaping it into a one-dimensional tensor.  If
   start_dim or end_dim are passed, only dimensions starting with start_dim and ending with end_dim are
   flattened.  The order of elements in input is unchanged."
   None: a dimension outside [-rank, rank) (0-d: not modelled), start after end (torch raises) *)
Definition flatten_range {X} (x : tn X) (s e : Z) : option (tn X) :=
  match wrap_dim (rank x) s, wrap_dim (rank x) e with
  | Some a, Some b =>
      if a <=? b
      then Some (mkTn (firstn a (shp x) ++ numel (firstn (S b - a) (skipn a (shp x))) :: skipn (S b) (shp x)) (dat x))
      else None
  | _, _ => None
  end.

(* ---- element-wise ----------------------------------------------------------------------------------------- *)
(* `~x` on a boolean tensor = torch.bitwise_not: "Computes the bitwise NOT of the given input tensor.  The input
   tensor must be of integral or Boolean types.  For bool tensors, it computes the logical NOT." *)
Definition not_b (x : tn bool) : tn bool := map_t negb x.

(* Tensor.clamp_min(min) = torch.clamp(input, min=min): "Clamps all elements in input into the range [min, max]
   ... y_i = max(x_i, min)" when only min is given.  Long tensor, integer number. *)
Definition clamp_min_i (x : tn Z) (c : Z) : tn Z := map_t (fun v => Z.max v c) x.

(* `x / y` with x a float tensor and y a long tensor = torch.div: "Divides each element of the input input by the
   corresponding element of other. ... Supports broadcasting to a common shape, type promotion ...  By default,
   this performs a "true" division like Python 3."  Type promotion converts the integers to the float type
   (assumed exact); IEEE division OpsC01.fdiv *)
Definition div_xi (a : tn fx) (b : tn Z) : option (tn fx) :=
  broadcast (fun x z => fdiv x (z2f z)) FNaN 0%Z a b.

(* ---- reductions of float tensors ------------------------------------------------------------------------------- *)
(* exact arithmetic: the order of summation does not matter; an empty sum is 0; NaN / infinities as IEEE (fadd) *)
Definition fsum (l : list fx) : fx := fold_right fadd (Fq 0) l.

(* Tensor.sum(dim) on a float tensor: "Returns the sum of each row of the input tensor in the given dimension dim.
   ... dim is squeezed ..., resulting in the output tensor having 1 fewer dimension."
   None: dim outside [-rank, rank) *)
Definition sum_dim_f (x : tn fx) (d : Z) : option (tn fx) :=
  match wrap_dim (rank x) d with
  | Some k =>
      let sh := shp x in
      Some (mkTn (drop_dim sh k)
              (tab2 (outer sh k) (inner sh k) (fun o i => fsum (fibre FNaN (extent sh k) (inner sh k) (dat x) o i))))
  | None => None
  end.

(* Tensor.sum() without arguments: "Returns the sum of all elements in the input tensor." (a 0-d tensor) *)
Definition sum_all_f (x : tn fx) : tn fx := mkTn [] [fsum (dat x)].

(* Tensor.mean() without arguments: "Returns the mean value of all elements in the input tensor." (a 0-d tensor);
   the sum divided by the number of elements - of an empty tensor 0 / 0 = NaN, as torch returns *)
Definition mean_all_f (x : tn fx) : tn fx :=
  mkTn [] [fdiv (fsum (dat x)) (z2f (Z.of_nat (List.length (dat x))))].

(* ---- cross entropy ---------------------------------------------------------------------------------------------- *)
(* torch.nn.functional.cross_entropy(input, target, weight=w, ignore_index=ign, reduction="none") with input of
   shape (M, V) - "input has to be a Tensor of size (minibatch, C)" - and target of shape (M) holding class
   indices: "The unreduced (i.e. with reduction set to 'none') loss can be described as
      l_n = - w_{y_n} log ( exp(x_{n,y_n}) / sum_{c=1..C} exp(x_{n,c}) ) * 1{y_n != ignore_index}"
   "ignore_index: Specifies a target value that is ignored and does not contribute to the input gradient";
   "weight: a manual rescaling weight given to each class.  If given, has to be a Tensor of size C" (None: no
   rescaling, the value is - log softmax(x_n)[y_n]).
   log softmax(x_n) of row n is [lsm x_n] (the oracle, finite rationals).
   Some None: a target that is neither ignore_index nor inside [0, V) - torch raises IndexError "Target t is out
   of bounds."   None: other shapes *)
Definition ce_entry (lsm : list fx -> list Q) (w : option (list fx)) (ign : Z) (row : list fx) (t : Z) : fx :=
  if (t =? ign)%Z then Fq 0
  else let nl := fneg (Fq (nth (Z.to_nat t) (lsm row) 0%Q)) in
       match w with
       | Some wv => fmul nl (nth (Z.to_nat t) wv FNaN)
       | None => nl
       end.

Definition class_ok (ign : Z) (v : nat) (t : Z) : bool :=
  ((t =? ign) || ((0 <=? t) && (t <? Z.of_nat v)))%Z%bool.

Definition cross_entropy_none (lsm : list fx -> list Q) (x : tn fx) (t : tn Z) (w : option (tn fx)) (ign : Z)
  : option (option (tn fx)) :=
  match shp x, shp t with
  | [m; v], [m'] =>
      if (m =? m') && match w with Some wt => nats_eqb (shp wt) [v] | None => true end
      then if forallb (class_ok ign v) (dat t)
           then Some (Some (mkTn [m] (map (fun i => ce_entry lsm (option_map dat w) ign (firstn v (skipn (i * v) (dat x)))
                                                      (nth i (dat t) 0%Z)) (seq 0 m))))
           else Some None
      else None
  | _, _ => None
  end.
