(* C17 - lemmas: strings, file selection by prefix and suffix, directories as maps. *)
From Coq Require Import List ZArith Bool Arith Lia Permutation.
From PV Require Import C11.Model C17.Model C17.Spec.
Import ListNotations.
Local Open Scope Z_scope.

(* ---------- strings ------------------------------------------------------------------------- *)

Lemma str_eqb_iff a : forall b, str_eqb a b = true <-> a = b.
Proof.
  induction a as [|x a IH]; intros [|y b]; cbn [str_eqb]; try (split; [discriminate|congruence]).
  - split; reflexivity.
  - rewrite andb_true_iff, Z.eqb_eq, IH. split; [intros [-> ->]; reflexivity|intros H; inversion H; auto].
Qed.

Lemma str_eqb_refl a : str_eqb a a = true.
Proof. apply str_eqb_iff. reflexivity. Qed.

Lemma str_eqb_false a b : a <> b -> str_eqb a b = false.
Proof. intros H. destruct (str_eqb a b) eqn:E; [apply str_eqb_iff in E; contradiction|reflexivity]. Qed.

Lemma str_eqb_sym a b : str_eqb a b = str_eqb b a.
Proof.
  destruct (str_eqb a b) eqn:E.
  - apply str_eqb_iff in E. subst. symmetry. apply str_eqb_refl.
  - symmetry. apply str_eqb_false. intros ->. rewrite str_eqb_refl in E. discriminate.
Qed.

Lemma starts_with_app p x : starts_with p (p ++ x) = true.
Proof. induction p as [|a p IH]; cbn; [reflexivity|]. rewrite Z.eqb_refl. exact IH. Qed.

Lemma starts_with_split p : forall x, starts_with p x = true -> x = p ++ skipn (length p) x.
Proof.
  induction p as [|a p IH]; intros x H; [reflexivity|].
  destruct x as [|b x]; cbn in H; [discriminate|].
  apply andb_true_iff in H. destruct H as [H1 H2]. apply Z.eqb_eq in H1. subst b.
  cbn [length skipn app]. f_equal. apply IH. exact H2.
Qed.

Lemma ends_with_app s x : ends_with s (x ++ s) = true.
Proof. unfold ends_with. rewrite rev_app_distr. apply starts_with_app. Qed.

Lemma ends_with_split s x : ends_with s x = true -> x = firstn (length x - length s) x ++ s.
Proof.
  unfold ends_with. intros H. apply starts_with_split in H.
  assert (E : exists y, x = y ++ s).
  { exists (rev (skipn (length (rev s)) (rev x))).
    rewrite <- (rev_involutive x) at 1. rewrite H at 1. rewrite rev_app_distr, rev_involutive. reflexivity. }
  destruct E as [y E]. clear H. subst x.
  rewrite app_length. replace (length y + length s - length s)%nat with (length y) by lia.
  rewrite firstn_app, Nat.sub_diag, firstn_all. cbn [firstn]. rewrite app_nil_r. reflexivity.
Qed.

(* "for every file prefix and suffix": a written name is selected and gives its utterance back *)
Lemma select_written pre suf u :
  selected pre suf (fname pre suf u) = true /\ utt_of pre suf (fname pre suf u) = u.
Proof.
  unfold selected, fname, utt_of. split.
  - rewrite starts_with_app. rewrite app_assoc. rewrite ends_with_app. reflexivity.
  - rewrite skipn_app, skipn_all, Nat.sub_diag. cbn [skipn app].
    rewrite !app_length.
    replace (length pre + (length u + length suf) - length suf - length pre)%nat with (length u) by lia.
    rewrite firstn_app, Nat.sub_diag, firstn_all. cbn [firstn]. apply app_nil_r.
Qed.

(* a selected name that is long enough for both is prefix + utterance + suffix *)
Lemma select_wellformed pre suf x :
  selected pre suf x = true -> (length pre + length suf <= length x)%nat ->
  fname pre suf (utt_of pre suf x) = x.
Proof.
  unfold selected. intros H L. apply andb_true_iff in H. destruct H as [Hp Hs].
  apply starts_with_split in Hp. apply ends_with_split in Hs.
  set (m := skipn (length pre) x) in *. set (y := firstn (length x - length suf) x) in *.
  assert (Ly : (length pre <= length y)%nat).
  { unfold y. rewrite firstn_length. lia. }
  assert (Ey : y = pre ++ skipn (length pre) y).
  { rewrite <- (firstn_skipn (length pre) y) at 1. f_equal.
    assert (F : firstn (length pre) x = pre).
    { rewrite Hp. rewrite firstn_app, Nat.sub_diag, firstn_all. cbn [firstn]. apply app_nil_r. }
    transitivity (firstn (length pre) (y ++ suf)); [|rewrite <- Hs; exact F].
    rewrite firstn_app.
    replace (length pre - length y)%nat with 0%nat by lia. cbn [firstn]. rewrite app_nil_r. reflexivity. }
  set (u := skipn (length pre) y) in *.
  assert (Ex : x = fname pre suf u).
  { unfold fname. rewrite Hs. rewrite Ey. rewrite <- app_assoc. reflexivity. }
  rewrite Ex. f_equal. apply select_written.
Qed.

(* ... but the filter also takes names too short to be of that form *)
Lemma select_overlap_refuted :
  exists pre suf x, selected pre suf x = true /\ forall u, fname pre suf u <> x.
Proof.
  exists [97], [97], [97]. split; [reflexivity|].
  intros u H. unfold fname in H. apply (f_equal (@length Z)) in H.
  rewrite !app_length in H. cbn in H. lia.
Qed.

Lemma fname_inj pre suf u v : fname pre suf u = fname pre suf v -> u = v.
Proof.
  unfold fname. intros H. apply app_inv_head in H. apply app_inv_tail in H. exact H.
Qed.

(* ---------- directories ------------------------------------------------------------------------ *)

Lemma dir_get_put_same {A} n (v : A) d : dir_get (dir_put n v d) n = Some v.
Proof.
  unfold dir_get. induction d as [|[m w] t IH]; cbn [dir_put assoc].
  - rewrite str_eqb_refl. reflexivity.
  - destruct (str_eqb n m) eqn:E; cbn [assoc]; rewrite E; [reflexivity|exact IH].
Qed.

Lemma dir_get_put_other {A} n m (v : A) d : n <> m -> dir_get (dir_put n v d) m = dir_get d m.
Proof.
  unfold dir_get. intros H. induction d as [|[k w] t IH]; cbn [dir_put assoc].
  - rewrite (str_eqb_false m n) by congruence. reflexivity.
  - destruct (str_eqb n k) eqn:E; cbn [assoc].
    + apply str_eqb_iff in E. subst k. rewrite (str_eqb_false m n) by congruence. reflexivity.
    + destruct (str_eqb m k); [reflexivity|exact IH].
Qed.

Lemma dir_get_put {A} n m (v : A) d :
  dir_get (dir_put n v d) m = if str_eqb m n then Some v else dir_get d m.
Proof.
  destruct (str_eqb m n) eqn:E.
  - apply str_eqb_iff in E. subst. apply dir_get_put_same.
  - apply dir_get_put_other. intros ->. rewrite str_eqb_refl in E. discriminate.
Qed.

Lemma dir_get_in {A} (d : gdir A) n v : dir_get d n = Some v -> In (n, v) d.
Proof.
  unfold dir_get. induction d as [|[m w] t IH]; cbn [assoc]; [discriminate|].
  destruct (str_eqb n m) eqn:E.
  - apply str_eqb_iff in E. subst. intros H. inversion H. left. reflexivity.
  - intros H. right. apply IH. exact H.
Qed.

Lemma dir_get_nodup {A} (d : gdir A) n v : NoDup (map fst d) -> In (n, v) d -> dir_get d n = Some v.
Proof.
  unfold dir_get. induction d as [|[m w] t IH]; intros Hn Hi; [contradiction|].
  cbn [map fst] in Hn. inversion Hn as [|? ? Hnot Hnd]; subst. cbn [assoc].
  destruct Hi as [Hi|Hi].
  - inversion Hi. subst. rewrite str_eqb_refl. reflexivity.
  - destruct (str_eqb n m) eqn:E.
    + apply str_eqb_iff in E. subst m. exfalso. apply Hnot. apply (in_map fst) in Hi. exact Hi.
    + apply IH; assumption.
Qed.

Lemma dir_get_none {A} (d : gdir A) n : ~ In n (map fst d) -> dir_get d n = None.
Proof.
  unfold dir_get. induction d as [|[m w] t IH]; intros H; [reflexivity|].
  cbn [assoc]. cbn [map fst] in H. destruct (str_eqb n m) eqn:E.
  - apply str_eqb_iff in E. subst. exfalso. apply H. left. reflexivity.
  - apply IH. intros Hi. apply H. right. exact Hi.
Qed.

Lemma dir_get_some_in {A} (d : gdir A) n v : dir_get d n = Some v -> In n (map fst d).
Proof. intros H. apply dir_get_in in H. apply (in_map fst) in H. exact H. Qed.

(* the names of a directory after a write *)
Lemma dir_put_names {A} n (v : A) d :
  map fst (dir_put n v d) = if existsb (str_eqb n) (map fst d) then map fst d else map fst d ++ [n].
Proof.
  induction d as [|[m w] t IH]; cbn [dir_put map fst existsb]; [reflexivity|].
  destruct (str_eqb n m) eqn:E; cbn [orb map fst]; [reflexivity|].
  rewrite IH. destruct (existsb (str_eqb n) (map fst t)); reflexivity.
Qed.

Lemma existsb_str_in n l : existsb (str_eqb n) l = true <-> In n l.
Proof.
  rewrite existsb_exists. split.
  - intros [x [Hi He]]. apply str_eqb_iff in He. subst. exact Hi.
  - intros H. exists n. split; [exact H|apply str_eqb_refl].
Qed.

Lemma dir_put_nodup {A} n (v : A) d : NoDup (map fst d) -> NoDup (map fst (dir_put n v d)).
Proof.
  intros H. rewrite dir_put_names. destruct (existsb (str_eqb n) (map fst d)) eqn:E; [exact H|].
  apply (Permutation_NoDup (Permutation_cons_append (map fst d) n)).
  constructor; [|exact H]. intros Hi. apply existsb_str_in in Hi. congruence.
Qed.
