"""C03 — optimal-completion targets are exactly the distance-preserving next tokens; hard OCD loss.

Correspondence between /repo's optimal_completion / hard_optimal_completion_distillation_loss
(functional and module forms) and PV.C03.Model, evaluated inside Coq with vm_compute.
optimal_completion: regime E, costs k/4 (model on the integers k), the long tensor of targets is compared
entry by entry, shape included.  Loss: regime T, torch's float64 log_softmax of the logits is handed to the
model as exact rationals, the model does the selection / averaging / reduction exactly, tolerance 1e-9.
Sequence generators, tensor/literal helpers are imported from props.c01 (same input space).
"""
import itertools
import json
import random
import warnings
from fractions import Fraction

import torch

torch.set_num_threads(1)

from vlib import cb, cl, clz, cn, co, cq, cz, coq_eval_bools, coq_eval_print, exc_kind, load_corpus, shrink
from props import c01 as base
from props.c01 import SCALE, _cut, _dims, _mat, _mutate, _rand_seq, _tensor

IMPORTS = "From PV Require Import C01.Obs C01.Spec C01.Model C03.Spec C03.Model.\n"
TOL = Fraction(1, 10**9)
TOL_F32 = Fraction(1, 1000)  # float32 logits (|logit| <= 3, |loss| <= ~300 after 'sum'): rounding stays below 1e-4
THEOREMS = ["c03_best_completion_is_row_min", "c03_oc_member_iff", "c03_oc_row_correct", "c03_oc_sorted_nodup_then_padding",
            "c03_oc_past_end_is_padding", "c03_hard_ocd_loss_formula", "c03_hard_ocd_loss_reductions"]
REDS = {"none": "RNone", "sum": "RSum", "mean": "RMean"}
NEG_INF = float("-inf")
# PV.C03.Model works on rationals: a log-probability of -inf is handed over as this stand-in.  The model reads the table only
# at target classes, and a case in which a TARGET has log-probability -inf is judged by the python oracle of the definition
# (loss_oracle) instead - should the stand-in ever be read, the model's loss is off by ~1e30, never silently right.
NINF_STANDIN = Fraction(-10 ** 30)

# case = dict(api="oc"|"loss", module, kw, ref=[N seqs of width R], hyp=[N seqs of width H], eos, include_eos,
#             batch_first, exclude_last (oc only), costs=[ki,kd,ks] quarters, padding (oc: padding, loss: ignore_index),
#             warn; loss only: V, logits=[H][N][V] quarters, weight=None|[V] quarters, reduction)


# ------------------------------------------------------------------------------------------
# implementation
# ------------------------------------------------------------------------------------------
def _logits_tensor(case):
    """(H, N, V) or (N, H, V) logits k/4; 'f32': float32 instead of float64; 'llayout': another memory layout of the
    same logical tensor ('t' = storage of the other batch layout, 'offset' = interior slice of a larger buffer,
    'vlast' = class dimension not innermost in storage)"""
    N, R, H = _dims(case)
    dt = torch.float32 if case.get("f32") else torch.float64
    t = torch.tensor(case["logits"], dtype=dt).reshape(H, N, case["V"]) / 4.0
    if case.get("ninf"):  # 'ninf': 0/1 mask of the shape of 'logits' - the classes the network rules out (logit -inf)
        t = t.masked_fill(torch.tensor(case["ninf"], dtype=torch.bool).reshape(H, N, case["V"]), NEG_INF)
    lay = case.get("llayout")
    if lay == "t":
        return t.contiguous().transpose(0, 1) if case["batch_first"] else t.transpose(0, 1).contiguous().transpose(0, 1)
    t = t.transpose(0, 1).contiguous() if case["batch_first"] else t
    if lay == "offset":
        buf = torch.full((t.shape[0] + 2, t.shape[1] + 1, t.shape[2] + 3), 7.0, dtype=dt)
        buf[1:-1, 1:, 2:-1] = t
        return buf[1:-1, 1:, 2:-1]
    if lay == "vlast":
        return t.permute(2, 0, 1).contiguous().permute(1, 2, 0)
    return t


# the documented defaults of the public entry points (signature / docstring of the pinned version); an option that a
# 'sparse' call leaves out must behave as if this value had been passed.  ignore_index defaults to -2 in the function
# and to -100 in the module.
DEFAULTS = {
    "oc": dict(eos=None, include_eos=True, batch_first=False, ins_cost=1.0, del_cost=1.0, sub_cost=1.0, padding=-100,
               exclude_last=False, warn=True),
    "loss": dict(eos=None, include_eos=True, batch_first=False, ins_cost=1.0, del_cost=1.0, sub_cost=1.0, weight=None,
                 reduction="mean", ignore_index=-2, warn=True),
    "loss/module": dict(eos=None, include_eos=True, batch_first=False, ins_cost=1.0, del_cost=1.0, sub_cost=1.0,
                        weight=None, reduction="mean", ignore_index=-100, warn=True),
}


def _scale(case):
    return case.get("scale", SCALE)


def _fn(case):
    """the callable of the case's entry point: (ref, hyp) -> targets, or (logits, ref, hyp) -> loss"""
    import pydrobert.torch.functional as F
    import pydrobert.torch.modules as M

    # "cscale": a non-dyadic common factor, only ever attached to three EQUAL costs.  The implementation then takes
    # its uniform-cost path (unit costs, multiplied back); by c01_uniform_cost_shortcut the optimal-completion sets do
    # not depend on the common positive factor, so the model keeps the integer costs.
    ci, cd, cs = (k / _scale(case) * case.get("cscale", 1.0) for k in case["costs"])
    eos, ie, bf, pad, warn = case["eos"], case["include_eos"], case["batch_first"], case["padding"], case["warn"]
    entry = case.get("entry")
    if case["api"] == "oc":
        o = dict(eos=eos, include_eos=ie, batch_first=bf, ins_cost=ci, del_cost=cd, sub_cost=cs, padding=pad,
                 exclude_last=case["exclude_last"], warn=warn)
        if entry == "sparse":
            kw = base.sparse_kwargs(o, DEFAULTS["oc"], case.get("keep", ()))
            return M.OptimalCompletion(**kw) if case["module"] else (lambda ref, hyp: F.optimal_completion(ref, hyp, **kw))
        if entry == "script":
            return torch.jit.script(M.OptimalCompletion(*o.values()))
        if entry == "trace":
            ex = torch.full((1, 1), 0 if eos is None else eos, dtype=torch.long)
            return torch.jit.trace(M.OptimalCompletion(*o.values()), (ex, ex))
        if entry == "script_fn":
            f = torch.jit.script(F.optimal_completion)
            return lambda ref, hyp: f(ref, hyp, *o.values())
        if case["module"]:
            return M.OptimalCompletion(*o.values())
        if case.get("kw"):
            rev = dict(reversed(list(o.items())))
            return lambda ref, hyp: F.optimal_completion(hyp=hyp, ref=ref, **rev)
        return lambda ref, hyp: F.optimal_completion(ref, hyp, *o.values())
    dt = torch.float32 if case.get("f32") else torch.float64
    w = None if case["weight"] is None else torch.tensor(case["weight"], dtype=dt) / 4.0
    o = dict(eos=eos, include_eos=ie, batch_first=bf, ins_cost=ci, del_cost=cd, sub_cost=cs, weight=w,
             reduction=case["reduction"], ignore_index=pad, warn=warn)
    ctor = [v for k, v in o.items() if k != "warn"]
    if entry == "sparse":
        d = DEFAULTS["loss/module" if case["module"] else "loss"]
        kw = base.sparse_kwargs({k: v for k, v in o.items() if k != "weight"}, d, case.get("keep", ()))
        if w is not None or "weight" in case.get("keep", ()):
            kw["weight"] = w
        if case["module"]:
            m = M.HardOptimalCompletionDistillationLoss(**{k: v for k, v in kw.items() if k != "warn"})
            fw = {"warn": kw["warn"]} if "warn" in kw else {}
            return lambda logits, ref, hyp: m(logits, ref, hyp, **fw)
        return lambda logits, ref, hyp: F.hard_optimal_completion_distillation_loss(logits, ref, hyp, **kw)
    if entry == "script":
        m = torch.jit.script(M.HardOptimalCompletionDistillationLoss(*ctor))
        return lambda logits, ref, hyp: m(logits, ref, hyp, warn)
    if entry == "trace":
        ex = torch.full((1, 1), 0 if eos is None else eos, dtype=torch.long)
        return torch.jit.trace(M.HardOptimalCompletionDistillationLoss(*ctor), (torch.zeros(1, 1, case["V"], dtype=dt), ex, ex))
    if entry == "script_fn":
        f = torch.jit.script(F.hard_optimal_completion_distillation_loss)
        return lambda logits, ref, hyp: f(logits, ref, hyp, *o.values())
    if case["module"]:
        m = M.HardOptimalCompletionDistillationLoss(*ctor)
        return lambda logits, ref, hyp: m(logits, ref, hyp, warn=warn)
    if case.get("kw"):
        rev = dict(reversed(list(o.items())))
        return lambda logits, ref, hyp: F.hard_optimal_completion_distillation_loss(hyp=hyp, ref=ref, logits=logits, **rev)
    return lambda logits, ref, hyp: F.hard_optimal_completion_distillation_loss(logits, ref, hyp, *o.values())


def _call(case, ref, hyp):
    with warnings.catch_warnings():
        warnings.simplefilter("ignore")
        fn = _fn(case)
        return fn(ref, hyp) if case["api"] == "oc" else fn(_logits_tensor(case), ref, hyp)


def _frac(x):
    fr = Fraction(float(x))
    return f"{fr.numerator}/{fr.denominator}"


def _raw(x):
    x = float(x)
    return _frac(x) if x == x and abs(x) != float("inf") else str(x)


def run_impl(case):
    N, R, H = _dims(case)
    try:
        bf = case["batch_first"]
        lay = case.get("layout") or ("contig", "contig")
        junk = 0 if case["eos"] is None else case["eos"]
        ref = base._tensor_l(case["ref"], R, bf, lay[0], junk)
        hyp = ref if (case.get("alias") and case["ref"] == case["hyp"]) else base._tensor_l(case["hyp"], H, bf, lay[1], junk)
        with warnings.catch_warnings():
            warnings.simplefilter("ignore")
            fn = _fn(case)
        sd = 1 if bf else 0
        if case["api"] == "oc":
            out, flags = base.call_with_history(case, fn, [ref, hyp], [sd, sd])
        else:
            out, flags = base.call_with_history(case, fn, [_logits_tensor(case), ref, hyp], [sd, sd, sd])
        res = {"shape": list(out.shape), "dtype": str(out.dtype)}
        res.update(flags)
        if case["api"] == "oc":
            res["val"] = out.tolist()
        elif not bool(torch.isfinite(out).all()):
            res["val"] = "nonfinite"
            if case.get("ninf") and out.dim() in (0, 2):  # entry by entry, for the oracle: 'inf' / '-inf' / 'nan' / 'p/q'
                res["raw"] = _raw(out.item()) if out.dim() == 0 else [[_raw(x) for x in row] for row in out.tolist()]
        elif out.dim() == 0:
            res["val"] = _frac(out)
        else:
            res["val"] = [[_frac(x) for x in row] for row in out.tolist()]
        return res
    except Exception as e:  # no exception is a legal outcome inside the input space
        return {"exc": exc_kind(e), "msg": str(e)[:200]}


# ------------------------------------------------------------------------------------------
# Coq terms
# ------------------------------------------------------------------------------------------
def _q(s):
    return cq(Fraction(s))


def _cfg(case, excl=None):
    ki, kd, ks = case["costs"]
    eos = co(None if case["eos"] is None else cz(case["eos"]))
    excl = case.get("exclude_last", True) if excl is None else excl
    return (f"(mkCfg {eos} {cb(case['include_eos'])} false {cb(case['batch_first'])} "
            f"{cz(ki)} {cz(kd)} {cz(ks)} {cz(case['padding'])} {cb(excl)})")


def _rows(case):
    N, R, H = _dims(case)
    return 1 + max(H + (0 if case.get("exclude_last", True) else 1) - 1, 0)


def _oc_shape_ok(case, out):
    N, R, H = _dims(case)
    sh = out["shape"]
    if len(sh) != 3:
        return False
    T = _rows(case)
    return sh[:2] == ([N, T] if case["batch_first"] else [T, N])


def _logp(case):
    """torch's own float64 log_softmax of the logits, in the case's layout (regime T oracle)"""
    lp = torch.log_softmax(_logits_tensor(case), -1)
    ninf = cq(NINF_STANDIN)
    return cl([cl([cl([ninf if x == NEG_INF else _q(_frac(x)) for x in v]) for v in row]) for row in lp.tolist()])


def loss_oracle(case):
    """The loss by the DEFINITION in the property text, nothing of the library or of the Coq model: the optimal-completion
    targets of every prefix from oracle_pair (exact integer table), torch's log_softmax of the logits as data (as for the
    model), per step the mean of -log p (times the class weight, if weights are given) over the targets, exactly 0 where
    there are none, +inf ('inf') where a target has log-probability -inf (its weight must be > 0: 0 * inf is excluded by
    in_space).  -> ('grid', [H][N] of Fraction | 'inf') for reduction 'none', ('scalar', Fraction | 'inf') for 'sum' /
    'mean' (per sequence: sum over the steps / number of steps with a target, at least 1; then the batch mean), or None
    when a pair is the excluded one (empty hypothesis: no prefix exists)."""
    N, R, H = _dims(case)
    lp = torch.log_softmax(_logits_tensor(case), -1)
    if case["batch_first"]:
        lp = lp.transpose(0, 1)
    lp = lp.tolist()
    w = None if case["weight"] is None else [Fraction(k, 4) for k in case["weight"]]
    wants = [oracle_pair(case, n)[0] for n in range(N)]
    if any(x == "any" for want in wants for x in want):
        return None
    grid = [[Fraction(0)] * N for _ in range(H)]
    for n in range(N):
        for k in range(H):
            ts = wants[n][k] or []
            if not ts:
                continue
            if any(lp[k][n][t] == NEG_INF for t in ts):
                grid[k][n] = "inf"
            else:
                grid[k][n] = sum(-Fraction(lp[k][n][t]) * (1 if w is None else w[t]) for t in ts) / len(ts)
    if case["reduction"] == "none":
        return "grid", ([list(col) for col in zip(*grid)] if case["batch_first"] else grid)
    if any(x == "inf" for row in grid for x in row):
        return "scalar", "inf"
    if case["reduction"] == "sum":
        return "scalar", sum((x for row in grid for x in row), Fraction(0))
    per = [sum((grid[k][n] for k in range(H)), Fraction(0)) / max(sum(1 for k in range(H) if wants[n][k]), 1) for n in range(N)]
    return "scalar", sum(per, Fraction(0)) / N


def oracle_loss_ok(case, out):
    """the implementation's loss against loss_oracle: +inf exactly where the definition gives +inf, otherwise within the
    case's tolerance; True when the oracle does not apply (excluded pair)"""
    if "exc" in out or "unstable" in out:
        return False
    exp = loss_oracle(case)
    if exp is None:
        return True
    N, R, H = _dims(case)
    got = out.get("raw", out["val"])
    if got == "nonfinite" or out["dtype"] != ("torch.float32" if case.get("f32") else "torch.float64"):
        return False
    tol = _tol(case)

    def same(e, g):
        if e == "inf":
            return g == "inf"
        return g not in ("inf", "-inf", "nan") and abs(Fraction(g) - e) <= tol

    if exp[0] == "grid":
        if out["shape"] != ([N, H] if case["batch_first"] else [H, N]):
            return False
        return all(same(e, g) for er, gr in zip(exp[1], got) for e, g in zip(er, gr))
    return out["shape"] == [] and not isinstance(got, list) and same(exp[1], got)


def target_ruled_out(case):
    """some optimal-completion target of some prefix has logit -inf (the definition then gives a loss of +inf there, which
    the rational model cannot express); targets from the python oracle"""
    if not case.get("ninf"):
        return False
    N, R, H = _dims(case)
    for n in range(N):
        want = oracle_pair(case, n)[0]
        for k in range(H):
            if isinstance(want[k], list) and any(case["ninf"][k][n][t] for t in want[k] if 0 <= t < case["V"]):
                return True
    return False


def _tol(case):
    return TOL_F32 if case.get("f32") else TOL


def model_term(case, out):
    if "exc" in out or "unstable" in out:
        return "false"
    N, R, H = _dims(case)
    if case.get("long"):
        if out["dtype"] != "torch.int64" or not _oc_shape_ok(case, out):
            return "false"
        return "(" + " && ".join(pair_term(case, out, n) for n in range(N)) + ")"
    ref, hyp = _mat(case["ref"], R, case["batch_first"]), _mat(case["hyp"], H, case["batch_first"])
    if case["api"] == "oc":
        if out["dtype"] != "torch.int64" or not _oc_shape_ok(case, out):
            return "false"
        obs = cl([cl([clz(row) for row in plane]) for plane in out["val"]])
        return f"check_oc {_cfg(case)} {cn(N)} {ref} {hyp} {obs}"
    if target_ruled_out(case):  # expected loss +inf somewhere: outside the rational model, judged by the definition
        return "true" if oracle_loss_ok(case, out) else "false"
    if out["val"] == "nonfinite" or out["dtype"] != ("torch.float32" if case.get("f32") else "torch.float64"):
        return "false"
    w = co(None if case["weight"] is None else cl([cq(Fraction(k, 4)) for k in case["weight"]]))
    red = case["reduction"]
    if red == "none":
        if out["shape"] != ([N, H] if case["batch_first"] else [H, N]):
            return "false"
        grid, scalar = cl([cl([_q(x) for x in row]) for row in out["val"]]), "0%Q"
    else:
        if out["shape"] != []:
            return "false"
        grid, scalar = "[]", _q(out["val"])
    return (f"check_loss {_cfg(case)} {w} {REDS[red]} {cn(N)} {ref} {hyp} {_logp(case)} {cq(_tol(case))} {grid} {scalar}")


def pair_term(case, out, n):
    """Pair n of a batch whose padded reference is longer than 256, judged by the same check_oc term on the
    canonicalised input: the pair alone (N = 1, batch-first), its reference column cut right after its first eos, its
    rows cut to the pair's own widest row (c03_oc_row_pointwise: a row depends on the two denoted sequences only, the
    common width is the only batch-wide quantity).  The padding value of these cases is never a token, so the cut is
    unambiguous; what is cut off must be padding."""
    r, h = list(case["ref"][n]), list(case["hyp"][n])
    if case["eos"] is not None and case["eos"] in r:
        r = r[: r.index(case["eos"]) + 1]
    pad = case["padding"]
    rows = [list(row) for row in _pair_rows(case, out, n)]
    width = max([len(_strip_pad(row, pad)) for row in rows] + [0])
    if any(t != pad for row in rows for t in row[width:]):
        return "false"
    obs = cl([cl([clz(row[:width]) for row in rows])])
    return f"check_oc {_cfg(dict(case, batch_first=True))} 1 {cl([clz(r)])} {cl([clz(h)])} {obs}"


def _pair_rows(case, out, n):
    """the rows (one per prefix length) of pair n of an optimal_completion output"""
    v = out["val"]
    return v[n] if case["batch_first"] else [plane[n] for plane in v]


def spec_term(case, out):
    """Judge an optimal_completion output by C03.Spec alone (row minima of lev on the sequences cut at eos)."""
    if "exc" in out or case["api"] != "oc" or not _oc_shape_ok(case, out) or "unstable" in out:
        return "false"
    N, R, H = _dims(case)
    ki, kd, ks = case["costs"]
    eos = co(None if case["eos"] is None else cz(case["eos"]))
    parts = []
    for n in range(N):
        rows = cl([clz(row) for row in _pair_rows(case, out, n)])
        parts.append(f"spec_pair_okb {eos} {cb(case['include_eos'])} {cb(case['exclude_last'])} {cz(ki)} {cz(kd)} {cz(ks)} "
                     f"{cz(case['padding'])} {clz(case['ref'][n])} {clz(case['hyp'][n])} {rows}")
    return "(" + " && ".join(parts or ["true"]) + ")"


def model_show(case):
    N, R, H = _dims(case)
    ref, hyp = _mat(case["ref"], R, case["batch_first"]), _mat(case["hyp"], H, case["batch_first"])
    if case["api"] == "oc":
        return f"optimal_completion {_cfg(case)} {cn(N)} {ref} {hyp}"
    w = co(None if case["weight"] is None else cl([cq(Fraction(k, 4)) for k in case["weight"]]))
    return f"hard_ocd_loss {_cfg(case)} {w} {REDS[case['reduction']]} {cn(N)} {ref} {hyp} {_logp(case)}"


# ------------------------------------------------------------------------------------------
# input space, non-triviality
# ------------------------------------------------------------------------------------------
def in_space(case):
    N, R, H = _dims(case)
    if N < 1 or R < 1:  # a zero-width reference tensor raises IndexError (row_mask[0] = ...): reported, not in scope
        return False
    if H == 0 and (case["eos"] is not None or case["api"] == "loss" or case.get("exclude_last", True)):
        return False
    if not all(k > 0 for k in case["costs"]):
        return False
    if case.get("alias") and case["ref"] != case["hyp"]:
        return False  # the same tensor object is handed over for both arguments
    for which, l in zip(("ref", "hyp"), case.get("layout") or ()):
        if l == "expand" and (any(x != case[which][0] for x in case[which]) or case.get("history")):
            return False  # a stride-0 broadcast denotes equal sequences and cannot be overwritten in place
    if case.get("long") and case["padding"] in {t for s_ in case["ref"] for t in s_}:
        return False  # pair_term cuts rows at the padding value
    if case["api"] == "loss":
        V, ign = case["V"], case["padding"]
        if 0 <= ign < V:
            return False
        if case["include_eos"] and case["eos"] is not None and not 0 <= case["eos"] < V:
            return False  # documented RuntimeError
        for r in case["ref"]:  # every counted reference token must be a class index
            if any(not 0 <= t < V for t in _cut(r, case["eos"], case["include_eos"])):
                return False
        if case.get("ninf"):
            m = case["ninf"]
            if len(m) != H or any(len(p_) != N or any(len(v) != V for v in p_) for p_ in m):
                return False
            if any(all(v) for p_ in m for v in p_):
                return False  # every class ruled out: no distribution (log_softmax is nan)
            if case["weight"] is not None and any(b and case["weight"][t] == 0 for p_ in m for v in p_ for t, b in enumerate(v)):
                return False  # weight 0 on a ruled-out class: 0 * inf if it is a target
    return True


def nontrivial(case, out):
    """some pair with both sequences non-empty and different, and either a repeated reference token or an
    output row listing at least two tokens"""
    ok = False
    for r, h in zip(case["ref"], case["hyp"]):
        a, b = _cut(r, case["eos"], case["include_eos"]), _cut(h, case["eos"], case["include_eos"])
        if a and b and a != b:
            ok = True
            if len(set(a)) < len(a):
                return True
    if not ok or "exc" in out:
        return False
    if case["api"] == "loss":
        return True
    pad = case["padding"]
    return any(sum(1 for t in row if t != pad) >= 2 for plane in out["val"] for row in plane)


# ------------------------------------------------------------------------------------------
# metamorphic relations stated by the property, on the implementation
# ------------------------------------------------------------------------------------------
def _strip_pad(row, pad):
    row = list(row)
    while row and row[-1] == pad:
        row.pop()
    return row


def _pair_view(case, out, n):
    """pair n's rows without trailing padding (the width C depends on the batch)"""
    return [_strip_pad(row, case["padding"]) for row in _pair_rows(case, out, n)]


def _sub_logits(case, n):
    return [[row[n]] for row in case["logits"]]


def metamorphic(case, out, rng):
    fails = []
    if "exc" in out or out.get("val") == "nonfinite":
        return fails
    if case.get("alias"):  # the variants change ref / hyp separately: two tensor objects from here on
        case = {k: v for k, v in case.items() if k != "alias"}
    if "expand" in (case.get("layout") or ()):  # ... and the stride-0 reference becomes an ordinary tensor
        case = dict(case, layout=[l if l != "expand" else "contig" for l in case["layout"]])
    N, R, H = _dims(case)
    oc = case["api"] == "oc"
    # (1) a pair's targets do not depend on the other pairs (only the common width does)
    if N > 1 and (oc or case["reduction"] == "none"):
        n = rng.randrange(N)
        c1 = dict(case, ref=[case["ref"][n]], hyp=[case["hyp"][n]])
        if not oc:
            c1["logits"] = _sub_logits(case, n)
            if case.get("ninf"):
                c1["ninf"] = [[row[n]] for row in case["ninf"]]
        o1 = run_impl(c1)
        if "exc" in o1:
            fails.append((f"pair {n} alone raises", c1, o1))
        elif oc:
            if _pair_view(c1, o1, 0) != _pair_view(case, out, n):
                fails.append((f"pair {n} alone differs from pair {n} inside the batch", c1, o1))
        else:
            a = o1["val"][0] if case["batch_first"] else [row[0] for row in o1["val"]]
            b = out["val"][n] if case["batch_first"] else [row[n] for row in out["val"]]
            if any(abs(Fraction(x) - Fraction(y)) > _tol(case) for x, y in zip(a, b)):
                fails.append((f"loss of pair {n} alone differs from pair {n} inside the batch", c1, o1))
    # (2) ... nor on tokens after its end-of-sequence
    if case["eos"] is not None:
        hi = (case["V"] - 1) if not oc else 5

        def refill(seq):
            if case["eos"] not in seq:
                return list(seq)
            i = seq.index(case["eos"])
            return list(seq[: i + 1]) + [rng.choice([case["eos"], 0, 1, hi]) for _ in seq[i + 1:]]
        c2 = dict(case, ref=[refill(s) for s in case["ref"]], hyp=[refill(s) for s in case["hyp"]])
        if c2["ref"] != case["ref"] or c2["hyp"] != case["hyp"]:
            o2 = run_impl(c2)
            if o2 != out:
                fails.append(("changing tokens after the first eos changes the result", c2, o2))
    # (3) the other layout gives the transposed result
    cT = dict(case, batch_first=not case["batch_first"])
    oT = run_impl(cT)
    if "exc" in oT:
        fails.append(("the other batch layout raises", cT, oT))
    elif oc:
        if any(_pair_rows(cT, oT, n) != _pair_rows(case, out, n) for n in range(N)):
            fails.append(("the two batch layouts disagree", cT, oT))
    elif case["reduction"] == "none":
        if [list(x) for x in zip(*oT["val"])] != out["val"] and H > 0:
            fails.append(("the two batch layouts disagree", cT, oT))
    elif abs(Fraction(oT["val"]) - Fraction(out["val"])) > _tol(case):
        fails.append(("the two batch layouts disagree", cT, oT))
    # (4) functional and module forms agree
    cM = dict(case, module=not case["module"])
    oM = run_impl(cM)
    if oM != out:
        fails.append(("functional and module forms disagree", cM, oM))
    return fails


# ------------------------------------------------------------------------------------------
# generators
# ------------------------------------------------------------------------------------------
COST_GRID = [2, 4, 8]  # 1/2, 1, 2
PADS = [-100, -1, 7, -2]


def _oc_case(ref, hyp, eos, f, costs, k, stream):
    return dict(api="oc", module=(k % 5 == 0), kw=(k % 3 == 0), ref=ref, hyp=hyp, eos=eos, include_eos=f[0],
                batch_first=f[1], exclude_last=f[2], costs=list(costs), padding=PADS[k % 4], warn=(k % 7 == 0),
                stream=stream)


def gen_exhaustive(chk):
    """(a) every column over {0,1,eos=2}, widths R,H in 1..3 (all eos placements and fillers, repeated tokens);
    (b) no eos, alphabet {0,1,2}: every reference of width <= 4 against every hypothesis of width <= 3."""
    cases = []
    thorough = chk.tier == "thorough"
    flags = list(itertools.product([False, True], repeat=3))  # include_eos, batch_first, exclude_last
    costs = list(itertools.product(COST_GRID, repeat=3))
    name = "exhaustive" if thorough else "exhaustive-slice"
    k = 0
    for eos, Rs in ((2, [1, 2, 3]), (None, [1, 2, 3, 4])):
        for R, H in itertools.product(Rs, [1, 2, 3]):
            pairs = list(itertools.product(itertools.product([0, 1, 2], repeat=R), itertools.product([0, 1, 2], repeat=H)))
            chunk = 27 if thorough else 9
            for bi in range(0, len(pairs), chunk):
                b = pairs[bi:bi + chunk]
                if thorough:
                    combos = [(f, c) for f in flags for c in costs]
                    if eos is None:  # include_eos is inert without eos; keep one setting per cost triple
                        combos = [(f, c) for f, c in combos if not f[0]]
                    if R == 4:
                        combos = combos[(bi // chunk) % 4::4]
                else:
                    if (bi // chunk) % (1 if R * H <= 4 else 3 if eos is not None else 9) != 0:
                        continue
                    combos = [(flags[(k + j * 3) % 8], costs[(k * 5 + j * 11) % 27]) for j in range(2)]
                for f, c in combos:
                    k += 1
                    cases.append(_oc_case([list(p[0]) for p in b], [list(p[1]) for p in b], eos, f, c, k, name))
    if thorough:
        chk.extra["exhaustive"] = True
    chk.extra["exhaustive_scope"] = (
        "(a) alphabet {0,1} + eos=2, tensor widths R,H in 1..3, every column in {0,1,eos}^R x {0,1,eos}^H (all eos "
        "placements, fillers and repeated tokens), cost triples {1/2,1,2}^3, include_eos/batch_first/exclude_last in all "
        "8 settings; (b) no eos, every reference in {0,1,2}^R (R<=4) against every hypothesis in {0,1,2}^H (H<=3), same "
        "costs, 4 flag settings (a quarter of the combinations for R=4).  Whole scope in the thorough tier, a slice in quick")
    return cases


def _loss_extras(rng, case, V):
    N, R, H = _dims(case)
    # one case in four has logits of magnitude 1e2..3e3 (exp over/underflows in float64: the loss must still be the
    # average of -log p, which only a shift-invariant log-softmax delivers)
    mag = rng.choice([1, 1, 1, 40, 400, 1000])
    case.update(api="loss", V=V, exclude_last=True,
                logits=[[[rng.randint(-12, 12) * mag for _ in range(V)] for _ in range(N)] for _ in range(H)],
                weight=None if rng.random() < 0.6 else [rng.randint(0, 8) for _ in range(V)],
                reduction=rng.choice(["none", "sum", "mean", "mean"]),
                padding=rng.choice([-2, -100, -1, V, V + 3]))
    return case


def gen_random(chk, n):
    rng = chk.rng
    cases = []
    for _ in range(n):
        V = rng.randint(1, 4)
        alphabet = list(range(V))
        eos_kind = rng.choice(["none", "outside", "outside", "inside", "negative", "negative"])
        eos = {"none": None, "outside": V + rng.randint(0, 2), "inside": rng.randrange(V), "negative": -rng.randint(1, 3)}[eos_kind]
        if eos_kind == "inside":
            alphabet = [a for a in alphabet if a != eos] or [eos + 1]
        N = rng.randint(1, 4)
        R, H = rng.randint(1, 7), rng.randint(1, 6)
        if rng.random() < 0.25:
            R = rng.randint(1, 2)
        if rng.random() < 0.25:
            H = rng.randint(1, 2)
        ref = [_rand_seq(rng, R, alphabet, eos) for _ in range(N)]
        hyp = [(_mutate(rng, r, alphabet, eos, H) if rng.random() < 0.6 else _rand_seq(rng, H, alphabet, eos)) for r in ref]
        u = rng.random()
        if u < 0.3:
            k = rng.randint(1, 12)
            costs = [k, k, k]
        elif u < 0.5:
            costs = [rng.choice([2, 4]) for _ in range(3)]
        else:
            costs = [rng.randint(1, 12) for _ in range(3)]
        case = dict(api="oc", module=rng.random() < 0.3, kw=rng.random() < 0.5, ref=ref, hyp=hyp, eos=eos,
                    include_eos=rng.random() < 0.6, batch_first=rng.random() < 0.5, exclude_last=rng.random() < 0.5,
                    costs=costs, padding=rng.choice(PADS + [rng.randint(-9, 9)]), warn=rng.random() < 0.2,
                    stream="random", eos_kind=eos_kind)
        if rng.random() < 0.35:
            toks = [t for s in ref for t in s] + ([eos] if eos is not None else [])
            Vc = max([t for t in toks if t >= 0] + [0]) + 1 + rng.randint(0, 1)
            case = _loss_extras(rng, case, Vc)
            case["stream"] = "random-loss"
        cases.append(case)
    return cases


def gen_ties(chk, n):
    """references with repeated tokens against hypotheses containing foreign tokens: many tied row minima, so several
    targets per row (the sort / de-duplication / scatter path with counts > 1)"""
    rng = chk.rng
    cases = []
    for _ in range(n):
        V = rng.randint(2, 3)
        eos = rng.choice([None, None, V, -1])
        N, R, H = rng.randint(1, 3), rng.randint(3, 7), rng.randint(1, 5)
        ref = [_rand_seq(rng, R, list(range(V)), eos, p_noeos=0.5) for _ in range(N)]
        hyp = [_rand_seq(rng, H, list(range(V)) + [V + 1, V + 1], eos, p_noeos=0.5) for _ in range(N)]
        costs = [4, 4, 4] if rng.random() < 0.6 else [rng.choice([2, 4, 8]) for _ in range(3)]
        case = dict(api="oc", module=rng.random() < 0.2, kw=rng.random() < 0.5, ref=ref, hyp=hyp, eos=eos,
                    include_eos=rng.random() < 0.6, batch_first=rng.random() < 0.5, exclude_last=rng.random() < 0.4,
                    costs=costs, padding=rng.choice(PADS), warn=False, stream="ties")
        if rng.random() < 0.3 and (eos is None or eos >= 0):
            case = _loss_extras(rng, case, V + 1)
            case["stream"] = "ties-loss"
        cases.append(case)
    return cases


def gen_uniform_nondyadic(chk, n):
    """three equal costs that are not on the dyadic grid (0.1, 0.3, 1/3, 0.7, 1.1): ties between table cells are exact
    only because equal costs are rescaled to 1; longer sequences so that many different paths reach the same cell"""
    rng = chk.rng
    cases = []
    for _ in range(n):
        V = rng.randint(2, 4)
        eos = rng.choice([None, None, V, -1])
        N, R, H = rng.randint(1, 2), rng.randint(4, 8), rng.randint(3, 7)
        ref = [_rand_seq(rng, R, list(range(V)), eos, p_noeos=0.6) for _ in range(N)]
        hyp = [(_mutate(rng, r, list(range(V)), eos, H) if rng.random() < 0.5 else
                _rand_seq(rng, H, list(range(V)) + [V + 1], eos, p_noeos=0.6)) for r in ref]
        k = rng.choice([1, 2, 4, 4, 6])
        case = dict(api="oc", module=rng.random() < 0.2, kw=rng.random() < 0.5, ref=ref, hyp=hyp, eos=eos,
                    include_eos=rng.random() < 0.6, batch_first=rng.random() < 0.5, exclude_last=rng.random() < 0.4,
                    costs=[k, k, k], cscale=rng.choice([0.1, 0.3, 1 / 3, 0.7, 1.1]),
                    padding=rng.choice(PADS), warn=False, stream="uniform-nondyadic")
        if rng.random() < 0.25 and (eos is None or eos >= 0):
            case = _loss_extras(rng, case, V + 2)
            case["stream"] = "uniform-nondyadic-loss"
        cases.append(case)
    return cases


def gen_zero_width_hyp(chk, n):
    """a zero-width hypothesis tensor is inside the input space without eos and without exclude_last"""
    rng = chk.rng
    cases = []
    for i in range(n):
        N, R = rng.randint(1, 3), rng.randint(1, 3)
        cases.append(dict(api="oc", module=False, kw=False, ref=[[rng.randrange(2) for _ in range(R)] for _ in range(N)],
                          hyp=[[] for _ in range(N)], eos=None, include_eos=rng.random() < 0.5,
                          batch_first=rng.random() < 0.5, exclude_last=False, costs=[rng.randint(1, 8) for _ in range(3)],
                          padding=-100, warn=False, stream="zero-width-hyp"))
    return cases


# ---- robustness streams (notes/AUDIT_GUIDE.md); the machinery is props.c01's -------------------------


def _vocab(case):
    toks = [t for s_ in case["ref"] for t in s_] + ([case["eos"]] if case["eos"] is not None else [])
    return max([t for t in toks if t >= 0] + [0]) + 1


def gen_loss_empty_ref(chk, n):
    """hard OCD loss on references that START with eos: with include_eos=False such a pair has no target at any step
    (every denominator of the loss is 0 before clamping - 'zero where there are none'), with include_eos=True its only
    target is eos at step 0.  Some batches consist of such pairs only (target width 0).  'mean' most of the time."""
    rng = chk.rng
    cases = []
    for _ in range(n):
        V = rng.randint(2, 4)
        eos = rng.choice([V - 1, V - 1, V, -1])
        alphabet = [a for a in range(V) if a != eos]
        N, R, H = rng.randint(1, 3), rng.randint(1, 5), rng.randint(1, 5)
        all_empty = rng.random() < 0.3
        ref = []
        for _n in range(N):
            if all_empty or rng.random() < 0.6:
                ref.append([eos] + [rng.choice(alphabet + [eos]) for _ in range(R - 1)])
            else:
                ref.append(_rand_seq(rng, R, alphabet, eos, 0.2))
        hyp = [_rand_seq(rng, H, alphabet, eos, 0.3) for _ in range(N)]
        ie = eos >= 0 and rng.random() < 0.3
        case = dict(api="oc", module=rng.random() < 0.3, kw=rng.random() < 0.5, ref=ref, hyp=hyp, eos=eos, include_eos=ie,
                    batch_first=rng.random() < 0.5, exclude_last=True,
                    costs=[4, 4, 4] if rng.random() < 0.5 else [rng.randint(1, 12) for _ in range(3)], padding=-2,
                    warn=rng.random() < 0.2, stream="loss-empty-ref")
        case = _loss_extras(rng, case, max(V, eos + 1 if ie else 0))
        case["reduction"] = "mean" if rng.random() < 0.6 else rng.choice(["sum", "none"])
        cases.append(case)
    return cases


def gen_eos_mix(chk, n):
    """batch interaction of the include_eos length fix-up (see props.c01.gen_eos_mix) for the targets and the loss"""
    rng = chk.rng
    cases = []
    for c in base.gen_eos_mix(chk, n):
        case = dict(api="oc", module=c["module"], kw=c["kw"], ref=c["ref"], hyp=c["hyp"], eos=c["eos"],
                    include_eos=c["include_eos"], batch_first=c["batch_first"], exclude_last=rng.random() < 0.5,
                    costs=c["costs"], padding=rng.choice(PADS), warn=c["warn"], stream="eos-mix")
        if rng.random() < 0.3 and c["eos"] >= 0:
            case = _loss_extras(rng, case, _vocab(case) + rng.randint(0, 1))
        cases.append(case)
    return cases


def gen_sparse(chk, n):
    """calls that leave out every option sitting on its documented default (optimal_completion: include_eos=True,
    padding=-100, exclude_last=False; the loss: include_eos=True, reduction='mean', no weight, ignore_index -2 in the
    function and -100 in the module); functional keywords and module constructor keywords"""
    rng = chk.rng
    cases = []
    for i in range(n):
        V = rng.randint(2, 3)
        eos = rng.choice([None, V, V, 0])
        alphabet = [a + (1 if eos == 0 else 0) for a in range(V)]
        N, R, H = rng.randint(1, 3), rng.randint(1, 6), rng.randint(2, 5)
        ref = [_rand_seq(rng, R, alphabet, eos, 0.15) for _ in range(N)]
        hyp = [(_mutate(rng, r, alphabet, eos, H) if rng.random() < 0.4 else _rand_seq(rng, H, alphabet, eos, 0.15))
               for r in ref]
        d = DEFAULTS["oc"]
        case = dict(api="oc", module=rng.random() < 0.5, kw=False, ref=ref, hyp=hyp, eos=eos, entry="sparse",
                    include_eos=rng.random() < 0.65, batch_first=rng.random() < 0.35, exclude_last=rng.random() < 0.35,
                    costs=[4, 4, 4] if rng.random() < 0.5 else [rng.randint(1, 12) for _ in range(3)],
                    padding=-100 if rng.random() < 0.6 else rng.choice([-1, 7, -2]), warn=rng.random() < 0.7,
                    keep=[k for k in d if rng.random() < 0.2], stream="sparse-defaults")
        if i % 3 == 2:
            case = _loss_extras(rng, case, _vocab(case) + rng.randint(0, 1))
            case["reduction"] = "mean" if rng.random() < 0.6 else rng.choice(["sum", "none"])
            case["padding"] = (-100 if case["module"] else -2) if rng.random() < 0.6 else rng.choice([-1, -100, -2, -5])
            case["keep"] = [k for k in DEFAULTS["loss"] if rng.random() < 0.2]
        cases.append(case)
    return cases


def gen_entry_layout(chk, n):
    """memory layouts of ref / hyp / logits, float32 logits, scripted / traced modules, scripted functions, call history
    (same callable and same tensor objects re-used after an in-place overwrite), one tensor object for ref and hyp,
    unusual token ids (targets only: the loss needs class indices)"""
    rng = chk.rng
    cases = []
    for c in gen_random(chk, n):
        loss = c["api"] == "loss"
        c = base._decorate(rng, c, p_exotic=0.0 if loss else 0.3, defaults=DEFAULTS)
        if loss:
            N, R, H = _dims(c)
            if len(c["logits"]) != H:  # hyp was replaced by the reference (alias)
                c["logits"] = [[[rng.randint(-12, 12) for _ in range(c["V"])] for _ in range(N)] for _ in range(H)]
            c["llayout"] = rng.choice([None, "t", "offset", "vlast"])
            if rng.random() < 0.25 and max(abs(x) for p_ in c["logits"] for r_ in p_ for x in r_) <= 12:
                c["f32"] = True
        c["stream"] = "entry-layout"
        cases.append(c)
    return cases


def gen_numeric(chk, n):
    """cost magnitudes for the row-minimum mask: the triple scaled by 2^10..2^20 or 2^-8..2^-14, or three costs up to 12
    (kind wide: 17-18) binary orders apart (every float32 step of the table stays exact, ties stay ties)"""
    rng = chk.rng
    cases = []
    for c in gen_ties(chk, n):
        if c["api"] != "oc":
            continue
        if rng.random() < 0.5:
            c["costs"] = [rng.randint(1, 12) for _ in range(3)]
        kind = rng.choice(["big", "small", "spread", "wide", "wide"])
        uni = len(set(c["costs"])) == 1
        if kind == "big":
            e = rng.choice([10, 16, 20])
            c["costs"] = [k * 2 ** e for k in c["costs"]]
        elif kind == "small":
            c["scale"] = SCALE * 2 ** rng.choice([8, 14])
        elif kind == "wide":
            # one cost 17-18 binary orders below the others: table cells that differ by ONE small unit differ by less than
            # 1e-5 relative (a tolerant tie test - isclose - would merge them) while every float32 step stays exact (< 2^24)
            es = [0, 17, 18]
            rng.shuffle(es)
            c["costs"] = [rng.randint(1, 3) * 2 ** e for e in es]
        else:
            c["scale"] = SCALE * 2 ** 6
            c["costs"] = [k * 2 ** (0 if uni else rng.choice([0, 6, 12])) for k in c["costs"]]
        c["numeric"] = kind
        c["stream"] = "numeric"
        cases.append(c)
    return cases


# ---- round 4: tolerance in a tie test (seeded C03-g) -------------------------------------------------------
# Every comparison of _string_matching's mask path decides on EXACT (in)equality of table cells or of the three prices:
# the uniform-cost shortcut `ins == del == sub`, min(insertion, substitution), the deletion fold, `row[:-1] == mins`.
# A tolerant version of any of them (isclose, abs(a - b) < eps, a lower-precision table) is invisible while distinct
# cells are at least one "ordinary" price apart.  The stream below draws cost triples whose prices sit on widely
# different scales (one or two operations nearly free), or are nearly equal (triple nearly uniform, two prices nearly
# equal, sub nearly ins + del), at magnitudes from 2^-60 to 2^64, on prefixes long enough for the distance to dwarf the
# smallest price - all as integers over a power-of-two denominator with every table cell below 2^24 units, so the
# float32 table of the implementation is exact and the integer model is the judge.
F32_EXACT = 2 ** 24
TIE_KINDS = ("tiny1", "tiny1", "tiny1", "tiny2", "near-uniform", "near-uniform", "near-pair", "near-pair", "near-sum",
             "near-sum", "ordinary", "uniform")


def _f32_exact(R, H, kmax):
    """every cell of the table and every term of the deletion fold is an integer number of units <= (R + H + 2) * kmax"""
    return (R + H + 2) * kmax < F32_EXACT


def _tie_triple(rng, R, H):
    """(kind, [ki, kd, ks] in units, e): 2^e units is the 'ordinary' price, 1..3 units the small one"""
    kind = rng.choice(TIE_KINDS)
    e = 0
    while _f32_exact(R, H, 5 * 2 ** (e + 1) + 4):
        e += 1
    e = max(3, e - rng.choice([0, 0, 0, 1, 2, 3, 5, 8]))
    u = 2 ** e
    if kind == "tiny1":  # one operation nearly free
        c = [rng.randint(1, 4) * u for _ in range(3)]
        c[rng.randrange(3)] = rng.randint(1, 3)
    elif kind == "tiny2":  # two operations nearly free
        c = [rng.randint(1, 3) for _ in range(3)]
        c[rng.randrange(3)] = rng.randint(1, 4) * u
    elif kind == "near-uniform":  # one or two prices a hair off the common value
        b = rng.randint(1, 3) * u
        c = [b, b, b]
        for i in rng.sample(range(3), rng.randint(1, 2)):
            c[i] += rng.choice([1, 1, 2, -1])
    elif kind == "near-pair":  # two prices nearly (or exactly) equal, the third elsewhere
        b = rng.randint(1, 3) * u
        i, j, k = rng.sample(range(3), 3)
        c = [0, 0, 0]
        c[i], c[j] = b, b + rng.choice([1, 1, 2, -1, 0])
        c[k] = rng.choice([rng.randint(1, 3), rng.randint(1, 4) * u, u // 2, b + u])
    elif kind == "near-sum":  # a substitution costs nearly (or exactly) an insertion plus a deletion
        ki, kd = rng.randint(1, 2) * u, rng.randint(1, 2) * u
        c = [ki, kd, ki + kd + rng.choice([-2, -1, -1, 0, 1, 1, 2])]
    elif kind == "uniform":
        c = [rng.randint(1, 3) * u] * 3
    else:
        e = 2
        c = [rng.randint(1, 12) for _ in range(3)]
    return kind, c, e


def _tie_hyp(rng, r, alphabet, foreign, eos, H):
    """a hypothesis of tensor width H: mostly tokens that do not occur in the reference (the distance grows with every
    token), a mixture, edits of the repeated reference, or the reference over and over"""
    body = _cut(r, eos, False)
    style = rng.choice(["foreign", "foreign", "mixed", "mixed", "mutated", "repeat"])
    L = H if (eos is None or rng.random() < 0.5) else rng.randint(H // 2, H - 1)
    if style == "foreign":
        seq = [rng.choice(foreign) for _ in range(L)]
    elif style == "mixed":
        seq = [rng.choice(alphabet + foreign + foreign) for _ in range(L)]
    elif style == "mutated":
        seq = [t for t in _mutate(rng, (body * 4)[:max(L, 1)] or [alphabet[0]], alphabet + foreign, None, L)]
    else:
        seq = ((body or [alphabet[0]]) * (L + 1))[:L]
        seq = [t if rng.random() < 0.85 else rng.choice(foreign) for t in seq]
    seq = seq[:L]
    if len(seq) < H:
        seq = seq + [eos] + [rng.choice(alphabet + [eos]) for _ in range(H - len(seq) - 1)]
    return seq


def gen_tie_scale(chk, n):
    """cost triples on widely different scales / nearly equal prices, long prefixes, every entry point (functional
    positional / keyword / sparse / scripted, module, scripted module; targets and loss with all reductions)"""
    rng = chk.rng
    cases = []
    for i in range(n):
        loss = i % 3 == 2
        V = rng.randint(2, 4)
        alphabet = list(range(V))
        foreign = [V + 1, V + 2]
        eos = rng.choice([None, V, V] if loss else [None, None, V, V, -1])
        shape = rng.choice(["long", "long", "long", "mid", "mid", "short"])
        if shape == "long":
            R, H = rng.randint(2, 8), rng.randint(8, 14 if loss else 24)
        elif shape == "mid":
            R, H = rng.randint(3, 10), rng.randint(4, 10)
        else:
            R, H = rng.randint(1, 5), rng.randint(1, 5)
        N = rng.randint(1, 2 if loss else 3)
        ref = [_rand_seq(rng, R, alphabet, eos, p_noeos=0.5) for _ in range(N)]
        hyp = [_tie_hyp(rng, r, alphabet, foreign, eos, H) for r in ref]
        kind, costs, e = _tie_triple(rng, R, H)
        assert _f32_exact(R, H, max(costs)) and min(costs) > 0
        mag = rng.choice(["small", "big"] if kind in ("ordinary", "uniform") else ["unit", "unit", "unit", "small", "small", "big"])
        if mag == "unit":  # the ordinary price is about 1
            scale = 2 ** max(e - rng.choice([0, 0, 1, 2]), 0)
        elif mag == "small":  # all three far below any absolute tolerance
            scale = 2 ** (e + rng.choice([16, 24, 30, 40]))
        else:
            scale = 1
            up = 2 ** rng.choice([0, 12, 30, 40])
            costs = [k * up for k in costs]
        case = dict(api="oc", module=rng.random() < 0.35, kw=rng.random() < 0.4, ref=ref, hyp=hyp, eos=eos,
                    include_eos=rng.random() < 0.5, batch_first=rng.random() < 0.5, exclude_last=rng.random() < 0.4,
                    costs=costs, scale=scale, padding=rng.choice(PADS), warn=rng.random() < 0.1, tiescale=kind + "/" + mag,
                    stream="tie-scale")
        if loss:
            case = _loss_extras(rng, case, V + 1)
            case["stream"] = "tie-scale"
        u = rng.random()
        if u < 0.24:
            case["entry"] = ("sparse", "sparse", "script_fn", "script")[int(u * 100) % 4]
        cases.append(case)
    return cases


def _step_row(row, tok, r, ci, cd, cs):
    new = [row[0] + ci]
    for j in range(1, len(r) + 1):
        new.append(min(row[j] + ci, row[j - 1] + (0 if r[j - 1] == tok else cs), new[j - 1] + cd))
    return new


def oracle_pair(case, n):
    """Independent reading of the property text on pair n, exact integer arithmetic, nothing of the library or of the
    model: per output row k the list of tokens t of the reference with
    min_j d(p ++ [t], r[:j]) == min_j d(p, r[:j]) for the k-token prefix p (None = 'only padding', 'any' = the excluded
    empty hypothesis with exclude_last), and the smallest (gap, minimum) between a row's minimum and its runner-up."""
    ci, cd, cs = case["costs"]
    r = _cut(case["ref"][n], case["eos"], case["include_eos"])
    h = _cut(case["hyp"][n], case["eos"], case["include_eos"])
    excl = case.get("exclude_last", True)
    row = [j * cd for j in range(len(r) + 1)]
    want, near = [], None
    for k in range(_rows(case)):
        if k < len(h) + (0 if excl else 1):
            m = min(row)
            want.append([t for t in sorted(set(r)) if min(_step_row(row, t, r, ci, cd, cs)) == m])
            up = [x - m for x in row if x > m]
            if up and m > 0 and (near is None or min(up) * near[1] < near[0] * m):
                near = (min(up), m)
            if k < len(h):
                row = _step_row(row, h[k], r, ci, cd, cs)
        else:
            want.append("any" if excl and not h else None)
    return want, near


def oracle_ok(case, out):
    """the optimal_completion output judged by oracle_pair: each row = the wanted tokens once each, then padding"""
    if "exc" in out or "unstable" in out or not _oc_shape_ok(case, out) or out["dtype"] != "torch.int64":
        return False
    pad = case["padding"]
    for n in range(len(case["ref"])):
        want, _ = oracle_pair(case, n)
        for w, row in zip(want, _pair_rows(case, out, n)):
            if w == "any":
                continue
            w = w or []
            head, tail = list(row[:len(w)]), list(row[len(w):])
            if len(row) < len(w) or sorted(head) != w or any(t != pad for t in tail):
                return False
    return True


def _spec_work(case):
    """rough number of steps C03.Spec needs (lev recurses over edit scripts: Delannoy numbers)"""
    worst = 0
    for r, h in zip(case["ref"], case["hyp"]):
        a, b = len(_cut(r, case["eos"], case["include_eos"])), len(_cut(h, case["eos"], case["include_eos"]))
        d = [1] * (b + 1)
        for _ in range(a):
            nd = [1]
            for j in range(1, b + 1):
                nd.append(nd[j - 1] + d[j] + d[j - 1])
            d = nd
        worst = max(worst, (b + 1) * a * (a + 1) * d[b])
    return worst


def spec_verdict(chk, case, out):
    """(accepts, judge): C03.Spec inside Coq when its recursion is affordable, otherwise the exact python oracle of
    the same definition (oracle_ok)"""
    if _spec_work(case) <= 6_000_000:
        return coq_eval_bools(chk.workdir, IMPORTS, [spec_term(case, out)], tag="spec")[0], "C03.Spec (Coq)"
    return oracle_ok(case, out), "python oracle of the definition (integer table, row minima); C03.Spec too slow here"


def gen_long(chk, n_ref, n_hyp, big=()):
    """size-dependent code paths: padded reference / hypothesis widths around and above 256.  long-ref: one pair whose
    reference really is that long (hypothesis of 1-3 tokens) batched with short pairs (eos early, garbage up to the
    padded width), judged pair by pair on the canonicalised input (pair_term); 'big': widths 513 / 1025 with short
    references only.  long-hyp: the hypothesis side, judged by the ordinary whole-batch term."""
    rng = chk.rng
    cases = []
    sizes = [255, 256, 257, 257, 258, 260, 300]
    alphabet = [0, 1, 2]
    for i in range(n_ref + len(big)):
        R = big[i - n_ref] if i >= n_ref else sizes[i % len(sizes)] if i < len(sizes) else rng.choice(sizes)
        eos = rng.choice([None, 9, 9, 9, -1]) if i < n_ref else 9
        H = rng.randint(1, 2) if i < n_ref else rng.randint(2, 4)
        N = 2 if eos is not None else 1
        ref, hyp = [], []
        for n in range(N):
            if n == 0 and i < n_ref:
                L = R if eos is None else R - rng.randint(0, 3)
                r = [rng.choice(alphabet) for _ in range(L)] + [eos] * (R - L)
            else:
                L = rng.randint(0, 6)
                r = [rng.choice(alphabet) for _ in range(L)] + [eos] + [rng.choice(alphabet + [eos]) for _ in range(R - L - 1)]
            ref.append(r)
            hyp.append(_rand_seq(rng, H, alphabet + [5], eos, 0.4))
        costs = [4, 4, 4] if rng.random() < 0.3 else [rng.randint(1, 12) for _ in range(3)]
        cases.append(dict(api="oc", module=rng.random() < 0.3, kw=rng.random() < 0.5, ref=ref, hyp=hyp, eos=eos,
                          include_eos=rng.random() < 0.6, batch_first=rng.random() < 0.5, exclude_last=rng.random() < 0.5,
                          costs=costs, padding=rng.choice([-100, -7]), warn=False, long=True, stream="long-ref"))
    for i in range(n_hyp):
        H = sizes[i % len(sizes)] if i < len(sizes) else rng.choice(sizes)
        eos = rng.choice([None, 9, 9, -1])
        R = rng.randint(1, 4)
        hyp = []
        for n in range(2):
            if n == 0 or eos is None:
                L = H if eos is None else H - rng.randint(0, 3)
                hyp.append([rng.choice(alphabet + [5]) for _ in range(L)] + [eos] * (H - L))
            else:
                L = rng.randint(0, 6)
                hyp.append([rng.choice(alphabet) for _ in range(L)] + [eos] + [rng.choice(alphabet + [eos]) for _ in range(H - L - 1)])
        ref = [_rand_seq(rng, R, alphabet, eos, 0.3) for _ in range(2)]
        costs = [4, 4, 4] if rng.random() < 0.3 else [rng.randint(1, 12) for _ in range(3)]
        cases.append(dict(api="oc", module=rng.random() < 0.3, kw=rng.random() < 0.5, ref=ref, hyp=hyp, eos=eos,
                          include_eos=rng.random() < 0.6, batch_first=rng.random() < 0.5, exclude_last=rng.random() < 0.5,
                          costs=costs, padding=rng.choice([-100, -7]), warn=False, slow=True, stream="long-hyp"))
    return cases


# ---- round 5: non-finite but legal logits (seeded C03-j) ------------------------------------------------------
# A network may rule classes out completely (logit -inf: a blank / padding class masked before the softmax, a constrained
# vocabulary).  log_softmax is then -inf at those classes and finite elsewhere, and the loss of the property - the mean of
# -log p over the optimal-completion targets, exactly 0 where there are none - is finite whenever no TARGET is ruled out
# (+inf otherwise).  Any formulation that touches the log-probability of a class that is not a target of the step (padded
# slots gathered at some stand-in class and multiplied by a 0/1 mask, a dense one-hot product, a shift of the logits by
# their min / mean) turns these inputs into NaN (inf * 0, inf - inf) although it is exact on finite logits.  The stream
# puts -inf on: a whole class that is never a target (class 0 left unused by the transcripts, the spare top class, any
# other), random non-target classes per step, ALL non-target classes (the distribution sits on the targets), only the
# steps without a target (past the hypothesis's end, empty reference - expected exactly 0), and on targets themselves
# (expected +inf, judged by the python oracle of the definition); ragged target counts, so that padded slots exist
# beside the ruled-out classes; every entry point, reduction, weight, layout and dtype of the loss.
NINF_KINDS = ("plane", "plane", "plane", "nontarget-some", "nontarget-some", "nontarget-all", "no-target-steps", "target",
              "target", "mixed")


def _ninf_mask(rng, case, kind):
    """(0/1 mask [H][N][V], kind actually used) or None; target sets from the python oracle of the definition"""
    N, R, H = _dims(case)
    V = case["V"]
    wants = [oracle_pair(case, n)[0] for n in range(N)]
    if any(x == "any" for want in wants for x in want):
        return None  # a pair with an empty hypothesis: the excluded case
    tset = [[set(wants[n][k] or []) for n in range(N)] for k in range(H)]
    ever = set().union(*[t for row in tset for t in row])
    never = [v for v in range(V) if v not in ever]
    m = [[[0] * V for _ in range(N)] for _ in range(H)]
    if kind in ("plane", "mixed") and not never:
        kind = "nontarget-some"
    if kind == "no-target-steps" and all(t for row in tset for t in row):
        kind = "nontarget-some"
    if kind in ("plane", "mixed"):
        first = 0 if (0 in never and rng.random() < 0.6) else rng.choice(never)
        for v in {first} | {v for v in never if rng.random() < 0.3}:
            for k in range(H):
                for n in range(N):
                    m[k][n][v] = 1
    if kind in ("nontarget-some", "nontarget-all", "mixed", "no-target-steps", "target"):
        p = {"nontarget-some": 0.5, "nontarget-all": 1.0, "mixed": 0.4, "no-target-steps": 0.6, "target": 0.25}[kind]
        for k in range(H):
            for n in range(N):
                if kind == "no-target-steps" and tset[k][n]:
                    continue
                for v in range(V):
                    if v not in tset[k][n] and rng.random() < p:
                        m[k][n][v] = 1
    if kind == "target":
        steps = [(k, n) for k in range(H) for n in range(N) if tset[k][n]]
        if not steps:
            return None
        for k, n in rng.sample(steps, min(len(steps), rng.randint(1, 2))):
            m[k][n][rng.choice(sorted(tset[k][n]))] = 1
    for k in range(H):  # a distribution needs one class that is not ruled out
        for n in range(N):
            if all(m[k][n]):
                keep = sorted(tset[k][n]) or list(range(V))
                if kind == "target" and len(keep) > 1:
                    keep = [v for v in keep][1:]
                m[k][n][rng.choice(keep)] = 0
    if not any(b for p_ in m for x in p_ for b in x):
        return None
    return m, kind


def _ninf_profile(case):
    """what the mask of a ninf case reaches, from the python oracle's target sets: (-inf on a non-target class of a step
    with a padded target slot, the same for class 0, -inf at a step without any target, a target ruled out)"""
    N, R, H = _dims(case)
    wants = [oracle_pair(case, n)[0] for n in range(N)]
    cnt = [[len(wants[n][k] or []) if wants[n][k] != "any" else 0 for n in range(N)] for k in range(H)]
    C = max([c for row in cnt for c in row] + [0])
    m = case["ninf"]
    padded = padded0 = empty = target = False
    for k in range(H):
        for n in range(N):
            ts = set(wants[n][k] or []) if wants[n][k] != "any" else set()
            non = [v for v in range(case["V"]) if m[k][n][v] and v not in ts]
            if non and cnt[k][n] < C:
                padded = True
                padded0 = padded0 or 0 in non
            if non and not ts:
                empty = True
            if any(m[k][n][t] for t in ts if t < case["V"]):
                target = True
    return padded, padded0, empty, target


def gen_ninf(chk, n):
    """hard OCD loss on logits that rule classes out (-inf), see the comment above"""
    rng = chk.rng
    cases = []
    tries = 0
    while len(cases) < n and tries < 30 * n:
        tries += 1
        blank0 = rng.random() < 0.5  # class 0 is a blank the transcripts never use
        Vt = rng.randint(1, 3)
        alphabet = [a + (1 if blank0 else 0) for a in range(Vt)]
        top = alphabet[-1]
        eos = rng.choice([None, top + 1, top + 1, top + 1, -1])
        N, R, H = rng.randint(1, 3), rng.randint(1, 6), rng.randint(1, 6)
        ref = []
        for _n in range(N):
            if eos is not None and rng.random() < 0.15:  # no target at any step (unless eos is counted)
                ref.append([eos] + [rng.choice(alphabet + [eos]) for _ in range(R - 1)])
            else:
                ref.append(_rand_seq(rng, R, alphabet, eos, p_noeos=0.4))
        foreign = [top + 2, top + 2]
        hyp = [(_mutate(rng, r, alphabet, eos, H) if rng.random() < 0.4 else _rand_seq(rng, H, alphabet + foreign, eos, 0.4))
               for r in ref]
        ie = (eos is None or eos >= 0) and rng.random() < 0.6
        V = max(top, eos if (eos is not None and eos >= 0) else 0) + 1 + rng.randint(0, 1)
        case = dict(api="oc", module=rng.random() < 0.35, kw=rng.random() < 0.4, ref=ref, hyp=hyp, eos=eos, include_eos=ie,
                    batch_first=rng.random() < 0.5, exclude_last=True,
                    costs=[4, 4, 4] if rng.random() < 0.5 else [rng.randint(1, 12) for _ in range(3)], padding=-2,
                    warn=rng.random() < 0.1, stream="ninf-logits")
        case = _loss_extras(rng, case, V)
        case["reduction"] = rng.choice(["none", "none", "sum", "mean", "mean"])
        res = _ninf_mask(rng, case, rng.choice(NINF_KINDS))
        if res is None:
            continue
        case["ninf"], case["ninf_kind"] = res
        if case["weight"] is not None:  # weight 0 stays legal on the classes that are never ruled out
            out_ = {v for p_ in case["ninf"] for x in p_ for v, b in enumerate(x) if b}
            case["weight"] = [max(k, 1) if v in out_ else k for v, k in enumerate(case["weight"])]
        u = rng.random()
        if u < 0.3:
            case["entry"] = ("sparse", "sparse", "script_fn", "script_fn", "script", "trace")[int(u * 1000) % 6]
            if case["entry"] == "sparse":
                case["keep"] = [k for k in DEFAULTS["loss"] if rng.random() < 0.2]
                if rng.random() < 0.5:
                    case["padding"] = -100 if case["module"] else -2
        elif u < 0.45:
            case["history"] = True
        case["llayout"] = rng.choice([None, None, "t", "offset", "vlast"])
        if rng.random() < 0.25 and max(abs(x) for p_ in case["logits"] for r_ in p_ for x in r_) <= 12:
            case["f32"] = True
        if not in_space(case):
            continue
        cases.append(case)
    return cases


def gen_cases(chk):
    thorough = chk.tier == "thorough"
    cases = gen_exhaustive(chk)
    for c in load_corpus("C03"):
        c = dict(c.get("case", c))
        c["stream"] = "corpus"
        cases.append(c)
    cases += gen_random(chk, 14000 if thorough else 1300)
    cases += gen_ties(chk, 4000 if thorough else 500)
    cases += gen_zero_width_hyp(chk, 200 if thorough else 30)
    cases += gen_uniform_nondyadic(chk, 1500 if thorough else 120)
    # robustness streams: drawn after the older streams so that those stay what they were for a given seed
    cases += gen_loss_empty_ref(chk, 1200 if thorough else 90)
    cases += gen_eos_mix(chk, 1200 if thorough else 80)
    cases += gen_sparse(chk, 1500 if thorough else 120)
    cases += gen_entry_layout(chk, 2500 if thorough else 170)
    cases += gen_numeric(chk, 800 if thorough else 70)
    cases += gen_long(chk, 21 if thorough else 3, 14 if thorough else 2, big=(513, 1025) if thorough else (513,))
    cases += gen_tie_scale(chk, 3200 if thorough else 280)
    cases += gen_ninf(chk, 1800 if thorough else 170)
    return [c for c in cases if in_space(c)]


# ------------------------------------------------------------------------------------------
# shrinking, judging
# ------------------------------------------------------------------------------------------
def _strip(case):
    return {k: v for k, v in case.items() if k not in ("stream", "eos_kind")}


def _fails(chk, case):
    if not in_space(case):
        return False
    out = run_impl(case)
    return not coq_eval_bools(chk.workdir, IMPORTS, [model_term(case, out)], tag="shr")[0]


def _cands(case):
    N, R, H = _dims(case)
    loss = case["api"] == "loss"
    for key in ("history", "entry", "layout", "llayout", "f32", "ids") + (() if loss else ("alias",)):
        if case.get(key):
            yield {k: v for k, v in case.items() if k != key}
    for n in range(N):
        if N > 1:
            c = dict(case, ref=case["ref"][:n] + case["ref"][n + 1:], hyp=case["hyp"][:n] + case["hyp"][n + 1:])
            if loss:
                c["logits"] = [row[:n] + row[n + 1:] for row in case["logits"]]
                if case.get("ninf"):
                    c["ninf"] = [row[:n] + row[n + 1:] for row in case["ninf"]]
            yield c
    if R > 1:
        yield dict(case, ref=[s[:-1] for s in case["ref"]])
        yield dict(case, ref=[s[1:] for s in case["ref"]])
    if H > 1:
        c = dict(case, hyp=[s[:-1] for s in case["hyp"]])
        if loss:
            c["logits"] = case["logits"][:-1]
            if case.get("ninf"):
                c["ninf"] = case["ninf"][:-1]
        yield c
        c = dict(case, hyp=[s[1:] for s in case["hyp"]])
        if loss:
            c["logits"] = case["logits"][1:]
            if case.get("ninf"):
                c["ninf"] = case["ninf"][1:]
        yield c
    for key in ("batch_first", "include_eos", "module", "warn", "kw") + (() if loss else ("exclude_last",)):
        if case.get(key):
            yield dict(case, **{key: False})
    if loss and case.get("ninf"):  # fewer ruled-out classes: a whole class, then a whole position
        m = case["ninf"]
        for v in range(case["V"]):
            if any(x[v] for p_ in m for x in p_) and any(x[u] for p_ in m for x in p_ for u in range(case["V"]) if u != v):
                yield dict(case, ninf=[[[0 if u == v else b for u, b in enumerate(x)] for x in p_] for p_ in m])
        hot = [(k, n) for k, p_ in enumerate(m) for n, x in enumerate(p_) if any(x)]
        if len(hot) > 1:
            for k0, n0 in hot[:6]:
                yield dict(case, ninf=[[[0] * len(x) if (k, n) == (k0, n0) else list(x) for n, x in enumerate(p_)]
                                       for k, p_ in enumerate(m)])
    if loss and case["reduction"] != "none":
        yield dict(case, reduction="none")
    if loss and case["weight"] is not None:
        yield dict(case, weight=None)
    if case["costs"] != [4, 4, 4]:
        yield dict(case, costs=[4, 4, 4])
        for i in range(3):
            if case["costs"][i] != 4:
                c = list(case["costs"])
                c[i] = 4
                yield dict(case, costs=c)
    if not loss and case["padding"] != -100:
        yield dict(case, padding=-100)
    for which in ("ref", "hyp"):
        for n, s in enumerate(case[which]):
            for i, t in enumerate(s):
                if t != 0 and t != case["eos"]:
                    s2 = list(s)
                    s2[i] = 0
                    yield dict(case, **{which: case[which][:n] + [s2] + case[which][n + 1:]})


def _targets_case(case):
    """the optimal_completion call the loss makes internally"""
    c = {k: v for k, v in case.items() if k not in ("V", "logits", "weight", "reduction")}
    c.update(api="oc", exclude_last=True, module=False, kw=False)
    return c


def judge(chk, case, out):
    """(record, spec_accepts).  optimal_completion: C03.Spec judges the output itself.  Loss: the targets of the
    internal optimal_completion call are judged by the spec; given correct targets the loss value is fixed by the
    property (mean of -log p over them, reductions), so a disagreement with the model is a failing input."""
    judged_by = None
    if case["api"] == "oc":
        spec_ok, judged_by = spec_verdict(chk, case, out)
    else:
        spec_ok = False
    rec = {"case": case, "impl": out, "model": coq_eval_print(chk.workdir, IMPORTS, model_show(case)),
           "scale": "costs and logits are in quarter units (k/4); model targets are token ids, c_pad = padding / ignore_index",
           "spec_accepts_impl": spec_ok,
           "correspondence": "corr:C03:optimal_completion/OptimalCompletion/hard_optimal_completion_distillation_loss/"
                             "HardOptimalCompletionDistillationLoss",
           "theorems_at_stake": THEOREMS}
    if "exc" in out:
        rec["what"] = f"implementation raised {out['exc']} on an input inside the property's input space"
    elif case["api"] == "loss":
        tc = _targets_case(case)
        to = run_impl(tc)
        t_ok, judged_by = spec_verdict(chk, tc, to)
        rec["targets_call"], rec["targets_impl"], rec["spec_accepts_targets"] = tc, to, t_ok
        if case.get("ninf"):
            exp = loss_oracle(case)
            fl = lambda x: x if x == "inf" else float(x)  # noqa: E731
            rec["ninf"] = ("field 'ninf' marks the classes whose logit is -inf; in 'model' their log-probability is the "
                           "stand-in %d (never read unless such a class is a target)" % NINF_STANDIN)
            rec["definition_expected"] = None if exp is None else (
                [[fl(x) for x in row] for row in exp[1]] if exp[0] == "grid" else fl(exp[1]))
            rec["definition_accepts_impl"] = oracle_loss_ok(case, out)
            rec["a_target_is_ruled_out"] = target_ruled_out(case)
        rec["what"] = ("hard OCD loss differs from the mean negative log-probability over the optimal-completion targets "
                       "(reduced as requested)" + ("" if t_ok else "; the targets themselves violate the spec"))
    elif spec_ok:
        rec["what"] = ("implementation differs from the model but every row still lists exactly the distance-preserving "
                       "tokens once each followed by padding (C03.Spec)")
    else:
        rec["what"] = ("an output row of optimal_completion is not 'the distance-preserving next tokens once each, then "
                       "padding' (or not all padding past the hypothesis end), judged by C03.Spec on the sequences cut at eos")
    if judged_by:
        rec["judged_by"] = judged_by
    if case.get("scale"):
        rec["scale"] = "costs are k / %d (field 'scale'), logits in quarter units; " % case["scale"] + rec["scale"].split("; ", 1)[1]
    return rec, spec_ok


def judge_wide(chk, case, out):
    """A batch wider than 255.  C03.Spec (recursion over edit scripts) is not evaluable on the long pair: the short pairs
    are judged by the spec on their canonicalised columns, for the long pair the model's verdict stands (model = spec by
    c03_oc_row_correct / c03_oc_sorted_nodup_then_padding)."""
    N = len(case["ref"])
    rec = {"case": case, "impl": {k: v for k, v in out.items() if k != "val"} if max(_dims(case)[1:]) > 40 else out,
           "theorems_at_stake": THEOREMS, "spec_accepts_impl": False,
           "correspondence": "corr:C03:batch with a padded width above 255, pair by pair"}
    if "exc" in out or "unstable" in out or not _oc_shape_ok(case, out):
        rec["what"] = ("implementation raised / returned a wrong shape / is unstable on a batch with a padded width of %d"
                       % max(_dims(case)[1:]))
        rec["impl"] = {k: v for k, v in out.items() if k != "val"}
        return rec
    if not case.get("long"):
        rec["what"] = "targets differ from the model on a batch with a hypothesis wider than 255"
        return rec
    res = coq_eval_bools(chk.workdir, IMPORTS, [pair_term(case, out, n) for n in range(N)], shard=1, tag="longj")
    rec["failing_pairs"] = [n for n, ok in enumerate(res) if not ok]
    ki, kd, ks = case["costs"]
    eos = co(None if case["eos"] is None else cz(case["eos"]))
    judged = []
    for n in rec["failing_pairs"]:
        r = list(case["ref"][n])
        if case["eos"] is not None and case["eos"] in r and r.index(case["eos"]) < 8:
            r = r[: r.index(case["eos"]) + 1]
            rows = cl([clz(row) for row in _pair_rows(case, out, n)])
            t = (f"spec_pair_okb {eos} {cb(case['include_eos'])} {cb(case['exclude_last'])} {cz(ki)} {cz(kd)} {cz(ks)} "
                 f"{cz(case['padding'])} {clz(r)} {clz(case['hyp'][n])} {rows}")
            ok = coq_eval_bools(chk.workdir, IMPORTS, [t], tag="longspec")[0]
            judged.append({"pair": n, "ref_cut": r, "hyp": case["hyp"][n], "rows_in_batch": _pair_rows(case, out, n),
                           "spec_accepts": ok})
    rec["short_pairs_judged_by_spec"] = judged
    rec["what"] = ("pair(s) %s of a batch whose padded reference width is %d do not list exactly the distance-preserving "
                   "tokens (model on the pair alone, reference cut after its eos%s)"
                   % (rec["failing_pairs"], len(case["ref"][0]),
                      "; C03.Spec rejects pair(s) %s" % [j["pair"] for j in judged if not j["spec_accepts"]] if judged else ""))
    return rec


def run(chk, cases=None):
    chk.rule = ("case = one call of optimal_completion / hard_optimal_completion_distillation_loss (functional or module "
                "form) on a batch; ref/hyp are N sequences of the tensor widths R/H (padding and post-eos garbage "
                "included) in the case's layout, costs k/4.  optimal_completion: the whole long tensor (shape, every "
                "entry) is compared inside Coq with PV.C03.Model.optimal_completion on integer costs.  Loss: float64 "
                "logits k/4, torch's log_softmax handed to PV.C03.Model.hard_ocd_loss as exact rationals, tolerance 1e-9. "
                "non-trivial = some pair with both sequences non-empty and different and (a repeated reference token or "
                "an output row with >= 2 targets; any such pair for the loss)")
    chk.assumptions += [
        "costs on the dyadic grid k/4 (k<=12), widths <= 7: every float32 operation of the cost table is exact (regime E)",
        "stream tie-scale: costs k/2^s with integers k up to 2^19 (prices 8-19 binary orders apart, nearly equal prices, "
        "sub nearly ins+del; all at magnitudes 2^-60..2^64), widths R<=10, H<=24, always (R+H+2)*max(k) < 2^24: every cell "
        "of the float32 table and every term of the deletion fold is an integer number of units below 2^24, hence exact - "
        "still regime E, judged by the same check_oc / check_loss terms on the integers k; the targets are also judged by "
        "an exact python oracle of the definition (row minima of the integer table) because C03.Spec is exponential in "
        "the prefix length",
        "loss in regime T: log_softmax is torch's float64 result; no discrete decision depends on the logits",
        "stream ninf-logits: logits may be -inf (never +inf / nan, never a whole row, never with class weight 0).  A "
        "log-probability of -inf enters PV.C03.Model as the stand-in -1e30, which the model reads only if the class is a "
        "target; when the python oracle of the definition finds a ruled-out target (expected loss +inf) the case is judged by "
        "that oracle alone (loss_oracle: exact integer table for the targets, torch's log_softmax as data, +inf exactly "
        "where the definition gives it); every ninf case is judged by the oracle in addition to the model",
        "all three costs > 0 (hypothesis of c03_oc_member_iff); reference tensors of width 0 raise IndexError in "
        "_string_matching(return_mask=True) and zero-width tensors with eos raise in _lens_from_eos: outside the input space",
        "loss cases: every counted reference token is a class index, ignore_index is not, eos is a class index when counted",
        "the batch dimension of the mask model is a map over columns; independence across the batch of the vectorised "
        "code is covered by the correspondence and the single-pair metamorphic relation"]
    replaying = cases is not None
    cases = cases if cases is not None else gen_cases(chk)
    outs, terms, streams = [], [], []
    for c in cases:
        stream = c.pop("stream", "random")
        eos_kind = c.pop("eos_kind", None)
        streams.append(stream)
        out = run_impl(c)
        outs.append(out)
        terms.append(model_term(c, out))
        chk.note_case(c, nontrivial(c, out), stream)
        N, R, H = _dims(c)
        chk.count("api=" + c["api"] + ("/module" if c["module"] else "") + ("/" + c["reduction"] if c["api"] == "loss" else ""))
        chk.count("flags=" + "".join(ch if c.get(k, True) else "-" for ch, k in
                                     (("E", "include_eos"), ("B", "batch_first"), ("X", "exclude_last"))))
        chk.count("costs=" + ("uniform" if len(set(c["costs"])) == 1 else "nonuniform"))
        chk.count("eos=" + (eos_kind or ("none" if c["eos"] is None else "given")))
        chk.count("N=%d" % N)
        chk.count("R=%s" % (R if R <= 8 else ">8" if R < 255 else R))
        chk.count("H=%s" % (H if H <= 8 else ">8" if H < 255 else H))
        chk.count("entry=" + (c.get("entry") or "legacy"))
        chk.count("layout=" + "/".join(c.get("layout") or ("contig", "contig")))
        for key in ("history", "alias", "ids", "numeric", "llayout", "f32", "tiescale"):
            if c.get(key):
                chk.count(key + "=" + str(c[key]))
        if c.get("scale") and not c.get("tiescale"):
            chk.count("scale=%d" % c["scale"])
        if c.get("tiescale"):
            # how close a runner-up comes to a row minimum (what a tolerant tie test would merge), from the exact table
            nears = [x for x in (oracle_pair(c, n)[1] for n in range(N)) if x]
            denom = Fraction(c["scale"])
            for name, hit in (("relative gap < 1e-5", any(Fraction(g, m) < Fraction(1, 10 ** 5) for g, m in nears)),
                              ("relative gap < 1e-6", any(Fraction(g, m) < Fraction(1, 10 ** 6) for g, m in nears)),
                              ("absolute gap < 1e-8", any(g / denom < Fraction(1, 10 ** 8) for g, m in nears))):
                if hit:
                    chk.count("tie-scale/%s: cases with a runner-up that close to a row minimum (%s)" % (c["api"], name))
            chk.count("tie-scale: padded H %s" % ("<=5" if H <= 5 else "6-10" if H <= 10 else "11-16" if H <= 16 else "17-24"))
        chk.count("outcome=" + ("exc:" + out["exc"] if "exc" in out else "ok"))
        chk.count("pairs", N)
        cuts = [(_cut(r, c["eos"], c["include_eos"]), _cut(h, c["eos"], c["include_eos"])) for r, h in zip(c["ref"], c["hyp"])]
        chk.count("empty_ref_pairs", sum(1 for a, b in cuts if not a))
        chk.count("empty_hyp_pairs", sum(1 for a, b in cuts if not b))
        chk.count("excluded_pairs(empty hyp + exclude_last)", sum(1 for a, b in cuts if not b and c.get("exclude_last", True)))
        chk.count("refs_with_repeated_token", sum(1 for a, b in cuts if len(set(a)) < len(a)))
        if c["api"] == "oc" and "exc" not in out:
            chk.count("width_C=%d" % out["shape"][2])
            for plane in out["val"]:
                for row in plane:
                    chk.count("targets_per_row=%d" % sum(1 for t in row if t != c["padding"]))
        if c["api"] == "loss" and c.get("ninf"):
            pad_, pad0_, empty_, tgt_ = _ninf_profile(c)
            chk.count("ninf=" + c.get("ninf_kind", "corpus") + "/" + c["reduction"])
            chk.count("ninf: judged by " + ("the python oracle of the definition (a target ruled out: loss +inf)" if tgt_
                                            else "PV.C03.Model (every target has a finite log-probability)"))
            for name, hit in (("-inf on a non-target class at a step with a padded target slot", pad_),
                              ("-inf on class 0, not a target, at a step with a padded target slot", pad0_),
                              ("-inf on some class at a step without any target (expected exactly 0)", empty_),
                              ("-inf on a target (expected +inf)", tgt_)):
                if hit:
                    chk.count("ninf: cases with " + name)
        if c["api"] == "loss":
            chk.count("weight=" + ("given" if c["weight"] is not None else "none"))
            if c["eos"] is not None and not c["include_eos"]:
                ne = sum(1 for r in c["ref"] if r and r[0] == c["eos"])
                if ne:
                    chk.count("loss/%s: batches with a reference starting with eos (no target at any step)" % c["reduction"])
                if ne == N:
                    chk.count("loss: no pair of the batch has any target (width 0)")
    # the Coq evaluations run beside the metamorphic phase; batches wider than 255 get their own shards and are not
    # handed to the spec (its recursion is exponential)
    from concurrent.futures import ThreadPoolExecutor

    def _wide(c):
        return bool(c.get("long") or c.get("slow") or max(_dims(c)[1:]) > 40)

    slow = [i for i, c in enumerate(cases) if _wide(c)]
    slow_set = set(slow)
    fast = [i for i in range(len(cases)) if i not in slow_set]
    # every optimal_completion output of the run is also judged by the spec alone (model-free)
    NEW = ("loss-empty-ref", "eos-mix", "sparse-defaults", "entry-layout", "numeric", "long-ref", "long-hyp", "tie-scale",
           "ninf-logits")
    oc_idx = [i for i, c in enumerate(cases) if c["api"] == "oc" and i not in slow_set and _spec_work(c) <= 200_000 and
              (replaying or (chk.tier == "thorough" and streams[i] != "exhaustive") or
               i % (4 if streams[i] in NEW else 2) == 0)]
    pool = ThreadPoolExecutor(max_workers=3)
    fut_fast = pool.submit(coq_eval_bools, chk.workdir, IMPORTS, [terms[i] for i in fast])
    fut_slow = pool.submit(coq_eval_bools, chk.workdir, IMPORTS, [terms[i] for i in slow], 1, None, 1800, "long")
    fut_spec = pool.submit(coq_eval_bools, chk.workdir, IMPORTS, [spec_term(cases[i], outs[i]) for i in oc_idx], 300, None,
                           900, "specall")

    mrng = random.Random(chk.seed + 1)
    meta_n, meta_fail = 0, []
    for i, c in enumerate(cases):
        if not replaying and (_wide(c) or c.get("entry") in base.JIT or streams[i] in NEW and i % 8 != 0):
            continue
        if replaying or (streams[i] != "exhaustive" and i % 2 == 0) or i % 12 == 0:
            meta_n += 1
            for what, vc, vo in metamorphic(c, outs[i], mrng):
                meta_fail.append((i, what, vc, vo))
    chk.extra["metamorphic_cases"] = meta_n
    chk.extra["metamorphic_failures"] = len(meta_fail)

    res = [True] * len(cases)
    for i, ok in zip(fast, fut_fast.result()):
        res[i] = ok
    for i, ok in zip(slow, fut_slow.result()):
        res[i] = ok
    bad = [i for i, ok in enumerate(res) if not ok]
    chk.extra["model_disagreements"] = len(bad)
    spec_bad = [i for i, ok in zip(oc_idx, fut_spec.result()) if not ok]
    pool.shutdown()
    # the targets of every tie-scale case (for the loss: of its internal optimal_completion call) are also judged by the
    # exact python oracle of the definition - most of them are too long for C03.Spec
    orc_idx = [i for i, c in enumerate(cases) if c.get("tiescale") and "exc" not in outs[i]]
    orc_bad = []
    for i in orc_idx:
        tc = cases[i] if cases[i]["api"] == "oc" else dict(_targets_case(cases[i]), entry=None)
        if not oracle_ok(tc, outs[i] if cases[i]["api"] == "oc" else run_impl(tc)):
            orc_bad.append(i)
    chk.extra["oracle_judged_outputs"] = len(orc_idx)
    chk.extra["oracle_rejections"] = len(orc_bad)
    spec_bad += [i for i in orc_bad if i not in spec_bad]
    # every loss on logits with ruled-out classes is also judged by the python oracle of the definition (loss_oracle)
    nf_idx = [i for i, c in enumerate(cases) if c["api"] == "loss" and c.get("ninf")]
    nf_bad = [i for i in nf_idx if not oracle_loss_ok(cases[i], outs[i])]
    chk.extra["ninf_oracle_judged_losses"] = len(nf_idx)
    chk.extra["ninf_oracle_rejections"] = len(nf_bad)
    spec_bad += [i for i in nf_bad if i not in spec_bad]
    chk.extra["spec_judged_outputs"] = len(oc_idx)
    chk.extra["spec_rejections"] = len(spec_bad)

    found_concrete = False
    wide_bad = [i for i in bad if _wide(cases[i])]
    bad = [i for i in bad if not _wide(cases[i])]
    for i in wide_bad[:2]:
        if not found_concrete or not bad:
            found_concrete = True
            chk.report(judge_wide(chk, cases[i], outs[i]))
    for i in bad[:2]:
        case = shrink(cases[i], lambda c: _fails(chk, c), _cands, budget=45)
        out = run_impl(case)
        rec, spec_ok = judge(chk, case, out)
        if not spec_ok:
            found_concrete = True
            chk.report(rec)
    for i in [j for j in spec_bad if j not in bad][:2]:
        rec, _ = judge(chk, cases[i], outs[i])
        found_concrete = True
        chk.report(rec)
    if bad and not found_concrete:
        hit = [i for i in bad if i in spec_bad]
        if not hit:
            rest = [i for i in bad if cases[i]["api"] == "oc" and i not in oc_idx and _spec_work(cases[i]) <= 200_000]
            r2 = coq_eval_bools(chk.workdir, IMPORTS, [spec_term(cases[i], outs[i]) for i in rest], tag="specbad")
            hit = [i for i, ok in zip(rest, r2) if not ok]
        if hit:
            rec, _ = judge(chk, cases[hit[0]], outs[hit[0]])
            chk.report(rec)
            found_concrete = True
    for i, what, vc, vo in meta_fail[:2]:
        found_concrete = True
        chk.report({"case": cases[i], "impl": outs[i], "variant_case": _strip(vc), "variant_impl": vo,
                    "what": "metamorphic relation of the property fails on the implementation: " + what,
                    "correspondence": "corr:C03:metamorphic", "theorems_at_stake": THEOREMS})
    if bad and not found_concrete:
        rec, _ = judge(chk, cases[bad[0]], outs[bad[0]])
        chk.report(rec, no_failing_input=True)
    from props import c03_tie  # source tie: the translated _string_matching(return_mask=True) interpreted in Coq on this run's cases
    c03_tie.source_tie(chk, cases, outs)
    c03_tie.source_tieB(chk, cases, outs)  # second tie: hard_optimal_completion_distillation_loss (unit C03BSrc)


def replay(chk, path):
    rec = json.loads(open(path).read())
    todo = [_strip(dict(rec["case"]))]
    if "variant_case" in rec:
        todo.append(_strip(dict(rec["variant_case"])))
    run(chk, todo)
