(* C18 — tie between the Python text of `time_distributed_return` and PV.C18.Model, checked by the
   kernel.  PV.Gen.C18Src.tdr_body is the MiniPy term that harness/py2coq/translate.py regenerates
   from /repo/src/pydrobert/torch/_rl.py on every run; PV.MiniPy.Interp is its semantics; the
   torch calls mean what PV.MiniTorch.Ops says (through SrcRun.ext18).  The lemmas below say:
   for EVERY reward tensor, discount factor and layout, interpreting the source computes exactly
   Model.time_distributed_return - the same tensor (shape and every rational, syntactically) or
   the same RuntimeError.  If the source is edited so that this stops being true, this file
   stops compiling and the C18 check reports the broken obligation. *)
From Coq Require Import ZArith QArith List String Bool Arith Lia ZifyBool ZifyNat.
From PV Require Import MiniPy.Syntax MiniPy.Interp MiniTorch.Ops MiniTorch.Value MiniTorch.Lemmas Gen.C18Src.
From PV Require Import C18.SrcRun.
From PV Require Import C18.Model C18.Spec C18.QLemmas C18.Tensor C18.ProofsReturn.
Import ListNotations.
Local Open Scope string_scope.

(* ---- what the torch calls of the body compute (MiniTorch level) ----------------------------- *)
Definition inj (i : nat) : Q := inject_Z (Z.of_nat i).

Lemma arange_nat : forall T, Ops.arange (Z.of_nat T) = Some (tab1 T inj).
Proof.
  intros T. unfold Ops.arange. replace (Z.of_nat T <? 0)%Z with false by lia. now rewrite Nat2Z.id.
Qed.

Lemma bdim_1_l : forall n, bdim 1 n = Some n.
Proof. intros n. unfold bdim. destruct (Nat.eqb_spec 1 n); [now subst|reflexivity]. Qed.

Lemma bdim_1_r : forall n, bdim n 1 = Some n.
Proof. intros n. unfold bdim. destruct (Nat.eqb_spec n 1); reflexivity. Qed.

Lemma bidx_same : forall n i, (i < n)%nat -> bidx n i = i.
Proof. intros n i H. unfold bidx. destruct (Nat.eqb_spec n 1); lia. Qed.

(* exp.unsqueeze(0) - exp.unsqueeze(1): entry (i, j) = j - i;  the other order: i - j *)
Lemma sub_row_col : forall T,
  Ops.sub (tab2 1 T (fun _ j => inj j)) (tab2 T 1 (fun i _ => inj i)) =
  Some (tab2 T T (fun i j => (inj j - inj i)%Q)).
Proof.
  intros T. unfold Ops.sub. rewrite (broadcast2_tab2 _ _ _ _ _ _ _ T T (bdim_1_l T) (bdim_1_r T)).
  f_equal. apply tab2_ext. intros i j Hi Hj. now rewrite !bidx_same.
Qed.

Lemma sub_col_row : forall T,
  Ops.sub (tab2 T 1 (fun i _ => inj i)) (tab2 1 T (fun _ j => inj j)) =
  Some (tab2 T T (fun i j => (inj i - inj j)%Q)).
Proof.
  intros T. unfold Ops.sub. rewrite (broadcast2_tab2 _ _ _ _ _ _ _ T T (bdim_1_r T) (bdim_1_l T)).
  f_equal. apply tab2_ext. intros i j Hi Hj. now rewrite !bidx_same.
Qed.

Lemma clamp_min_tab2 : forall n m f c, Ops.clamp_min (tab2 n m f) c = tab2 n m (fun i j => Ops.qmax c (f i j)).
Proof. intros. unfold Ops.clamp_min. apply tmap_tab2. Qed.

Lemma pow_triu_exponents : forall g T,
  pow_scalar g (tab2 T T (fun i j => Ops.qmax 0 (inj j - inj i)%Q)) = Some (tab2 T T (fun i j => Ops.qpow g (j - i))).
Proof. intros g T. apply pow_scalar_tab2. intros i j _ _. apply nat_of_q_clamped_diff. Qed.

Lemma pow_tril_exponents : forall g T,
  pow_scalar g (tab2 T T (fun i j => Ops.qmax 0 (inj i - inj j)%Q)) = Some (tab2 T T (fun i j => Ops.qpow g (i - j))).
Proof. intros g T. apply pow_scalar_tab2. intros i j _ _. apply nat_of_q_clamped_diff. Qed.

(* the discount matrices the source builds (MiniTorch) and the model's *)
Definition src_disc_triu (g : Q) (T : nat) : tens := tab2 T T (fun i j => if (i <=? j)%nat then Ops.qpow g (j - i) else 0%Q).
Definition src_disc_tril (g : Q) (T : nat) : tens := tab2 T T (fun i j => if (j <=? i)%nat then Ops.qpow g (i - j) else 0%Q).

Lemma qpow_same : forall g n, Ops.qpow g n = Model.qpow g n.
Proof. intros g n. induction n as [|n IH]; [reflexivity|]. cbn [Ops.qpow Model.qpow]. now rewrite IH. Qed.

Lemma qsum_same : forall l, Ops.qsum l = Model.qsum l.
Proof. reflexivity. Qed.

(* ---- Model.tabulate on matrices is tab2 ---------------------------------------------------- *)
Lemma model_tabulate2 : forall n m f,
  tabulate [n; m] f = mkT [n; m] (flat_map (fun i => map (fun j => f [i; j]) (seq 0 m)) (seq 0 n)).
Proof.
  intros n m f. unfold tabulate. f_equal. cbn [indices map]. rewrite map_flat_map.
  apply flat_map_ext_in. intros i _.
  rewrite (flat_map_singleton (fun j : nat => [j])), !map_map. reflexivity.
Qed.

Lemma get_matrix : forall a b d i j, Model.get (mkT [a; b] d) [i; j] = getm b (mkTens [a; b] d) i j.
Proof.
  intros. unfold Model.get, getm. cbn [ravel Model.shape Model.data tdata prodn fold_right]. f_equal. lia.
Qed.

(* the two products: enc of the MiniTorch product = enc of the model's product *)
Lemma matmul_triu_tie : forall g T N d,
  enc (tab2 T N (fun i j => Ops.qsum (map (fun l => (getm T (src_disc_triu g T) i l * getm N (mkTens [T; N] d) l j)%Q) (seq 0 T))))
  = enc_tensor (Model.matmul (disc_triu g T) (mkT [T; N] d)).
Proof.
  intros g T N d. unfold enc_tensor, of_model, Model.matmul.
  change (nth 0 (Model.shape (disc_triu g T)) 0%nat) with T.
  change (nth 1 (Model.shape (disc_triu g T)) 0%nat) with T.
  change (nth 1 (Model.shape (mkT [T; N] d)) 0%nat) with N.
  rewrite model_tabulate2. cbn [Model.shape Model.data]. unfold tab2. do 2 f_equal.
  apply flat_map_ext_in. intros i Hi. apply in_seq in Hi. apply map_ext_in. intros j Hj. apply in_seq in Hj.
  rewrite qsum_same. apply qsum_ext_in. intros l Hl. apply in_seq in Hl.
  cbn [nth]. rewrite get_disc_triu, get_matrix by lia. unfold src_disc_triu. rewrite getm_tab2 by lia.
  unfold disc. destruct (i <=? l)%nat; [rewrite qpow_same|]; reflexivity.
Qed.

Lemma matmul_tril_tie : forall g T N d,
  enc (tab2 N T (fun i j => Ops.qsum (map (fun l => (getm T (mkTens [N; T] d) i l * getm T (src_disc_tril g T) l j)%Q) (seq 0 T))))
  = enc_tensor (Model.matmul (mkT [N; T] d) (disc_tril g T)).
Proof.
  intros g T N d. unfold enc_tensor, of_model, Model.matmul.
  change (nth 0 (Model.shape (mkT [N; T] d)) 0%nat) with N.
  change (nth 1 (Model.shape (mkT [N; T] d)) 0%nat) with T.
  change (nth 1 (Model.shape (disc_tril g T)) 0%nat) with T.
  rewrite model_tabulate2. cbn [Model.shape Model.data]. unfold tab2. do 2 f_equal.
  apply flat_map_ext_in. intros i Hi. apply in_seq in Hi. apply map_ext_in. intros j Hj. apply in_seq in Hj.
  rewrite qsum_same. apply qsum_ext_in. intros l Hl. apply in_seq in Hl.
  cbn [nth]. rewrite get_disc_tril, get_matrix by lia. unfold src_disc_tril. rewrite getm_tab2 by lia.
  unfold disc. destruct (j <=? l)%nat; [rewrite qpow_same|]; reflexivity.
Qed.

(* ---- tensors inside the interpreter ---------------------------------------------------------- *)
Lemma method_enc : forall t m args, method (enc t) m args = None.
Proof. reflexivity. Qed.

Lemma attribute_enc : forall ext t a st, attribute ext (enc t) a st = ext ("$attr." ++ a) [enc t] [] st.
Proof. reflexivity. Qed.

Lemma binop_sub_enc : forall t u st, binop_eval Sub (enc t) (enc u) st = Stuck "sub".
Proof. reflexivity. Qed.

Lemma on_tens_enc : forall why t k st, on_tens why (enc t) k st = ret_tens why (k t) st.
Proof. intros. unfold on_tens. now rewrite dec_enc. Qed.

Lemma on_tens2_enc : forall why t u k st, on_tens2 why (enc t) (enc u) k st = ret_tens why (k t u) st.
Proof. intros. unfold on_tens2. now rewrite !dec_enc. Qed.

Lemma size_matrix_0 : forall a b d, Ops.size (mkTens [a; b] d) 0 = Some a.
Proof. reflexivity. Qed.

Lemma size_matrix_1 : forall a b d, Ops.size (mkTens [a; b] d) 1 = Some b.
Proof. reflexivity. Qed.

#[local] Arguments enc : simpl never.
#[local] Arguments dec : simpl never.
#[local] Arguments Ops.arange : simpl never.
#[local] Arguments Ops.unsqueeze : simpl never.
#[local] Arguments Ops.sub : simpl never.
#[local] Arguments Ops.clamp_min : simpl never.
#[local] Arguments Ops.pow_scalar : simpl never.
#[local] Arguments Ops.tril : simpl never.
#[local] Arguments Ops.triu : simpl never.
#[local] Arguments Ops.matmul : simpl never.
#[local] Arguments Ops.size : simpl never.
#[local] Arguments tab1 : simpl never.
#[local] Arguments tab2 : simpl never.
#[local] Arguments Z.of_nat : simpl never.
#[local] Arguments Z.eqb : simpl never.
#[local] Arguments Qeq_bool : simpl never.
#[local] Arguments inj : simpl never.
#[local] Arguments getm : simpl never.
#[local] Arguments Ops.qsum : simpl never.
#[local] Arguments src_disc_triu : simpl never.
#[local] Arguments src_disc_tril : simpl never.

(* one step of the symbolic run: compute, then discharge what blocks on an abstract tensor *)
Ltac tstep :=
  cbn;
  rewrite ?method_enc, ?attribute_enc, ?binop_sub_enc, ?dec_enc, ?on_tens_enc, ?on_tens2_enc, ?size_matrix_0, ?size_matrix_1,
    ?arange_nat, ?unsqueeze_tab1_0, ?unsqueeze_tab1_1, ?sub_row_col, ?sub_col_row, ?clamp_min_tab2,
    ?pow_triu_exponents, ?pow_tril_exponents, ?triu_tab2, ?tril_tab2.

(* the run on a matrix, gamma <> 0, time-major layout: torch.matmul(discount.triu(), r) *)
Lemma run_time_major : forall T N d g, Qeq_bool g 0 = false ->
  exists st, run_return (mkT [T; N] d) g false
             = Interp.Ok (enc_tensor (Model.matmul (disc_triu g T) (mkT [T; N] d))) st.
Proof.
  intros T N d g Hg. unfold run_return, Interp.run, tdr_body, return_vars, enc_tensor at 1, of_model.
  cbn [Model.shape Model.data].
  do 3 tstep. change (Z.of_nat 2 =? 2)%Z with true. cbn. rewrite Hg.
  repeat (progress tstep).
  fold (src_disc_triu g T).
  rewrite (matmul_2d (src_disc_triu g T) (mkTens [T; N] d) T T N) by reflexivity.
  cbn. rewrite matmul_triu_tie. eexists. reflexivity.
Qed.

(* batch-major layout: torch.matmul(r, discount.tril()) *)
Lemma run_batch_major : forall T N d g, Qeq_bool g 0 = false ->
  exists st, run_return (mkT [N; T] d) g true
             = Interp.Ok (enc_tensor (Model.matmul (mkT [N; T] d) (disc_tril g T))) st.
Proof.
  intros T N d g Hg. unfold run_return, Interp.run, tdr_body, return_vars, enc_tensor at 1, of_model.
  cbn [Model.shape Model.data].
  do 3 tstep. change (Z.of_nat 2 =? 2)%Z with true. cbn. rewrite Hg.
  repeat (progress tstep).
  fold (src_disc_tril g T).
  rewrite (matmul_2d (mkTens [N; T] d) (src_disc_tril g T) N T T) by reflexivity.
  cbn. rewrite matmul_tril_tie. eexists. reflexivity.
Qed.

(* `if not gamma: return r` *)
Lemma run_gamma_zero : forall a b d g bf, Qeq_bool g 0 = true ->
  exists st, run_return (mkT [a; b] d) g bf = Interp.Ok (enc_tensor (mkT [a; b] d)) st.
Proof.
  intros a b d g bf Hg. unfold run_return, Interp.run, tdr_body, return_vars, enc_tensor, of_model.
  cbn [Model.shape Model.data].
  do 3 tstep. change (Z.of_nat 2 =? 2)%Z with true. cbn. rewrite Hg. cbn. eexists. reflexivity.
Qed.

(* `if r.dim() != 2: raise RuntimeError(...)` *)
Lemma run_not_matrix : forall r g bf, List.length (Model.shape r) <> 2%nat ->
  run_return r g bf = Interp.Exc runtime_error (mkState (return_vars r g bf) []).
Proof.
  intros r g bf H. unfold run_return, Interp.run, tdr_body, return_vars, enc_tensor.
  do 3 tstep. unfold Ops.dim, of_model. cbn [tshape].
  replace (Z.of_nat (List.length (Model.shape r)) =? 2)%Z with false by lia. reflexivity.
Qed.

(* ---- the tie ------------------------------------------------------------------------------------ *)
Theorem return_tie_ok : forall r g bf out,
  Model.time_distributed_return r g bf = Model.Ok out ->
  exists st, run_return r g bf = Interp.Ok (enc_tensor out) st.
Proof.
  intros [sh d] g bf out H. unfold Model.time_distributed_return in H. cbn [Model.shape] in H.
  destruct sh as [|a [|b [|c sh]]]; cbn in H; try discriminate.
  destruct (Qeq_bool g 0) eqn:Hg.
  - inversion H; subst out. now apply run_gamma_zero.
  - destruct bf; inversion H; subst out.
    + apply run_batch_major. exact Hg.
    + apply run_time_major. exact Hg.
Qed.

Theorem return_tie_err : forall r g bf e,
  Model.time_distributed_return r g bf = Model.Err e ->
  run_return r g bf = Interp.Exc runtime_error (mkState (return_vars r g bf) []).
Proof.
  intros r g bf e H. apply run_not_matrix. apply (return_error_iff r g bf).
  pose proof H as H'. unfold Model.time_distributed_return in H'.
  destruct (negb (List.length (Model.shape r) =? 2)%nat); [inversion H'; subst e; exact H|].
  destruct (Qeq_bool g 0); [discriminate|]. destruct bf; discriminate.
Qed.

Lemma to_of_model : forall t, to_model (of_model t) = t.
Proof. intros [sh d]. reflexivity. Qed.

(* the executable form used by the harness: for ALL inputs it is the model *)
Theorem src_return_tie : forall r g bf, src_return r g bf = Some (Model.time_distributed_return r g bf).
Proof.
  intros r g bf. unfold src_return.
  destruct (Model.time_distributed_return r g bf) as [out|e] eqn:E.
  - destruct (return_tie_ok r g bf out E) as [st ->]. unfold enc_tensor. rewrite dec_enc. cbn [option_map].
    now rewrite to_of_model.
  - rewrite (return_tie_err r g bf e E). unfold runtime_error. cbn.
    assert (e = ERuntime) as ->; [|reflexivity].
    unfold Model.time_distributed_return in E.
    destruct (negb (List.length (Model.shape r) =? 2)%nat); [now inversion E|].
    destruct (Qeq_bool g 0); [discriminate|]. destruct bf; discriminate.
Qed.

Theorem src_return_check_is_check : forall r g bf tol impl,
  src_return_check r g bf tol impl = check_return r g bf tol impl.
Proof. intros. unfold src_return_check, check_return. now rewrite src_return_tie. Qed.

(* ---- composed with the model theorems: statements purely about the interpreted source -------- *)
(* R_t = r_t + gamma * R_(t+1), R beyond the horizon = 0, read off the value the source returns *)
Theorem source_return_recursion : forall r g (bf : bool) T N,
  Model.shape r = (if bf then [N; T] else [T; N]) ->
  exists out st,
    run_return r g bf = Interp.Ok (enc_tensor out) st /\
    Model.shape out = Model.shape r /\
    forall t n, (t < T)%nat -> (n < N)%nat ->
      (at2 bf out t n == at2 bf r t n + g * (if (S t <? T)%nat then at2 bf out (S t) n else 0))%Q.
Proof.
  intros r g bf T N Hsh.
  destruct (Model.time_distributed_return r g bf) as [out|e] eqn:E.
  - destruct (return_tie_ok r g bf out E) as [st Hr]. exists out, st. split; [exact Hr|].
    exact (return_recursion r g bf T N out Hsh E).
  - exfalso. assert (e = ERuntime) as ->.
    { unfold Model.time_distributed_return in E.
      destruct (negb (List.length (Model.shape r) =? 2)%nat); [now inversion E|].
      destruct (Qeq_bool g 0); [discriminate|]. destruct bf; discriminate. }
    apply return_error_iff in E. rewrite Hsh in E. destruct bf; apply E; reflexivity.
Qed.

(* ... hence the source returns THE discounted return of every reward column *)
Theorem source_return_eq_spec : forall r g (bf : bool) T N,
  Model.shape r = (if bf then [N; T] else [T; N]) ->
  exists out st,
    run_return r g bf = Interp.Ok (enc_tensor out) st /\
    forall t n, (t < T)%nat -> (n < N)%nat ->
      (at2 bf out t n == nth t (ret_rec g (map (fun k => at2 bf r k n) (seq 0 T))) 0)%Q.
Proof.
  intros r g bf T N Hsh.
  destruct (source_return_recursion r g bf T N Hsh) as [out [st [Hr _]]].
  destruct (Model.time_distributed_return r g bf) as [out'|e] eqn:E.
  - destruct (return_tie_ok r g bf out' E) as [st' Hr']. exists out', st'. split; [exact Hr'|].
    exact (return_eq_spec r g bf T N out' Hsh E).
  - rewrite (return_tie_err r g bf e E) in Hr. discriminate.
Qed.
