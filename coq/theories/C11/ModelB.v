(* C11 - additions to C11.Model for the second source tie (write_trn, write_textgrid, the path entry points):
   the arguments AS THE CODE IS GIVEN THEM, where C11.Model starts from an already unwrapped form.
   Definitions only; everything is stated in terms of C11.Model's functions. *)
From Coq Require Import List ZArith QArith Bool.
From PV Require Import C11.Model.
Import ListNotations.

(* a Python real number (the start / end of a timed token): an int or a float *)
Inductive num := NInt (z : Z) | NQ (q : Q).

(* an element of a transcript as write_trn receives it: a bare token, or a triple (x, start, end) with x a token or a
   list of alternates (read_trn returns top-level alternates as (alts, -1, -1)).  C11.Model.write_trn_file takes the
   elements with start / end already dropped ("the harness does that unwrapping"); here the writer drops them. *)
Inductive top := TBare (t : str) | TTimed (x : elem) (s e : num).

Definition untimed (t : top) : elem := match t with TBare s => Tok s | TTimed x _ _ => x end.

Definition untimed_utt (ut : str * list top) : str * list elem := (fst ut, map untimed (snd ut)).

(* write_trn on an open file, timed elements included *)
Definition write_trn_tops (ts : list (str * list top)) : str := write_trn_file (map untimed_utt ts).

(* nesting depth of the alternates (the recursion depth of write_trn._handle_x) *)
Fixpoint edepth (x : elem) : nat :=
  match x with
  | Tok _ => O
  | Alt brs => S (list_max (map (fun b => list_max (map edepth b)) brs))
  end.

Definition tdepth (ts : list (str * list top)) : nat :=
  list_max (map (fun ut => list_max (map (fun t => edepth (untimed t)) (snd ut))) ts).
