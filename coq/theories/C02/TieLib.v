(* C02 - infrastructure of the source tie of `_string_matching` in the `return_mistakes = True` configuration:
   what reaches C02.SrcRun.ext02 call by call (the calls of the plain path are answered by C01's ext01 - the
   lemmas of C01.TieLib are re-stated for ext02 and proved FROM them -, the three new ones by MiniTorch.OpsC02),
   statement-by-statement execution lemmas and the tactics of the symbolic runs for ext02.  The generic part
   (abstract states, [runs_to], [push_state], [seq_take] / [seq_drop] / [flatten]) is C01.TieLib's, imported.
   No statement about the source itself here. *)
From Coq Require Import ZArith QArith List String Bool Arith Lia ZifyBool ZifyNat.
From PV Require Import MiniPy.Syntax MiniPy.Interp MiniPy.Lemmas MiniTorch.Ops MiniTorch.Lemmas MiniTorch.OpsC07 MiniTorch.LemmasC07
  MiniTorch.OpsC01 MiniTorch.LemmasC01 MiniTorch.OpsC02 MiniTorch.LemmasC02.
From PV Require Import Gen.C02Src C01.SrcRun C01.TieLib C02.SrcRun.
From PV Require C07.SrcRun.
Import ListNotations.
Local Open Scope string_scope.

#[local] Arguments dec01 : simpl never.
#[local] Arguments enc_b : simpl never.
#[local] Arguments enc_i : simpl never.
#[local] Arguments enc_x : simpl never.
#[local] Arguments tab2 : simpl never.
#[local] Arguments tab3 : simpl never.
#[local] Arguments qz : simpl never.
#[local] Arguments Z.add : simpl never.
#[local] Arguments Z.sub : simpl never.
#[local] Arguments Z.of_nat : simpl never.
#[local] Arguments select0 : simpl never.
#[local] Arguments set_select0 : simpl never.
#[local] Arguments slice0 : simpl never.
#[local] Arguments set_slice0 : simpl never.
#[local] Arguments broadcast : simpl never.
#[local] Arguments where_f : simpl never.
#[local] Arguments min_dim : simpl never.
#[local] Arguments gather0 : simpl never.
#[local] Arguments unsqueeze : simpl never.
#[local] Arguments squeeze_dim : simpl never.
#[local] Arguments expand2 : simpl never.
#[local] Arguments triu_f : simpl never.
#[local] Arguments transpose2 : simpl never.
#[local] Arguments arange_f : simpl never.
#[local] Arguments full : simpl never.
#[local] Arguments fadd : simpl never.
#[local] Arguments fsub : simpl never.
#[local] Arguments fmul : simpl never.
#[local] Arguments fdiv : simpl never.
#[local] Arguments fmin : simpl never.
#[local] Arguments fge : simpl never.
#[local] Arguments b2f : simpl never.
#[local] Arguments z2f : simpl never.
#[local] Arguments ext01 : simpl never.

Lemma num_q_enc_x t : num_q (enc_x t) = None.  Proof. reflexivity. Qed.
Lemma num_q_enc_i t : num_q (enc_i t) = None.  Proof. reflexivity. Qed.

(* a call that ext02 hands over to ext01 *)
Ltac via L :=
  unfold ext02; cbn; rewrite ?dec01_enc_x, ?dec01_enc_i, ?dec01_enc_b; cbn; rewrite ?num_q_enc_x, ?num_q_enc_i; cbn; apply L.

(* ---- what reaches ext02, call by call ---- *)
Section ExtLemmas.
  Notation ext := ext02.
  Lemma ext_cmp_lt c y st : ext "compare" [VStr "lt"; VInt c; enc_i y] [] st = Ok (enc_b (map_t (fun v => Z.ltb c v) y)) st.
  Proof. via C01.TieLib.ext_cmp_lt. Qed.
  Lemma ext_cmp_ge x c st : ext "compare" [VStr "ge"; enc_i x; VInt c] [] st = Ok (enc_b (ge_s x c)) st.
  Proof. via C01.TieLib.ext_cmp_ge. Qed.
  Lemma ext_cmp_eq x c st : ext "compare" [VStr "eq"; enc_i x; VInt c] [] st = Ok (enc_b (eq_s x c)) st.
  Proof. via C01.TieLib.ext_cmp_eq. Qed.
  Lemma ext_cmp_ne x y st : ext "compare" [VStr "ne"; enc_i x; enc_i y] [] st =
    ret01 "ne" (option_map AB (cmp_i (fun u v => negb (Z.eqb u v)) x y)) st.
  Proof. via C01.TieLib.ext_cmp_ne. Qed.
  Lemma ext_float_b x st : ext "$method.float" [enc_b x] [] st = Ok (enc_x (bool_to_float x)) st.
  Proof. via C01.TieLib.ext_float_b. Qed.
  Lemma ext_getitem_int_i x i st : ext "$getitem" [enc_i x; VInt i] [] st =
    match select0 x i with Some (Some r) => Ok (enc_i r) st | Some None => Exc index_error st | None => oob "getitem" end.
  Proof. via C01.TieLib.ext_getitem_int_i. Qed.
  Lemma ext_mul_q_x q y st : ext "operator" [VStr "mul"; VQ q; enc_x y] [] st = Ok (enc_x (map_t (fmul (Fq q)) y)) st.
  Proof. via C01.TieLib.ext_mul_q_x. Qed.
  Lemma ext_mul_x_q x q st : ext "operator" [VStr "mul"; enc_x x; VQ q] [] st = Ok (enc_x (map_t (fun e => fmul e (Fq q)) x)) st.
  Proof. via C01.TieLib.ext_mul_x_q. Qed.
  Lemma ext_add_x x y st : ext "operator" [VStr "add"; enc_x x; enc_x y] [] st = ret01 "add" (option_map AX (bin_f fadd x y)) st.
  Proof. via C01.TieLib.ext_add_x. Qed.
  Lemma ext_sub_x x y st : ext "operator" [VStr "sub"; enc_x x; enc_x y] [] st = ret01 "sub" (option_map AX (bin_f fsub x y)) st.
  Proof. via C01.TieLib.ext_sub_x. Qed.
  Lemma ext_getitem_slice_x x a b st :
    ext "$getitem" [enc_x x; VTuple [VStr "$slice"; a; b; VNone]] [] st =
    match dec_bound a, dec_bound b with
    | Some a', Some b' => ret01 "getitem slice" (option_map AX (slice0 x a' b')) st
    | _, _ => Stuck "getitem"
    end.
  Proof. via C01.TieLib.ext_getitem_slice_x. Qed.
  Lemma ext_setitem_slice_x x a b y st :
    ext "$setitem" [enc_x x; VTuple [VStr "$slice"; a; b; VNone]; enc_x y] [] st =
    match dec_bound a, dec_bound b with
    | Some a', Some b' => ret01 "setitem slice" (option_map AX (set_slice0 x a' b' y)) st
    | _, _ => Stuck "setitem"
    end.
  Proof. via C01.TieLib.ext_setitem_slice_x. Qed.
  Lemma ext_torch_min x y st : ext "torch.min" [enc_x x; enc_x y] [] st = ret01 "min" (option_map AX (bin_f fmin x y)) st.
  Proof. via C01.TieLib.ext_torch_min. Qed.
  Lemma ext_min_dim x d st : ext "$method.min" [enc_x x; VInt d] [] st =
    match min_dim x d with
    | Some (Some (v, i)) => Ok (VTuple [enc_x v; enc_i i]) st
    | Some None => Exc index_error st
    | None => oob "min"
    end.
  Proof. via C01.TieLib.ext_min_dim. Qed.
  Lemma ext_where c x y st : ext "torch.where" [enc_b c; enc_x x; enc_x y] [] st = ret01 "where" (option_map AX (where_f c x y)) st.
  Proof. via C01.TieLib.ext_where. Qed.
  Lemma ext_dim_i x st : ext "$method.dim" [enc_i x] [] st = Ok (VInt (Z.of_nat (List.length (shp x)))) st.
  Proof. via C01.TieLib.ext_dim_i. Qed.
  Lemma ext_t_i x st : ext "$method.t" [enc_i x] [] st = ret01 "t" (option_map AI (transpose2 0%Z x)) st.
  Proof. via C01.TieLib.ext_t_i. Qed.
  Lemma ext_empty st : ext "torch.empty" [VInt 0] [] st = Ok (enc_x (mkTn [0%nat] [])) st.
  Proof. reflexivity. Qed.
  Lemma ext_detach_i x st : ext "$method.detach" [enc_i x] [] st = Ok (enc_i x) st.
  Proof. via C01.TieLib.ext_detach_i. Qed.
  Lemma ext_shape_i x st : ext "$attr.shape" [enc_i x] [] st = Ok (VTuple (map (fun n => VInt (Z.of_nat n)) (shp x))) st.
  Proof. via C01.TieLib.ext_shape_i. Qed.
  Lemma ext_device_i x st : ext "$attr.device" [enc_i x] [] st = Ok device_token st.
  Proof. via C01.TieLib.ext_device_i. Qed.
  Lemma ext_dtype_i x st : ext "$attr.dtype" [enc_i x] [] st = Ok long_token st.
  Proof. via C01.TieLib.ext_dtype_i. Qed.
  Lemma ext_dtype_x x st : ext "$attr.dtype" [enc_x x] [] st = Ok float_token st.
  Proof. via C01.TieLib.ext_dtype_x. Qed.
  Lemma ext_lens tok e d st : ext "_lens_from_eos" [tok; e; d] [] st =
    C07.SrcRun.call_body (fun x => x) er_lens (("tok", tok) :: ("eos", e) :: ("dim", d) :: C07.SrcRun.globals07) st.
  Proof. reflexivity. Qed.
  Lemma ext_add_i_int x c st : ext "operator" [VStr "add"; enc_i x; VInt c] [] st = Ok (enc_i (add_s x c)) st.
  Proof. via C01.TieLib.ext_add_i_int. Qed.
  Lemma ext_sub_i x y st : ext "operator" [VStr "sub"; enc_i x; enc_i y] [] st = ret01 "sub" (option_map AI (bin_i Z.sub x y)) st.
  Proof. via C01.TieLib.ext_sub_i. Qed.
  Lemma ext_div_x x y st : ext "operator" [VStr "truediv"; enc_x x; enc_x y] [] st = ret01 "truediv" (option_map AX (bin_f fdiv x y)) st.
  Proof. via C01.TieLib.ext_div_x. Qed.
  Lemma ext_any x st : ext "$method.any" [enc_b x] [] st = Ok (VBool (any_b x)) st.
  Proof. via C01.TieLib.ext_any. Qed.
  Lemma ext_to_b_long x st : ext "$method.to" [enc_b x; long_token] [] st = Ok (enc_i (bool_to_long x)) st.
  Proof. via C01.TieLib.ext_to_b_long. Qed.
  Lemma ext_to_b_float x st : ext "$method.to" [enc_b x; float_token] [] st = Ok (enc_x (bool_to_float x)) st.
  Proof. via C01.TieLib.ext_to_b_float. Qed.
  Lemma ext_to_i_float x st : ext "$method.to" [enc_i x; float_token] [] st = Ok (enc_x (long_to_float x)) st.
  Proof. via C01.TieLib.ext_to_i_float. Qed.
  Lemma ext_full n v st : ext "torch.full" [VTuple [VInt n]; VInt v] [("device", device_token); ("dtype", long_token)] st =
    if Z.ltb n 0 then oob "full" else Ok (enc_i (full [Z.to_nat n] v)) st.
  Proof. reflexivity. Qed.
  Lemma ext_arange_f n st : ext "torch.arange" [VInt n] [("device", device_token); ("dtype", float_token)] st =
    ret01 "arange" (option_map AX (arange_f n)) st.
  Proof. reflexivity. Qed.
  Lemma ext_float_inf st : ext "float" [VStr "inf"] [] st = Ok (VInf true) st.
  Proof. reflexivity. Qed.
  Lemma ext_full_like_inf x st : ext "torch.full_like" [enc_x x; VInf true] [] st = Ok (enc_x (full (shp x) FPInf)) st.
  Proof. via C01.TieLib.ext_full_like_inf. Qed.
  Lemma ext_triu x k st : ext "$method.triu" [enc_x x; VInt k] [] st = ret01 "triu" (option_map AX (triu_f x k)) st.
  Proof. via C01.TieLib.ext_triu. Qed.
  Lemma ext_unsqueeze_x x d st : ext "$method.unsqueeze" [enc_x x; VInt d] [] st = ret01 "unsqueeze" (option_map AX (unsqueeze x d)) st.
  Proof. via C01.TieLib.ext_unsqueeze_x. Qed.
  Lemma ext_unsqueeze_i x d st : ext "$method.unsqueeze" [enc_i x; VInt d] [] st = ret01 "unsqueeze" (option_map AI (unsqueeze x d)) st.
  Proof. via C01.TieLib.ext_unsqueeze_i. Qed.
  Lemma ext_squeeze_x x d st : ext "$method.squeeze" [enc_x x; VInt d] [] st = ret01 "squeeze" (option_map AX (squeeze_dim x d)) st.
  Proof. via C01.TieLib.ext_squeeze_x. Qed.
  Lemma ext_expand_x x a b st : ext "$method.expand" [enc_x x; VInt a; VInt b] [] st = ret01 "expand" (option_map AX (expand2 FNaN x a b)) st.
  Proof. via C01.TieLib.ext_expand_x. Qed.
  Lemma ext_gather x y st : ext "$method.gather" [enc_x x; VInt 0; enc_i y] [] st = ret01 "gather" (option_map AX (gather0 x y)) st.
  Proof. via C01.TieLib.ext_gather. Qed.
  Lemma ext_eq_m x c st : ext "$method.eq" [enc_i x; VInt c] [] st = Ok (enc_b (eq_s x c)) st.
  Proof. via C01.TieLib.ext_eq_m. Qed.
  Lemma ext_gt_m x c st : ext "$method.gt" [enc_i x; VInt c] [] st = Ok (enc_b (cmp_scalar Z.gtb x c)) st.
  Proof. via C01.TieLib.ext_gt_m. Qed.

  (* ---- the vocabulary of the mistakes path ---- *)
  Lemma ext_cmp_ge_x x y st : ext "compare" [VStr "ge"; enc_x x; enc_x y] [] st = ret01 "ge" (option_map AB (cmp_f fge x y)) st.
  Proof. unfold ext02. cbn. now rewrite !dec01_enc_x. Qed.
  Lemma ext_add_x_q x q st : ext "operator" [VStr "add"; enc_x x; VQ q] [] st = Ok (enc_x (add_scalar_f x q)) st.
  Proof. unfold ext02. cbn. now rewrite dec01_enc_x. Qed.
  Lemma ext_setitem_int_x x i y st : ext "$setitem" [enc_x x; VInt i; enc_x y] [] st =
    match set_select0 x i y with
    | Some (Some r) => Ok (enc_x r) st
    | Some None => Exc index_error st
    | None => oob "setitem: integer key"
    end.
  Proof. unfold ext02. cbn. now rewrite !dec01_enc_x. Qed.
  Lemma ext_getitem_int_x x i st : ext "$getitem" [enc_x x; VInt i] [] st =
    match select0 x i with Some (Some r) => Ok (enc_x r) st | Some None => Exc index_error st | None => oob "getitem" end.
  Proof. unfold ext02. cbn. unfold ext01, ext01_ops. cbn. now rewrite dec01_enc_x. Qed.
End ExtLemmas.

#[local] Arguments ext02 : simpl never.

Lemma subscript_enc_x_int t i st : subscript (enc_x t) (VInt i) st = Stuck "item of a library object".
Proof. reflexivity. Qed.
Lemma binop_add_x_q t q st : binop_eval Add (enc_x t) (VQ q) st = Stuck "add".  Proof. reflexivity. Qed.

Section Exec.
  Notation ext := ext02.
  Lemma exec_seq_assign x e b st v st1 : eval ext e st = Ok v st1 ->
    exec ext (SSeq (SAssign [TName x] e) b) st = exec ext b (set_var x v st1).
  Proof. intros H. cbn [exec]. rewrite H. reflexivity. Qed.
  Lemma exec_assign x e st v st1 : eval ext e st = Ok v st1 ->
    exec ext (SAssign [TName x] e) st = Ok CNormal (set_var x v st1).
  Proof. intros H. cbn [exec]. rewrite H. reflexivity. Qed.
  Lemma exec_seq_assign3 x y z e b st v st1 : eval ext e st = Ok v st1 ->
    exec ext (SSeq (SAssign [TName x; TName y; TName z] e) b) st =
    exec ext b (set_var z v (set_var y v (set_var x v st1))).
  Proof. intros H. cbn [exec]. rewrite H. reflexivity. Qed.
  Lemma exec_seq_assoc a b c st : exec ext (SSeq (SSeq a b) c) st = exec ext (SSeq a (SSeq b c)) st.
  Proof.
    cbn [exec]. destruct (exec ext a st) as [[|v] st1|n st1|w]; cbn [bind]; try reflexivity.
  Qed.
  Lemma exec_seq_if c t f b st v st1 : eval ext c st = Ok v st1 ->
    exec ext (SSeq (SIf c t f) b) st = exec ext (SSeq (if truthy v then t else f) b) st1.
  Proof. intros H. cbn [exec]. rewrite H. cbn [bind]. destruct (truthy v); reflexivity. Qed.
  Lemma exec_if c t f st v st1 : eval ext c st = Ok v st1 ->
    exec ext (SIf c t f) st = exec ext (if truthy v then t else f) st1.
  Proof. intros H. cbn [exec]. rewrite H. cbn [bind]. destruct (truthy v); reflexivity. Qed.
  Lemma exec_seq_pass b st : exec ext (SSeq SPass b) st = exec ext b st.
  Proof. reflexivity. Qed.
  (* x[k] = e on a float tensor held by the variable x (the evaluations leave the state as it is) *)
  Lemma exec_seq_setitem x ke e b st v kv t nv :
    eval ext e st = Ok v st -> lookup x (vars st) = Some (enc_x t) -> eval ext ke st = Ok kv st ->
    ext "$setitem" [enc_x t; kv; v] [] st = Ok nv st ->
    exec ext (SSeq (SAssign [TSub (EName x) ke] e) b) st = exec ext b (set_var x nv st).
  Proof.
    intros He Hx Hk Hs. cbn [exec]. rewrite He. cbn [bind assign_all place_of store eval]. rewrite Hx. cbn [bind].
    rewrite Hk. cbn [bind]. unfold enc_x at 1. fold (enc_x t). rewrite Hs. cbn [bind]. reflexivity.
  Qed.
  Lemma exec_setitem x ke e st v kv t nv :
    eval ext e st = Ok v st -> lookup x (vars st) = Some (enc_x t) -> eval ext ke st = Ok kv st ->
    ext "$setitem" [enc_x t; kv; v] [] st = Ok nv st ->
    exec ext (SAssign [TSub (EName x) ke] e) st = Ok CNormal (set_var x nv st).
  Proof.
    intros He Hx Hk Hs. cbn [exec]. rewrite He. cbn [bind assign_all place_of store eval]. rewrite Hx. cbn [bind].
    rewrite Hk. cbn [bind]. unfold enc_x at 1. fold (enc_x t). rewrite Hs. cbn [bind]. reflexivity.
  Qed.
End Exec.

(* one rewriting step of the symbolic evaluation, dispatched on what the goal shows: a fact about tensor values inside
   the interpreter, or the lemma of the ext02 call that is ready (only the lemmas of that name are tried) *)
Ltac rw_ext_call f :=
  lazymatch f with
  | "compare" => first [rewrite ext_cmp_lt | rewrite ext_cmp_ge | rewrite ext_cmp_eq | rewrite ext_cmp_ne | rewrite ext_cmp_ge_x]
  | "operator" => first [rewrite ext_mul_q_x | rewrite ext_mul_x_q | rewrite ext_add_x | rewrite ext_sub_x | rewrite ext_add_i_int
                        | rewrite ext_sub_i | rewrite ext_div_x | rewrite ext_add_x_q]
  | "$getitem" => first [rewrite ext_getitem_int_i | rewrite ext_getitem_slice_x | rewrite ext_getitem_int_x]
  | "$setitem" => first [rewrite ext_setitem_slice_x | rewrite ext_setitem_int_x]
  | "$method.float" => rewrite ext_float_b
  | "torch.min" => rewrite ext_torch_min
  | "$method.min" => rewrite ext_min_dim
  | "torch.where" => rewrite ext_where
  | "$method.dim" => rewrite ext_dim_i
  | "$method.t" => rewrite ext_t_i
  | "torch.empty" => rewrite ext_empty
  | "$method.detach" => rewrite ext_detach_i
  | "$attr.shape" => rewrite ext_shape_i
  | "$attr.device" => rewrite ext_device_i
  | "$attr.dtype" => first [rewrite ext_dtype_i | rewrite ext_dtype_x]
  | "$method.any" => rewrite ext_any
  | "$method.to" => first [rewrite ext_to_b_long | rewrite ext_to_b_float | rewrite ext_to_i_float]
  | "torch.full" => rewrite ext_full
  | "torch.arange" => rewrite ext_arange_f
  | "float" => rewrite ext_float_inf
  | "torch.full_like" => rewrite ext_full_like_inf
  | "$method.triu" => rewrite ext_triu
  | "$method.unsqueeze" => first [rewrite ext_unsqueeze_x | rewrite ext_unsqueeze_i]
  | "$method.squeeze" => rewrite ext_squeeze_x
  | "$method.expand" => rewrite ext_expand_x
  | "$method.gather" => rewrite ext_gather
  | "$method.eq" => rewrite ext_eq_m
  | "$method.gt" => rewrite ext_gt_m
  end.

Ltac rw1 :=
  match goal with
  | |- context [foreign (enc_i ?t)] => rewrite (foreign_enc_i t)
  | |- context [foreign (enc_b ?t)] => rewrite (foreign_enc_b t)
  | |- context [foreign (enc_x ?t)] => rewrite (foreign_enc_x t)
  | |- context [method (enc_i ?t) ?m ?a] => rewrite (method_enc_i t m a)
  | |- context [method (enc_b ?t) ?m ?a] => rewrite (method_enc_b t m a)
  | |- context [method (enc_x ?t) ?m ?a] => rewrite (method_enc_x t m a)
  | |- context [attribute ?e (enc_i ?t) ?a ?st] => rewrite (attribute_enc_i e t a st)
  | |- context [attribute ?e (enc_x ?t) ?a ?st] => rewrite (attribute_enc_x e t a st)
  | |- context [subscript (enc_i ?t) (VInt ?i) ?st] => rewrite (subscript_enc_i_int t i st)
  | |- context [subscript (enc_x ?t) (VInt ?i) ?st] => rewrite (subscript_enc_x_int t i st)
  | |- context [subscript (enc_x ?t) (VTuple ?k) ?st] => rewrite (subscript_enc_x_tuple t k st)
  | |- context [binop_eval Mul (VQ ?q) (enc_x ?t) ?st] => rewrite (binop_mul_q_x q t st)
  | |- context [binop_eval Mul (enc_x ?t) (VQ ?q) ?st] => rewrite (binop_mul_x_q q t st)
  | |- context [binop_eval Add (enc_x ?t) (enc_x ?u) ?st] => rewrite (binop_add_x_x t u st)
  | |- context [binop_eval Sub (enc_x ?t) (enc_x ?u) ?st] => rewrite (binop_sub_x_x t u st)
  | |- context [binop_eval Div (enc_x ?t) (enc_x ?u) ?st] => rewrite (binop_div_x_x t u st)
  | |- context [binop_eval Add (enc_i ?t) (VInt ?c) ?st] => rewrite (binop_add_i_int t c st)
  | |- context [binop_eval Sub (enc_i ?t) (enc_i ?u) ?st] => rewrite (binop_sub_i_i t u st)
  | |- context [binop_eval Add (enc_x ?t) (VQ ?q) ?st] => rewrite (binop_add_x_q t q st)
  | |- context [ext02 ?f _ _ _] => rw_ext_call f
  end.

(* ---- frames: a run that only writes the variables [ws] ------------------------------------------------------ *)
Definition frame (ws : list string) (st0 st : state) : Prop :=
  forall z, existsb (String.eqb z) ws = false -> lookup z (vars st) = lookup z (vars st0).

Lemma frame_refl : forall ws st, frame ws st st.
Proof. intros ws st z _. reflexivity. Qed.

Lemma frame_trans : forall ws a b c, frame ws a b -> frame ws b c -> frame ws a c.
Proof. intros ws a b c F G z Hz. now rewrite (G z Hz), (F z Hz). Qed.

Lemma frame_set_var : forall ws st0 st y v, existsb (String.eqb y) ws = true -> frame ws st0 st -> frame ws st0 (set_var y v st).
Proof.
  intros ws st0 st y v Hy F z Hz. unfold set_var. cbn [vars]. rewrite lookup_update.
  destruct (String.eqb z y) eqn:E; [|now apply F].
  apply String.eqb_eq in E. subst z. rewrite Hy in Hz. discriminate.
Qed.

Lemma frame_lookup : forall ws st0 st z w, frame ws st0 st -> existsb (String.eqb z) ws = false ->
  lookup z (vars st0) = w -> lookup z (vars st) = w.
Proof. intros ws st0 st z w F Hz H. now rewrite (F z Hz). Qed.

(* C01.TieLib.push_state, which in addition carries [frame ws st0 st] hypotheses over a write to a variable of ws *)
Ltac push_state :=
  match goal with
  | |- context [set_var ?y ?v ?st] =>
      is_var st;
      let stn := fresh "st" in
      let Hst := fresh "Hst" in
      remember (set_var y v st) as stn eqn:Hst;
      repeat match goal with
      | H : lookup ?z (vars st) = ?w |- _ =>
          let b := eval vm_compute in (String.eqb z y) in
          lazymatch b with
          | true => clear H
          | false =>
              let H' := fresh "L" in
              assert (H' : lookup z (vars stn) = w) by (rewrite Hst; exact (lookup_set_var_ne z y v st w eq_refl H));
              clear H
          end
      | F : frame ?ws ?s0 st |- _ =>
          let F' := fresh "F" in
          assert (F' : frame ws s0 stn) by (rewrite Hst; exact (frame_set_var ws s0 st y v eq_refl F));
          clear F
      end;
      let Hy := fresh "L" in
      assert (Hy : lookup y (vars stn) = Some v) by (rewrite Hst; apply lookup_set_var_eq);
      clear Hst
  end.

(* carry every [lookup z (vars st0) = w] hypothesis over a frame F : frame ws st0 st (z outside ws) *)
Ltac transport F :=
  match type of F with
  | frame ?ws ?s0 ?st =>
      repeat match goal with
      | H : lookup ?z (vars s0) = ?w |- _ =>
          let b := eval vm_compute in (existsb (String.eqb z) ws) in
          lazymatch b with
          | true => clear H
          | false =>
              let H' := fresh "L" in
              assert (H' : lookup z (vars st) = w) by (exact (frame_lookup ws s0 st z w F eq_refl H));
              clear H
          end
      end
  end.

(* ---- tactics of the symbolic runs (ext02 versions of C01.TieLib's) --------------------------------------- *)
Ltac ev := repeat (progress (cbn; look; repeat rw1)).

(* operations on tabulated arguments *)
Ltac norm :=
  unfold bool_to_float, bool_to_long, long_to_float, ge_s, eq_s, cmp_scalar, add_s, bin_f, bin_i, cmp_i, cmp_f, add_scalar_f, map_t;
  cbn [shp dat];
  rewrite ?map_map, ?map_tab2;
  rewrite ?broadcast_mat_row, ?broadcast_same2, ?broadcast_same1, ?broadcast_3_mat, ?broadcast_col_row,
    ?where_row_mat, ?where_same1, ?where_same2, ?slice0_init, ?slice0_tail, ?set_slice0_tail,
    ?unsqueeze_1_0, ?unsqueeze_1_1, ?unsqueeze_2_m1, ?squeeze_2_0;
  cbn [option_map ret01 enc01].
Ltac evn := repeat (progress (ev; norm)).

Ltac seqnorm := repeat first [rewrite exec_seq_assoc | rewrite exec_seq_pass].
Ltac assign tac :=
  seqnorm;
  match goal with
  | |- context [exec ext02 (SSeq (SAssign [TName ?x] ?e) ?b) ?st] =>
      let H := fresh "Hev" in
      eassert (H : eval ext02 e st = Ok _ st); [ solve [tac] | rewrite (exec_seq_assign x e b st _ _ H); clear H; push_state ]
  | |- context [exec ext02 (SAssign [TName ?x] ?e) ?st] =>
      let H := fresh "Hev" in
      eassert (H : eval ext02 e st = Ok _ st); [ solve [tac] | rewrite (exec_assign x e st _ _ H); clear H; push_state ]
  end.
Ltac asg := assign ltac:(evn; reflexivity).

Ltac ifstep_t tac :=
  seqnorm;
  match goal with
  | |- context [exec ext02 (SSeq (SIf ?c ?t ?f) ?b) ?st] =>
      let H := fresh "Hev" in
      eassert (H : eval ext02 c st = Ok _ st);
      [ solve [tac] | rewrite (exec_seq_if c t f b st _ _ H); clear H; cbn [truthy] ]
  | |- context [exec ext02 (SIf ?c ?t ?f) ?st] =>
      let H := fresh "Hev" in
      eassert (H : eval ext02 c st = Ok _ st);
      [ solve [tac] | rewrite (exec_if c t f st _ _ H); clear H; cbn [truthy] ]
  end.
Ltac ifstep := ifstep_t ltac:(evn; reflexivity).

(* x[k] = e; [tv] evaluates e, [tac] closes the goal about the "$setitem" call *)
Ltac setitem_t tv tac :=
  seqnorm;
  match goal with
  | |- context [exec ext02 (SSeq (SAssign [TSub (EName ?x) ?ke] ?e) ?b) ?st] =>
      let H1 := fresh "Hv" in let H2 := fresh "Hx" in let H3 := fresh "Hk" in let H4 := fresh "Hs" in
      eassert (H1 : eval ext02 e st = Ok _ st); [ solve [tv] |];
      eassert (H2 : lookup x (vars st) = Some (enc_x _)); [ solve [look; reflexivity] |];
      eassert (H3 : eval ext02 ke st = Ok _ st); [ solve [ev; reflexivity] |];
      match type of H1 with _ = Ok ?v _ =>
      match type of H2 with _ = Some (enc_x ?t) =>
      match type of H3 with _ = Ok ?kv _ =>
        eassert (H4 : ext02 "$setitem" [enc_x t; kv; v] [] st = Ok _ st); [ solve [tac] |];
        rewrite (exec_seq_setitem x ke e b st v kv t _ H1 H2 H3 H4); clear H1 H2 H3 H4; push_state
      end end end
  | |- context [exec ext02 (SAssign [TSub (EName ?x) ?ke] ?e) ?st] =>
      let H1 := fresh "Hv" in let H2 := fresh "Hx" in let H3 := fresh "Hk" in let H4 := fresh "Hs" in
      eassert (H1 : eval ext02 e st = Ok _ st); [ solve [tv] |];
      eassert (H2 : lookup x (vars st) = Some (enc_x _)); [ solve [look; reflexivity] |];
      eassert (H3 : eval ext02 ke st = Ok _ st); [ solve [ev; reflexivity] |];
      match type of H1 with _ = Ok ?v _ =>
      match type of H2 with _ = Some (enc_x ?t) =>
      match type of H3 with _ = Ok ?kv _ =>
        eassert (H4 : ext02 "$setitem" [enc_x t; kv; v] [] st = Ok _ st); [ solve [tac] |];
        rewrite (exec_setitem x ke e st v kv t _ H1 H2 H3 H4); clear H1 H2 H3 H4; push_state
      end end end
  end.
Ltac setitem := setitem_t ltac:(evn; reflexivity) ltac:(evn; reflexivity).

(* for developing a run: open the evaluation goal of the next assignment *)
Ltac assign_open :=
  seqnorm;
  match goal with
  | |- context [exec ext02 (SSeq (SAssign [TName ?x] ?e) ?b) ?st] => eassert (Hdbg : eval ext02 e st = Ok _ st)
  | |- context [exec ext02 (SAssign [TName ?x] ?e) ?st] => eassert (Hdbg : eval ext02 e st = Ok _ st)
  end.

(* ---- cutting a sequence of statements into consecutive blocks ------------------------------------------- *)
Lemma exec_seq_pass_r : forall a st, exec ext02 (SSeq a SPass) st = exec ext02 a st.
Proof. intros. cbn [exec]. destruct (exec ext02 a st) as [[|v] st1|n st1|w]; reflexivity. Qed.

Lemma exec_take_drop : forall n s st, exec ext02 (SSeq (seq_take n s) (seq_drop n s)) st = exec ext02 s st.
Proof.
  induction n as [|n IH]; intros s st; [reflexivity|].
  destruct s; cbn [seq_take seq_drop]; try apply exec_seq_pass_r.
  rewrite exec_seq_assoc. cbn [exec]. destruct (exec ext02 s1 st) as [[|v] st1|m st1|w]; cbn [bind]; try reflexivity.
  apply IH.
Qed.

Lemma exec_seq_assert : forall e b st v, eval ext02 e st = Ok v st -> truthy v = true ->
  exec ext02 (SSeq (SAssert e) b) st = exec ext02 b st.
Proof. intros e b st v H T. cbn [exec]. rewrite H. cbn [bind]. rewrite T. reflexivity. Qed.

Ltac assertstep :=
  seqnorm;
  match goal with
  | |- context [exec ext02 (SSeq (SAssert ?e) ?b) ?st] =>
      let H := fresh "Hev" in
      eassert (H : eval ext02 e st = Ok _ st); [ solve [evn; reflexivity] | rewrite (exec_seq_assert e b st _ H eq_refl); clear H ]
  end.

Ltac assign3 :=
  seqnorm;
  match goal with
  | |- context [exec ext02 (SSeq (SAssign [TName ?x; TName ?y; TName ?z] ?e) ?b) ?st] =>
      let H := fresh "Hev" in
      eassert (H : eval ext02 e st = Ok _ st);
      [ solve [evn; reflexivity]
      | rewrite (exec_seq_assign3 x y z e b st _ _ H); clear H; push_state; push_state; push_state ]
  end.

(* ---- sequences of statements up to re-association: the flattened spine ---------------------------------- *)
Fixpoint exec_list (l : list stmt) (st : state) : outcome ctl :=
  match l with
  | [] => Ok CNormal st
  | x :: r => bind (exec ext02 x st) (fun c st1 => match c with CNormal => exec_list r st1 | CReturn _ => Ok c st1 end)
  end.

Lemma exec_list_app : forall l1 l2 st,
  exec_list (l1 ++ l2) st =
  bind (exec_list l1 st) (fun c st1 => match c with CNormal => exec_list l2 st1 | CReturn _ => Ok c st1 end).
Proof.
  induction l1 as [|x l1 IH]; intros l2 st; [reflexivity|].
  cbn [app exec_list]. destruct (exec ext02 x st) as [[|v] st1|n st1|w]; cbn [bind]; try reflexivity. apply IH.
Qed.

Lemma exec_flatten : forall s st, exec ext02 s st = exec_list (flatten s) st.
Proof.
  induction s; intros st;
    try (cbn [flatten exec_list];
         match goal with |- ?e = bind ?e _ => destruct e as [[|v] st1|n st1|w]; reflexivity end).
  - reflexivity.
  - cbn [flatten]. rewrite exec_list_app. cbn [exec]. rewrite IHs1.
    destruct (exec_list (flatten s1) st) as [[|v] st1|n st1|w]; cbn [bind]; try reflexivity. apply IHs2.
Qed.

(* ---- composition of runs ------------------------------------------------------------------------------ *)
Definition returns (v : val) (o : outcome ctl) : Prop := exists st', o = Ok (CReturn v) st'.

Lemma runs_to_seq : forall (P Q : state -> Prop) a b st,
  runs_to P (exec ext02 a st) -> (forall st1, P st1 -> runs_to Q (exec ext02 b st1)) ->
  runs_to Q (exec ext02 (SSeq a b) st).
Proof. intros P Q a b st [st1 [He P1]] Hb. cbn [exec]. rewrite He. cbn [bind]. now apply Hb. Qed.

Lemma returns_seq : forall (P : state -> Prop) v a b st,
  runs_to P (exec ext02 a st) -> (forall st1, P st1 -> returns v (exec ext02 b st1)) ->
  returns v (exec ext02 (SSeq a b) st).
Proof. intros P v a b st [st1 [He P1]] Hb. cbn [exec]. rewrite He. cbn [bind]. now apply Hb. Qed.

(* the listed variables hold the listed values *)
Fixpoint known (st : state) (l : list (string * val)) : Prop :=
  match l with
  | [] => True
  | (x, v) :: r => lookup x (vars st) = Some v /\ known st r
  end.

Ltac open_known H := cbn [known app] in H; repeat match type of H with _ /\ _ => let L := fresh "K" in destruct H as [L H] end; clear H.
Ltac close_known := cbn [known app]; repeat split; try assumption.
