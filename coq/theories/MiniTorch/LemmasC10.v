(* MiniTorch, unit C10Src — the algebra of OpsC10.v needed by the C10 tie (no new definitions of meaning):
   every operation on TABULATED tensors (C1/C2/C3: data = D1/D2/D3 of an index function) is again tabulated. *)
From Coq Require Import List ZArith Bool Arith Lia.
From PV Require Import MiniTorch.Ops MiniTorch.OpsC10.
Import ListNotations.

(* ---- lists ------------------------------------------------------------------------------------ *)
Lemma len_flat_map_const : forall {A B} (g : A -> list B) l P,
  (forall a, In a l -> length (g a) = P) -> length (flat_map g l) = (length l * P)%nat.
Proof.
  induction l as [|a l IH]; intros P H; cbn [flat_map length]; [reflexivity|].
  rewrite app_length, (H a) by now left. rewrite (IH P) by (intros; apply H; now right). lia.
Qed.

Lemma nth_flat_map_blocks : forall {A B} (g : A -> list B) l P i r da db,
  (forall a, In a l -> length (g a) = P) -> (i < length l)%nat -> (r < P)%nat ->
  nth (i * P + r) (flat_map g l) db = nth r (g (nth i l da)) db.
Proof.
  induction l as [|a l IH]; intros P i r da db H Hi Hr; cbn [flat_map length] in *; [lia|].
  destruct i as [|i].
  - cbn [Nat.mul Nat.add nth]. rewrite app_nth1 by (rewrite (H a) by (now left); lia). reflexivity.
  - rewrite app_nth2 by (rewrite (H a) by (now left); lia).
    rewrite (H a) by now left.
    replace (S i * P + r - P)%nat with (i * P + r)%nat by lia.
    cbn [nth]. apply IH; [intros; apply H; now right|lia|lia].
Qed.

Lemma nth_map_seq0 : forall {A} (h : nat -> A) n i d, (i < n)%nat -> nth i (map h (seq 0 n)) d = h i.
Proof.
  intros A h n i d Hi. rewrite (nth_indep _ d (h 0%nat)) by now rewrite map_length, seq_length.
  rewrite map_nth, seq_nth by assumption. reflexivity.
Qed.

Lemma flat_map_single : forall {A B} (f : A -> B) l, flat_map (fun a => [f a]) l = map f l.
Proof. induction l as [|a l IH]; cbn; [reflexivity|now rewrite IH]. Qed.

Lemma map_flat_map' : forall {A B C} (h : B -> C) (g : A -> list B) l,
  map h (flat_map g l) = flat_map (fun a => map h (g a)) l.
Proof. induction l as [|a l IH]; cbn; [reflexivity|]. now rewrite map_app, IH. Qed.

Lemma flat_map_ext_in' : forall {A B} (f g : A -> list B) l,
  (forall a, In a l -> f a = g a) -> flat_map f l = flat_map g l.
Proof.
  induction l as [|a l IH]; intros H; cbn; [reflexivity|].
  rewrite (H a) by now left. rewrite IH by (intros; apply H; now right). reflexivity.
Qed.

Lemma flat_map_flat_map : forall {A B C} (g : B -> list C) (f : A -> list B) l,
  flat_map g (flat_map f l) = flat_map (fun a => flat_map g (f a)) l.
Proof. induction l as [|a l IH]; cbn; [reflexivity|]. now rewrite flat_map_app, IH. Qed.

Lemma flat_map_map' : forall {A B C} (f : A -> B) (g : B -> list C) l, flat_map g (map f l) = flat_map (fun a => g (f a)) l.
Proof. induction l as [|a l IH]; cbn; [reflexivity|now rewrite IH]. Qed.

Lemma concat_flat_map' : forall {A B} (g : A -> list (list B)) l, concat (flat_map g l) = flat_map (fun a => concat (g a)) l.
Proof. induction l as [|a l IH]; cbn; [reflexivity|]. now rewrite concat_app, IH. Qed.

Lemma concat_map_flat : forall {A B} (g : A -> list B) l, concat (map g l) = flat_map g l.
Proof. induction l as [|a l IH]; cbn; [reflexivity|now rewrite IH]. Qed.

Lemma flat_map_const_repeat : forall {A} (c : A) b s a, flat_map (fun _ : nat => repeat c b) (seq s a) = repeat c (a * b).
Proof.
  intros A c b s a. revert s. induction a as [|a IH]; intros s; [reflexivity|].
  cbn [seq flat_map Nat.mul]. now rewrite IH, repeat_app.
Qed.

Lemma map_const_repeat : forall {A} (c : A) s k, map (fun _ : nat => c) (seq s k) = repeat c k.
Proof. intros A c s k. revert s. induction k as [|k IH]; intros s; [reflexivity|]. cbn. now rewrite IH. Qed.

(* ---- all_some --------------------------------------------------------------------------------- *)
Lemma all_some_map_ext : forall {A B} (F : A -> option B) (c : A -> B) l,
  (forall x, In x l -> F x = Some (c x)) -> all_some (map F l) = Some (map c l).
Proof.
  induction l as [|x l IH]; intros H; [reflexivity|]. cbn [map all_some].
  rewrite (H x) by now left. rewrite IH by (intros; apply H; now right). reflexivity.
Qed.

Lemma all_some_app : forall {A} (l1 l2 : list (option A)) r1 r2,
  all_some l1 = Some r1 -> all_some l2 = Some r2 -> all_some (l1 ++ l2) = Some (r1 ++ r2).
Proof.
  induction l1 as [|[x|] l1 IH]; intros l2 r1 r2 H1 H2; cbn in *.
  - inversion H1; subst. exact H2.
  - destruct (all_some l1) as [r|] eqn:E; [|discriminate]. inversion H1; subst.
    rewrite (IH l2 r r2 eq_refl H2). reflexivity.
  - discriminate.
Qed.

Lemma all_some_flat_map : forall {A B} (F : A -> list (option B)) (c : A -> list B) l,
  (forall x, In x l -> all_some (F x) = Some (c x)) -> all_some (flat_map F l) = Some (flat_map c l).
Proof.
  induction l as [|x l IH]; intros H; [reflexivity|]. cbn [flat_map].
  apply all_some_app; [apply H; now left|apply IH; intros; apply H; now right].
Qed.

(* ---- D1 / D2 / D3 -------------------------------------------------------------------------------- *)
Lemma length_D1 : forall {A} k (f : nat -> A), length (D1 k f) = k.
Proof. intros. unfold D1. now rewrite map_length, seq_length. Qed.

Lemma length_D2 : forall {A} m k (f : nat -> nat -> A), length (D2 m k f) = (m * k)%nat.
Proof.
  intros. unfold D2. rewrite (len_flat_map_const _ _ k) by (intros; apply length_D1). now rewrite seq_length.
Qed.

Lemma length_D3 : forall {A} n m k (f : nat -> nat -> nat -> A), length (D3 n m k f) = (n * (m * k))%nat.
Proof.
  intros. unfold D3. rewrite (len_flat_map_const _ _ (m * k)%nat) by (intros; apply length_D2). now rewrite seq_length.
Qed.

Lemma D1_ext : forall {A} k (f g : nat -> A), (forall l, (l < k)%nat -> f l = g l) -> D1 k f = D1 k g.
Proof. intros A k f g H. unfold D1. apply map_ext_in. intros l Hl. apply in_seq in Hl. apply H. lia. Qed.

Lemma D2_ext : forall {A} m k (f g : nat -> nat -> A),
  (forall j l, (j < m)%nat -> (l < k)%nat -> f j l = g j l) -> D2 m k f = D2 m k g.
Proof.
  intros A m k f g H. unfold D2. apply flat_map_ext_in'. intros j Hj. apply in_seq in Hj.
  apply D1_ext. intros l Hl. apply H; lia.
Qed.

Lemma D3_ext : forall {A} n m k (f g : nat -> nat -> nat -> A),
  (forall i j l, (i < n)%nat -> (j < m)%nat -> (l < k)%nat -> f i j l = g i j l) -> D3 n m k f = D3 n m k g.
Proof.
  intros A n m k f g H. unfold D3. apply flat_map_ext_in'. intros i Hi. apply in_seq in Hi.
  apply D2_ext. intros j l Hj Hl. apply H; lia.
Qed.

Lemma map_D1 : forall {A B} (h : A -> B) k f, map h (D1 k f) = D1 k (fun l => h (f l)).
Proof. intros. unfold D1. now rewrite map_map. Qed.

Lemma map_D2 : forall {A B} (h : A -> B) m k f, map h (D2 m k f) = D2 m k (fun j l => h (f j l)).
Proof. intros. unfold D2. rewrite map_flat_map'. apply flat_map_ext_in'. intros; apply map_D1. Qed.

Lemma map_D3 : forall {A B} (h : A -> B) n m k f, map h (D3 n m k f) = D3 n m k (fun i j l => h (f i j l)).
Proof. intros. unfold D3. rewrite map_flat_map'. apply flat_map_ext_in'. intros; apply map_D2. Qed.

Lemma D2_1 : forall {A} k (F : nat -> nat -> A), D2 1 k F = D1 k (F 0%nat).
Proof. intros. unfold D2. cbn [seq flat_map]. apply app_nil_r. Qed.

Lemma D3_1 : forall {A} m k (F : nat -> nat -> nat -> A), D3 1 m k F = D2 m k (F 0%nat).
Proof. intros. unfold D3. cbn [seq flat_map]. apply app_nil_r. Qed.

Lemma D2_col : forall {A} m (F : nat -> nat -> A), D2 m 1 F = D1 m (fun j => F j 0%nat).
Proof. intros. unfold D2, D1. cbn [seq map]. apply flat_map_single. Qed.

Lemma D3_col : forall {A} n m (F : nat -> nat -> nat -> A), D3 n m 1 F = D2 n m (fun i j => F i j 0%nat).
Proof. intros. unfold D3, D2 at 2. apply flat_map_ext_in'. intros i _. apply D2_col. Qed.

Lemma D1_const : forall {A} k (c : A), D1 k (fun _ => c) = repeat c k.
Proof. intros. unfold D1. apply map_const_repeat. Qed.

Lemma D2_const : forall {A} m k (c : A), D2 m k (fun _ _ => c) = repeat c (m * k).
Proof.
  intros. unfold D2. rewrite (flat_map_ext_in' _ (fun _ => repeat c k)) by (intros; apply D1_const).
  apply flat_map_const_repeat.
Qed.

Lemma D3_const : forall {A} n m k (c : A), D3 n m k (fun _ _ _ => c) = repeat c (n * (m * k)).
Proof.
  intros. unfold D3. rewrite (flat_map_ext_in' _ (fun _ => repeat c (m * k))) by (intros; apply D2_const).
  apply flat_map_const_repeat.
Qed.

Lemma nth_D1 : forall {A} k (f : nat -> A) l d, (l < k)%nat -> nth l (D1 k f) d = f l.
Proof. intros. unfold D1. now apply nth_map_seq0. Qed.

Lemma nth_D2 : forall {A} m k (f : nat -> nat -> A) j l d, (j < m)%nat -> (l < k)%nat -> nth (j * k + l) (D2 m k f) d = f j l.
Proof.
  intros A m k f j l d Hj Hl. unfold D2.
  rewrite (nth_flat_map_blocks _ _ k j l 0%nat d) by (intros; try apply length_D1; try rewrite seq_length; lia).
  rewrite seq_nth by assumption. cbn [Nat.add]. now apply nth_D1.
Qed.

Lemma get3_D3 : forall n m k f i j l, (i < n)%nat -> (j < m)%nat -> (l < k)%nat -> get3 m k (D3 n m k f) i j l = f i j l.
Proof.
  intros n m k f i j l Hi Hj Hl. unfold get3, D3.
  replace ((i * m + j) * k + l)%nat with (i * (m * k) + (j * k + l))%nat by lia.
  assert (j * k + l < m * k)%nat by nia.
  rewrite (nth_flat_map_blocks _ _ (m * k)%nat i (j * k + l)%nat 0%nat CUndef)
    by (intros; try apply length_D2; try rewrite seq_length; lia).
  rewrite seq_nth by assumption. cbn [Nat.add]. now apply nth_D2.
Qed.

Lemma all_some_D3 : forall {A} n m k (F : nat -> nat -> nat -> option A) c,
  (forall i j l, (i < n)%nat -> (j < m)%nat -> (l < k)%nat -> F i j l = Some (c i j l)) ->
  all_some (D3 n m k F) = Some (D3 n m k c).
Proof.
  intros A n m k F c H. unfold D3. apply all_some_flat_map. intros i Hi. apply in_seq in Hi.
  unfold D2. apply all_some_flat_map. intros j Hj. apply in_seq in Hj.
  unfold D1. apply all_some_map_ext. intros l Hl. apply in_seq in Hl. apply H; lia.
Qed.

Lemma firstn_skipn_D1 : forall {A} k (f : nat -> A) lo len, (lo + len <= k)%nat ->
  firstn len (skipn lo (D1 k f)) = D1 len (fun l => f (lo + l)%nat).
Proof.
  intros A k f lo len H. unfold D1.
  replace k with (lo + (len + (k - lo - len)))%nat by lia.
  rewrite seq_app, map_app.
  rewrite skipn_app, skipn_all2 by (rewrite map_length, seq_length; lia).
  rewrite map_length, seq_length, Nat.sub_diag. cbn [skipn app].
  rewrite seq_app, map_app, firstn_app, firstn_all2 by (rewrite map_length, seq_length; lia).
  rewrite map_length, seq_length, Nat.sub_diag. cbn [firstn]. rewrite app_nil_r. cbn [Nat.add].
  rewrite <- (Nat.add_0_r lo) at 1. rewrite (Nat.add_comm lo 0).
  clear. generalize 0%nat. induction len as [|len IH]; intros s; [reflexivity|].
  cbn [seq map]. f_equal; [f_equal; lia|]. replace (S (s + lo)) with (S s + lo)%nat by lia. apply IH.
Qed.

(* ---- rows along the last dimension ----------------------------------------------------------------- *)
Lemma chunks_concat : forall {A} k (rows : list (list A)),
  Forall (fun r => length r = k) rows -> chunks (length rows) k (concat rows) = rows.
Proof.
  intros A k rows H. induction H as [|r rows Hr _ IH]; [reflexivity|].
  cbn [length chunks concat]. rewrite firstn_app, firstn_all2 by lia.
  replace (k - length r)%nat with 0%nat by lia. cbn [firstn]. rewrite app_nil_r.
  rewrite skipn_app, skipn_all2 by lia. replace (k - length r)%nat with 0%nat by lia. cbn [skipn app].
  now rewrite IH.
Qed.

Lemma Forall_D1 : forall {A} (P : A -> Prop) k f, (forall l, (l < k)%nat -> P (f l)) -> Forall P (D1 k f).
Proof.
  intros A P k f H. unfold D1. apply Forall_forall. intros x Hx. apply in_map_iff in Hx.
  destruct Hx as [l [<- Hl]]. apply in_seq in Hl. apply H. lia.
Qed.

Lemma Forall_D2 : forall {A} (P : A -> Prop) m k f, (forall j l, (j < m)%nat -> (l < k)%nat -> P (f j l)) -> Forall P (D2 m k f).
Proof.
  intros A P m k f H. unfold D2. apply Forall_forall. intros x Hx. apply in_flat_map in Hx.
  destruct Hx as [j [Hj Hx]]. apply in_seq in Hj.
  assert (F : Forall P (D1 k (f j))) by (apply Forall_D1; intros; apply H; lia).
  rewrite Forall_forall in F. now apply F.
Qed.

Lemma D3_rows : forall {A} n m k (f : nat -> nat -> nat -> A), D3 n m k f = concat (D2 n m (fun i j => D1 k (f i j))).
Proof.
  intros. unfold D3, D2 at 2. rewrite concat_flat_map'. apply flat_map_ext_in'. intros i _.
  unfold D1 at 1. now rewrite concat_map_flat.
Qed.

Lemma D2_rows : forall {A} m k (f : nat -> nat -> A), D2 m k f = concat (D1 m (fun j => D1 k (f j))).
Proof. intros. unfold D2, D1 at 2. now rewrite concat_map_flat. Qed.

Lemma chunks_D3 : forall {A} n m k (f : nat -> nat -> nat -> A),
  chunks (numel [n; m]) k (D3 n m k f) = D2 n m (fun i j => D1 k (f i j)).
Proof.
  intros. rewrite D3_rows. replace (numel [n; m]) with (length (D2 n m (fun i j => D1 k (f i j)))).
  - apply chunks_concat. apply Forall_D2. intros. apply length_D1.
  - rewrite length_D2. cbn [numel fold_right]. lia.
Qed.

Lemma chunks_D2 : forall {A} m k (f : nat -> nat -> A),
  chunks (numel [m]) k (D2 m k f) = D1 m (fun j => D1 k (f j)).
Proof.
  intros. rewrite D2_rows. replace (numel [m]) with (length (D1 m (fun j => D1 k (f j)))).
  - apply chunks_concat. apply Forall_D1. intros. apply length_D1.
  - rewrite length_D1. cbn [numel fold_right]. lia.
Qed.

(* ---- tabulated tensors ------------------------------------------------------------------------------ *)
Definition C1 (k : nat) (f : nat -> cell) : itens := mkIT [k] (D1 k f).
Definition C2 (m k : nat) (f : nat -> nat -> cell) : itens := mkIT [m; k] (D2 m k f).
Definition C3 (n m k : nat) (f : nat -> nat -> nat -> cell) : itens := mkIT [n; m; k] (D3 n m k f).

Lemma rows_last_C3 : forall n m k f, rows_last (C3 n m k f) = Some ([n; m], k, D2 n m (fun i j => D1 k (f i j))).
Proof. intros. unfold rows_last, C3. cbn [ishape idata split_last removelast last]. now rewrite chunks_D3. Qed.

Lemma rows_last_C2 : forall m k f, rows_last (C2 m k f) = Some ([m], k, D1 m (fun j => D1 k (f j))).
Proof. intros. unfold rows_last, C2. cbn [ishape idata split_last removelast last]. now rewrite chunks_D2. Qed.

Lemma full_3 : forall n m k c, full [n; m; k] c = C3 n m k (fun _ _ _ => c).
Proof. intros. unfold full, C3. rewrite D3_const. cbn [numel fold_right]. now rewrite Nat.mul_1_r. Qed.

Lemma full_2 : forall m k c, full [m; k] c = C2 m k (fun _ _ => c).
Proof. intros. unfold full, C2. rewrite D2_const. cbn [numel fold_right]. now rewrite Nat.mul_1_r. Qed.

(* shape-changing operations that keep the row-major data *)
Lemma unsqueeze_C1_1 : forall n f, unsqueeze (C1 n f) 1 = Some (C2 n 1 (fun i _ => f i)).
Proof. intros. unfold unsqueeze, C1, C2. cbn. now rewrite D2_col. Qed.

Lemma unsqueeze_C2_2 : forall n m f, unsqueeze (C2 n m f) 2 = Some (C3 n m 1 (fun i j _ => f i j)).
Proof. intros. unfold unsqueeze, C2, C3. cbn. now rewrite D3_col. Qed.

Lemma view_C1_n11 : forall n f, view (C1 n f) [n; 1; 1]%nat = Some (C3 n 1 1 (fun i _ _ => f i)).
Proof.
  intros. unfold view, C1, C3. cbn [ishape idata numel fold_right].
  replace (n * 1 =? n * (1 * (1 * 1)))%nat with true by (symmetry; apply Nat.eqb_eq; lia).
  now rewrite D3_col, D2_col.
Qed.

(* x[..., c] *)
Lemma select_last_C3 : forall n m k f z p, wrap_dim k z = Some p ->
  select_last (C3 n m k f) z = Some (C2 n m (fun i j => f i j p)).
Proof.
  intros n m k f z p H. unfold select_last. rewrite rows_last_C3, H. unfold C2. f_equal. f_equal.
  rewrite map_D2. apply D2_ext. intros i j Hi Hj.
  destruct (Nat.lt_ge_cases p k) as [Hp|Hp]; [now apply nth_D1|].
  exfalso. unfold wrap_dim in H. destruct ((- Z.of_nat k <=? z)%Z && (z <? Z.of_nat k)%Z) eqn:E; [|discriminate].
  inversion H; subst p. destruct (z <? 0)%Z eqn:E2; lia.
Qed.

Lemma select_last_C2 : forall m k f z p, wrap_dim k z = Some p ->
  select_last (C2 m k f) z = Some (C1 m (fun j => f j p)).
Proof.
  intros m k f z p H. unfold select_last. rewrite rows_last_C2, H. unfold C1. f_equal. f_equal.
  rewrite map_D1. apply D1_ext. intros j Hj.
  destruct (Nat.lt_ge_cases p k) as [Hp|Hp]; [now apply nth_D1|].
  exfalso. unfold wrap_dim in H. destruct ((- Z.of_nat k <=? z)%Z && (z <? Z.of_nat k)%Z) eqn:E; [|discriminate].
  inversion H; subst p. destruct (z <? 0)%Z eqn:E2; lia.
Qed.

(* x[..., a:b] *)
Lemma slice_last_C3 : forall n m k f a b lo len,
  slice_bound k 0 a = lo -> (slice_bound k k b - lo)%nat = len -> (lo + len <= k)%nat ->
  slice_last (C3 n m k f) a b = Some (C3 n m len (fun i j l => f i j (lo + l)%nat)).
Proof.
  intros n m k f a b lo len Hlo Hlen Hk. unfold slice_last. rewrite rows_last_C3, Hlo, Hlen. unfold C3.
  cbn [app]. f_equal. f_equal. rewrite map_D2, D3_rows. f_equal. apply D2_ext. intros i j _ _.
  now apply firstn_skipn_D1.
Qed.

Lemma slice_last_C2 : forall m k f a b lo len,
  slice_bound k 0 a = lo -> (slice_bound k k b - lo)%nat = len -> (lo + len <= k)%nat ->
  slice_last (C2 m k f) a b = Some (C2 m len (fun j l => f j (lo + l)%nat)).
Proof.
  intros m k f a b lo len Hlo Hlen Hk. unfold slice_last. rewrite rows_last_C2, Hlo, Hlen. unfold C2.
  cbn [app]. f_equal. f_equal. rewrite map_D1, D2_rows. f_equal. apply D1_ext. intros j _.
  now apply firstn_skipn_D1.
Qed.

(* x[..., a:b] = v *)
Lemma combine_map_map' : forall {A B C} (f : A -> B) (g : A -> C) l, combine (map f l) (map g l) = map (fun x => (f x, g x)) l.
Proof. induction l as [|x l IH]; cbn; [reflexivity|now rewrite IH]. Qed.

Lemma combine_app' : forall {A B} (a1 a2 : list A) (b1 b2 : list B), length a1 = length b1 ->
  combine (a1 ++ a2) (b1 ++ b2) = combine a1 b1 ++ combine a2 b2.
Proof.
  induction a1 as [|x a1 IH]; intros a2 b1 b2 H; destruct b1 as [|y b1]; cbn in *; try discriminate; [reflexivity|].
  rewrite IH by lia. reflexivity.
Qed.

Lemma combine_D1 : forall {A B} k (f : nat -> A) (g : nat -> B), combine (D1 k f) (D1 k g) = D1 k (fun l => (f l, g l)).
Proof. intros. unfold D1. apply combine_map_map'. Qed.

Lemma combine_D2 : forall {A B} m k (f : nat -> nat -> A) (g : nat -> nat -> B),
  combine (D2 m k f) (D2 m k g) = D2 m k (fun j l => (f j l, g j l)).
Proof.
  intros. unfold D2. induction (seq 0 m) as [|j s IH]; [reflexivity|]. cbn [flat_map].
  rewrite combine_app' by now rewrite !length_D1. now rewrite IH, combine_D1.
Qed.

Lemma map_seq_from : forall {A} (H : nat -> A) s n, map H (seq s n) = map (fun l => H (s + l)%nat) (seq 0 n).
Proof.
  intros A H s n. revert s H. induction n as [|n IH]; intros s H; [reflexivity|].
  cbn [seq map]. rewrite Nat.add_0_r. f_equal. rewrite (IH (S s)), (IH 1%nat).
  apply map_ext. intros l. f_equal. lia.
Qed.

Lemma D1_three_parts : forall {A} k lo len (H : nat -> A), (lo + len <= k)%nat ->
  D1 k H = D1 lo H ++ D1 len (fun l => H (lo + l)%nat) ++ D1 (k - lo - len) (fun l => H (lo + len + l)%nat).
Proof.
  intros A k lo len H Hk. unfold D1.
  replace k with (lo + (len + (k - lo - len)))%nat at 1 by lia.
  rewrite seq_app, map_app. cbn [Nat.add]. rewrite seq_app, map_app.
  now rewrite (map_seq_from H lo len), (map_seq_from H (lo + len)).
Qed.

Definition merge3 {A} (lo len : nat) (f g : nat -> A) (l : nat) : A :=
  if (l <? lo)%nat then f l else if (l <? lo + len)%nat then g (l - lo)%nat else f l.

Lemma set_row : forall {A} k lo len (F G : nat -> A), (lo + len <= k)%nat ->
  firstn lo (D1 k F) ++ D1 len G ++ skipn (lo + len) (D1 k F) = D1 k (merge3 lo len F G).
Proof.
  intros A k lo len F G Hk.
  rewrite (D1_three_parts k lo len (merge3 lo len F G) Hk).
  replace (firstn lo (D1 k F)) with (firstn lo (skipn 0 (D1 k F))) by reflexivity.
  rewrite (firstn_skipn_D1 k F 0 lo) by lia.
  rewrite <- (firstn_all2 (n := (k - lo - len)%nat) (skipn (lo + len) (D1 k F)))
    by (rewrite skipn_length, length_D1; lia).
  rewrite (firstn_skipn_D1 k F (lo + len) (k - lo - len)) by lia.
  f_equal; [|f_equal]; apply D1_ext; intros l Hl; unfold merge3; cbn [Nat.add].
  - destruct (Nat.ltb_spec l lo); [reflexivity|lia].
  - destruct (Nat.ltb_spec (lo + l) lo); [lia|]. destruct (Nat.ltb_spec (lo + l) (lo + len)); [|lia]. f_equal. lia.
  - destruct (Nat.ltb_spec (lo + len + l) lo); [lia|]. destruct (Nat.ltb_spec (lo + len + l) (lo + len)); [lia|reflexivity].
Qed.

Lemma set_slice_last_C3 : forall n m k f a b lo len g,
  slice_bound k 0 a = lo -> (slice_bound k k b - lo)%nat = len -> (lo + len <= k)%nat ->
  set_slice_last (C3 n m k f) a b (C3 n m len g) = Some (C3 n m k (fun i j => merge3 lo len (f i j) (g i j))).
Proof.
  intros n m k f a b lo len g Hlo Hlen Hk. unfold set_slice_last. rewrite rows_last_C3, Hlo, Hlen.
  cbn [C3 ishape idata app shape_eqb]. rewrite !Nat.eqb_refl. cbn [andb].
  rewrite chunks_D3, combine_D2, map_D2. unfold C3. f_equal. f_equal. rewrite D3_rows. f_equal.
  apply D2_ext. intros i j _ _. cbn [fst snd]. now apply set_row.
Qed.

(* ---- typed tabulated tensors: integer, boolean, integer-or-uninitialised ----------------------------- *)
Definition I1 (k : nat) (a : nat -> Z) : itens := C1 k (fun l => CInt (a l)).
Definition I2 (m k : nat) (a : nat -> nat -> Z) : itens := C2 m k (fun j l => CInt (a j l)).
Definition I3 (n m k : nat) (a : nat -> nat -> nat -> Z) : itens := C3 n m k (fun i j l => CInt (a i j l)).
Definition B2 (m k : nat) (b : nat -> nat -> bool) : itens := C2 m k (fun j l => CBool (b j l)).
Definition B3 (n m k : nat) (b : nat -> nat -> nat -> bool) : itens := C3 n m k (fun i j l => CBool (b i j l)).
Definition ocell (o : option Z) : cell := match o with Some z => CInt z | None => CUndef end.
Definition O3 (n m k : nat) (h : nat -> nat -> nat -> option Z) : itens := C3 n m k (fun i j l => ocell (h i j l)).
(* a 1-D tensor given by its list of elements *)
Definition V1 (d : list cell) : itens := mkIT [length d] d.

Lemma all_some_D2 : forall {A} m k (F : nat -> nat -> option A) c,
  (forall j l, (j < m)%nat -> (l < k)%nat -> F j l = Some (c j l)) -> all_some (D2 m k F) = Some (D2 m k c).
Proof.
  intros A m k F c H. unfold D2. apply all_some_flat_map. intros j Hj. apply in_seq in Hj.
  unfold D1. apply all_some_map_ext. intros l Hl. apply in_seq in Hl. apply H; lia.
Qed.

Lemma all_some_D1 : forall {A} k (F : nat -> option A) c,
  (forall l, (l < k)%nat -> F l = Some (c l)) -> all_some (D1 k F) = Some (D1 k c).
Proof. intros A k F c H. unfold D1. apply all_some_map_ext. intros l Hl. apply in_seq in Hl. apply H; lia. Qed.

(* Tensor.all(last dim) *)
Lemma all_row_bools : forall k (b : nat -> bool), all_row (D1 k (fun l => CBool (b l))) = Some (CBool (forallb (fun x => x) (D1 k b))).
Proof.
  intros. unfold all_row. rewrite map_D1. cbn [as_bool].
  rewrite (all_some_D1 k (fun l => Some (b l)) b) by reflexivity. reflexivity.
Qed.

Lemma all_last_B3 : forall n m k b,
  all_last (B3 n m k b) 2 = Some (B2 n m (fun i j => forallb (fun x => x) (D1 k (b i j)))).
Proof.
  intros. unfold all_last, B3. replace (is_last_dim (C3 n m k _) 2) with true by reflexivity.
  rewrite rows_last_C3, map_D2.
  rewrite (all_some_D2 n m _ (fun i j => CBool (forallb (fun x => x) (D1 k (b i j))))) by (intros; apply all_row_bools).
  reflexivity.
Qed.

(* Tensor.sum(last dim) *)
Lemma sum_row_ints : forall k (a : nat -> Z), sum_row (D1 k (fun l => CInt (a l))) = Some (CInt (zsum (D1 k a))).
Proof.
  intros. unfold sum_row. rewrite map_D1. cbn [as_int].
  rewrite (all_some_D1 k (fun l => Some (a l)) a) by reflexivity. reflexivity.
Qed.

Lemma sum_last_I2 : forall m k a, sum_last (I2 m k a) 1 = Some (I1 m (fun j => zsum (D1 k (a j)))).
Proof.
  intros. unfold sum_last, I2. replace (is_last_dim (C2 m k _) 1) with true by reflexivity.
  rewrite rows_last_C2, map_D1.
  rewrite (all_some_D1 m _ (fun j => CInt (zsum (D1 k (a j))))) by (intros; apply sum_row_ints).
  reflexivity.
Qed.

Lemma long_B2 : forall m k b, long (B2 m k b) = I2 m k (fun j l => if b j l then 1%Z else 0%Z).
Proof. intros. unfold long, B2, I2, C2. cbn [ishape idata]. now rewrite map_D2. Qed.

(* ---- expand ------------------------------------------------------------------------------------------ *)
Lemma bidx_same : forall n i, (i < n)%nat -> bidx n i = i.
Proof. intros n i H. unfold bidx. destruct (Nat.eqb_spec n 1); lia. Qed.

Lemma bidx_in : forall n n' i, ((n =? n') || (n =? 1))%nat = true -> (i < n')%nat -> (bidx n i < n)%nat.
Proof.
  intros n n' i H Hi. unfold bidx. destruct (Nat.eqb_spec n 1); [lia|].
  destruct (Nat.eqb_spec n n'); [lia|discriminate].
Qed.

Lemma expand_C3 : forall n m k f n' m' k', expandable [n; m; k] [n'; m'; k'] = true ->
  expand (C3 n m k f) [n'; m'; k'] = Some (C3 n' m' k' (fun i j l => f (bidx n i) (bidx m j) (bidx k l))).
Proof.
  intros n m k f n' m' k' H. unfold expand. cbn [C3 ishape idata]. rewrite H. cbn [norm3].
  unfold C3. f_equal. f_equal. cbn [expandable] in H.
  apply andb_prop in H. destruct H as [H1 H]. apply andb_prop in H. destruct H as [H2 H].
  apply andb_prop in H. destruct H as [H3 _].
  apply D3_ext. intros i j l Hi Hj Hl. apply get3_D3; eauto using bidx_in.
Qed.

Lemma expand_C3_last : forall n m k f, expand (C3 n m 1 f) [n; m; k] = Some (C3 n m k (fun i j _ => f i j 0%nat)).
Proof.
  intros. rewrite expand_C3 by (cbn [expandable]; rewrite !Nat.eqb_refl, ?orb_true_r; reflexivity).
  unfold C3. f_equal. f_equal. apply D3_ext. intros i j l Hi Hj Hl. now rewrite !bidx_same by assumption.
Qed.

Lemma expand_C3_n11 : forall n m k f, expand (C3 n 1 1 f) [n; m; k] = Some (C3 n m k (fun i _ _ => f i 0%nat 0%nat)).
Proof.
  intros. rewrite expand_C3 by (cbn [expandable]; rewrite !Nat.eqb_refl, ?orb_true_r; reflexivity).
  unfold C3. f_equal. f_equal. apply D3_ext. intros i j l Hi Hj Hl. now rewrite !bidx_same by assumption.
Qed.

(* ---- broadcasting -------------------------------------------------------------------------------------- *)
Lemma bdim_1_l : forall n, bdim 1 n = Some n.
Proof. intros n. unfold bdim. destruct (Nat.eqb_spec 1 n); [now subst|reflexivity]. Qed.

Lemma bdim_1_r : forall n, bdim n 1 = Some n.
Proof. intros n. unfold bdim. destruct (Nat.eqb_spec n 1); reflexivity. Qed.

Lemma bdim_same : forall n, bdim n n = Some n.
Proof. intros n. unfold bdim. now rewrite Nat.eqb_refl. Qed.

Lemma bdim_idx_l : forall a b n i, bdim a b = Some n -> (i < n)%nat -> (bidx a i < a)%nat.
Proof.
  intros a b n i H Hi. unfold bdim in H. unfold bidx.
  destruct (Nat.eqb_spec a b); [inversion H; subst; destruct (Nat.eqb_spec n 1); lia|].
  destruct (Nat.eqb_spec a 1); [lia|].
  destruct (Nat.eqb_spec b 1); [inversion H; subst; lia|discriminate].
Qed.

Lemma bdim_idx_r : forall a b n i, bdim a b = Some n -> (i < n)%nat -> (bidx b i < b)%nat.
Proof.
  intros a b n i H Hi. unfold bdim in H. unfold bidx.
  destruct (Nat.eqb_spec a b); [inversion H; subst; destruct (Nat.eqb_spec n 1); lia|].
  destruct (Nat.eqb_spec a 1); [inversion H; subst; destruct (Nat.eqb_spec n 1); lia|].
  destruct (Nat.eqb_spec b 1); [lia|discriminate].
Qed.

Lemma bcast_tab : forall f a b na ma ka nb mb kb fa fb n m k c,
  norm3 (ishape a) = Some (na, ma, ka) -> idata a = D3 na ma ka fa ->
  norm3 (ishape b) = Some (nb, mb, kb) -> idata b = D3 nb mb kb fb ->
  bdim na nb = Some n -> bdim ma mb = Some m -> bdim ka kb = Some k ->
  (forall i j l, (i < n)%nat -> (j < m)%nat -> (l < k)%nat ->
     f (fa (bidx na i) (bidx ma j) (bidx ka l)) (fb (bidx nb i) (bidx mb j) (bidx kb l)) = Some (c i j l)) ->
  bcast f a b = Some (mkIT (skipn (3 - Nat.max (ndim a) (ndim b)) [n; m; k]) (D3 n m k c)).
Proof.
  intros f a b na ma ka nb mb kb fa fb n m k c Ha Da Hb Db Hn Hm Hk H.
  unfold bcast. rewrite Ha, Hb, Hn, Hm, Hk, Da, Db.
  rewrite (all_some_D3 n m k _ c); [reflexivity|].
  intros i j l Hi Hj Hl. rewrite !get3_D3 by eauto using bdim_idx_l, bdim_idx_r. now apply H.
Qed.

Lemma data_C1 : forall k f, idata (C1 k f) = D3 1 1 k (fun _ _ => f).
Proof. intros. cbn [C1 idata]. now rewrite D3_1, D2_1. Qed.

Lemma data_C2 : forall m k f, idata (C2 m k f) = D3 1 m k (fun _ => f).
Proof. intros. cbn [C2 idata]. now rewrite D3_1. Qed.

(* (n, 1) op (r)  ->  (n, r) *)
Lemma compare_I2col_I1 : forall o n r a b,
  compare o (I2 n 1 a) (I1 r b) = Some (B2 n r (fun i j => zcmp o (a i 0%nat) (b j))).
Proof.
  intros. unfold compare.
  rewrite (bcast_tab (cmp_cell o) (I2 n 1 a) (I1 r b) 1 n 1 1 1 r _ _ 1 n r (fun _ i j => CBool (zcmp o (a i 0%nat) (b j)))
             eq_refl (data_C2 _ _ _) eq_refl (data_C1 _ _) (bdim_same 1) (bdim_1_r n) (bdim_1_l r)).
  - cbn [I2 I1 C2 C1 ndim ishape length Nat.max Nat.sub skipn]. unfold B2, C2. now rewrite D3_1.
  - intros i j l Hi Hj Hl. cbn [bidx Nat.eqb]. rewrite (bidx_same n j), (bidx_same r l) by assumption. reflexivity.
Qed.

(* (n, 1) op (n, r)  ->  (n, r) *)
Lemma compare_I2col_I2 : forall o n r a b,
  compare o (I2 n 1 a) (I2 n r b) = Some (B2 n r (fun i j => zcmp o (a i 0%nat) (b i j))).
Proof.
  intros. unfold compare.
  rewrite (bcast_tab (cmp_cell o) (I2 n 1 a) (I2 n r b) 1 n 1 1 n r _ _ 1 n r (fun _ i j => CBool (zcmp o (a i 0%nat) (b i j)))
             eq_refl (data_C2 _ _ _) eq_refl (data_C2 _ _ _) (bdim_same 1) (bdim_same n) (bdim_1_l r)).
  - cbn [I2 C2 ndim ishape length Nat.max Nat.sub skipn]. unfold B2, C2. now rewrite D3_1.
  - intros i j l Hi Hj Hl. cbn [bidx Nat.eqb]. rewrite (bidx_same n j), (bidx_same r l) by assumption. reflexivity.
Qed.

(* (n, r) op (n, r) *)
Lemma compare_I2_I2 : forall o n r a b,
  compare o (I2 n r a) (I2 n r b) = Some (B2 n r (fun i j => zcmp o (a i j) (b i j))).
Proof.
  intros. unfold compare.
  rewrite (bcast_tab (cmp_cell o) (I2 n r a) (I2 n r b) 1 n r 1 n r _ _ 1 n r (fun _ i j => CBool (zcmp o (a i j) (b i j)))
             eq_refl (data_C2 _ _ _) eq_refl (data_C2 _ _ _) (bdim_same 1) (bdim_same n) (bdim_same r)).
  - cbn [I2 C2 ndim ishape length Nat.max Nat.sub skipn]. unfold B2, C2. now rewrite D3_1.
  - intros i j l Hi Hj Hl. cbn [bidx Nat.eqb]. rewrite (bidx_same n j), (bidx_same r l) by assumption. reflexivity.
Qed.

Lemma and_B2_B2 : forall n r a b,
  logical_and (B2 n r a) (B2 n r b) = Some (B2 n r (fun i j => a i j && b i j)).
Proof.
  intros. unfold logical_and.
  rewrite (bcast_tab and_cell (B2 n r a) (B2 n r b) 1 n r 1 n r _ _ 1 n r (fun _ i j => CBool (a i j && b i j))
             eq_refl (data_C2 _ _ _) eq_refl (data_C2 _ _ _) (bdim_same 1) (bdim_same n) (bdim_same r)).
  - cbn [B2 C2 ndim ishape length Nat.max Nat.sub skipn]. unfold B2, C2. now rewrite D3_1.
  - intros i j l Hi Hj Hl. cbn [bidx Nat.eqb]. rewrite (bidx_same n j), (bidx_same r l) by assumption. reflexivity.
Qed.

(* (n, m, k) op python int *)
Lemma compare_I3_scalar : forall o n m k a z,
  compare o (I3 n m k a) (scalar_int z) = Some (B3 n m k (fun i j l => zcmp o (a i j l) z)).
Proof.
  intros. unfold compare.
  rewrite (bcast_tab (cmp_cell o) (I3 n m k a) (scalar_int z) n m k 1 1 1 _ (fun _ _ _ => CInt z) n m k (fun i j l => CBool (zcmp o (a i j l) z))
             eq_refl eq_refl eq_refl eq_refl (bdim_1_r n) (bdim_1_r m) (bdim_1_r k)).
  - reflexivity.
  - intros i j l Hi Hj Hl. now rewrite !bidx_same by assumption.
Qed.

(* (n, m, k) + (n, m, k), the left operand possibly uninitialised *)
Lemma add_O3_I3 : forall n m k h a,
  add (O3 n m k h) (I3 n m k a) = Some (O3 n m k (fun i j l => option_map (fun z => (z + a i j l)%Z) (h i j l))).
Proof.
  intros. unfold add.
  rewrite (bcast_tab add_cell (O3 n m k h) (I3 n m k a) n m k n m k _ _ n m k (fun i j l => ocell (option_map (fun z => (z + a i j l)%Z) (h i j l)))
             eq_refl eq_refl eq_refl eq_refl (bdim_same n) (bdim_same m) (bdim_same k)).
  - reflexivity.
  - intros i j l Hi Hj Hl. rewrite !bidx_same by assumption. destruct (h i j l); reflexivity.
Qed.

(* ---- boolean-mask selection -------------------------------------------------------------------------------- *)
Lemma select_app : forall d1 m1 d2 m2 r1 r2,
  select d1 m1 = Some r1 -> select d2 m2 = Some r2 -> select (d1 ++ d2) (m1 ++ m2) = Some (r1 ++ r2).
Proof.
  induction d1 as [|x d1 IH]; intros m1 d2 m2 r1 r2 H1 H2; destruct m1 as [|c m1]; cbn in H1; try discriminate.
  - inversion H1; subst. exact H2.
  - destruct c as [z|bb|]; try discriminate. cbn [app select].
    destruct (select d1 m1) as [r|] eqn:E; [|discriminate]. rewrite (IH m1 d2 m2 r r2 E H2).
    cbn in H1 |- *. inversion H1; subst. destruct bb; reflexivity.
Qed.

Lemma select_flat_map : forall {A} (F M : A -> list cell) c l,
  (forall x, In x l -> select (F x) (M x) = Some (c x)) -> select (flat_map F l) (flat_map M l) = Some (flat_map c l).
Proof.
  induction l as [|x l IH]; intros H; [reflexivity|]. cbn [flat_map].
  apply select_app; [apply H; now left|apply IH; intros; apply H; now right].
Qed.

Lemma select_row_const : forall k f bb, select (D1 k f) (D1 k (fun _ => CBool bb)) = Some (if bb then D1 k f else []).
Proof.
  intros k f bb. unfold D1. induction (seq 0 k) as [|l s IH]; [now destruct bb|].
  cbn [map select]. rewrite IH. destruct bb; reflexivity.
Qed.

(* the elements of the rows (i, j) with b i j, in row-major order *)
Definition sel3 (n m k : nat) (f : nat -> nat -> nat -> cell) (b : nat -> nat -> bool) : list cell :=
  flat_map (fun i => flat_map (fun j => if b i j then D1 k (f i j) else []) (seq 0 m)) (seq 0 n).

Lemma masked_select_C3 : forall n m k f b,
  masked_select (C3 n m k f) (B3 n m k (fun i j _ => b i j)) = Some (V1 (sel3 n m k f b)).
Proof.
  intros. unfold masked_select, B3, C3. cbn [ishape idata shape_eqb]. rewrite !Nat.eqb_refl. cbn [andb].
  unfold D3, D2. rewrite (select_flat_map _ _ (fun i => flat_map (fun j => if b i j then D1 k (f i j) else []) (seq 0 m))).
  - reflexivity.
  - intros i _. apply select_flat_map. intros j _. apply select_row_const.
Qed.

(* ---- masked_scatter_ of such a selection into prefix masks ------------------------------------------------- *)
Lemma scatter_true_block : forall s1 d1 d2 m2 rest, length d1 = length s1 ->
  scatter (d1 ++ d2) (repeat (CBool true) (length s1) ++ m2) (s1 ++ rest) = option_map (app s1) (scatter d2 m2 rest).
Proof.
  induction s1 as [|x s1 IH]; intros d1 d2 m2 rest H; destruct d1 as [|y d1]; cbn in H; try discriminate.
  - cbn. now destruct (scatter d2 m2 rest).
  - cbn [length repeat app scatter]. rewrite IH by lia. now destruct (scatter d2 m2 rest).
Qed.

Lemma scatter_false_block : forall d1 d2 m2 src,
  scatter (d1 ++ d2) (repeat (CBool false) (length d1) ++ m2) src = option_map (app d1) (scatter d2 m2 src).
Proof.
  induction d1 as [|y d1 IH]; intros d2 m2 src.
  - cbn. now destruct (scatter d2 m2 src).
  - cbn [length repeat app scatter]. rewrite IH. now destruct (scatter d2 m2 src).
Qed.

Lemma scatter_rows : forall (dflt : cell) R k (cnt : nat -> nat) (srow : nat -> list cell) l rest,
  (forall n, In n l -> (cnt n <= R)%nat /\ length (srow n) = (cnt n * k)%nat) ->
  scatter (flat_map (fun _ => repeat dflt (R * k)) l)
          (flat_map (fun n => repeat (CBool true) (cnt n * k) ++ repeat (CBool false) ((R - cnt n) * k)) l)
          (flat_map srow l ++ rest)
  = Some (flat_map (fun n => srow n ++ repeat dflt ((R - cnt n) * k)) l).
Proof.
  intros dflt R k cnt srow l. induction l as [|n l IH]; intros rest H; [reflexivity|].
  destruct (H n (or_introl eq_refl)) as [Hc Hl]. cbn [flat_map].
  assert (E : repeat dflt (R * k) = repeat dflt (length (srow n)) ++ repeat dflt ((R - cnt n) * k)).
  { rewrite <- repeat_app. f_equal. nia. }
  rewrite E at 1. rewrite <- !app_assoc. rewrite <- Hl at 1.
  rewrite scatter_true_block by now rewrite repeat_length.
  rewrite <- (repeat_length dflt ((R - cnt n) * k)) at 2.
  rewrite scatter_false_block, IH by (intros; apply H; now right).
  reflexivity.
Qed.

Lemma prefix_mask_row : forall R k c (p : nat -> bool), (c <= R)%nat ->
  (forall r, (r < R)%nat -> p r = (r <? c)%nat) ->
  D2 R k (fun r _ => CBool (p r)) = repeat (CBool true) (c * k) ++ repeat (CBool false) ((R - c) * k).
Proof.
  intros R k c p Hc Hp. unfold D2.
  replace R with (c + (R - c))%nat at 1 by lia. rewrite seq_app, flat_map_app. cbn [Nat.add]. f_equal.
  - rewrite (flat_map_ext_in' _ (fun _ => repeat (CBool true) k)).
    + apply flat_map_const_repeat.
    + intros r Hr. apply in_seq in Hr. rewrite Hp by lia. replace (r <? c)%nat with true by (symmetry; apply Nat.ltb_lt; lia).
      apply D1_const.
  - rewrite (flat_map_ext_in' _ (fun _ => repeat (CBool false) k)).
    + apply flat_map_const_repeat.
    + intros r Hr. apply in_seq in Hr. rewrite Hp by lia. replace (r <? c)%nat with false by (symmetry; apply Nat.ltb_ge; lia).
      apply D1_const.
Qed.

Lemma flat_map_filter : forall {A B} (p : A -> bool) (g : A -> list B) l,
  flat_map (fun x => if p x then g x else []) l = flat_map g (filter p l).
Proof.
  induction l as [|x l IH]; [reflexivity|]. cbn [flat_map filter]. destruct (p x); cbn [flat_map app]; now rewrite IH.
Qed.

Lemma flat_map_nth_seq : forall {A B} (g : A -> list B) (ki : list A) d,
  flat_map (fun r => g (nth r ki d)) (seq 0 (length ki)) = flat_map g ki.
Proof.
  intros A B g ki d. rewrite <- (flat_map_map' (fun r => nth r ki d) g). f_equal.
  induction ki as [|x ki IH]; [reflexivity|]. cbn [length seq map nth]. f_equal.
  rewrite <- seq_shift, map_map. exact IH.
Qed.

Lemma filter_len_le' : forall {A} (p : A -> bool) l, (length (filter p l) <= length l)%nat.
Proof. induction l as [|x l IH]; cbn; [lia|]. destruct (p x); cbn; lia. Qed.

(* the positions kept in row i, and what row r of the scattered tensor holds *)
Definition kept_idx (m : nat) (b : nat -> bool) : list nat := filter b (seq 0 m).

Lemma length_flat_map_D1 : forall {A} k (g : nat -> nat -> A) (ki : list nat),
  length (flat_map (fun p => D1 k (g p)) ki) = (length ki * k)%nat.
Proof. intros. apply len_flat_map_const. intros. apply length_D1. Qed.

Theorem scatter_of_select : forall n m k (a : nat -> nat -> nat -> Z) (b : nat -> nat -> bool) (lens : nat -> Z),
  (forall i, (i < n)%nat -> lens i = Z.of_nat (length (kept_idx m (b i)))) ->
  masked_scatter (C3 n m k (fun _ _ _ => CUndef))
                 (B3 n m k (fun i j _ => (lens i >? Z.of_nat j)%Z))
                 (V1 (sel3 n m k (fun i j l => CInt (a i j l)) b))
  = Some (O3 n m k (fun i r l => option_map (fun p => a i p l) (nth_error (kept_idx m (b i)) r))).
Proof.
  intros n m k a b lens Hlens. unfold masked_scatter, B3, C3, V1. cbn [ishape idata shape_eqb].
  rewrite !Nat.eqb_refl. cbn [andb].
  set (cnt := fun i => length (kept_idx m (b i))).
  set (srow := fun i => flat_map (fun p => D1 k (fun l => CInt (a i p l))) (kept_idx m (b i))).
  assert (Hcnt : forall i, (cnt i <= m)%nat).
  { intros i. unfold cnt, kept_idx. etransitivity; [apply filter_len_le'|]. now rewrite seq_length. }
  assert (Hd : D3 n m k (fun _ _ _ => CUndef) = flat_map (fun _ => repeat CUndef (m * k)) (seq 0 n)).
  { unfold D3. apply flat_map_ext_in'. intros; apply D2_const. }
  assert (Hm : D3 n m k (fun i j _ => CBool (lens i >? Z.of_nat j)%Z)
               = flat_map (fun i => repeat (CBool true) (cnt i * k) ++ repeat (CBool false) ((m - cnt i) * k)) (seq 0 n)).
  { unfold D3. apply flat_map_ext_in'. intros i Hi. apply in_seq in Hi.
    apply (prefix_mask_row m k (cnt i) (fun j => (lens i >? Z.of_nat j)%Z) (Hcnt i)).
    intros r Hr. rewrite Hlens by lia. fold (cnt i).
    destruct (Nat.ltb_spec r (cnt i)); [apply Z.gtb_lt; lia|].
    rewrite Z.gtb_ltb. apply Z.ltb_ge. lia. }
  assert (Hs : sel3 n m k (fun i j l => CInt (a i j l)) b = flat_map srow (seq 0 n)).
  { unfold sel3, srow, kept_idx. apply flat_map_ext_in'. intros i _. apply flat_map_filter. }
  rewrite Hd, Hm, Hs, <- (app_nil_r (flat_map srow (seq 0 n))).
  rewrite (scatter_rows CUndef m k cnt srow (seq 0 n) []).
  - cbn [option_map]. unfold O3, C3. f_equal. f_equal. unfold D3. apply flat_map_ext_in'. intros i _.
    unfold D2. replace m with (cnt i + (m - cnt i))%nat at 2 by (specialize (Hcnt i); lia).
    rewrite seq_app, flat_map_app. cbn [Nat.add]. f_equal.
    + unfold srow, cnt. rewrite <- (flat_map_nth_seq (fun p => D1 k (fun l => CInt (a i p l))) (kept_idx m (b i)) 0%nat).
      apply flat_map_ext_in'. intros r Hr. apply in_seq in Hr.
      rewrite (nth_error_nth' _ 0%nat) by lia. reflexivity.
    + rewrite (flat_map_ext_in' _ (fun _ => repeat CUndef k)).
      * symmetry. apply flat_map_const_repeat.
      * intros r Hr. apply in_seq in Hr. fold (cnt i) in Hr.
        replace (nth_error (kept_idx m (b i)) r) with (@None nat) by (symmetry; apply nth_error_None; fold (cnt i); lia).
        cbn [option_map ocell]. apply D1_const.
  - intros i _. split; [apply Hcnt|]. unfold srow, cnt. apply length_flat_map_D1.
Qed.
