(* C15 — the stated rules, written without any history, countdown-from-patience or index
   arithmetic: a patience rule remembers the *value* the metric had when its count was last
   reset and counts consecutive failures upward.

   "the controller stops exactly when the epoch budget is reached or, with early stopping
    enabled, when for the configured number of consecutive post-burn-in epochs the validation
    metric has failed to undercut, by the threshold, the value it had when the patience count
    was last reset; it multiplies the learning rate by the factor exactly when the analogous
    reduction criterion fires outside cool-down (and the change is not negligible), never
    otherwise, and writes the new rate into the optimizer." *)
From Coq Require Import List ZArith QArith Qabs Bool.
From PV Require Import C15.Model.
Import ListNotations.
Local Open Scope Z_scope.

(* v fails to undercut ref by thr; a zero threshold disables the rule; ref = None is +inf *)
Definition fails (ref : option Z) (v thr : Z) : bool :=
  match ref with
  | None => false
  | Some r => (0 <? thr) && (r - v <? thr)
  end.

(* one patience rule: epochs still to wait (burn-in / cool-down), reference value, number of
   consecutive failures.  While waiting the count stays reset, so the reference follows the
   metric. *)
Record rule := mkRule { wait : Z; ref : option Z; bad : Z }.

Definition rule_step (r : rule) (thr v : Z) : rule :=
  if 0 <? wait r then mkRule (wait r - 1) (Some v) 0
  else if fails (ref r) v thr then mkRule 0 (ref r) (bad r + 1)
  else mkRule 0 (Some v) 0.

Record sstate := mkS { s_epoch : Z; s_es : rule; s_rl : rule; s_rate : Q }.

Definition s_init (p : params) (dflt : Q) : sstate :=
  mkS 0 (mkRule (es_burn p) None 0) (mkRule (rlr_burn p) None 0) (init_opt p dflt).

Definition es_fired (p : params) (s : sstate) : bool :=
  (0 <? es_thr p) && (bad (s_es s) =? es_pat p).

(* returns (continue?, state); the single rate is both the recorded and the optimizer's *)
Definition s_step (p : params) (s : sstate) (v : Z) : bool * sstate :=
  let e := s_epoch s + 1 in
  let es' := rule_step (s_es s) (es_thr p) v in
  let rl1 := rule_step (s_rl s) (rlr_thr p) v in
  let fire := bad rl1 =? rlr_pat p in
  let rl' := if fire then mkRule (rlr_cool p) (Some v) 0 else rl1 in
  let new := Qred (s_rate s * rlr_fac p) in
  let rate' := if fire && Qlt_b (rlr_eps p) (s_rate s - new) then new else s_rate s in
  let s' := mkS e es' rl' rate' in
  let budget := match p_num p with None => false | Some n => n <=? e end in
  (negb (budget || es_fired p s'), s').

Fixpoint s_run (p : params) (s : sstate) (vals : list Z) : list (bool * Q) * sstate :=
  match vals with
  | [] => ([], s)
  | v :: t => let '(c, s') := s_step p s v in
              let '(os, sf) := s_run p s' t in ((c, s_rate s') :: os, sf)
  end.

(* early stopping has not fired in any epoch of the run so far *)
Fixpoint es_quiet (p : params) (s : sstate) (vals : list Z) : bool :=
  match vals with
  | [] => true
  | v :: t => let s' := snd (s_step p s v) in negb (es_fired p s') && es_quiet p s' t
  end.

(* ... in any epoch before the last one of [vals] (the epoch at which it fires is included) *)
Fixpoint quiet_before_last (p : params) (s : sstate) (vals : list Z) : bool :=
  match vals with
  | [] => true
  | v :: t => match t with
              | [] => true
              | _ => negb (es_fired p (snd (s_step p s v))) && quiet_before_last p (snd (s_step p s v)) t
              end
  end.

(* what the rules make observable after an epoch: update_for_epoch's return value,
   continue_training(), the optimizer's rate, the recorded rate *)
Definition rule_obs (x : bool * Q) : option (bool * bool * Q * option Q) :=
  Some (fst x, fst x, snd x, Some (snd x)).
Definition obs_core (o : obs) : option (bool * bool * Q * option Q) :=
  match o with OOk c ct o info => Some (c, ct, o, r_lr info) | OErr _ => None end.

(* keyword arguments update_for_epoch accepts; steps of an uninterrupted, error-free run *)
Definition kw_ok (decl : list (nat * ukind)) (kw : list (nat * uval)) : Prop :=
  check_kwargs decl kw = None /\ exists u, collect decl kw = Some u.
Definition plain (decl : list (nat * ukind)) (steps : list step_in) : Prop :=
  Forall (fun s => s_restart s = false /\ kw_ok decl (s_kw s)) steps.

(* the same inputs without any restart *)
Definition clear_restarts (steps : list step_in) : list step_in :=
  map (fun s => mkStep false (s_train s) (s_val s) (s_kw s)) steps.

(* state of the rules after a sequence of validation metrics *)
Definition s_after (p : params) (dflt : Q) (vals : list Z) : sstate := snd (s_run p (s_init p dflt) vals).

(* well-formed parameters (what TrainingStateParams' bounds enforce) *)
Definition wf (p : params) : Prop :=
  0 <= es_thr p /\ 1 <= es_pat p /\ 0 <= es_burn p /\
  0 <= rlr_thr p /\ 1 <= rlr_pat p /\ 0 <= rlr_cool p /\ 0 <= rlr_burn p.

(* ---- boolean reading on implementation outputs ---------------------------------------- *)
(* impl: per epoch (continue?, recorded rate, optimizer rate) of an uninterrupted run without
   user-entry errors; judged up to and including the first epoch at which the rules say stop
   by early stopping (what happens when training continues past it is not specified) *)
Fixpoint spec_okb_from (tol : Q) (p : params) (s : sstate) (vals : list Z) (impl : list (bool * Q * Q)) : bool :=
  match vals, impl with
  | [], [] => true
  | v :: t, (c, lr, o) :: it =>
      let '(c', s') := s_step p s v in
      let close := fun a b => Qle_bool (Qabs (a - b)) (tol * Qabs b) in
      Bool.eqb c c' && close lr (s_rate s') && close o (s_rate s') &&
      (if es_fired p s' then true else spec_okb_from tol p s' t it)
  | _, _ => false
  end.

Definition spec_okb (tol : Q) (p : params) (dflt : Q) (vals : list Z) (impl : list (bool * Q * Q)) : bool :=
  spec_okb_from tol p (s_init p dflt) vals impl.
