(* C19 - model of src/pydrobert/torch/_combinatorics.py: simple_random_sampling_without_replacement,
   BinaryCardinalityConstraint.check, binomial_coefficient (both branches), enumerate_vocab_sequences,
   enumerate_binary_sequences(_with_cardinality), SimpleRandomSamplingWithoutReplacement
   (sample, support, enumerate_support, probability).

   Part of the executable model; no proofs in this file. *)
From Coq Require Import List ZArith QArith Bool.
Import ListNotations.
Local Open Scope Z_scope.

(* ------------------------------------------------------------------------------------------ *)
(* simple_random_sampling_without_replacement, one batch element                                *)
(* torch.bernoulli(p) is modelled by  b = [u < p]  for a script of uniforms u in [0, 1)          *)
(* ------------------------------------------------------------------------------------------ *)
Definition bern (p u : Q) : Z := if Qle_bool p u then 0 else 1.

(* the loop "for t in range(out_size)":  state remainder_ell, remainder_t *)
Fixpoint srswor_loop (out : nat) (ell trem : Z) (us : list Q) : list Z :=
  match out with
  | O => []
  | S out' =>
      let p := (inject_Z ell / inject_Z trem)%Q in            (* p = remainder_ell / remainder_t *)
      let b := bern p (hd 0%Q us) in                             (* b_t = torch.bernoulli(p) *)
      b :: srswor_loop out' (ell - b) (Z.max (trem - 1) 1) (tl us) (* (remainder_t - 1).clamp_min_(1) *)
  end.

(* None = RuntimeError (given > total, or out_size < total) *)
Definition srswor (total given : Z) (out : nat) (us : list Q) : option (list Z) :=
  if total <? given then None
  else if Z.of_nat out <? total then None
  else Some (srswor_loop out given (Z.max total 1) us).   (* total_count.clamp_min(1) *)

(* probability that the loop emits exactly the vector bs (product of the Bernoulli probabilities) *)
Fixpoint srswor_prob (ell trem : Z) (bs : list Z) : Q :=
  match bs with
  | [] => 1%Q
  | b :: rest =>
      let p := (inject_Z ell / inject_Z trem)%Q in
      ((if b =? 1 then p else (1 - p)%Q) * srswor_prob (ell - b) (Z.max (trem - 1) 1) rest)%Q
  end.

(* ------------------------------------------------------------------------------------------ *)
(* BinaryCardinalityConstraint(given_count, tmax, total_count).check(value)                     *)
(* ------------------------------------------------------------------------------------------ *)
Definition zsum (l : list Z) : Z := fold_right Z.add 0 l.

Definition card_check (given : Z) (total : option Z) (value : list Z) : bool :=
  let is_bool := forallb (fun v => (v =? 0) || (v =? 1)) value in
  (* total_count_mask = total_count <= arange(tmax);  (mask * value).sum(-1) == 0 *)
  let masked := match total with
                | None => 0
                | Some t => zsum (map (fun iv => if t <=? Z.of_nat (fst iv) then snd iv else 0)
                                      (combine (seq 0 (length value)) value))
                end in
  is_bool && (masked =? 0) && (zsum value =? given).

(* ------------------------------------------------------------------------------------------ *)
(* binomial_coefficient(length, count) on a batch (already broadcast)                           *)
(* ------------------------------------------------------------------------------------------ *)
Definition zmax_list (l : list Z) : Z := fold_right Z.max 0 l.   (* entries are checked >= 0 first *)

(* x = arange(length_ + 2); x[0] = 1; x = x.cumprod(0)   ->  x[i] = i! *)
Fixpoint cumprod_from (acc : Z) (l : list Z) : list Z :=
  match l with [] => [] | a :: t => (acc * a) :: cumprod_from (acc * a) t end.
Definition fact_table (length_ : Z) : list Z :=
  cumprod_from 1 (1 :: map Z.of_nat (seq 1 (Z.to_nat length_ + 1))).

(* python indexing x[i] with i = -1 meaning the last element *)
Definition pyidx (x : list Z) (i : Z) : Z :=
  if i <? 0 then nth (length x - Z.to_nat (- i)) x 0 else nth (Z.to_nat i) x 0.

Definition binom_fact_branch (length_ : Z) (len cnt : Z) : Z :=
  let x := fact_table length_ in
  let lmc := Z.max (len - cnt) (-1) in                 (* (length - count).clamp_min_(-1) *)
  let cnt' := Z.min cnt length_ in                      (* count.clamp_max(length_) *)
  let b := Z.quot (pyidx x len) (pyidx x cnt' * pyidx x lmc) in   (* trunc_divide *)
  if lmc =? -1 then 0 else b.                           (* masked_fill_(length_m_count == -1, 0) *)

(* the table of the other branch: binom[0] = 1; binom[c, 0] = 0; binom[c, 1:] = binom[c-1, :-1].cumsum(0) *)
Fixpoint cumsum_from (acc : Z) (l : list Z) : list Z :=
  match l with [] => [] | a :: t => (acc + a) :: cumsum_from (acc + a) t end.
Fixpoint pascal_rows (c : nat) (ncols : nat) : list (list Z) :=   (* rows 0..c, most recent first *)
  match c with
  | O => [repeat 1 ncols]
  | S c' =>
      match pascal_rows c' ncols with
      | [] => []
      | prev :: older => (0 :: cumsum_from 0 (removelast prev)) :: prev :: older
      end
  end.
Definition binom_table_branch (length_ count_ : Z) (len cnt : Z) : Z :=
  let ncols := (Z.to_nat length_ + 1)%nat in
  let rows := rev (pascal_rows (Z.to_nat count_) ncols) in
  (* binom.flatten()[length + count * (length_ + 1)] *)
  nth (Z.to_nat (len + cnt * (length_ + 1))) (concat rows) 0.

(* None = RuntimeError("length and count must be non-negative") *)
Definition binomial_coefficient (lens cnts : list Z) : option (list Z) :=
  if existsb (fun v => v <? 0) lens || existsb (fun v => v <? 0) cnts then None
  else
    let length_ := zmax_list lens in
    if 20 <? length_ then
      let count_ := zmax_list cnts in
      Some (map (fun lc => binom_table_branch length_ count_ (fst lc) (snd lc)) (combine lens cnts))
    else Some (map (fun lc => binom_fact_branch length_ (fst lc) (snd lc)) (combine lens cnts)).

(* ------------------------------------------------------------------------------------------ *)
(* enumerate_vocab_sequences(length, vocab_size):  support[s, t] = (s / V^t) mod V              *)
(* (what the strided view assignments produce; first position varies fastest)                   *)
(* ------------------------------------------------------------------------------------------ *)
Fixpoint digits (V : Z) (len : nat) (s : Z) : list Z :=
  match len with
  | O => []
  | S len' => (s mod V) :: digits V len' (s / V)
  end.

(* None = RuntimeError (length < 0 or vocab_size <= 0) *)
Definition enumerate_vocab_sequences (len V : Z) : option (list (list Z)) :=
  if len <? 0 then None
  else if V <=? 0 then None
  else Some (map (fun s => digits V (Z.to_nat len) (Z.of_nat s))
                 (seq 0 (Z.to_nat (V ^ len)))).

Definition enumerate_binary_sequences (len : Z) := enumerate_vocab_sequences len 2.

(* _enumerate_binary_sequences_with_cardinality_int: support[support.sum(1) == count] *)
Definition enumerate_card_int (len cnt : Z) : option (list (list Z)) :=
  match enumerate_binary_sequences len with
  | None => None
  | Some supp => Some (filter (fun r => zsum r =? cnt) supp)
  end.

(* _enumerate_binary_sequences_with_cardinality_tensor, one batch element of a batch whose largest
   length is length_: the valid rows (those kept from the first 2^length_[b] rows with the right sum),
   each of width length_, and binom[b].  The implementation appends binom_ - binom[b] undefined rows. *)
Definition enumerate_card_tensor_elem (length_ len cnt : Z) : list (list Z) * Z :=
  let supp := match enumerate_binary_sequences length_ with Some s => s | None => [] end in
  let rows := map snd (filter (fun ir => (Z.of_nat (fst ir) <? 2 ^ len) && (zsum (snd ir) =? cnt))
                              (combine (seq 0 (length supp)) supp)) in
  (rows, match binomial_coefficient [len] [cnt] with Some [b] => b | _ => 0 end).

(* ------------------------------------------------------------------------------------------ *)
(* SimpleRandomSamplingWithoutReplacement(given, total, out_size)                               *)
(* ------------------------------------------------------------------------------------------ *)
(* enumerate_support: the cardinality-constrained sequences of length total, right-padded to out_size *)
Definition srswor_support (total given : Z) (out : nat) : option (list (list Z)) :=
  match enumerate_card_int total given with
  | None => None
  | Some rows => Some (map (fun r => r ++ repeat 0 (out - length r)) rows)
  end.

(* exp(log_prob) = exp(-log_partition) = given! (total-given)! / total!
   (log_factorial[n - 1] with the index clamped at 0, i.e. 0! = 1! = 1) *)
Fixpoint zfact (n : nat) : Z := match n with O => 1 | S n' => Z.of_nat n * zfact n' end.
Definition srswor_prob_value (total given : Z) : Q :=
  (inject_Z (zfact (Z.to_nat given) * zfact (Z.to_nat (total - given))) / inject_Z (zfact (Z.to_nat total)))%Q.

(* ------------------------------------------------------------------------------------------ *)
(* correspondence helpers                                                                       *)
(* ------------------------------------------------------------------------------------------ *)
Definition zlist_eqb (a b : list Z) : bool :=
  Nat.eqb (length a) (length b) && forallb (fun xy => fst xy =? snd xy) (combine a b).
Definition zll_eqb (a b : list (list Z)) : bool :=
  Nat.eqb (length a) (length b) && forallb (fun xy => zlist_eqb (fst xy) (snd xy)) (combine a b).
Definition opt_eqb {X} (e : X -> X -> bool) (a b : option X) : bool :=
  match a, b with None, None => true | Some x, Some y => e x y | _, _ => false end.
