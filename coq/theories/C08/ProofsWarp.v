(* C08 - lemmas about the order-1 warp grid and bilinear border resampling. *)
From Coq Require Import List ZArith QArith Qround Qabs Bool Lia Lqa.
From PV Require Import C08.Model C08.Spec C08.ProofsDraw.
Import ListNotations.
Local Open Scope Q_scope.

(* ---- booleans ------------------------------------------------------------------- *)
Lemma qlt_bool_iff : forall x y, qlt_bool x y = true <-> x < y.
Proof.
  intros x y. unfold qlt_bool. rewrite negb_true_iff. split; intro H.
  - apply Qnot_le_lt. intro L. apply Qle_bool_iff in L. congruence.
  - destruct (Qle_bool y x) eqn:E; [|reflexivity]. apply Qle_bool_iff in E. lra.
Qed.
Lemma qlt_bool_false : forall x y, qlt_bool x y = false <-> y <= x.
Proof.
  intros x y. unfold qlt_bool. rewrite negb_false_iff. apply Qle_bool_iff.
Qed.
Lemma Qle_bool_false : forall x y, Qle_bool x y = false <-> y < x.
Proof.
  intros x y. split; intro H.
  - apply Qnot_le_lt. intro L. apply Qle_bool_iff in L. congruence.
  - destruct (Qle_bool x y) eqn:E; [|reflexivity]. apply Qle_bool_iff in E. lra.
Qed.

(* ---- one linear segment --------------------------------------------------------- *)
Definition seg (a b fa fb x : Q) : Q := fa + (fb - fa) * (x - a) / (b - a).

Lemma seg_diff : forall a b fa fb x y, a < b ->
  seg a b fa fb y - seg a b fa fb x == (fb - fa) * (y - x) * / (b - a).
Proof. intros. unfold seg. field. lra. Qed.

Lemma seg_mono : forall a b fa fb x y, a < b -> fa <= fb -> x <= y ->
  seg a b fa fb x <= seg a b fa fb y.
Proof.
  intros a b fa fb x y Hab Hf Hxy. pose proof (seg_diff a b fa fb x y Hab) as D.
  assert (I : 0 < / (b - a)) by (apply Qinv_lt_0_compat; lra).
  assert (P : 0 <= (fb - fa) * (y - x)) by nra.
  assert (P2 : 0 <= (fb - fa) * (y - x) * / (b - a)) by (apply Qmult_le_0_compat; lra).
  lra.
Qed.

Lemma seg_at_a : forall a b fa fb, a < b -> seg a b fa fb a == fa.
Proof. intros. unfold seg. field. lra. Qed.
Lemma seg_at_b : forall a b fa fb, a < b -> seg a b fa fb b == fb.
Proof. intros. unfold seg. field. lra. Qed.

Lemma seg_bounds : forall a b fa fb x, a < b -> fa <= fb -> a <= x -> x <= b ->
  fa <= seg a b fa fb x /\ seg a b fa fb x <= fb.
Proof.
  intros a b fa fb x Hab Hf H1 H2. split.
  - rewrite <- (seg_at_a a b fa fb Hab) at 1. apply seg_mono; assumption.
  - rewrite <- (seg_at_b a b fa fb Hab) at 2. apply seg_mono; assumption.
Qed.

(* seg <= c  as a polynomial inequality *)
Lemma seg_le : forall a b fa fb x c, a < b ->
  (fb - fa) * (x - a) <= (c - fa) * (b - a) -> seg a b fa fb x <= c.
Proof.
  intros a b fa fb x c Hab H. unfold seg.
  assert (Q : (fb - fa) * (x - a) / (b - a) <= c - fa).
  { apply Qle_shift_div_r; [lra|exact H]. }
  lra.
Qed.
Lemma seg_ge : forall a b fa fb x c, a < b ->
  (c - fa) * (b - a) <= (fb - fa) * (x - a) -> c <= seg a b fa fb x.
Proof.
  intros a b fa fb x c Hab H. unfold seg.
  assert (Q : c - fa <= (fb - fa) * (x - a) / (b - a)).
  { apply Qle_shift_div_l; [lra|exact H]. }
  lra.
Qed.

(* ---- lin3 ------------------------------------------------------------------------- *)
Definition knots_ok (k : knots) : Prop :=
  k_lo k < k_dst k /\ k_dst k < k_up k /\ k_lo k <= k_src k /\ k_src k <= k_up k.

Lemma lin3_tail : forall k x, x < k_lo k \/ k_up k < x -> lin3 k x = x.
Proof.
  intros k x H. unfold lin3.
  destruct (qlt_bool x (k_lo k)) eqn:A; [reflexivity|].
  destruct (qlt_bool (k_up k) x) eqn:B; [reflexivity|].
  apply qlt_bool_false in A, B. lra.
Qed.
Lemma lin3_left : forall k x, k_lo k <= x -> x <= k_up k -> x <= k_dst k ->
  lin3 k x = seg (k_lo k) (k_dst k) (k_lo k) (k_src k) x.
Proof.
  intros k x H1 H2 H3. unfold lin3, seg.
  apply qlt_bool_false in H1, H2. rewrite H1, H2. cbn [orb].
  apply Qle_bool_iff in H3. now rewrite H3.
Qed.
Lemma lin3_right : forall k x, k_lo k <= x -> x <= k_up k -> k_dst k < x ->
  lin3 k x = seg (k_dst k) (k_up k) (k_src k) (k_up k) x.
Proof.
  intros k x H1 H2 H3. unfold lin3, seg.
  apply qlt_bool_false in H1, H2. rewrite H1, H2. cbn [orb].
  apply Qle_bool_false in H3. now rewrite H3.
Qed.

Lemma lin3_cases : forall k x,
  (x < k_lo k /\ lin3 k x = x) \/ (k_up k < x /\ lin3 k x = x)
  \/ (k_lo k <= x /\ x <= k_dst k /\ x <= k_up k /\ lin3 k x = seg (k_lo k) (k_dst k) (k_lo k) (k_src k) x)
  \/ (k_lo k <= x /\ k_dst k < x /\ x <= k_up k /\ lin3 k x = seg (k_dst k) (k_up k) (k_src k) (k_up k) x).
Proof.
  intros k x.
  destruct (Qlt_le_dec x (k_lo k)) as [A|A]; [left; split; [exact A|apply lin3_tail; auto]|].
  destruct (Qlt_le_dec (k_up k) x) as [B|B]; [right; left; split; [exact B|apply lin3_tail; auto]|].
  destruct (Qlt_le_dec (k_dst k) x) as [C|C].
  - right; right; right. repeat split; try assumption. apply lin3_right; assumption.
  - right; right; left. repeat split; try assumption. apply lin3_left; assumption.
Qed.

Lemma lin3_range : forall k x, knots_ok k -> k_lo k <= x -> x <= k_up k ->
  k_lo k <= lin3 k x /\ lin3 k x <= k_up k
  /\ (x <= k_dst k -> lin3 k x <= k_src k) /\ (k_dst k <= x -> k_src k <= lin3 k x).
Proof.
  intros k x [K1 [K2 [K3 K4]]] H1 H2.
  destruct (Qlt_le_dec (k_dst k) x) as [C|C].
  - rewrite lin3_right by assumption.
    destruct (seg_bounds (k_dst k) (k_up k) (k_src k) (k_up k) x K2 K4 (Qlt_le_weak _ _ C) H2) as [S1 S2].
    repeat split; try lra.
  - rewrite lin3_left by assumption.
    destruct (seg_bounds (k_lo k) (k_dst k) (k_lo k) (k_src k) x K1 K3 H1 C) as [S1 S2].
    repeat split; try lra. intro D. assert (E : x == k_dst k) by lra.
    assert (X : seg (k_lo k) (k_dst k) (k_lo k) (k_src k) x == k_src k).
    { unfold seg. rewrite E. field. lra. }
    lra.
Qed.

(* the order-1 grid function is non-decreasing on the whole line *)
Lemma lin3_mono : forall k x y, knots_ok k -> x <= y -> lin3 k x <= lin3 k y.
Proof.
  intros k x y K Hxy. pose proof K as [K1 [K2 [K3 K4]]].
  destruct (lin3_cases k x) as [[A Ex]|[[A Ex]|[[A1 [A2 [A3 Ex]]]|[A1 [A2 [A3 Ex]]]]]];
  destruct (lin3_cases k y) as [[B Ey]|[[B Ey]|[[B1 [B2 [B3 Ey]]]|[B1 [B2 [B3 Ey]]]]]];
  try (rewrite Ex, Ey; lra); try lra.
  - (* x below, y in left *) rewrite Ex. destruct (lin3_range k y K B1 B3) as [R _]. lra.
  - rewrite Ex. destruct (lin3_range k y K B1 B3) as [R _]. lra.
  - (* x in left, y above *) rewrite Ey. destruct (lin3_range k x K A1 A3) as [_ [R _]]. lra.
  - rewrite Ex, Ey. apply seg_mono; assumption.
  - destruct (lin3_range k x K A1 A3) as [_ [_ [R _]]].
    destruct (lin3_range k y K B1 B3) as [_ [_ [_ R']]]. specialize (R A2).
    assert (k_dst k <= y) by lra. specialize (R' H). lra.
  - rewrite Ey. destruct (lin3_range k x K A1 A3) as [_ [R _]]. lra.
  - rewrite Ex, Ey. apply seg_mono; assumption.
Qed.

(* ---- the spline oracle: an exact solution of the order-1 system is lin3 ----------- *)
Lemma order1_spline_is_lin3 : forall c0 c1 c2 f1 w0 w1 w2 v1 v0,
  c0 < c1 -> c1 < c2 ->
  spline1_solution c0 c1 c2 c0 f1 c2 w0 w1 w2 v1 v0 ->
  forall x, spline1_eval c0 c1 c2 w0 w1 w2 v1 v0 x == lin3 (mkKnots c0 c1 f1 c2) x.
Proof.
  intros c0 c1 c2 f1 w0 w1 w2 v1 v0 H01 H12 [E0 [E1 [E2 [E3 E4]]]] x.
  unfold spline1_eval in E0, E1, E2.
  assert (Z0 : forall a, Qabs (a - a) == 0) by (intro a; rewrite Qabs_pos; lra).
  rewrite Z0 in E0, E1, E2.
  rewrite (Qabs_neg (c0 - c1)), (Qabs_neg (c0 - c2)) in E0 by lra.
  rewrite (Qabs_pos (c1 - c0)), (Qabs_neg (c1 - c2)) in E1 by lra.
  rewrite (Qabs_pos (c2 - c0)), (Qabs_pos (c2 - c1)) in E2 by lra.
  (* the affine part is the identity *)
  assert (C0 : c0 * (w0 + w1 + w2) == 0) by (rewrite E4; ring).
  assert (C1 : c1 * (w0 + w1 + w2) == 0) by (rewrite E4; ring).
  assert (C2 : c2 * (w0 + w1 + w2) == 0) by (rewrite E4; ring).
  assert (P0 : c0 * v1 + v0 == c0) by lra.
  assert (P2 : c2 * v1 + v0 == c2) by lra.
  assert (V : (c2 - c0) * (v1 - 1) == 0) by lra.
  apply Qmult_integral in V. destruct V as [V|V]; [lra|].
  assert (V1 : v1 == 1) by lra. assert (V0 : v0 == 0) by (rewrite V1 in P0; lra).
  clear P0 P2 V. rewrite V1, V0 in E0, E1, E2.
  assert (X4 : x * (w0 + w1 + w2) == 0) by (rewrite E4; ring).
  unfold spline1_eval. rewrite V1, V0.
  destruct (lin3_cases (mkKnots c0 c1 f1 c2) x)
    as [[A Ex]|[[A Ex]|[[A1 [A2 [A3 Ex]]]|[A1 [A2 [A3 Ex]]]]]];
    cbn [k_lo k_dst k_src k_up] in *; rewrite Ex.
  - rewrite (Qabs_neg (x - c0)), (Qabs_neg (x - c1)), (Qabs_neg (x - c2)) by lra. lra.
  - rewrite (Qabs_pos (x - c0)), (Qabs_pos (x - c1)), (Qabs_pos (x - c2)) by lra. lra.
  - rewrite (Qabs_pos (x - c0)), (Qabs_neg (x - c1)), (Qabs_neg (x - c2)) by lra.
    set (s := w0 - w1 - w2 + 1).
    assert (S : f1 - c0 == s * (c1 - c0)) by (unfold s; lra).
    assert (R : seg c0 c1 c0 f1 x == c0 + s * (x - c0)).
    { unfold seg. rewrite S. field. lra. }
    rewrite R. unfold s. lra.
  - rewrite (Qabs_pos (x - c0)), (Qabs_pos (x - c1)), (Qabs_neg (x - c2)) by lra.
    set (s := w0 + w1 - w2 + 1).
    assert (S : c2 - f1 == s * (c2 - c1)) by (unfold s; lra).
    assert (R : seg c1 c2 f1 c2 x == f1 + s * (x - c1)).
    { unfold seg. rewrite S. field. lra. }
    rewrite R. unfold s. lra.
Qed.

(* ---- the knots warp_1d_grid builds -------------------------------------------------- *)
Lemma coord_mono : forall T p q, (0 < T)%Z -> p <= q -> coord T p <= coord T q.
Proof.
  intros T p q HT H. unfold coord.
  assert (I : 0 < / z2q T).
  { apply Qinv_lt_0_compat. unfold z2q. change 0 with (inject_Z 0). rewrite <- Zlt_Qlt. exact HT. }
  unfold Qdiv. nra.
Qed.

Lemma clamp_range : forall x hi, 0 <= hi -> 0 <= qmax (qmin x hi) 0 /\ qmax (qmin x hi) 0 <= hi.
Proof.
  intros x hi H. split; [apply qmax_r|]. apply qmax_lub; [apply qmin_r|exact H].
Qed.

Lemma z2q_pos : forall T, (0 < T)%Z -> 0 < z2q T.
Proof. intros T H. unfold z2q. change 0 with (inject_Z 0). rewrite <- Zlt_Qlt. exact H. Qed.

Lemma z2q_minus1 : forall L, z2q (L - 1) == z2q L - 1.
Proof. intro L. unfold z2q, Zminus. rewrite inject_Z_plus. reflexivity. Qed.

Lemma tinv_facts : forall T, (0 < T)%Z -> 0 < / z2q T /\ z2q T * / z2q T == 1.
Proof.
  intros T HT. pose proof (z2q_pos T HT) as P. split; [apply Qinv_lt_0_compat; exact P|].
  apply Qmult_inv_r. lra.
Qed.

Lemma warp_knots_ok : forall eps T src flow len,
  0 < eps -> (0 < T)%Z -> 1 <= len -> knots_ok (warp_knots eps T src flow len).
Proof.
  intros eps T src flow len He HT Hl. unfold knots_ok, warp_knots. cbn [k_lo k_dst k_src k_up].
  set (s := qmax (qmin src (len - 1)) 0). set (d := qmax (qmin (s + flow) (len - 1)) 0).
  assert (Hl1 : 0 <= len - 1) by lra.
  destruct (clamp_range src (len - 1) Hl1) as [S0 S1]. fold s in S0, S1.
  destruct (clamp_range (s + flow) (len - 1) Hl1) as [D0 D1]. fold d in D0, D1.
  destruct (tinv_facts T HT) as [I _]. unfold coord, Qdiv. set (t := / z2q T) in *.
  repeat split; nra.
Qed.

Lemma zseq_length : forall T, length (zseq T) = Z.to_nat T.
Proof. intro T. unfold zseq. now rewrite map_length, seq_length. Qed.

Lemma zseq_nth : forall T i d, (i < Z.to_nat T)%nat -> nth i (zseq T) d = Z.of_nat i.
Proof.
  intros T i d H. unfold zseq. rewrite (nth_indep _ d (Z.of_nat 0)) by (now rewrite map_length, seq_length).
  rewrite map_nth, seq_nth by exact H. reflexivity.
Qed.

Lemma warp_grid_length : forall eps T src flow len, length (warp_grid eps T src flow len) = Z.to_nat T.
Proof. intros. unfold warp_grid. now rewrite map_length, zseq_length. Qed.

Lemma warp_grid_nth : forall eps T src flow len i d, (i < Z.to_nat T)%nat ->
  nth i (warp_grid eps T src flow len) d
  = lin3 (warp_knots eps T src flow len) (coord T (z2q (Z.of_nat i))).
Proof.
  intros eps T src flow len i d H. unfold warp_grid.
  set (f := fun i0 : Z => lin3 (warp_knots eps T src flow len) (coord T (z2q i0))).
  rewrite (nth_indep _ d (f 0%Z)) by (now rewrite map_length, zseq_length).
  rewrite map_nth, zseq_nth by exact H. reflexivity.
Qed.

(* "the linear time warp reads the frames in non-decreasing order" - for every pair of output
   frames, valid or not, every source, flow and length >= 1 *)
Lemma linear_warp_monotone : forall eps T src flow len i j d,
  0 < eps -> (0 < T)%Z -> 1 <= len -> (i <= j)%nat -> (j < Z.to_nat T)%nat ->
  nth i (warp_grid eps T src flow len) d <= nth j (warp_grid eps T src flow len) d.
Proof.
  intros eps T src flow len i j d He HT Hl Hij Hj.
  rewrite !warp_grid_nth by lia. apply lin3_mono; [apply warp_knots_ok; assumption|].
  apply coord_mono; [exact HT|]. apply z2q_le. lia.
Qed.

Lemma unnorm_mono : forall T g h, (0 < T)%Z -> g <= h -> unnorm T g <= unnorm T h.
Proof.
  intros T g h HT H. unfold unnorm. pose proof (z2q_pos T HT).
  apply Qmult_le_compat_r; [nra|]. unfold Qinv; cbn. discriminate.
Qed.

Lemma unnorm_coord : forall T p e, (0 < T)%Z -> unnorm T (coord T p + e) == p + e * z2q T / 2.
Proof.
  intros T p e HT. unfold unnorm, coord. field. pose proof (z2q_pos T HT). lra.
Qed.

(* ... and every valid output frame reads inside the valid input frames, up to the epsilon
   by which the pinned knots lie outside them *)
Lemma linear_warp_reads_valid : forall eps T src flow (L : Z) i d,
  0 < eps -> (0 < T)%Z -> (1 <= L)%Z -> (Z.of_nat i <= L - 1)%Z -> (i < Z.to_nat T)%nat ->
  - (eps * z2q T / 2) <= unnorm T (nth i (warp_grid eps T src flow (z2q L)) d)
  /\ unnorm T (nth i (warp_grid eps T src flow (z2q L)) d) <= z2q (L - 1) + eps * z2q T / 2.
Proof.
  intros eps T src flow L i d He HT HL Hi HiT.
  assert (Hl : 1 <= z2q L) by (change 1 with (z2q 1); apply z2q_le; exact HL).
  rewrite warp_grid_nth by exact HiT.
  pose proof (warp_knots_ok eps T src flow (z2q L) He HT Hl) as K.
  set (k := warp_knots eps T src flow (z2q L)) in *.
  set (x := coord T (z2q (Z.of_nat i))).
  assert (Elo : k_lo k == coord T 0 + - eps) by (unfold k, warp_knots, coord; cbn [k_lo]; unfold Qdiv; ring).
  assert (Eup : k_up k == coord T (z2q (L - 1)) + eps).
  { unfold k, warp_knots, coord; cbn [k_up]. rewrite z2q_minus1. unfold Qdiv; ring. }
  assert (X1 : coord T 0 <= x).
  { apply coord_mono; [exact HT|]. change 0 with (z2q 0). apply z2q_le. lia. }
  assert (X2 : x <= coord T (z2q (L - 1))) by (apply coord_mono; [exact HT|apply z2q_le; exact Hi]).
  destruct (lin3_range k x K) as [R1 [R2 _]]; [lra|lra|].
  split.
  - assert (U : unnorm T (coord T 0 + - eps) == 0 + - eps * z2q T / 2) by (apply unnorm_coord; exact HT).
    assert (M : unnorm T (k_lo k) <= unnorm T (lin3 k x)) by (apply unnorm_mono; assumption).
    assert (M' : unnorm T (k_lo k) == unnorm T (coord T 0 + - eps)).
    { unfold unnorm. rewrite Elo. reflexivity. }
    assert (N : - eps * z2q T / 2 == - (eps * z2q T / 2)) by (unfold Qdiv; ring).
    lra.
  - assert (U : unnorm T (coord T (z2q (L - 1)) + eps) == z2q (L - 1) + eps * z2q T / 2)
      by (apply unnorm_coord; exact HT).
    assert (M : unnorm T (lin3 k x) <= unnorm T (k_up k)) by (apply unnorm_mono; assumption).
    assert (M' : unnorm T (k_up k) == unnorm T (coord T (z2q (L - 1)) + eps)).
    { unfold unnorm. rewrite Eup. reflexivity. }
    lra.
Qed.

Lemma seg_at_b_eq : forall a b fa fb x, a < b -> x == b -> seg a b fa fb x == fb.
Proof. intros a b fa fb x H E. unfold seg. rewrite E. field. lra. Qed.

(* "beginning and ending within half a frame of the first and last valid frame", under the
   hypothesis that the (clamped) destination d keeps a margin from both ends:
   eps T s <= d  and  eps T (len-1-s) <= len-1-d   (s = clamped source) *)
Lemma linear_warp_pinned_margin : forall eps T src flow (L : Z) d0,
  0 < eps -> (0 < T)%Z -> (1 <= L)%Z -> (L <= T)%Z ->
  let len := z2q L in
  let s := qmax (qmin src (len - 1)) 0 in
  let d := qmax (qmin (s + flow) (len - 1)) 0 in
  eps * z2q T * s <= d ->
  eps * z2q T * (len - 1 - s) <= len - 1 - d ->
  unnorm T (nth 0 (warp_grid eps T src flow len) d0) <= 1 # 2
  /\ z2q (L - 1) - (1 # 2) <= unnorm T (nth (Z.to_nat (L - 1)) (warp_grid eps T src flow len) d0).
Proof.
  intros eps T src flow L d0 He HT HL HLT len s d M1 M2.
  assert (Hl : 1 <= len) by (unfold len; change 1 with (z2q 1); apply z2q_le; exact HL).
  assert (Hl1 : 0 <= len - 1) by lra.
  destruct (clamp_range src (len - 1) Hl1) as [S0 S1]. fold s in S0, S1.
  destruct (clamp_range (s + flow) (len - 1) Hl1) as [D0 D1]. fold d in D0, D1.
  pose proof (warp_knots_ok eps T src flow len He HT Hl) as K.
  destruct (tinv_facts T HT) as [I Tt]. pose proof (z2q_pos T HT) as TP.
  set (t := / z2q T) in *.
  assert (K1 : eps * s <= d * t).
  { assert (X : eps * s == eps * z2q T * s * t).
    { transitivity (eps * s * (z2q T * t)); [rewrite Tt; ring|ring]. }
    rewrite X. apply Qmult_le_compat_r; lra. }
  assert (K2 : eps * (len - 1 - s) <= (len - 1 - d) * t).
  { assert (X : eps * (len - 1 - s) == eps * z2q T * (len - 1 - s) * t).
    { transitivity (eps * (len - 1 - s) * (z2q T * t)); [rewrite Tt; ring|ring]. }
    rewrite X. apply Qmult_le_compat_r; lra. }
  set (k := warp_knots eps T src flow len) in *.
  assert (Elo : k_lo k == t - 1 - eps) by (unfold k, warp_knots; cbn [k_lo]; unfold Qdiv; fold t; ring).
  assert (Eup : k_up k == (2 * len - 1) * t - 1 + eps) by (unfold k, warp_knots; cbn [k_up]; unfold Qdiv; fold t; ring).
  assert (Ed : k_dst k == (2 * d + 1) * t - 1) by (unfold k, warp_knots, coord; cbn [k_dst]; unfold Qdiv; fold s d t; ring).
  assert (Es : k_src k == (2 * s + 1) * t - 1) by (unfold k, warp_knots, coord; cbn [k_src]; unfold Qdiv; fold s t; ring).
  destruct K as [Ka [Kb [Kc Kd]]].
  split.
  - rewrite warp_grid_nth by lia. fold k.
    set (x := coord T (z2q (Z.of_nat 0))).
    assert (Ex : x == t - 1) by (unfold x, coord; change (z2q (Z.of_nat 0)) with 0; unfold Qdiv; fold t; ring).
    rewrite lin3_left by nra.
    assert (G : seg (k_lo k) (k_dst k) (k_lo k) (k_src k) x <= coord T (1 # 2) + 0).
    { assert (Ec : coord T (1 # 2) + 0 == 2 * t - 1) by (unfold coord, Qdiv; fold t; ring).
      apply seg_le; [exact Ka|]. rewrite Ec, Elo, Ed, Es, Ex. nra. }
    apply (unnorm_mono T _ _ HT) in G. rewrite unnorm_coord in G by exact HT.
    assert (Z0 : 0 * z2q T / 2 == 0) by (unfold Qdiv; ring). lra.
  - rewrite warp_grid_nth by lia. fold k.
    rewrite Z2Nat.id by lia.
    set (x := coord T (z2q (L - 1))).
    assert (Ex : x == (2 * len - 1) * t - 1).
    { unfold x, coord. rewrite z2q_minus1. fold len. unfold Qdiv; fold t; ring. }
    assert (G : coord T (z2q (L - 1) - (1 # 2)) + 0 <= lin3 k x).
    { assert (Ec : coord T (z2q (L - 1) - (1 # 2)) + 0 == (2 * len - 2) * t - 1).
      { unfold coord. rewrite z2q_minus1. fold len. unfold Qdiv; fold t; ring. }
      destruct (Qlt_le_dec (k_dst k) x) as [C|C].
      - rewrite lin3_right by nra. apply seg_ge; [exact Kb|]. rewrite Ec, Eup, Ed, Es, Ex. nra.
      - rewrite lin3_left by nra.
        assert (Dl : d == len - 1) by nra.
        assert (Sl : s == len - 1) by nra.
        assert (Q : seg (k_lo k) (k_dst k) (k_lo k) (k_src k) x == k_src k).
        { apply seg_at_b_eq; [exact Ka|]. rewrite Ex, Ed, Dl. ring. }
        rewrite Q, Ec, Es, Sl. nra. }
    apply (unnorm_mono T _ _ HT) in G. rewrite unnorm_coord in G by exact HT.
    assert (Z0 : 0 * z2q T / 2 == 0) by (unfold Qdiv; ring). lra.
Qed.

(* Without the margin the pinning clause is FALSE, already in exact arithmetic, for draws the
   configuration permits: T = len = 10, max_time_warp = 3.
   (a) u = (99/100, 99/100): w_0 + w = 9.9 > len - 1 is clamped onto frame 9, which then reads
       source position w_0 = 6.96: more than two frames before the last valid frame;
   (b) u = (0, 0): w_0 = 3, w = -3, frame 0 reads source frame 3. *)
Lemma linear_warp_pinned_refuted :
  exists eps T (L : Z) Wmax u1 u2 u1' u2',
    0 < eps /\ (1 <= L)%Z /\ (L <= T)%Z /\ 0 <= Wmax
    /\ unit_u u1 /\ unit_u u2 /\ unit_u u1' /\ unit_u u2'
    /\ (let W := tw_W exact eps Wmax L in
        unnorm T (nth (Z.to_nat (L - 1))
                      (warp_grid eps T (tw_w0 exact W L u1) (tw_w exact W u2) (z2q L)) 0)
        < z2q (L - 1) - 2)
    /\ (let W := tw_W exact eps Wmax L in
        2 < unnorm T (nth 0 (warp_grid eps T (tw_w0 exact W L u1') (tw_w exact W u2') (z2q L)) 0)).
Proof.
  exists eps32, 10%Z, 10%Z, 3, (99 # 100), (99 # 100), 0, 0.
  repeat split; try (vm_compute; reflexivity); try (vm_compute; discriminate).
Qed.

(* ---- bilinear resampling with border padding ------------------------------------- *)
Definition in_rng (lo hi v : Q) : Prop := lo <= v /\ v <= hi.
Definition img_in (lo hi : Q) (img : list (list Q)) : Prop := Forall (Forall (in_rng lo hi)) img.
Definition rect (W : Z) (img : list (list Q)) : Prop := Forall (fun r => zlen r = W) img.

Lemma cell_in : forall lo hi W img y x, img_in lo hi img -> rect W img ->
  (0 <= y < zlen img)%Z -> (0 <= x < W)%Z -> in_rng lo hi (cell img y x).
Proof.
  intros lo hi W img y x Hi Hr Hy Hx. unfold cell.
  assert (Yb : ((0 <=? y) && (y <? zlen img))%Z = true) by (apply andb_true_iff; split; [apply Z.leb_le|apply Z.ltb_lt]; lia).
  rewrite Yb.
  assert (Yn : (Z.to_nat y < length img)%nat) by (unfold zlen in Hy; lia).
  set (row := nth (Z.to_nat y) img []).
  assert (Rin : In row img) by (apply nth_In; exact Yn).
  assert (RW : zlen row = W) by (unfold rect in Hr; rewrite Forall_forall in Hr; apply Hr, Rin).
  assert (Xb : ((0 <=? x) && (x <? zlen row))%Z = true) by (apply andb_true_iff; split; [apply Z.leb_le|apply Z.ltb_lt]; lia).
  rewrite Xb.
  assert (Xn : (Z.to_nat x < length row)%nat) by (unfold zlen in RW; lia).
  unfold img_in in Hi. rewrite Forall_forall in Hi. specialize (Hi row Rin).
  rewrite Forall_forall in Hi. apply Hi, nth_In, Xn.
Qed.

Lemma clip_range : forall size x, (0 < size)%Z -> 0 <= clip size x /\ clip size x <= z2q (size - 1).
Proof.
  intros size x H. unfold clip. split; [|apply qmin_l].
  apply qmin_glb; [apply z2q_nonneg; lia|apply qmax_r].
Qed.

(* the two interpolation weights along one axis, and the neighbour that may fall outside *)
Lemma axis_facts : forall size x, (0 < size)%Z ->
  let ix := clip size x in let i0 := Qfloor ix in
  (0 <= i0 < size)%Z /\ 0 <= z2q (i0 + 1) - ix /\ 0 <= ix - z2q i0
  /\ (z2q (i0 + 1) - ix) + (ix - z2q i0) == 1
  /\ ((i0 + 1 < size)%Z \/ ix - z2q i0 == 0).
Proof.
  intros size x H ix i0. destruct (clip_range size x H) as [C0 C1]. fold ix in C0, C1.
  pose proof (Qfloor_le ix) as F1. pose proof (Qlt_floor ix) as F2. fold i0 in F1, F2.
  fold (z2q i0) in F1. fold (z2q (i0 + 1)) in F2.
  assert (I0 : (0 <= i0)%Z) by (apply floor_nonneg; exact C0).
  assert (I1 : (i0 <= size - 1)%Z).
  { unfold i0. rewrite <- (Qfloor_Z (size - 1)). apply Qfloor_resp_le. exact C1. }
  pose proof (z2q_plus1 i0) as P.
  repeat split; try lia; try lra.
  destruct (Z.eq_dec i0 (size - 1)) as [E|E]; [right|left; lia].
  assert (E' : z2q i0 == z2q (size - 1)) by (rewrite E; reflexivity). lra.
Qed.

Lemma term_range : forall lo hi c w, 0 <= w -> (in_rng lo hi c \/ w == 0) ->
  lo * w <= c * w /\ c * w <= hi * w.
Proof.
  intros lo hi c w Hw [[H1 H2]|Z]; [split; nra|].
  assert (X : forall a, a * w == 0) by (intro a; rewrite Z; ring). rewrite !X. lra.
Qed.

Lemma bilinear_in_range : forall lo hi img gx gy,
  (0 < zlen img)%Z -> (0 < width img)%Z -> rect (width img) img -> img_in lo hi img ->
  in_rng lo hi (bilinear img (zlen img) (width img) gx gy).
Proof.
  intros lo hi img gx gy HH HW Hr Hi. unfold bilinear.
  set (W := width img) in *. set (H := zlen img) in *.
  destruct (axis_facts W (unnorm W gx) HW) as [X0 [Xa [Xb [Xs Xo]]]].
  destruct (axis_facts H (unnorm H gy) HH) as [Y0 [Ya [Yb [Ys Yo]]]].
  set (ix := clip W (unnorm W gx)) in *. set (iy := clip H (unnorm H gy)) in *.
  set (x0 := Qfloor ix) in *. set (y0 := Qfloor iy) in *.
  set (wx0 := z2q (x0 + 1) - ix) in *. set (wx1 := ix - z2q x0) in *.
  set (wy0 := z2q (y0 + 1) - iy) in *. set (wy1 := iy - z2q y0) in *.
  assert (C00 : in_rng lo hi (cell img y0 x0)) by (apply (cell_in lo hi W); assumption || lia).
  assert (T00 := term_range lo hi (cell img y0 x0) (wx0 * wy0) ltac:(nra) (or_introl C00)).
  assert (T01 := term_range lo hi (cell img y0 (x0 + 1)) (wx1 * wy0) ltac:(nra)).
  assert (T10 := term_range lo hi (cell img (y0 + 1) x0) (wx0 * wy1) ltac:(nra)).
  assert (T11 := term_range lo hi (cell img (y0 + 1) (x0 + 1)) (wx1 * wy1) ltac:(nra)).
  destruct T01 as [A1 A2].
  { destruct Xo as [Xo|Xo]; [left; apply (cell_in lo hi W); assumption || lia|right; rewrite Xo; ring]. }
  destruct T10 as [B1 B2].
  { destruct Yo as [Yo|Yo]; [left; apply (cell_in lo hi W); assumption || lia|right; rewrite Yo; ring]. }
  destruct T11 as [D1 D2].
  { destruct Xo as [Xo|Xo]; [|right; rewrite Xo; ring].
    destruct Yo as [Yo|Yo]; [left; apply (cell_in lo hi W); assumption || lia|right; rewrite Yo; ring]. }
  destruct T00 as [E1 E2].
  assert (S : wx0 * wy0 + wx1 * wy0 + wx0 * wy1 + wx1 * wy1 == 1).
  { transitivity ((wx0 + wx1) * (wy0 + wy1)); [ring|]. rewrite Xs, Ys. ring. }
  split; nra.
Qed.

Lemma resample_in_range : forall lo hi img tgrid fgrid,
  (0 < zlen img)%Z -> (0 < width img)%Z -> rect (width img) img -> img_in lo hi img ->
  img_in lo hi (resample img tgrid fgrid).
Proof.
  intros lo hi img tg fg HH HW Hr Hi. unfold resample, img_in.
  apply Forall_forall. intros row Hrow. apply in_map_iff in Hrow. destruct Hrow as [gy [E _]]. subst row.
  apply Forall_forall. intros v Hv. apply in_map_iff in Hv. destruct Hv as [gx [E _]]. subst v.
  apply bilinear_in_range; assumption.
Qed.

Lemma resample_shape : forall img tgrid fgrid,
  length (resample img tgrid fgrid) = length tgrid
  /\ Forall (fun r => length r = length fgrid) (resample img tgrid fgrid).
Proof.
  intros. unfold resample. split; [apply map_length|].
  apply Forall_forall. intros r Hr. apply in_map_iff in Hr. destruct Hr as [gy [E _]]. subst r. apply map_length.
Qed.
