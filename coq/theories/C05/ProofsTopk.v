(* C05 - an admissible topk answer always exists: the model's own stable selection satisfies
   [topk_ok], hence [choices_ok] is satisfiable for every input (Model.auto_choices). *)
From Coq Require Import List Arith Bool QArith Qcanon Lia Permutation.
From PV Require Import C05.Model C05.ProofsNum C05.ProofsModel C05.ProofsSearch.
Import ListNotations.
Local Open Scope nat_scope.

Lemma mgtb_false_ge : forall a b, mgtb a b = false -> mge_eps 0%Qc b a = true.
Proof.
  destruct a, b; cbn; intros H; auto; try discriminate.
  apply negb_false_iff in H. apply qleb_true in H. apply qleb_true.
  replace (q0 + 0)%Qc with q0 by ring. auto.
Qed.

Lemma mgtb_true_ge : forall a b, mgtb a b = true -> mge_eps 0%Qc a b = true.
Proof.
  destruct a, b; cbn; intros H; auto; try discriminate.
  apply negb_true_iff in H. apply qleb_false in H. apply qleb_true.
  replace (q + 0)%Qc with q by ring. apply Qclt_le_weak. auto.
Qed.

Lemma mge0_trans : forall a b c, mge_eps 0%Qc a b = true -> mge_eps 0%Qc b c = true ->
  mge_eps 0%Qc a c = true.
Proof.
  destruct a, b, c; cbn; intros H1 H2; auto; try discriminate.
  apply qleb_true in H1, H2. apply qleb_true.
  replace (q + 0)%Qc with q in * by ring. replace (q0 + 0)%Qc with q0 in * by ring.
  eapply qle_trans; eauto.
Qed.

Section Sort.
  Variable val : nat -> mass.

  (* every element of l is <= x *)
  Definition below (x : nat) (l : list nat) : Prop :=
    forall y, In y l -> mge_eps 0%Qc (val x) (val y) = true.

  Inductive desc : list nat -> Prop :=
  | desc_nil : desc []
  | desc_cons : forall x l, below x l -> desc l -> desc (x :: l).

  Lemma insert_perm : forall i l, Permutation (i :: l) (insert_desc val i l).
  Proof.
    induction l as [|j l]; cbn [insert_desc]; auto.
    destruct (mgtb (val i) (val j)); auto.
    eapply perm_trans; [apply perm_swap|]. apply perm_skip. auto.
  Qed.

  Lemma insert_desc_ok : forall i l, desc l -> desc (insert_desc val i l).
  Proof.
    induction l as [|j l]; intros D; cbn [insert_desc].
    - constructor; [intros y []|constructor].
    - inversion D; subst. destruct (mgtb (val i) (val j)) eqn:G.
      + constructor; auto. intros y [<-|Hy]; [apply mgtb_true_ge; auto|].
        eapply mge0_trans; [apply mgtb_true_ge; eauto|]. apply H1. auto.
      + constructor; auto. intros y Hy.
        apply (Permutation_in _ (Permutation_sym (insert_perm i l))) in Hy.
        destruct Hy as [<-|Hy]; [apply mgtb_false_ge; auto|apply H1; auto].
  Qed.

  Definition sort_all (n : nat) : list nat :=
    fold_left (fun acc i => insert_desc val i acc) (seq 0 n) [].

  Lemma fold_insert : forall l acc, desc acc ->
    desc (fold_left (fun acc i => insert_desc val i acc) l acc) /\
    Permutation (rev l ++ acc) (fold_left (fun acc i => insert_desc val i acc) l acc).
  Proof.
    induction l as [|i l]; intros acc D; cbn [fold_left rev app]; auto.
    destruct (IHl (insert_desc val i acc) (insert_desc_ok i acc D)) as [D' P']. split; auto.
    eapply perm_trans; [|exact P']. rewrite <- app_assoc. cbn [app].
    apply Permutation_app_head. apply insert_perm.
  Qed.

  Lemma sort_all_ok : forall n, desc (sort_all n) /\ Permutation (seq 0 n) (sort_all n).
  Proof.
    intros n. destruct (fold_insert (seq 0 n) [] desc_nil) as [D P]. split; auto.
    eapply perm_trans; [|exact P]. rewrite app_nil_r. apply Permutation_rev.
  Qed.

  Lemma desc_sorted_eps : forall l, desc l -> sorted_eps 0%Qc (map val l) = true.
  Proof.
    induction l as [|x l]; intros D; auto. inversion D; subst. destruct l as [|y l]; auto.
    cbn [map sorted_eps]. rewrite (H1 y) by auto with datatypes. cbn [andb]. apply IHl. auto.
  Qed.

  Lemma in_firstn : forall {A} k (l : list A) y, In y (firstn k l) -> In y l.
  Proof.
    induction k; intros l y H; cbn [firstn] in H; [destruct H|]. destruct l; [destruct H|].
    destruct H as [H|H]; [left; auto|right; apply IHk; auto].
  Qed.

  Lemma in_skipn : forall {A} k (l : list A) y, In y (skipn k l) -> In y l.
  Proof.
    induction k; intros l y H; cbn [skipn] in H; auto. destruct l; [destruct H|]. right. apply IHk; auto.
  Qed.

  Lemma desc_firstn : forall k l, desc l -> desc (firstn k l).
  Proof.
    induction k; intros l D; cbn [firstn]; [constructor|]. destruct l; [constructor|].
    inversion D; subst. constructor; auto. intros y Hy. apply H1. eapply in_firstn; eauto.
  Qed.

  Lemma desc_split : forall k l x y, desc l -> In x (firstn k l) -> In y (skipn k l) ->
    mge_eps 0%Qc (val x) (val y) = true.
  Proof.
    induction k; intros l x y D Hx Hy; cbn [firstn skipn] in *; [destruct Hx|].
    destruct l as [|a l]; [destruct Hx|]. inversion D; subst. destruct Hx as [<-|Hx].
    - apply H1. eapply in_skipn; eauto.
    - eapply IHk; eauto.
  Qed.
End Sort.

Lemma NoDup_firstn : forall {A} k (l : list A), NoDup l -> NoDup (firstn k l).
Proof.
  induction k; intros l H; cbn [firstn]; [constructor|]. destruct l; [constructor|].
  inversion H; subst. constructor; auto. intro I. apply H2. eapply in_firstn; eauto.
Qed.

Lemma NoDup_nodupb : forall l, NoDup l -> nodupb l = true.
Proof.
  induction l; intros H; auto. inversion H; subst. cbn [nodupb]. rewrite IHl by auto.
  rewrite andb_true_r. apply negb_true_iff. destruct (existsb (Nat.eqb a) l) eqn:E; auto.
  apply existsb_exists in E. destruct E as (x & Hx & Q). apply Nat.eqb_eq in Q. subst. tauto.
Qed.

Lemma last_map : forall {A B} (f : A -> B) l a b, l <> [] -> last (map f l) b = f (last l a).
Proof.
  induction l as [|x [|y l]]; intros a b H; [congruence|reflexivity|].
  change (last (map f (x :: y :: l)) b) with (last (map f (y :: l)) b).
  change (last (x :: y :: l) a) with (last (y :: l) a). apply IHl. discriminate.
Qed.

Lemma last_in : forall {A} (l : list A) a, l <> [] -> In (last l a) l.
Proof.
  induction l as [|x [|y l]]; intros a H; [congruence|left; reflexivity|].
  right. change (last (x :: y :: l) a) with (last (y :: l) a). apply IHl. discriminate.
Qed.

(* the stable selection is an admissible topk answer *)
Lemma auto_step_ok : forall V fr bm width, 1 <= width -> 1 <= Kp bm ->
  let cs := map (cand V fr bm) (seq 0 (ncand V bm)) in
  topk_ok V fr bm 0%Qc width
    (topk_stable (fun i => nth i cs NegInf) (ncand V bm) (Kout V bm width)) = true.
Proof.
  intros V fr bm width Wpos Kpos cs. set (val := fun i => nth i cs NegInf).
  set (n := ncand V bm). set (K := Kout V bm width).
  unfold topk_stable. fold (sort_all val n).
  destruct (sort_all_ok val n) as [D P]. set (srt := sort_all val n) in *.
  assert (LS : length srt = n) by (rewrite <- (Permutation_length P), seq_length; auto).
  assert (NP : 1 <= n) by (unfold n, ncand; nia).
  assert (KL : K <= n) by (unfold K, Kout; lia).
  assert (KP : 1 <= K) by (unfold K, Kout; lia).
  assert (LC : length (firstn K srt) = K) by (rewrite firstn_length; lia).
  assert (NEc : firstn K srt <> []) by (intro C; rewrite C in LC; cbn in LC; lia).
  unfold topk_ok. cbv zeta. fold n. fold cs. fold K.
  change (map (fun i => nth i cs NegInf) (firstn K srt)) with (map val (firstn K srt)).
  repeat (apply andb_true_iff; split).
  - apply Nat.eqb_eq. auto.
  - apply forallb_forall. intros i Hi. apply Nat.ltb_lt. apply in_firstn in Hi.
    apply (Permutation_in _ (Permutation_sym P)) in Hi. apply in_seq in Hi. lia.
  - apply NoDup_nodupb, NoDup_firstn. apply (Permutation_NoDup P), seq_NoDup.
  - apply desc_sorted_eps, desc_firstn. auto.
  - apply forallb_forall. intros u Hu. apply orb_true_iff.
    destruct (in_dec Nat.eq_dec u (firstn K srt)) as [Y|N].
    + left. apply existsb_exists. exists u. split; auto. apply Nat.eqb_refl.
    + right. change (mge_eps 0%Qc (last (map val (firstn K srt)) NegInf) (val u) = true).
      rewrite (last_map val _ 0 NegInf NEc).
      apply (desc_split val K srt); auto; [apply last_in; auto|].
      apply (Permutation_in _ P) in Hu. rewrite <- (firstn_skipn K srt) in Hu.
      apply in_app_iff in Hu. tauto.
Qed.

Lemma sstep_kp : forall V width fus lm frozen nonext blank choice bm, 1 <= width -> 1 <= Kp bm ->
  length choice = Kout V bm width -> 1 <= Kp (sstep V width fus lm frozen nonext blank choice bm).
Proof.
  intros V width fus lm frozen nonext blank choice bm Wpos Kpos CL. unfold sstep. destruct frozen.
  - unfold Kp, pad_inf. cbn [b_nb]. fold (Kp bm). destruct (Kp bm <? width); [rewrite app_length|]; unfold Kp in *; lia.
  - unfold Kp, advance. cbn [fst b_nb]. rewrite app_length, map_length, repeat_length, CL. unfold Kout. lia.
Qed.

(* ... hence the hypothesis [choices_ok] of the theorems can be met for every input *)
Lemma auto_choices_ok : forall V width fus lm len frames t bm, 1 <= width -> 1 <= Kp bm ->
  choices_ok V width fus lm 0%Qc len t frames (auto_choices V width fus lm len t frames bm) bm = true.
Proof.
  intros V width fus lm len. induction frames as [|[nonext blank] frames]; intros t bm Wpos Kpos; auto.
  cbn [auto_choices choices_ok hd tl].
  pose proof (auto_step_ok V (mk_frame fus lm nonext blank bm) bm width Wpos Kpos) as OK. cbv zeta in OK.
  rewrite OK, orb_true_r. cbn [andb]. apply IHframes; auto.
  apply sstep_kp; auto. apply topk_ok_facts in OK. apply OK.
Qed.

Lemma auto_choices_ok_init : forall V width fus lm len frames, 1 <= width ->
  choices_ok V width fus lm 0%Qc len 0 frames (auto_choices V width fus lm len 0 frames init_beam) init_beam = true.
Proof. intros. apply auto_choices_ok; auto. Qed.
