(* C04, second tie, part 1b: the HAND-WRITTEN glue of SrcRunB ([fw_iter]: the order of the blocks, the test
   `if self.eos is not None and t`, `if done_mask.all(): break`) composed over the block lemmas of TieRunB.v, for every
   tensor; the epilogue and the prologue of forward(). *)
From Coq Require Import ZArith QArith List String Bool Arith Lia ZifyBool ZifyNat.
From PV Require Import MiniPy.Syntax MiniPy.Interp MiniPy.Lemmas MiniTorch.Ops MiniTorch.Value MiniTorch.Lemmas
  MiniTorch.OpsC04 MiniTorch.LemmasC04 MiniTorch.OpsC04B Gen.C04Src Gen.C04BSrc.
From PV Require Import C04.Model C04.SrcRun C04.TieRun C04.SrcRunB C04.TieRunB.
Import ListNotations.
Local Open Scope string_scope.

#[local] Arguments exec : simpl never.
#[local] Arguments ext04 : simpl never.
#[local] Arguments extB : simpl never.
#[local] Arguments encv : simpl never.
#[local] Arguments enc_shape : simpl never.
#[local] Arguments enc_states : simpl never.
#[local] Arguments enc_logits : simpl never.
#[local] Arguments self_val : simpl never.
#[local] Arguments torch_module : simpl never.
#[local] Arguments cmp_eval : simpl never.
#[local] Arguments foreign : simpl never.
#[local] Arguments extreme_of : simpl never.
#[local] Arguments val_eqb : simpl never.
#[local] Arguments method : simpl never.
#[local] Arguments call_fn : simpl never.
#[local] Arguments Z.of_nat !_.
#[local] Arguments Z.eqb !_ !_.
#[local] Arguments Z.ltb !_ !_.
#[local] Arguments Z.leb !_ !_.
#[local] Arguments Z.add !_ !_.
#[local] Arguments Z.sub !_ !_.
#[local] Arguments Z.mul !_ !_.
#[local] Arguments Z.min !_ !_.
#[local] Arguments Z.opp !_.
#[local] Arguments unsqueeze : simpl never.
#[local] Arguments flatten : simpl never.
#[local] Arguments add : simpl never.
#[local] Arguments add_scalar : simpl never.
#[local] Arguments topk : simpl never.
#[local] Arguments any : simpl never.
#[local] Arguments gather : simpl never.
#[local] Arguments expand : simpl never.
#[local] Arguments cat : simpl never.
#[local] Arguments new_full : simpl never.
#[local] Arguments new_zeros : simpl never.
#[local] Arguments full : simpl never.
#[local] Arguments all_int : simpl never.
#[local] Arguments size : simpl never.
#[local] Arguments dim : simpl never.
#[local] Arguments permute : simpl never.
#[local] Arguments squeeze : simpl never.
#[local] Arguments narrow_last : simpl never.
#[local] Arguments sub : simpl never.
#[local] Arguments sub_scalar : simpl never.
#[local] Arguments clamp : simpl never.
#[local] Arguments eq_scalar : simpl never.
#[local] Arguments gt_scalar : simpl never.
#[local] Arguments and_ : simpl never.
#[local] Arguments to_bool : simpl never.
#[local] Arguments to_int : simpl never.
#[local] Arguments masked_fill : simpl never.
#[local] Arguments where_ : simpl never.
#[local] Arguments all_rows : simpl never.
#[local] Arguments all : simpl never.
#[local] Arguments scalar : simpl never.
#[local] Arguments one_hot : simpl never.
#[local] Arguments arange3 : simpl never.
#[local] Arguments lg_reshape : simpl never.
#[local] Arguments lg_log_softmax : simpl never.
#[local] Arguments lm_calc : simpl never.
#[local] Arguments lm_extract : simpl never.
#[local] Arguments adv_tensor : simpl never.
#[local] Arguments ret_t _ !_ _ /.
#[local] Arguments ret_v _ !_ _ /.
#[local] Arguments ret_c _ !_ _ /.
#[local] Arguments ret_lg _ !_ _ /.
#[local] Arguments attribute : simpl never.
#[local] Arguments foreign_item : simpl never.
#[local] Arguments lm_val : simpl never.
#[local] Arguments devbuf_val : simpl never.

(* names of the variables the statements of the theorems mention (Properties.v does not open string_scope) *)
Definition v_t : string := "t".
Definition v_eos_mask : string := "eos_mask".
Definition v_done_mask : string := "done_mask".

Section Iter.
Variable calc : list Z -> Z -> nat -> list score * Z.
Variables (isv bsv miv is0 : val) (V width : nat) (eos : option Z) (fin_all : bool) (pad : Z) (N : nat).
Variable ev : list event.
Notation ext := (extB calc).
Notation lv := (live isv bsv miv is0 V width eos fin_all pad N).
Notation rest_post := (rest_post isv bsv miv is0 V width eos fin_all pad N ev).
Notation masks_post := (masks_post isv bsv miv is0 V width eos fin_all pad N ev).
Notation rest_tensor := (rest_tensor calc V width eos N).
Notation mask_on_tensor := (mask_on_tensor fin_all).
Notation mask_off_tensor := (mask_off_tensor N).
Notation mask_on_run := (mask_on_run calc isv bsv miv is0 V width eos fin_all pad N ev).
Notation mask_off_run := (mask_off_run calc isv bsv miv is0 V width eos fin_all pad N ev).
Notation rest_run := (rest_run calc isv bsv miv is0 V width eos fin_all pad N ev).

(* ---- composition ------------------------------------------------------------------------------------------------ *)
Lemma simc_seq {A B} (P : state -> A -> Prop) (Q : state -> B -> Prop) a b st ra (k : A -> tres B) :
  simc P (exec ext a st) ra ->
  (forall st' x, P st' x -> simc Q (exec ext b st') (k x)) ->
  simc Q (exec ext (SSeq a b) st) (tt ra k).
Proof.
  intros Ha Hb. rewrite exec_seq. destruct (exec ext a st) as [[|v] st'|n st'|m], ra as [x| |]; cbn in *; try contradiction; auto.
Qed.

(* ---- `t = torch.tensor(t, device=device)` --------------------------------------------------------------------- *)
Lemma t_run : forall pw y prev lpp lens pady rest tz, lookup "t" rest = Some (VInt tz) ->
  exists rest', exec ext fw_t (mkState (lv pw y prev lpp lens pady rest) ev)
                = Ok CNormal (mkState (lv pw y prev lpp lens pady rest') ev) /\
                lookup "t" rest' = Some (encv (scalar (VInt tz))).
Proof.
  intros pw y prev lpp lens pady rest tz Ht. unfold fw_t, live. stepB; goB.
  eexists. split; [reflexivity|]. now rewrite lookup_update_eq.
Qed.

(* ---- one iteration of the loop: the HAND-WRITTEN glue [fw_iter] over the translated blocks ---------------------- *)
(* None = `break` *)
Definition iter_tensor (tz : Z) (pw : nat) (y lpp lens pady : vt) (prev : list Z) : tres (option (vt * vt * vt * list Z)) :=
  let tv := scalar (VInt tz) in
  let go md := tt (rest_tensor pw tv (fst md) (snd md) y lpp lens pady prev) (fun r => TOk (Some r)) in
  match eos with
  | Some e =>
      if negb (tz =? 0)%Z then
        tt (mask_on_tensor e y lens) (fun md =>
          tdo b <- all (snd md);
          if (b : bool) then TOk None else go md)
      else tt (mask_off_tensor pw) go
  | None => tt (mask_off_tensor pw) go
  end.

Definition simi {A} (P : state -> A -> Prop) (B : state -> Prop) (o : outcome ctl) (r : tres (option A)) : Prop :=
  match o, r with
  | Ok CNormal st, TOk (Some a) => P st a
  | Exc n st, TOk None => n = break_signal /\ B st
  | Exc n _, TRaise => n = runtime_error
  | Stuck _, TUndef => True
  | _, _ => False
  end.

Definition same_post (pw : nat) (y : vt) (prev : list Z) (lpp lens pady : vt) (st : state) : Prop :=
  exists rest', st = mkState (lv pw y prev lpp lens pady rest') ev.

Lemma simc_simi {A} (P : state -> A -> Prop) B o r : simc P o r -> simi P B o (tt r (fun x => TOk (Some x))).
Proof. destruct o as [[|v] st|n st|m], r as [x| |]; cbn; auto. Qed.

Lemma iter_run : forall tz pw y prev lpp lens pady rest a b c, vshape y = [a; b; c] ->
  simi (rest_post pady) (same_post pw y prev lpp lens pady)
       (exec ext fw_iter (mkState (lv pw y prev lpp lens pady (update "t" (VInt tz) rest)) ev))
       (iter_tensor tz pw y lpp lens pady prev).
Proof.
  intros tz pw y prev lpp lens pady rest a b c Hy. unfold fw_iter, iter_tensor.
  destruct (t_run pw y prev lpp lens pady (update "t" (VInt tz) rest) tz (lookup_update_eq _ _ _)) as [r1 [E1 Ht1]].
  rewrite exec_seq, E1. cbn [bind]. clear E1.
  assert (Hoff : simi (rest_post pady) (same_post pw y prev lpp lens pady)
                   (exec ext (SSeq fw_mask_off fw_rest) (mkState (lv pw y prev lpp lens pady r1) ev))
                   (tt (mask_off_tensor pw) (fun md => tt (rest_tensor pw (scalar (VInt tz)) (fst md) (snd md) y lpp lens pady prev)
                                                         (fun r => TOk (Some r))))).
  { pose proof (simc_seq (masks_post pw y prev lpp lens pady (encv (scalar (VInt tz)))) (rest_post pady)
                  fw_mask_off fw_rest (mkState (lv pw y prev lpp lens pady r1) ev) (mask_off_tensor pw)
                  (fun md => rest_tensor pw (scalar (VInt tz)) (fst md) (snd md) y lpp lens pady prev)
                  (mask_off_run pw y prev lpp lens pady r1 _ Ht1)) as Hs.
    assert (Hk : forall st' x, masks_post pw y prev lpp lens pady (encv (scalar (VInt tz))) st' x ->
                   simc (rest_post pady) (exec ext fw_rest st') (rest_tensor pw (scalar (VInt tz)) (fst x) (snd x) y lpp lens pady prev)).
    { intros st' x (r2 & -> & Hm & Hd & Ht). now apply (rest_run pw _ _ _ y lpp lens pady prev r2 a b c). }
    specialize (Hs Hk). apply (simc_simi _ (same_post pw y prev lpp lens pady)) in Hs.
    destruct (mask_off_tensor pw) as [md| |]; exact Hs. }
  rewrite exec_seq, exec_if. unfold live at 1.
  destruct eos as [e|] eqn:He.
  - goB. destruct (tz =? 0)%Z eqn:Etz; cbn [negb truthy].
    + exact Hoff.
    + rewrite exec_seq.
      pose proof (mask_on_run e pw y prev lpp lens pady r1 _ He Ht1) as Hon. unfold live, vnat in Hon. rewrite He in Hon.
      destruct (exec ext fw_mask_on _) as [[|v] st'|n st'|m], (mask_on_tensor e y lens) as [md| |]; cbn in Hon |- *; try contradiction; auto.
      destruct Hon as (r2 & -> & Hm & Hd & Ht). rewrite exec_if. unfold live. goB.
      destruct (all (snd md)) as [bb|] eqn:Eall; goB; [|exact I].
      destruct bb; cbn [truthy].
      * rewrite exec_raise. cbn. split; [reflexivity|]. eexists. unfold live. rewrite <- He. reflexivity.
      * rewrite exec_pass. cbn [bind].
        pose proof (rest_run pw _ _ _ y lpp lens pady prev r2 a b c Hy Ht Hm Hd) as Hr. unfold live in Hr. rewrite He in Hr.
        apply (simc_simi _ (same_post pw y prev lpp lens pady)) in Hr. exact Hr.
  - goB. exact Hoff.
Qed.


(* ---- the epilogue: `... = self._to_width(...)`, `if batch_size is None: squeeze`, `return` ---------------------- *)
Definition final_tensor (batched : bool) (y lpp lens : vt) : tres (vt * vt * vt) :=
  tt (tw_tensor (Z.of_nat width) y lpp lens) (fun r =>
    if batched then TOk (fst (fst r), snd r, snd (fst r))
    else tdo y' <- squeeze (fst (fst r)) 1;
         tdo l' <- squeeze (snd r) 0;
         tdo p' <- squeeze (snd (fst r)) 0;
         TOk (y', l', p')).

(* a returning block seen as one that falls through with the returned value *)
Definition as_normal (o : outcome ctl) : outcome ctl :=
  match o with
  | Ok (CReturn v) st => Ok CNormal (set_var "$return" v st)
  | Ok CNormal _ => Stuck "no return"
  | o => o
  end.
Definition returns (st : state) (r : vt * vt * vt) : Prop :=
  lookup "$return" (vars st) = Some (VTuple [encv (fst (fst r)); encv (snd (fst r)); encv (snd r)]).

Lemma final_run : forall (batched : bool) pw y prev lpp lens pady rest a b c z,
  bsv = (if batched then VInt z else VNone) -> vshape y = [a; b; c] ->
  simc returns (as_normal (exec ext fw_final (mkState (lv pw y prev lpp lens pady rest) ev))) (final_tensor batched y lpp lens).
Proof.
  intros batched pw y prev lpp lens pady rest a b c z Hb Hy. unfold fw_final, final_tensor, live, returns. rewrite Hb.
  destruct batched; repeat autoR; cbn; unfold returns; cbn; rewrite ?lookup_update_eq; reflexivity.
Qed.

End Iter.
