(* C09 — chunk_by_slices, one row: the cells the code leaves in a row, cut at the chunk length,
   are the slice of the padded sequence.  Pure list facts, no batches here. *)
From Coq Require Import List Arith Bool Lia ZArith ZifyBool ZifyNat.
From PV Require Import C09.Model C09.Spec C09.Proofs C09.Buffers.
Import ListNotations.
Local Open Scope nat_scope.

Section RowFacts.
  Context {A : Type}.

  Lemma firstn_app_le (l1 l2 : list A) n : n <= length l1 -> firstn n (l1 ++ l2) = firstn n l1.
  Proof.
    intros H. rewrite firstn_app. replace (n - length l1) with 0 by lia. cbn. apply app_nil_r.
  Qed.

  Lemma firstn_app_ge (l1 l2 : list A) n :
    length l1 <= n -> firstn n (l1 ++ l2) = l1 ++ firstn (n - length l1) l2.
  Proof. intros H. rewrite firstn_app, firstn_all2 by lia. reflexivity. Qed.

  Lemma skipn_app_le (l1 l2 : list A) n : n <= length l1 -> skipn n (l1 ++ l2) = skipn n l1 ++ l2.
  Proof. intros H. rewrite skipn_app. replace (n - length l1) with 0 by lia. reflexivity. Qed.

  Lemma skipn_app_ge (l1 l2 : list A) n :
    length l1 <= n -> skipn n (l1 ++ l2) = skipn (n - length l1) l2.
  Proof. intros H. rewrite skipn_app, skipn_all2 by lia. reflexivity. Qed.

  Lemma length_zero_nil (l : list A) : length l = 0 -> l = [].
  Proof. destruct l; [reflexivity|discriminate]. Qed.

  (* the cells the slice mask selects, read in the sequence rather than in the padded row of x *)
  Lemma selected_in_seq (cells : list A) len a n :
    a + n <= len \/ n = 0 ->
    firstn n (skipn a cells) = firstn n (skipn a (firstn len cells)).
  Proof.
    intros [H | ->]; [|reflexivity].
    rewrite skipn_firstn_comm, firstn_firstn. f_equal. lia.
  Qed.

  (* rows that did not go through the reflect move: LB ++ X ++ RB ++ Z *)
  Lemma row_plain md (fill : A) (s LB RB X Zs : list A) (st en : Z) :
    (st < en)%Z -> md <> OtherMode ->
    LB = lpart md fill (Z.to_nat (- st)) s ->
    RB = rpart md fill (Z.to_nat (en - Z.of_nat (length s))) s ->
    length LB = Z.to_nat (- st) ->
    length RB = Z.to_nat (en - Z.of_nat (length s)) ->
    X = firstn (Z.to_nat (Z.min en (Z.of_nat (length s)) - Z.max st 0))
               (skipn (Z.to_nat (Z.max st 0)) s) ->
    ((st <= Z.of_nat (length s))%Z \/ exists v, RB = repeat v (Z.to_nat (en - Z.of_nat (length s)))) ->
    firstn (Z.to_nat (en - st)) (LB ++ X ++ RB ++ Zs) = chunk1 md fill s st en.
  Proof.
    intros Hne Hmd HLB HRB HlL HlR HX Hcase.
    unfold chunk1. destruct (Z.leb_spec en st) as [Hle|_]; [lia|].
    rewrite (pad1_parts md) by assumption. rewrite <- HLB, <- HRB. clear HLB.
    set (len := length s) in *.
    destruct (Z_lt_le_dec st 0) as [Hneg | Hpos].
    - (* the slice starts in the left padding *)
      replace (Z.to_nat (st + Z.of_nat (Z.to_nat (- st)))) with 0 by lia. cbn [skipn].
      replace (Z.to_nat (Z.max st 0)) with 0 in HX by lia. cbn [skipn] in HX.
      destruct (Z_le_gt_dec (Z.of_nat len) en) as [Hend | Hend].
      + (* ... and ends at or after the end of the sequence *)
        assert (X = s) as -> by (subst X; apply firstn_all2; fold len; lia).
        replace (LB ++ s ++ RB ++ Zs) with ((LB ++ s ++ RB) ++ Zs) by (now rewrite <- !app_assoc).
        rewrite firstn_app_exact by (rewrite !app_length; fold len; lia).
        rewrite firstn_all2 by (rewrite !app_length; fold len; lia). reflexivity.
      + assert (RB = []) as -> by (apply length_zero_nil; lia). clear HRB Hcase.
        destruct (Z_lt_le_dec en 0) as [Hen | Hen].
        * (* wholly inside the left padding *)
          assert (X = []) as -> by (subst X; replace (Z.to_nat _) with 0 by lia; reflexivity).
          cbn [app]. rewrite !firstn_app_le by lia. reflexivity.
        * assert (HlX : length X = Z.to_nat en) by (subst X; rewrite firstn_length; fold len; lia).
          replace (LB ++ X ++ [] ++ Zs) with ((LB ++ X) ++ Zs) by (now rewrite <- app_assoc).
          rewrite firstn_app_exact by (rewrite app_length; lia).
          rewrite app_nil_r, firstn_app_ge by lia. f_equal.
          subst X. f_equal. lia.
    - (* the slice starts at or after the beginning of the sequence: no left padding *)
      assert (LB = []) as -> by (apply length_zero_nil; lia). cbn [app].
      replace (Z.to_nat (st + Z.of_nat (Z.to_nat (- st)))) with (Z.to_nat st) by lia.
      replace (Z.to_nat (Z.max st 0)) with (Z.to_nat st) in HX by lia.
      destruct (Z_le_gt_dec st (Z.of_nat len)) as [Hin | Hout].
      + rewrite skipn_app_le by (fold len; lia).
        destruct (Z_le_gt_dec (Z.of_nat len) en) as [Hend | Hend].
        * assert (X = skipn (Z.to_nat st) s) as ->
            by (subst X; apply firstn_all2; rewrite skipn_length; fold len; lia).
          replace (skipn (Z.to_nat st) s ++ RB ++ Zs) with ((skipn (Z.to_nat st) s ++ RB) ++ Zs)
            by (now rewrite <- app_assoc).
          rewrite firstn_app_exact by (rewrite app_length, skipn_length; fold len; lia).
          rewrite firstn_all2 by (rewrite app_length, skipn_length; fold len; lia). reflexivity.
        * assert (RB = []) as -> by (apply length_zero_nil; lia). rewrite app_nil_r. cbn [app].
          assert (HlX : length X = Z.to_nat (en - st))
            by (subst X; rewrite firstn_length, skipn_length; fold len; lia).
          rewrite firstn_app_exact by lia. subst X. f_equal. lia.
      + (* wholly inside the right padding; the right part is constant *)
        destruct Hcase as [? | (v & Hv)]; [lia|].
        assert (X = []) as -> by (subst X; replace (Z.to_nat (Z.min _ _ - _)) with 0 by lia; reflexivity).
        cbn [app]. rewrite skipn_app_ge by (fold len; lia). fold len. rewrite Hv.
        rewrite skipn_repeat, firstn_repeat, firstn_app_le by (rewrite repeat_length; lia).
        rewrite firstn_repeat. f_equal. lia.
  Qed.

  (* reflect rows whose slice lies wholly in the right padding: the code moved the last
     [k] cells of the right buffer to the front of the row *)
  Lemma row_moved (fill : A) (s RB Zs : list A) (st en : Z) :
    (st < en)%Z -> (Z.of_nat (length s) < st)%Z ->
    RB = rpart Reflect fill (Z.to_nat (en - Z.of_nat (length s))) s ->
    length RB = Z.to_nat (en - Z.of_nat (length s)) ->
    let off := Z.to_nat (st - Z.of_nat (length s)) in
    let k := Z.to_nat (en - st) in
    firstn k (skipn off RB ++ skipn k (RB ++ Zs)) = chunk1 Reflect fill s st en.
  Proof.
    intros Hne Hout HRB HlR off k.
    unfold chunk1. destruct (Z.leb_spec en st) as [Hle|_]; [lia|].
    rewrite (pad1_parts Reflect) by discriminate. rewrite <- HRB.
    replace (Z.to_nat (- st)) with 0 by lia. cbn [lpart firstn rev app].
    replace (Z.to_nat (st + Z.of_nat 0)) with (Z.to_nat st) by lia.
    rewrite (skipn_app_ge s RB) by lia.
    replace (Z.to_nat st - length s) with off by lia.
    rewrite firstn_app_exact by (rewrite skipn_length; lia).
    rewrite firstn_all2 by (rewrite skipn_length; lia). reflexivity.
  Qed.
End RowFacts.
