(* C03 - infrastructure of the source tie of `_string_matching(return_mask=True)` / `optimal_completion`: what reaches
   SrcRun.ext03 call by call (the vocabulary of C01.SrcRun.ext01 is reached through the fall-back: one bridging lemma per
   C01.TieLib.ext_* lemma; the new calls by their own lemmas), statement-by-statement execution lemmas for an ARBITRARY
   environment, and the tactics of the symbolic runs (copies of C01.TieLib's, which are tied to ext01).  C01's files are
   imported read-only.  No statement about the source itself here. *)
From Coq Require Import ZArith QArith List String Bool Arith Lia ZifyBool ZifyNat.
From PV Require Import MiniPy.Syntax MiniPy.Interp MiniPy.Lemmas MiniTorch.Ops MiniTorch.Lemmas MiniTorch.OpsC07 MiniTorch.LemmasC07
  MiniTorch.OpsC01 MiniTorch.LemmasC01 MiniTorch.OpsC03 MiniTorch.LemmasC03.
From PV Require Import Gen.C03Src C01.SrcRun C01.TieLib C03.SrcRun.
From PV Require C01.Model C07.SrcRun.
Import ListNotations.
Local Open Scope string_scope.

#[local] Arguments dec01 : simpl never.
#[local] Arguments ext01 : simpl never.
#[local] Arguments enc_b : simpl never.
#[local] Arguments enc_i : simpl never.
#[local] Arguments enc_x : simpl never.

Lemma dec01_int c : dec01 (VInt c) = None.  Proof. reflexivity. Qed.

(* ---- what reaches ext03, call by call ---- *)
Section ExtLemmas.
  Notation ext := ext03.
  Ltac bridge := unfold ext03, ext03_sm, ext03_new; cbn; rewrite ?dec01_enc_i, ?dec01_enc_x, ?dec01_enc_b, ?dec01_int; cbn.

  (* the vocabulary of ext01 *)
  Lemma ext3_cmp_lt c y st : ext "compare" [VStr "lt"; VInt c; enc_i y] [] st = Ok (enc_b (map_t (fun v => Z.ltb c v) y)) st.
  Proof. bridge. apply ext_cmp_lt. Qed.
  Lemma ext3_cmp_ge x c st : ext "compare" [VStr "ge"; enc_i x; VInt c] [] st = Ok (enc_b (ge_s x c)) st.
  Proof. bridge. apply ext_cmp_ge. Qed.
  Lemma ext3_cmp_eq x c st : ext "compare" [VStr "eq"; enc_i x; VInt c] [] st = Ok (enc_b (eq_s x c)) st.
  Proof. bridge. apply ext_cmp_eq. Qed.
  Lemma ext3_cmp_ne x y st : ext "compare" [VStr "ne"; enc_i x; enc_i y] [] st =
    ret01 "ne" (option_map AB (cmp_i (fun u v => negb (Z.eqb u v)) x y)) st.
  Proof. bridge. apply ext_cmp_ne. Qed.
  Lemma ext3_float_b x st : ext "$method.float" [enc_b x] [] st = Ok (enc_x (bool_to_float x)) st.
  Proof. bridge. apply ext_float_b. Qed.
  Lemma ext3_getitem_int_i x i st : ext "$getitem" [enc_i x; VInt i] [] st =
    match select0 x i with Some (Some r) => Ok (enc_i r) st | Some None => Exc index_error st | None => oob "getitem" end.
  Proof. bridge. apply ext_getitem_int_i. Qed.
  Lemma ext3_mul_q_x q y st : ext "operator" [VStr "mul"; VQ q; enc_x y] [] st = Ok (enc_x (map_t (fmul (Fq q)) y)) st.
  Proof. bridge. apply ext_mul_q_x. Qed.
  Lemma ext3_mul_x_q x q st : ext "operator" [VStr "mul"; enc_x x; VQ q] [] st = Ok (enc_x (map_t (fun e => fmul e (Fq q)) x)) st.
  Proof. bridge. apply ext_mul_x_q. Qed.
  Lemma ext3_add_x x y st : ext "operator" [VStr "add"; enc_x x; enc_x y] [] st = ret01 "add" (option_map AX (bin_f fadd x y)) st.
  Proof. bridge. apply ext_add_x. Qed.
  Lemma ext3_sub_x x y st : ext "operator" [VStr "sub"; enc_x x; enc_x y] [] st = ret01 "sub" (option_map AX (bin_f fsub x y)) st.
  Proof. bridge. apply ext_sub_x. Qed.
  Lemma ext3_getitem_slice_x x a b st :
    ext "$getitem" [enc_x x; VTuple [VStr "$slice"; a; b; VNone]] [] st =
    match dec_bound a, dec_bound b with
    | Some a', Some b' => ret01 "getitem slice" (option_map AX (slice0 x a' b')) st
    | _, _ => Stuck "getitem"
    end.
  Proof. bridge. apply ext_getitem_slice_x. Qed.
  Lemma ext3_setitem_slice_x x a b y st :
    ext "$setitem" [enc_x x; VTuple [VStr "$slice"; a; b; VNone]; enc_x y] [] st =
    match dec_bound a, dec_bound b with
    | Some a', Some b' => ret01 "setitem slice" (option_map AX (set_slice0 x a' b' y)) st
    | _, _ => Stuck "setitem"
    end.
  Proof. bridge. apply ext_setitem_slice_x. Qed.
  Lemma ext3_torch_min x y st : ext "torch.min" [enc_x x; enc_x y] [] st = ret01 "min" (option_map AX (bin_f fmin x y)) st.
  Proof. bridge. apply ext_torch_min. Qed.
  Lemma ext3_min_dim x d st : ext "$method.min" [enc_x x; VInt d] [] st =
    match min_dim x d with
    | Some (Some (v, i)) => Ok (VTuple [enc_x v; enc_i i]) st
    | Some None => Exc index_error st
    | None => oob "min"
    end.
  Proof. bridge. apply ext_min_dim. Qed.
  Lemma ext3_where c x y st : ext "torch.where" [enc_b c; enc_x x; enc_x y] [] st = ret01 "where" (option_map AX (where_f c x y)) st.
  Proof. bridge. apply ext_where. Qed.
  Lemma ext3_dim_i x st : ext "$method.dim" [enc_i x] [] st = Ok (VInt (Z.of_nat (List.length (shp x)))) st.
  Proof. bridge. apply ext_dim_i. Qed.
  Lemma ext3_t_i x st : ext "$method.t" [enc_i x] [] st = ret01 "t" (option_map AI (transpose2 0%Z x)) st.
  Proof. bridge. apply ext_t_i. Qed.
  Lemma ext3_empty st : ext "torch.empty" [VInt 0] [] st = Ok (enc_x (mkTn [0%nat] [])) st.
  Proof. reflexivity. Qed.
  Lemma ext3_detach_i x st : ext "$method.detach" [enc_i x] [] st = Ok (enc_i x) st.
  Proof. bridge. apply ext_detach_i. Qed.
  Lemma ext3_shape_i x st : ext "$attr.shape" [enc_i x] [] st = Ok (VTuple (map (fun n => VInt (Z.of_nat n)) (shp x))) st.
  Proof. bridge. apply ext_shape_i. Qed.
  Lemma ext3_device_i x st : ext "$attr.device" [enc_i x] [] st = Ok device_token st.
  Proof. bridge. apply ext_device_i. Qed.
  Lemma ext3_add_i_int x c st : ext "operator" [VStr "add"; enc_i x; VInt c] [] st = Ok (enc_i (add_s x c)) st.
  Proof. bridge. apply ext_add_i_int. Qed.
  Lemma ext3_sub_i x y st : ext "operator" [VStr "sub"; enc_i x; enc_i y] [] st = ret01 "sub" (option_map AI (bin_i Z.sub x y)) st.
  Proof. bridge. apply ext_sub_i. Qed.
  Lemma ext3_any x st : ext "$method.any" [enc_b x] [] st = Ok (VBool (any_b x)) st.
  Proof. bridge. apply ext_any. Qed.
  Lemma ext3_to_b_long x st : ext "$method.to" [enc_b x; long_token] [] st = Ok (enc_i (bool_to_long x)) st.
  Proof. bridge. apply ext_to_b_long. Qed.
  Lemma ext3_full n v st : ext "torch.full" [VTuple [VInt n]; VInt v] [("device", device_token); ("dtype", long_token)] st =
    if Z.ltb n 0 then oob "full" else Ok (enc_i (full [Z.to_nat n] v)) st.
  Proof. reflexivity. Qed.
  Lemma ext3_arange_f n st : ext "torch.arange" [VInt n] [("device", device_token); ("dtype", float_token)] st =
    ret01 "arange" (option_map AX (arange_f n)) st.
  Proof. reflexivity. Qed.
  Lemma ext3_float_inf st : ext "float" [VStr "inf"] [] st = Ok (VInf true) st.
  Proof. reflexivity. Qed.
  Lemma ext3_full_like_inf x st : ext "torch.full_like" [enc_x x; VInf true] [] st = Ok (enc_x (full (shp x) FPInf)) st.
  Proof. bridge. apply ext_full_like_inf. Qed.
  Lemma ext3_triu x k st : ext "$method.triu" [enc_x x; VInt k] [] st = ret01 "triu" (option_map AX (triu_f x k)) st.
  Proof. bridge. apply ext_triu. Qed.
  Lemma ext3_unsqueeze_x x d st : ext "$method.unsqueeze" [enc_x x; VInt d] [] st = ret01 "unsqueeze" (option_map AX (unsqueeze x d)) st.
  Proof. bridge. apply ext_unsqueeze_x. Qed.
  Lemma ext3_unsqueeze_i x d st : ext "$method.unsqueeze" [enc_i x; VInt d] [] st = ret01 "unsqueeze" (option_map AI (unsqueeze x d)) st.
  Proof. bridge. apply ext_unsqueeze_i. Qed.
  Lemma ext3_expand_x x a b st : ext "$method.expand" [enc_x x; VInt a; VInt b] [] st = ret01 "expand" (option_map AX (expand2 FNaN x a b)) st.
  Proof. bridge. apply ext_expand_x. Qed.
  Lemma ext3_lens tok e d st : ext "_lens_from_eos" [tok; e; d] [] st =
    C07.SrcRun.call_body (fun x => x) sm3_lens (("tok", tok) :: ("eos", e) :: ("dim", d) :: C07.SrcRun.globals07) st.
  Proof. reflexivity. Qed.

  Lemma ext3_dtype_i x st : ext "$attr.dtype" [enc_i x] [] st = Ok long_token st.
  Proof. bridge. apply ext_dtype_i. Qed.
  Lemma ext3_dtype_x x st : ext "$attr.dtype" [enc_x x] [] st = Ok float_token st.
  Proof. bridge. apply ext_dtype_x. Qed.
  Lemma ext3_to_b_float x st : ext "$method.to" [enc_b x; float_token] [] st = Ok (enc_x (bool_to_float x)) st.
  Proof. bridge. apply ext_to_b_float. Qed.
  Lemma ext3_to_i_float x st : ext "$method.to" [enc_i x; float_token] [] st = Ok (enc_x (long_to_float x)) st.
  Proof. bridge. apply ext_to_i_float. Qed.
  Lemma ext3_eq_m x c st : ext "$method.eq" [enc_i x; VInt c] [] st = Ok (enc_b (eq_s x c)) st.
  Proof. bridge. apply ext_eq_m. Qed.
  Lemma ext3_gt_m x c st : ext "$method.gt" [enc_i x; VInt c] [] st = Ok (enc_b (cmp_scalar Z.gtb x c)) st.
  Proof. bridge. apply ext_gt_m. Qed.

  (* shape-only operations of ext01 on boolean / long tensors (ext01 handles every element type through map01) *)
  Lemma ext3_unsqueeze_b x d st : ext "$method.unsqueeze" [enc_b x; VInt d] [] st = ret01 "unsqueeze" (option_map AB (unsqueeze x d)) st.
  Proof. bridge. unfold ext01, ext01_ops. cbn. now rewrite dec01_enc_b. Qed.
  Lemma ext3_expand_i x a b st : ext "$method.expand" [enc_i x; VInt a; VInt b] [] st = ret01 "expand" (option_map AI (expand2 0%Z x a b)) st.
  Proof. bridge. unfold ext01, ext01_ops. cbn. now rewrite dec01_enc_i. Qed.

  (* the new vocabulary *)
  Lemma ext3_zeros a b st : ext "torch.zeros" [VTuple [VInt a; VInt b]] [("device", device_token); ("dtype", bool_token)] st =
    if (Z.ltb a 0 || Z.ltb b 0)%bool then oob "zeros" else Ok (enc_b (full [Z.to_nat a; Z.to_nat b] false)) st.
  Proof. reflexivity. Qed.
  Lemma ext3_arange_i n st : ext "torch.arange" [VInt n] [("device", device_token)] st = ret01 "arange" (option_map AI (arange n)) st.
  Proof. reflexivity. Qed.
  Lemma ext3_cmp_gt_is x c st : ext "compare" [VStr "gt"; enc_i x; VInt c] [] st = Ok (enc_b (cmp_scalar Z.gtb x c)) st.
  Proof. bridge. reflexivity. Qed.
  Lemma ext3_cmp_gt_xi x y st : ext "compare" [VStr "gt"; enc_x x; enc_i y] [] st = ret01 "gt" (option_map AB (gt_xi x y)) st.
  Proof. bridge. reflexivity. Qed.
  Lemma ext3_cmp_eq_xx x y st : ext "compare" [VStr "eq"; enc_x x; enc_x y] [] st = ret01 "eq" (option_map AB (eq_xx x y)) st.
  Proof. bridge. reflexivity. Qed.
  Lemma ext3_cmp_lt_ii x y st : ext "compare" [VStr "lt"; enc_i x; enc_i y] [] st = ret01 "lt" (option_map AB (cmp_i Z.ltb x y)) st.
  Proof. bridge. reflexivity. Qed.
  Lemma ext3_and x y st : ext "operator" [VStr "and"; enc_b x; enc_b y] [] st = ret01 "and" (option_map AB (and_bb x y)) st.
  Proof. bridge. reflexivity. Qed.
  Lemma ext3_masked_fill_inf x m st : ext "$method.masked_fill" [enc_x x; enc_b m; VInf true] [] st =
    ret01 "masked_fill" (option_map AX (masked_fill x m FPInf)) st.
  Proof. bridge. reflexivity. Qed.
  Lemma ext3_min_keep x d st : ext "$method.min" [enc_x x; VInt d] [("keepdim", VBool true)] st =
    match min_dim_keep x d with
    | Some (Some (v, i)) => Ok (VTuple [enc_x v; enc_i i]) st
    | Some None => Exc index_error st
    | None => oob "min keepdim"
    end.
  Proof. bridge. reflexivity. Qed.
  Lemma ext3_setitem_row_b x i y st : ext "$setitem" [enc_b x; VInt i; enc_b y] [] st =
    match set_row0 x i y with
    | Some (Some r) => Ok (enc_b r) st
    | Some None => Exc index_error st
    | None => oob "setitem row"
    end.
  Proof. bridge. reflexivity. Qed.
  Lemma dec_bools_enc ts : dec_bools (map enc_b ts) = Some ts.
  Proof. induction ts as [|t ts IH]; [reflexivity|]. cbn [map dec_bools]. now rewrite dec01_enc_b, IH. Qed.
  Lemma ext3_stack ts st : ext "torch.stack" [VList (map enc_b ts); VInt 0] [] st = ret01 "stack" (option_map AB (stack0 ts)) st.
  Proof. unfold ext03, ext03_sm, ext03_new. cbn [is String.eqb Ascii.eqb Bool.eqb]. now rewrite dec_bools_enc. Qed.
End ExtLemmas.

#[local] Arguments ext03 : simpl never.

(* ---- execution lemmas, for any environment ------------------------------------------------------------------------ *)
Section Exec.
  Variable ext : string -> list val -> list (string * val) -> state -> outcome val.
  Lemma xexec_seq_assign x e b st v st1 : eval ext e st = Ok v st1 ->
    exec ext (SSeq (SAssign [TName x] e) b) st = exec ext b (set_var x v st1).
  Proof. intros H. cbn [exec]. rewrite H. reflexivity. Qed.
  Lemma xexec_assign x e st v st1 : eval ext e st = Ok v st1 ->
    exec ext (SAssign [TName x] e) st = Ok CNormal (set_var x v st1).
  Proof. intros H. cbn [exec]. rewrite H. reflexivity. Qed.
  Lemma xexec_seq_assign3 x y z e b st v st1 : eval ext e st = Ok v st1 ->
    exec ext (SSeq (SAssign [TName x; TName y; TName z] e) b) st =
    exec ext b (set_var z v (set_var y v (set_var x v st1))).
  Proof. intros H. cbn [exec]. rewrite H. reflexivity. Qed.
  Lemma xexec_seq_assoc a b c st : exec ext (SSeq (SSeq a b) c) st = exec ext (SSeq a (SSeq b c)) st.
  Proof. cbn [exec]. destruct (exec ext a st) as [[|v] st1|n st1|w]; cbn [bind]; try reflexivity. Qed.
  Lemma xexec_seq_if c t f b st v st1 : eval ext c st = Ok v st1 ->
    exec ext (SSeq (SIf c t f) b) st = exec ext (SSeq (if truthy v then t else f) b) st1.
  Proof. intros H. cbn [exec]. rewrite H. cbn [bind]. destruct (truthy v); reflexivity. Qed.
  Lemma xexec_if c t f st v st1 : eval ext c st = Ok v st1 ->
    exec ext (SIf c t f) st = exec ext (if truthy v then t else f) st1.
  Proof. intros H. cbn [exec]. rewrite H. cbn [bind]. destruct (truthy v); reflexivity. Qed.
  Lemma xexec_seq_pass b st : exec ext (SSeq SPass b) st = exec ext b st.
  Proof. reflexivity. Qed.
  Lemma xexec_seq_pass_r a st : exec ext (SSeq a SPass) st = exec ext a st.
  Proof. cbn [exec]. destruct (exec ext a st) as [[|v] st1|n st1|w]; reflexivity. Qed.
  (* x[k] = e on a tensor (a tagged tuple) held by the variable x (the evaluations leave the state as it is) *)
  Definition is_tuple (v : val) : Prop := match v with VTuple _ => True | _ => False end.
  Lemma xexec_seq_setitem x ke e b st v kv tv nv :
    eval ext e st = Ok v st -> lookup x (vars st) = Some tv -> is_tuple tv -> eval ext ke st = Ok kv st ->
    ext "$setitem" [tv; kv; v] [] st = Ok nv st ->
    exec ext (SSeq (SAssign [TSub (EName x) ke] e) b) st = exec ext b (set_var x nv st).
  Proof.
    intros He Hx Ht Hk Hs. cbn [exec]. rewrite He. cbn [bind assign_all place_of store eval]. rewrite Hx. cbn [bind].
    rewrite Hk. cbn [bind]. destruct tv; try contradiction. rewrite Hs. cbn [bind]. reflexivity.
  Qed.
  (* x.append(e) on a Python list held by the variable x *)
  Lemma xexec_append x e st v l : eval ext e st = Ok v st -> lookup x (vars st) = Some (VList l) ->
    exec ext (SExpr (EMeth (EName x) "append" [e] [])) st = Ok CNormal (set_var x (VList (l ++ [v])) st).
  Proof. intros He Hx. cbn [exec eval]. rewrite Hx. cbn [bind]. rewrite He. cbn [bind method is String.eqb Ascii.eqb Bool.eqb store]. reflexivity. Qed.
  Lemma xexec_seq_append x e b st v l : eval ext e st = Ok v st -> lookup x (vars st) = Some (VList l) ->
    exec ext (SSeq (SExpr (EMeth (EName x) "append" [e] [])) b) st = exec ext b (set_var x (VList (l ++ [v])) st).
  Proof. intros He Hx. change (exec ext (SSeq ?a b) st) with (bind (exec ext a st) (fun c st1 => match c with CNormal => exec ext b st1 | CReturn _ => Ok c st1 end)).
    cbn [exec]. fold (exec ext (SExpr (EMeth (EName x) "append" [e] [])) st). rewrite (xexec_append x e st v l He Hx). reflexivity. Qed.
  Lemma xexec_seq_assert e b st v : eval ext e st = Ok v st -> truthy v = true ->
    exec ext (SSeq (SAssert e) b) st = exec ext b st.
  Proof. intros H T. cbn [exec]. rewrite H. cbn [bind]. rewrite T. reflexivity. Qed.

  Lemma xexec_take_drop : forall n s st, exec ext (SSeq (seq_take n s) (seq_drop n s)) st = exec ext s st.
  Proof.
    induction n as [|n IH]; intros s st; [reflexivity|].
    destruct s; cbn [seq_take seq_drop]; try apply xexec_seq_pass_r.
    rewrite xexec_seq_assoc. cbn [exec]. destruct (exec ext s1 st) as [[|v] st1|m st1|w]; cbn [bind]; try reflexivity.
    apply IH.
  Qed.

  Lemma xruns_to_seq : forall (P Q : state -> Prop) a b st,
    runs_to P (exec ext a st) -> (forall st1, P st1 -> runs_to Q (exec ext b st1)) ->
    runs_to Q (exec ext (SSeq a b) st).
  Proof. intros P Q a b st [st1 [He P1]] Hb. cbn [exec]. rewrite He. cbn [bind]. now apply Hb. Qed.

  (* sequences of statements up to re-association: the flattened spine *)
  Fixpoint xexec_list (l : list stmt) (st : state) : outcome ctl :=
    match l with
    | [] => Ok CNormal st
    | x :: r => bind (exec ext x st) (fun c st1 => match c with CNormal => xexec_list r st1 | CReturn _ => Ok c st1 end)
    end.

  Lemma xexec_list_app : forall l1 l2 st,
    xexec_list (l1 ++ l2) st =
    bind (xexec_list l1 st) (fun c st1 => match c with CNormal => xexec_list l2 st1 | CReturn _ => Ok c st1 end).
  Proof.
    induction l1 as [|x l1 IH]; intros l2 st; [reflexivity|].
    cbn [app xexec_list]. destruct (exec ext x st) as [[|v] st1|n st1|w]; cbn [bind]; try reflexivity. apply IH.
  Qed.

  Lemma xexec_flatten : forall s st, exec ext s st = xexec_list (flatten s) st.
  Proof.
    induction s; intros st;
      try (cbn [flatten xexec_list];
           match goal with |- ?e = bind ?e _ => destruct e as [[|v] st1|n st1|w]; reflexivity end).
    - reflexivity.
    - cbn [flatten]. rewrite xexec_list_app. cbn [exec]. rewrite IHs1.
      destruct (xexec_list (flatten s1) st) as [[|v] st1|n st1|w]; cbn [bind]; try reflexivity. apply IHs2.
  Qed.
End Exec.

Definition returns3 (v : val) (o : outcome ctl) : Prop := exists st', o = Ok (CReturn v) st'.

Lemma xreturns_seq : forall ext (P : state -> Prop) v a b st,
  runs_to P (exec ext a st) -> (forall st1, P st1 -> returns3 v (exec ext b st1)) ->
  returns3 v (exec ext (SSeq a b) st).
Proof. intros ext P v a b st [st1 [He P1]] Hb. cbn [exec]. rewrite He. cbn [bind]. now apply Hb. Qed.

Create HintDb c03 discriminated.
#[export] Hint Rewrite lookup_update foreign_enc_i foreign_enc_b foreign_enc_x method_enc_i method_enc_b method_enc_x
  attribute_enc_i attribute_enc_x
  subscript_enc_i_int subscript_enc_x_tuple binop_mul_q_x binop_mul_x_q binop_add_x_x binop_sub_x_x binop_div_x_x
  binop_add_i_int binop_sub_i_i
  ext3_cmp_lt ext3_cmp_ge ext3_cmp_eq ext3_cmp_ne ext3_float_b ext3_getitem_int_i ext3_mul_q_x ext3_mul_x_q ext3_add_x ext3_sub_x
  ext3_getitem_slice_x ext3_setitem_slice_x ext3_torch_min ext3_min_dim ext3_where
  ext3_dim_i ext3_t_i ext3_empty ext3_detach_i ext3_shape_i ext3_device_i ext3_add_i_int ext3_sub_i
  ext3_dtype_i ext3_dtype_x ext3_to_b_float ext3_to_i_float ext3_eq_m ext3_gt_m
  ext3_any ext3_to_b_long ext3_full ext3_arange_f ext3_float_inf ext3_full_like_inf ext3_triu
  ext3_unsqueeze_x ext3_unsqueeze_i ext3_expand_x
  ext3_unsqueeze_b ext3_expand_i ext3_zeros ext3_arange_i ext3_cmp_gt_is ext3_cmp_gt_xi ext3_cmp_eq_xx ext3_cmp_lt_ii ext3_and
  ext3_masked_fill_inf ext3_min_keep ext3_setitem_row_b : c03.

(* ---- tactics of the symbolic runs (C01.TieLib's, for the environment that occurs in the goal) ------------------------ *)
Ltac ev3 := repeat (progress (cbn; autorewrite with c03; look)).

(* operations on tabulated arguments *)
Ltac norm3 :=
  unfold bool_to_float, bool_to_long, long_to_float, ge_s, eq_s, cmp_scalar, add_s, bin_f, bin_i, cmp_i, map_t,
    gt_xi, eq_xx, and_bb, masked_fill, zip_same; cbn [shp dat];
  rewrite ?nats_eqb_refl, ?map_map, ?map_tab2, ?zipw_tab2;
  rewrite ?broadcast_mat_row, ?broadcast_same2, ?broadcast_same1, ?broadcast_3_mat, ?broadcast_col_row, ?broadcast_col1_row,
    ?broadcast_mat_row1, ?broadcast_3_plane,
    ?where_row_mat, ?where_same1, ?slice0_init, ?slice0_tail, ?set_slice0_tail,
    ?unsqueeze_1_0, ?unsqueeze_1_1, ?unsqueeze_2_m1, ?squeeze_2_0, ?unsqueeze_2_0;
  cbn [option_map ret01 enc01].
Ltac evn3 := repeat (progress (ev3; norm3)).

Ltac seqnorm3 := repeat first [rewrite xexec_seq_assoc | rewrite xexec_seq_pass].
Ltac assign3x tac :=
  seqnorm3;
  match goal with
  | |- context [exec ?X (SSeq (SAssign [TName ?x] ?e) ?b) ?st] =>
      let H := fresh "Hev" in
      eassert (H : eval X e st = Ok _ st); [ solve [tac] | rewrite (xexec_seq_assign X x e b st _ _ H); clear H; push_state ]
  | |- context [exec ?X (SAssign [TName ?x] ?e) ?st] =>
      let H := fresh "Hev" in
      eassert (H : eval X e st = Ok _ st); [ solve [tac] | rewrite (xexec_assign X x e st _ _ H); clear H; push_state ]
  end.
Ltac asg3 := assign3x ltac:(evn3; reflexivity).

Ltac ifstep3_t tac :=
  seqnorm3;
  match goal with
  | |- context [exec ?X (SSeq (SIf ?c ?t ?f) ?b) ?st] =>
      let H := fresh "Hev" in
      eassert (H : eval X c st = Ok _ st);
      [ solve [tac] | rewrite (xexec_seq_if X c t f b st _ _ H); clear H; cbn [truthy] ]
  | |- context [exec ?X (SIf ?c ?t ?f) ?st] =>
      let H := fresh "Hev" in
      eassert (H : eval X c st = Ok _ st);
      [ solve [tac] | rewrite (xexec_if X c t f st _ _ H); clear H; cbn [truthy] ]
  end.
Ltac ifstep3 := ifstep3_t ltac:(evn3; reflexivity).

(* x[ke] = e on the tensor held by x; [tac] proves the evaluations and the $setitem call *)
Ltac setitem3_t tac :=
  seqnorm3;
  match goal with
  | |- context [exec ?X (SSeq (SAssign [TSub (EName ?x) ?ke] ?e) ?b) ?st] =>
      let H1 := fresh "Hv" in let H2 := fresh "Hx" in let H3 := fresh "Hk" in let H4 := fresh "Hs" in
      eassert (H1 : eval X e st = Ok _ st); [ solve [tac] |];
      eassert (H2 : lookup x (vars st) = Some _); [ solve [look; reflexivity] |];
      eassert (H3 : eval X ke st = Ok _ st); [ solve [ev3; reflexivity] |];
      match type of H1 with _ = Ok ?v _ =>
      match type of H2 with _ = Some ?tv =>
      match type of H3 with _ = Ok ?kv _ =>
        eassert (H4 : X "$setitem" [tv; kv; v] [] st = Ok _ st); [ solve [tac] |];
        rewrite (xexec_seq_setitem X x ke e b st v kv tv _ H1 H2 I H3 H4); clear H1 H2 H3 H4; push_state
      end end end
  end.

Ltac assertstep3 :=
  seqnorm3;
  match goal with
  | |- context [exec ?X (SSeq (SAssert ?e) ?b) ?st] =>
      let H := fresh "Hev" in
      eassert (H : eval X e st = Ok _ st); [ solve [evn3; reflexivity] | rewrite (xexec_seq_assert X e b st _ H eq_refl); clear H ]
  end.

Ltac assign33 :=
  seqnorm3;
  match goal with
  | |- context [exec ?X (SSeq (SAssign [TName ?x; TName ?y; TName ?z] ?e) ?b) ?st] =>
      let H := fresh "Hev" in
      eassert (H : eval X e st = Ok _ st);
      [ solve [evn3; reflexivity]
      | rewrite (xexec_seq_assign3 X x y z e b st _ _ H); clear H; push_state; push_state; push_state ]
  end.

(* x.append(e) *)
Ltac append3_t tac :=
  seqnorm3;
  match goal with
  | |- context [exec ?X (SSeq (SExpr (EMeth (EName ?x) "append" [?e] [])) ?b) ?st] =>
      let H1 := fresh "Hv" in let H2 := fresh "Hx" in
      eassert (H1 : eval X e st = Ok _ st); [ solve [tac] |];
      eassert (H2 : lookup x (vars st) = Some (VList _)); [ solve [look; reflexivity] |];
      rewrite (xexec_seq_append X x e b st _ _ H1 H2); clear H1 H2; push_state
  | |- context [exec ?X (SExpr (EMeth (EName ?x) "append" [?e] [])) ?st] =>
      let H1 := fresh "Hv" in let H2 := fresh "Hx" in
      eassert (H1 : eval X e st = Ok _ st); [ solve [tac] |];
      eassert (H2 : lookup x (vars st) = Some (VList _)); [ solve [look; reflexivity] |];
      rewrite (xexec_append X x e st _ _ H1 H2); clear H1 H2; push_state
  end.
Ltac append3 := append3_t ltac:(evn3; reflexivity).

(* for developing a run: open the evaluation goal of the next assignment *)
Ltac assign_open3 :=
  seqnorm3;
  match goal with
  | |- context [exec ?X (SSeq (SAssign [TName ?x] ?e) ?b) ?st] => eassert (Hdbg : eval X e st = Ok _ st)
  | |- context [exec ?X (SAssign [TName ?x] ?e) ?st] => eassert (Hdbg : eval X e st = Ok _ st)
  end.

(* the listed variables hold the listed values (C01.TieBlocks.known, restated so that TieBlocks need not be imported) *)
Fixpoint known3 (st : state) (l : list (string * val)) : Prop :=
  match l with
  | [] => True
  | (x, v) :: r => lookup x (vars st) = Some v /\ known3 st r
  end.

Ltac open_known3 H := cbn [known3 app] in H; repeat match type of H with _ /\ _ => let L := fresh "K" in destruct H as [L H] end; clear H.
Ltac close_known3 := cbn [known3 app]; repeat split; try assumption.
