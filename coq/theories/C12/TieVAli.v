(* C12 — tie (part 3b) of the blocks of `_info_and_validate`: the alignment block `if ali is not None: ...`.  See TieVTac.v for the method. *)
From Coq Require Import ZArith QArith List String Bool Arith Lia ZifyBool.
From PV Require Import MiniPy.Syntax MiniPy.Interp MiniPy.Lemmas MiniTorch.OpsC12 MiniTorch.LemmasC12 MiniTorch.LemmasC12V Gen.C12ValSrc.
From PV Require Import C12.SrcRun C12.SrcRunV C12.TieLib C12.TieLibV C12.TieVTac.
From PV Require C12.Model.
Import ListNotations.
Local Open Scope string_scope.

#[local] Arguments enc12 : simpl never.
#[local] Arguments dec12 !v /.
#[local] Arguments T1 : simpl never.
#[local] Arguments T2 : simpl never.
#[local] Arguments NZ : simpl never.
#[local] Arguments new_full : simpl never.
#[local] Arguments cat : simpl never.
#[local] Arguments ndim : simpl never.
#[local] Arguments size : simpl never.
#[local] Arguments numel : simpl never.
#[local] Arguments select_col : simpl never.
#[local] Arguments set_item : simpl never.
#[local] Arguments get_item : simpl never.
#[local] Arguments item : simpl never.
#[local] Arguments unsqueeze : simpl never.
#[local] Arguments slice0 : simpl never.
#[local] Arguments nonzero : simpl never.
#[local] Arguments eq_scalar : simpl never.
#[local] Arguments cpu : simpl never.
#[local] Arguments long : simpl never.
#[local] Arguments then_ ext b !c st /.
#[local] Arguments exec : simpl never.
#[local] Arguments for_loop : simpl never.
#[local] Arguments q_cmp : simpl never.
#[local] Arguments fill_slice : simpl never.
#[local] Arguments set_row : simpl never.
#[local] Arguments rows_of : simpl never.
#[local] Arguments tolist2 : simpl never.
#[local] Arguments full_long : simpl never.
#[local] Arguments row3 : simpl never.
#[local] Arguments inject_Z : simpl never.
#[local] Arguments firstn : simpl never.
#[local] Arguments skipn : simpl never.
#[local] Arguments cmp_eval op !a !b /.
#[local] Arguments Z.of_nat : simpl never.
#[local] Arguments torch_module : simpl never.
#[local] Arguments store : simpl never.
#[local] Arguments set_var x v !st /.
#[local] Arguments ext12 env f !args kw st /.
#[local] Arguments bind {A B} !o f /.
#[local] Arguments Z.add : simpl never.
#[local] Arguments Z.sub : simpl never.
#[local] Arguments ds_obj : simpl never.
#[local] Arguments isinstance12 : simpl never.
#[local] Arguments instance_of : simpl never.
#[local] Arguments feat_tens : simpl never.
#[local] Arguments ids_val : simpl never.
#[local] Arguments subscript !o !k st /.
#[local] Arguments utt_tuple : simpl never.
#[local] Arguments env_ds : simpl never.
#[local] Arguments class_token : simpl never.

Definition ali_vbody : stmt := Eval cbv in if_then (seq_nth 2 (if_then iv_ali)).
Definition ali_cuda : stmt := Eval cbv in seq_nth 0 ali_vbody.
Definition ali_long : stmt := Eval cbv in seq_nth 1 ali_vbody.
Definition ali_ndim : stmt := Eval cbv in seq_nth 2 ali_vbody.
Definition ali_size : stmt := Eval cbv in seq_nth 3 ali_vbody.
Definition ali_crop : stmt := Eval cbv in seq_nth 4 ali_vbody.
Definition ali_save : stmt := Eval cbv in seq_drop 5 ali_vbody.
Section Ali.
  Variables (c : Model.cfg) (d : Model.dir) (ids : list string) (fx : option Z).
  Variables (idx nf r2d fdt t1 feat ref prefix t2 F idx2 r tok start end_ : val) (fnv : string) (T : nat).
  Local Notation ext := (ext12 (env_ds c d)).
  Definition stA (dir_ prefix_ msg ali wb Tp : val) (evs : list event) : state :=
    mkState (mkvars ids fx idx nf r2d fdt (VStr fnv) t1 feat ali ref wb prefix dir_ prefix_ msg t2 (VInt (Z.of_nat T)) F Tp
                    idx2 r tok start end_) evs.

  (* -- `if isinstance(ali, torch.Tensor) and ali.device.type == "cuda":` -- *)
  Lemma ali_cuda_run : forall dir_ prefix_ msg t (wb : bool) Tp evs,
    exists msg',
    exec ext ali_cuda (stA dir_ prefix_ msg (enc12 t) (VBool wb) Tp evs)
    = if (t_cuda t && negb (Model.is_some fx))%bool
      then Exc "ValueError" (stA dir_ prefix_ msg' (enc12 t) (VBool wb) Tp evs)
      else Ok CNormal (stA dir_ prefix_ msg' (enc12 (cpu t)) (VBool (wb || t_cuda t)) Tp evs).
  Proof.
    intros. unfold ali_cuda, stA, mkvars.
    destruct t as [cu dt sh da]; cbn [t_cuda]. destruct cu; cbn [andb orb negb]; eexists.
    - run. destruct fx as [k|]; run.
      + rewrite orb_true_r. reflexivity.
      + reflexivity.
    - run. rewrite orb_false_r. reflexivity.
  Qed.

  (* -- `if not isinstance(ali, torch.LongTensor):` -- *)
  Lemma ali_long_run : forall dir_ prefix_ msg t (wb : bool) Tp evs,
    exists msg',
    exec ext ali_long (stA dir_ prefix_ msg (enc12 t) (VBool wb) Tp evs)
    = if (negb (is_long t) && negb (Model.is_some fx && is_small t))%bool
      then Exc "ValueError" (stA dir_ prefix_ msg' (enc12 t) (VBool wb) Tp evs)
      else Ok CNormal (stA dir_ prefix_ msg' (enc12 (long t)) (VBool (wb || negb (is_long t))) Tp evs).
  Proof.
    intros. unfold ali_long, stA, mkvars.
    destruct (is_long t) eqn:EL; cbn [negb andb orb]; eexists.
    - unfold is_long in EL. run. rewrite orb_false_r, (long_id t (EL : is_long t = true)). reflexivity.
    - unfold is_long in EL. run. unfold is_small. destruct fx as [k|]; run.
      + destruct (negb (t_cuda t) && Model.upcastable (t_dtype t))%bool eqn:ES; cbn [negb andb Model.is_some]; run.
        * rewrite orb_true_r. reflexivity.
        * reflexivity.
      + reflexivity.
  Qed.

  (* -- `if ali.ndim != 1:` -- *)
  Lemma ali_ndim_run : forall dir_ prefix_ msg t wb Tp evs,
    exec ext ali_ndim (stA dir_ prefix_ msg (enc12 t) wb Tp evs)
    = if (ndim t =? 1)%nat then Ok CNormal (stA dir_ prefix_ msg (enc12 t) wb Tp evs)
      else Exc "ValueError" (stA dir_ prefix_ msg (enc12 t) wb Tp evs).
  Proof.
    intros. unfold ali_ndim, stA, mkvars.
    run. change 1%Z with (Z.of_nat 1). rewrite of_nat_eqb. destruct (ndim t =? 1)%nat; run; reflexivity.
  Qed.

  (* -- `Tp = ali.size(0)` -- *)
  Lemma ali_size_run : forall dir_ prefix_ msg cu dt v wb Tp evs,
    exec ext ali_size (stA dir_ prefix_ msg (enc12 (T1 cu dt v)) wb Tp evs)
    = Ok CNormal (stA dir_ prefix_ msg (enc12 (T1 cu dt v)) wb (VInt (Z.of_nat (List.length v))) evs).
  Proof.
    intros. unfold ali_size, stA, mkvars. run. reflexivity.
  Qed.

  (* -- `if Tp != T:` -- *)
  Definition crop_ok (n : nat) : bool :=
    ((n =? T)%nat
     || match fx with
        | Some k => (Z.of_nat T + k >=? Z.of_nat n)%Z && (Z.of_nat n >? Z.of_nat T)%Z
        | None => false
        end)%bool.

  Lemma ali_crop_run : forall dir_ prefix_ msg cu dt v (wb : bool) evs,
    exists msg',
    exec ext ali_crop (stA dir_ prefix_ msg (enc12 (T1 cu dt v)) (VBool wb) (VInt (Z.of_nat (List.length v))) evs)
    = if crop_ok (List.length v)
      then Ok CNormal (stA dir_ prefix_ msg' (enc12 (T1 cu dt (if (List.length v =? T)%nat then v else List.firstn T v)))
                           (VBool (wb || negb (List.length v =? T)%nat)) (VInt (Z.of_nat (List.length v))) evs)
      else Exc "ValueError" (stA dir_ prefix_ msg' (enc12 (T1 cu dt v)) (VBool wb) (VInt (Z.of_nat (List.length v))) evs).
  Proof.
    intros. unfold ali_crop, stA, mkvars, crop_ok.
    destruct (List.length v =? T)%nat eqn:EL; cbn [orb negb]; eexists.
    - run. rewrite orb_false_r. reflexivity.
    - run. destruct fx as [k|]; run.
      + destruct (Z.of_nat T + k >=? Z.of_nat (List.length v))%Z eqn:EA; run; [destruct (Z.of_nat (List.length v) >? Z.of_nat T)%Z eqn:EB; cbn [andb]; run|].
        * rewrite slice0_T1_to. run. rewrite orb_true_r. reflexivity.
        * reflexivity.
        * reflexivity.
      + reflexivity.
  Qed.

  Definition save_ev (t : tens) (dir_ : string) : event := ("torch.save", [enc12 t; VStr (dir_ ++ "/" ++ fnv)]).

  (* -- `if write_back: torch.save(ali, os.path.join(dir_, fn)); write_back = False` -- *)
  Lemma ali_save_run : forall dir_ prefix_ msg t (wb : bool) Tp evs,
    exec ext ali_save (stA (VStr dir_) prefix_ msg (enc12 t) (VBool wb) Tp evs)
    = Ok CNormal (stA (VStr dir_) prefix_ msg (enc12 t) (VBool false) Tp (if wb then evs ++ [save_ev t dir_] else evs)).
  Proof.
    intros. unfold ali_save, stA, mkvars, save_ev.
    destruct wb; run; reflexivity.
  Qed.


  Definition ali_wb (a : Model.ali) : bool :=
    match Model.a_data a with
    | Model.A1 v => (Model.a_cuda a || negb (Model.dtype_beq (Model.a_dtype a) Model.DI64) || negb (List.length v =? T)%nat)%bool
    | _ => false
    end.
  Definition ali_shape_ok (a : Model.ali) : Prop :=
    match Model.a_data a with Model.AN dims _ => List.length dims <> 1%nat | _ => True end.

  Lemma ali_block_some : forall dir_ prefix_ msg a Tp evs, ali_shape_ok a ->
    match Model.ali_part true fx T a with
    | inl _ => exists st', exec ext iv_ali (stA dir_ prefix_ msg (enc12 (ali_tens a)) (VBool false) Tp evs) = Exc "ValueError" st'
                           /\ events st' = evs
    | inr a' => exists msg' Tp',
        exec ext iv_ali (stA dir_ prefix_ msg (enc12 (ali_tens a)) (VBool false) Tp evs)
        = Ok CNormal (stA (VStr "d/ali") (VStr "") msg' (enc12 (ali_tens a')) (VBool false) Tp'
                          (if ali_wb a then evs ++ [save_ev (ali_tens a') "d/ali"] else evs))
    end.
  Proof.
    intros dir_ prefix_ msg [cu dt data] Tp evs Hok. unfold ali_shape_ok in Hok. cbn [Model.a_data] in Hok.
    (* the run up to the validate body, as an equation *)
    assert (P : forall t, exec ext iv_ali (stA dir_ prefix_ msg (enc12 t) (VBool false) Tp evs)
                = bind (exec ext ali_vbody (stA (VStr "d/ali") (VStr "") msg (enc12 t) (VBool false) Tp evs))
                       (then_ ext (seq_drop 3 (if_then iv_ali)))).
    { intros t. unfold iv_ali, stA, mkvars. do 9 xs. subst. reflexivity. }
    unfold Model.ali_part, ali_wb. cbn [Model.a_cuda Model.a_dtype Model.a_data negb].
    rewrite !P. clear P. unfold ali_vbody. unfold ali_tens. cbn [Model.a_cuda Model.a_dtype Model.a_data].
    destruct data as [v|dims flat].
    - (* 1-D *)
      xsc. usex ali_cuda_run. rewrite ?t_cuda_T1, ?cpu_T1.
      destruct (cu && negb (Model.is_some fx))%bool eqn:E1; [done_exc|].
      nxt. usex ali_long_run. unfold is_long, is_small. rewrite ?t_cuda_T1, ?t_dtype_T1, ?long_T1. cbn [negb andb].
      destruct (negb (Model.dtype_beq dt Model.DI64) && negb (Model.is_some fx && Model.upcastable dt))%bool eqn:E2; [done_exc|].
      nxt. use ali_ndim_run. rewrite ndim_T1. cbn [Nat.eqb].
      nxt. use ali_size_run.
      nxt. usex ali_crop_run. unfold crop_ok. rewrite of_nat_eqb.
      assert (Fin : forall m' t' (wb : bool) Tp' evs',
                exists msg'' Tp'',
                bind (bind (Ok CNormal (stA (VStr "d/ali") (VStr "") m' (enc12 t') (VBool wb) Tp' evs')) (then_ ext s))
                     (then_ ext (seq_drop 3 (if_then iv_ali)))
                = Ok CNormal (stA (VStr "d/ali") (VStr "") msg'' (enc12 t') (VBool false) Tp''
                                  (if wb then evs' ++ [save_ev t' "d/ali"] else evs'))).
      { intros. cbn [bind then_]. unfold_stmt. use ali_save_run. cbn [bind then_ seq_drop if_then iv_ali].
        unfold stA, mkvars. run. do 2 eexists. reflexivity. }
      destruct (List.length v =? T)%nat eqn:EL; cbn [orb negb].
      + rewrite !orb_false_r. cbn [orb]. apply Fin.
      + destruct fx as [k|]; [destruct ((Z.of_nat T + k >=? Z.of_nat (List.length v))%Z && (Z.of_nat (List.length v) >? Z.of_nat T)%Z)%bool|].
        * rewrite !orb_true_r. cbn [orb]. apply Fin.
        * done_exc.
        * done_exc.
    - (* not 1-D *)
      xsc. usex ali_cuda_run. cbn [t_cuda].
      destruct (cu && negb (Model.is_some fx))%bool eqn:E1; [done_exc|].
      nxt. usex ali_long_run. unfold is_long, is_small, cpu. cbn [t_cuda t_dtype negb andb].
      destruct (negb (Model.dtype_beq dt Model.DI64) && negb (Model.is_some fx && Model.upcastable dt))%bool eqn:E2; [done_exc|].
      nxt. use ali_ndim_run. unfold ndim, long. cbn [t_shape].
      destruct (Nat.eqb_spec (List.length dims) 1); [contradiction|]. done_exc.
  Qed.

  Lemma ali_block_none : forall dir_ prefix_ msg wb Tp evs,
    exec ext iv_ali (stA dir_ prefix_ msg VNone wb Tp evs) = Ok CNormal (stA dir_ prefix_ msg VNone wb Tp evs).
  Proof. intros. unfold iv_ali, stA, mkvars. run. reflexivity. Qed.
End Ali.

