(* C08 - lemmas that combine the parts (ProofsDraw, ProofsRound, ProofsMask, ProofsWarp):
   eval mode, shape, range of a warped and masked output. *)
From Coq Require Import List ZArith QArith Qround Qabs Bool Lia Lqa.
From PV Require Import C08.Model C08.Spec C08.ProofsDraw C08.ProofsMask C08.ProofsWarp.
Import ListNotations.
Local Open Scope Q_scope.

Lemma eval_mode_identity : forall a eps c len u img,
  spec_augment false a eps c len u img = img.
Proof. reflexivity. Qed.

(* ---- shape ------------------------------------------------------------------------- *)
Lemma id_grid_length : forall T, length (id_grid T) = Z.to_nat T.
Proof. intro T. unfold id_grid. now rewrite map_length, zseq_length. Qed.

Lemma rect_row_length : forall W img t, rect W img -> (t < length img)%nat ->
  length (nth t img []) = Z.to_nat W.
Proof.
  intros W img t Hr Ht. unfold rect in Hr. rewrite Forall_forall in Hr.
  specialize (Hr (nth t img []) (nth_In img [] Ht)). unfold zlen in Hr. lia.
Qed.

Lemma resample_row_length : forall img tg fg t, (t < length tg)%nat ->
  length (nth t (resample img tg fg) []) = length fg.
Proof.
  intros img tg fg t Ht. destruct (resample_shape img tg fg) as [L R].
  rewrite Forall_forall in R. apply R, nth_In. now rewrite L.
Qed.

(* "the output always has the input's shape" (order-1 model, rectangular input) *)
Lemma apply_lin_shape : forall len p img, rect (width img) img ->
  length (apply_lin len p img) = length img
  /\ forall t, (t < length img)%nat ->
       length (nth t (apply_lin len p img) []) = length (nth t img []).
Proof.
  intros len p img Hr. unfold apply_lin, apply_with_grids.
  set (tgo := match p_tw p with Some (w0, w) => Some (warp_grid eps32 (zlen img) w0 w (z2q len)) | None => None end).
  set (fgo := match p_fw p with Some (v0, v) => Some (warp_grid eps32 (width img) v0 v (z2q (width img))) | None => None end).
  set (tg := match tgo with Some g => g | None => id_grid (zlen img) end).
  set (fg := match fgo with Some g => g | None => id_grid (width img) end).
  assert (Lt : length tg = length img).
  { unfold tg, tgo. destruct (p_tw p) as [[w0 w]|]; [rewrite warp_grid_length|rewrite id_grid_length];
      unfold zlen; lia. }
  assert (Lf : length fg = Z.to_nat (width img)).
  { unfold fg, fgo. destruct (p_fw p) as [[v0 v]|]; [apply warp_grid_length|apply id_grid_length]. }
  set (warped := match tgo, fgo with None, None => img | _, _ => resample img tg fg end).
  assert (W : length warped = length img
              /\ forall t, (t < length img)%nat -> length (nth t warped []) = length (nth t img [])).
  { assert (R : length (resample img tg fg) = length img
                /\ forall t, (t < length img)%nat -> length (nth t (resample img tg fg) []) = length (nth t img [])).
    { split; [destruct (resample_shape img tg fg) as [L _]; lia|].
      intros t Ht. rewrite resample_row_length by lia. rewrite (rect_row_length _ img t Hr Ht). exact Lf. }
    unfold warped. destruct tgo, fgo; try exact R. split; auto. }
  destruct W as [W1 W2]. destruct (apply_masks_shape 0 (p_tm p) (p_fm p) warped) as [M1 M2].
  fold tg fg. fold warped. split; [lia|]. intros t Ht. rewrite M2. apply W2, Ht.
Qed.

(* ---- range of any warped (any grids, hence any spline order) and masked output ------- *)
Lemma nth_in_rng : forall lo hi img t f, img_in lo hi img ->
  (t < length img)%nat -> (f < length (nth t img []))%nat -> in_rng lo hi (nth f (nth t img []) 0).
Proof.
  intros lo hi img t f Hi Ht Hf. unfold img_in in Hi. rewrite Forall_forall in Hi.
  specialize (Hi _ (nth_In img [] Ht)). rewrite Forall_forall in Hi. apply Hi, nth_In, Hf.
Qed.

Lemma warped_masked_in_range : forall lo hi img tgrid fgrid tm fm t f,
  (0 < zlen img)%Z -> (0 < width img)%Z -> rect (width img) img -> img_in lo hi img ->
  (t < length tgrid)%nat -> (f < length fgrid)%nat ->
  let out := apply_with_grids (Some tgrid) (Some fgrid) tm fm img in
  in_rng (qmin lo 0) (qmax hi 0) (nth f (nth t out []) 0).
Proof.
  intros lo hi img tg fg tm fm t f HH HW Hr Hi Ht Hf out.
  unfold out, apply_with_grids.
  pose proof (resample_in_range lo hi img tg fg HH HW Hr Hi) as R.
  destruct (resample_shape img tg fg) as [L _].
  assert (Ht' : (t < length (resample img tg fg))%nat) by lia.
  assert (Hf' : (f < length (nth t (resample img tg fg) []))%nat) by (rewrite resample_row_length; lia).
  destruct (apply_masks_cell_cases 0 tm fm (resample img tg fg) t f 0 Ht' Hf') as [E|E]; rewrite E.
  - split; [apply qmin_r|apply qmax_r].
  - destruct (nth_in_rng lo hi _ t f R Ht' Hf') as [A B].
    split; [eapply Qle_trans; [apply qmin_l|exact A]|eapply Qle_trans; [exact B|apply qmax_l]].
Qed.

(* ---- the float32 draws of the correspondence model ---------------------------------- *)
From PV Require Import C08.ProofsRound C08.ProofsIeee.

Lemma eps_of_range : forall d, 0 <= eps_of d /\ eps_of d <= 1.
Proof. intros [| |]; split; unfold eps_of, Qle; cbn; lia. Qed.

Lemma time_masks_ieee : forall d c len us us0,
  (0 <= len)%Z /\ (len < two24)%Z -> (0 <= c_Mt c)%Z -> 0 <= c_pt c /\ c_pt c <= 1 ->
  Forall grid_u us -> Forall grid_u us0 ->
  Forall (fun b : Z * Z =>
      (0 <= snd b <= c_Mt c)%Z /\ z2q (snd b) <= r32 ieee (lenq ieee len * r32 ieee (c_pt c))
      /\ (0 <= fst b)%Z /\ (fst b + snd b <= len)%Z)
    (time_masks ieee (eps_of d) c len us us0).
Proof.
  intros d c len us us0. apply (time_masks_each_r ieee ieee_laws (eps_of d) (eps_of_range d)).
Qed.

Lemma freq_masks_ieee : forall d c F us us0,
  (0 <= F)%Z /\ (F < two24)%Z -> (0 <= c_Mf c)%Z -> Forall grid_u us -> Forall grid_u us0 ->
  fmasks_ok c F (freq_masks ieee (eps_of d) c F us us0).
Proof.
  intros d c F us us0. apply (freq_masks_ok_r ieee ieee_laws (eps_of d) (eps_of_range d)).
Qed.
