(* C03 — optimal_completion, mechanism 2: duplicate propagation, sort, neighbour
   de-duplication and masked_select turn one mask row over the reference column into the
   strictly increasing list of the distinct tokens that sit at a marked position
   ([pair_targets_spec]); its length is the count the scatter uses ([pair_targets_count]). *)
From Coq Require Import List ZArith Bool Arith Lia Permutation Sorted.
From PV Require Import C01.Obs C01.Model C01.Proofs C03.Model.
Import ListNotations.
Local Open Scope Z_scope.

(* the tokens listed for one (prefix, pair) cell *)
Definition pair_targets (r : list Z) (m : list bool) : list Z :=
  masked_select (sorted_ref r) (final_mask r m).

(* ---- ref.sort(1) ------------------------------------------------------------------------- *)
Section Sort.
  Variable key : nat -> Z.
  Let R (a b : nat) : Prop := key a <= key b.

  Lemma insert_idx_perm i l : Permutation (insert_idx key i l) (i :: l).
  Proof.
    induction l as [|j t IH]; cbn [insert_idx]; [apply Permutation_refl|].
    destruct (key i <=? key j); [apply Permutation_refl|].
    apply perm_trans with (j :: i :: t); [apply perm_skip; exact IH|apply perm_swap].
  Qed.

  Lemma insert_idx_sorted i l : StronglySorted R l -> StronglySorted R (insert_idx key i l).
  Proof.
    induction l as [|j t IH]; intros Hs; cbn [insert_idx].
    - constructor; constructor.
    - inversion Hs as [|? ? Hst Hall]; subst. destruct (key i <=? key j) eqn:E.
      + apply Z.leb_le in E. constructor; [exact Hs|]. constructor; [exact E|].
        apply Forall_impl with (P := R j); [|exact Hall]. intros x Hx. unfold R in *. lia.
      + apply Z.leb_gt in E. constructor; [apply IH; exact Hst|].
        apply (Permutation_Forall (Permutation_sym (insert_idx_perm i t))).
        constructor; [unfold R; lia|exact Hall].
  Qed.

  Lemma fold_insert_perm l : Permutation (fold_right (insert_idx key) [] l) l.
  Proof.
    induction l as [|i l IH]; cbn [fold_right]; [constructor|].
    apply perm_trans with (i :: fold_right (insert_idx key) [] l);
      [apply insert_idx_perm|apply perm_skip; exact IH].
  Qed.

  Lemma fold_insert_sorted l : StronglySorted R (fold_right (insert_idx key) [] l).
  Proof. induction l as [|i l IH]; cbn [fold_right]; [constructor|]. apply insert_idx_sorted. exact IH. Qed.
End Sort.

Lemma sort_idx_perm r : Permutation (sort_idx r) (seq 0 (length r)).
Proof. apply fold_insert_perm. Qed.

Lemma sort_idx_lt r s : In s (sort_idx r) -> (s < length r)%nat.
Proof. intros H. apply (Permutation_in _ (sort_idx_perm r)) in H. apply in_seq in H. lia. Qed.

Lemma sort_idx_length r : length (sort_idx r) = length r.
Proof. rewrite (Permutation_length (sort_idx_perm r)). apply seq_length. Qed.

Lemma sorted_ref_perm r : Permutation (sorted_ref r) r.
Proof.
  unfold sorted_ref. rewrite <- (map_nth_seq r 0) at 2.
  apply Permutation_map. apply sort_idx_perm.
Qed.

Lemma sorted_ref_length r : length (sorted_ref r) = length r.
Proof. apply Permutation_length, sorted_ref_perm. Qed.

Lemma sorted_ref_sorted r : StronglySorted Z.le (sorted_ref r).
Proof.
  unfold sorted_ref, sort_idx.
  pose proof (fold_insert_sorted (fun i => nth i r 0) (seq 0 (length r))) as H.
  induction H as [|a l Hs IH Hall]; cbn [map]; constructor; [exact IH|].
  apply Forall_forall. intros x Hx. apply in_map_iff in Hx as [s [<- Hs']].
  rewrite Forall_forall in Hall. apply Hall. exact Hs'.
Qed.

(* ---- the gathered mask is a predicate of the token ----------------------------------------- *)
Definition marked (r : list Z) (m : list bool) (a : Z) : bool :=
  existsb (fun bm => snd bm && (fst bm =? a)) (combine r m).

Lemma marked_iff r m a : length m = length r ->
  marked r m a = true <-> exists i, (i < length r)%nat /\ nth i m false = true /\ nth i r 0 = a.
Proof.
  intros HL. unfold marked. rewrite existsb_exists. split.
  - intros [[b x] [Hin E]]. cbn [fst snd] in E. apply andb_true_iff in E as [Ex Eb].
    apply Z.eqb_eq in Eb. subst x b.
    apply (In_nth _ _ (0, false)) in Hin as [i [Hi Ei]].
    rewrite combine_length, HL, Nat.min_id in Hi. rewrite combine_nth in Ei by (symmetry; exact HL).
    inversion Ei as [[E1 E2]]. exists i. rewrite E1, E2. repeat split; [exact Hi|..]; reflexivity.
  - intros [i [Hi [Em Ea]]]. exists (nth i r 0, nth i m false). split.
    + rewrite <- combine_nth by (symmetry; exact HL). apply nth_In.
      rewrite combine_length, HL, Nat.min_id. exact Hi.
    + cbn [fst snd]. rewrite Em, Ea, Z.eqb_refl. reflexivity.
Qed.

Lemma gathered_mask r m :
  map (fun s => nth s (propagate r m) false) (sort_idx r) = map (marked r m) (sorted_ref r).
Proof.
  unfold sorted_ref. rewrite map_map. apply map_ext_in. intros s Hs. apply sort_idx_lt in Hs.
  unfold propagate. rewrite (nth_map_lt _ r s 0) by exact Hs. reflexivity.
Qed.

(* ---- de-duplication + masked_select ---------------------------------------------------------- *)
Fixpoint sel_dedup (P : Z -> bool) (l : list Z) : list Z :=
  match l with
  | [] => []
  | a :: t =>
      let rest := sel_dedup P t in
      match t with
      | [] => if P a then [a] else []
      | b :: _ => if P a && negb (a =? b) then a :: rest else rest
      end
  end.

Lemma masked_select_cons {A} (a : A) l b m :
  masked_select (a :: l) (b :: m) = if b then a :: masked_select l m else masked_select l m.
Proof. unfold masked_select. cbn [combine filter snd]. destruct b; reflexivity. Qed.

Lemma dedup_mask_cons2 a b t x y mt :
  dedup_mask (a :: b :: t) (x :: y :: mt) = (x && negb (a =? b)) :: dedup_mask (b :: t) (y :: mt).
Proof.
  unfold dedup_mask.
  change (removelast (x :: y :: mt)) with (x :: removelast (y :: mt)).
  change (removelast (a :: b :: t)) with (a :: removelast (b :: t)).
  cbn [tl map2 length].
  replace (S (S (length mt)) - 1)%nat with (S (S (length mt) - 1)) by lia.
  cbn [skipn app]. reflexivity.
Qed.

Lemma select_dedup P l : masked_select l (dedup_mask l (map P l)) = sel_dedup P l.
Proof.
  induction l as [|a l IH]; [reflexivity|].
  destruct l as [|b t].
  - cbn [map sel_dedup]. unfold dedup_mask. cbn. unfold masked_select. cbn. destruct (P a); reflexivity.
  - cbn [map] in *. rewrite dedup_mask_cons2, masked_select_cons, IH.
    cbn [sel_dedup]. reflexivity.
Qed.

Lemma sel_dedup_spec P l : StronglySorted Z.le l ->
  StronglySorted Z.lt (sel_dedup P l) /\
  (forall t, In t (sel_dedup P l) <-> In t l /\ P t = true).
Proof.
  induction l as [|a l IH]; intros Hs.
  - cbn [sel_dedup]. split; [constructor|]. intros t. split; [intros []|intros [[] _]].
  - inversion Hs as [|? ? Hst Hall]; subst. specialize (IH Hst) as [IHs IHin].
    destruct l as [|b t].
    + cbn [sel_dedup]. destruct (P a) eqn:Pa.
      * split; [repeat constructor|]. intros x. split.
        -- intros [->|[]]. split; [left; reflexivity|exact Pa].
        -- intros [[->|[]] _]. left. reflexivity.
      * split; [constructor|]. intros x. split; [intros []|]. intros [[->|[]] Px]. congruence.
    + change (sel_dedup P (a :: b :: t))
        with (if P a && negb (a =? b) then a :: sel_dedup P (b :: t) else sel_dedup P (b :: t)).
      rewrite Forall_forall in Hall.
      destruct (P a && negb (a =? b)) eqn:E.
      * apply andb_true_iff in E as [Pa Nab]. apply negb_true_iff, Z.eqb_neq in Nab.
        assert (Hlt : forall x, In x (b :: t) -> a < x).
        { intros x Hx. pose proof (Hall x Hx) as Hax. inversion Hst as [|? ? _ Hb]; subst.
          rewrite Forall_forall in Hb. pose proof (Hall b (or_introl eq_refl)) as Hab.
          destruct Hx as [<-|Hx]; [lia|]. specialize (Hb x Hx). lia. }
        split.
        -- constructor; [exact IHs|]. apply Forall_forall. intros x Hx. apply IHin in Hx as [Hx _].
           apply Hlt. exact Hx.
        -- intros x. split.
           ++ intros [<-|Hx]; [split; [left; reflexivity|exact Pa]|].
              apply IHin in Hx as [Hx Px]. split; [right; exact Hx|exact Px].
           ++ intros [[<-|Hx] Px]; [left; reflexivity|]. right. apply IHin. split; assumption.
      * split; [exact IHs|]. intros x. rewrite IHin. split.
        -- intros [Hx Px]. split; [right; exact Hx|exact Px].
        -- intros [[<-|Hx] Px]; [|split; assumption].
           rewrite Px in E. cbn [andb] in E. apply negb_false_iff, Z.eqb_eq in E. subst b.
           split; [left; reflexivity|exact Px].
Qed.

Lemma pair_targets_sel r m : pair_targets r m = sel_dedup (marked r m) (sorted_ref r).
Proof.
  unfold pair_targets, final_mask. rewrite gathered_mask. apply select_dedup.
Qed.

(* mechanism 2 of the property *)
Theorem pair_targets_spec r m : length m = length r ->
  StronglySorted Z.lt (pair_targets r m) /\
  forall t, In t (pair_targets r m) <->
            exists i, (i < length r)%nat /\ nth i m false = true /\ nth i r 0 = t.
Proof.
  intros HL. rewrite pair_targets_sel.
  destruct (sel_dedup_spec (marked r m) (sorted_ref r) (sorted_ref_sorted r)) as [Hs Hin].
  split; [exact Hs|]. intros t. rewrite Hin, (marked_iff r m t HL). split.
  - intros [_ H]. exact H.
  - intros [i [Hi [Em Et]]]. split; [|exists i; repeat split; assumption].
    apply (Permutation_in _ (Permutation_sym (sorted_ref_perm r))). subst t. apply nth_In. exact Hi.
Qed.

Lemma strictly_sorted_nodup l : StronglySorted Z.lt l -> NoDup l.
Proof.
  induction 1 as [|a l Hs IH Hall]; constructor; [|exact IH].
  intros Hin. rewrite Forall_forall in Hall. specialize (Hall a Hin). lia.
Qed.

(* ---- counts = number of selected tokens ---------------------------------------------------- *)
Lemma masked_select_length {A} (vals : list A) m : length vals = length m ->
  length (masked_select vals m) = count_true m.
Proof.
  revert m. induction vals as [|a vals IH]; intros [|b m] HL; try discriminate HL; [reflexivity|].
  rewrite masked_select_cons. unfold count_true in *. cbn [filter].
  destruct b; cbn [length]; rewrite IH by (cbn [length] in HL; lia); reflexivity.
Qed.

Lemma dedup_mask_length sref m : length sref = length m -> length (dedup_mask sref m) = length m.
Proof.
  intros HL. unfold dedup_mask.
  rewrite app_length, !map2_length, !length_removelast, length_tl, skipn_length. lia.
Qed.

Lemma final_mask_length r m : length (final_mask r m) = length r.
Proof.
  unfold final_mask. rewrite dedup_mask_length; rewrite map_length, sort_idx_length; [reflexivity|].
  apply sorted_ref_length.
Qed.

Lemma pair_targets_count r m : count_true (final_mask r m) = length (pair_targets r m).
Proof.
  unfold pair_targets. symmetry. apply masked_select_length.
  rewrite sorted_ref_length, final_mask_length. reflexivity.
Qed.
