(* C07 - the wrapper's enumerated support: what it contains, that it has no duplicates, that
   the probabilities over it sum to one, and that samples lie in it. *)
From Coq Require Import List ZArith Bool Arith Lia QArith Permutation Sorted FinFun.
From PV Require Import C07.Model C07.Spec C07.Lib C07.ProofsSlp C07.ProofsWalk.
Import ListNotations.
Local Open Scope nat_scope.

(* ---------- enumerate_vocab_sequences --------------------------------------------------------- *)

Lemma enum_seqs_in T V : forall s,
  In s (enum_seqs T V) <-> length s = T /\ forallb (in_vocab (Z.of_nat V)) s = true.
Proof.
  induction T as [|T IH]; intros s; cbn [enum_seqs].
  - split.
    + intros [<-|[]]. split; reflexivity.
    + intros [Hl _]. destruct s; [left; reflexivity|discriminate].
  - rewrite in_flat_map. split.
    + intros (d & Hd & Hin). apply in_map_iff in Hin as (r & <- & Hr).
      apply IH in Hr as [Hl Hv]. apply in_seq in Hd. split.
      * rewrite app_length. cbn. lia.
      * rewrite forallb_app, Hv. cbn. unfold in_vocab.
        rewrite andb_true_r. apply andb_true_iff. split; [apply Z.leb_le|apply Z.ltb_lt]; lia.
    + intros [Hl Hv]. destruct (exists_last (l := s)) as (r & k & ->); [destruct s; discriminate|].
      rewrite app_length in Hl. cbn in Hl. rewrite forallb_app in Hv.
      apply andb_true_iff in Hv as [Hv1 Hv2]. cbn in Hv2. rewrite andb_true_r in Hv2.
      unfold in_vocab in Hv2. apply andb_true_iff in Hv2 as [H0 H1].
      apply Z.leb_le in H0. apply Z.ltb_lt in H1.
      exists (Z.to_nat k). split; [apply in_seq; lia|].
      apply in_map_iff. exists r. split; [rewrite Z2Nat.id by lia; reflexivity|].
      apply IH. split; [lia|exact Hv1].
Qed.

(* ---------- fill_after_eos ------------------------------------------------------------------------ *)

Fixpoint fill_rec (e : Z) (s : list Z) : list Z :=
  match s with
  | [] => []
  | k :: t => if (k =? e)%Z then k :: map (fun _ => e) t else k :: fill_rec e t
  end.

Definition fill_gen (e : Z) (a b : nat) (s : list Z) : list Z :=
  map2 (fun x k => if 1 <? x then e else k)
       (cumsum_from b (map (fun x => Nat.min x 1) (cumsum_from a (map (fun k => b2n (k =? e)%Z) s)))) s.

Lemma fill_gen_after e : forall s a b, 1 <= a -> 1 <= b -> fill_gen e a b s = map (fun _ => e) s.
Proof.
  induction s as [|k t IH]; intros a b Ha Hb; [reflexivity|].
  unfold fill_gen in *. cbn [map cumsum_from map2].
  replace (Nat.min (a + b2n (k =? e)%Z) 1) with 1 by lia.
  replace (1 <? b + 1) with true by (symmetry; apply Nat.ltb_lt; lia).
  f_equal. apply IH; lia.
Qed.

Lemma fill_gen_before e : forall s, fill_gen e 0 0 s = fill_rec e s.
Proof.
  induction s as [|k t IH]; [reflexivity|].
  unfold fill_gen in *. cbn [map cumsum_from map2 fill_rec]. cbn [Nat.add].
  destruct (k =? e)%Z; cbn [b2n Nat.min Nat.add Nat.ltb Nat.leb]; f_equal.
  - apply (fill_gen_after e t 1 1); lia.
  - exact IH.
Qed.

Lemma fill_after_eos_rec e s : fill_after_eos e s = fill_rec e s.
Proof. exact (fill_gen_before e s). Qed.

Lemma fill_rec_length e s : length (fill_rec e s) = length s.
Proof.
  induction s as [|k t IH]; [reflexivity|]. cbn. destruct (k =? e)%Z; cbn; [now rewrite map_length|now rewrite IH].
Qed.

Lemma fill_rec_canonical e s : canonical e (fill_rec e s) = true.
Proof.
  induction s as [|k t IH]; [reflexivity|]. cbn. destruct (k =? e)%Z eqn:E; cbn; rewrite E; [|exact IH].
  apply forallb_forall. intros x Hx. apply in_map_iff in Hx as (y & <- & _). apply Z.eqb_refl.
Qed.

Lemma fill_rec_fix e s : canonical e s = true -> fill_rec e s = s.
Proof.
  induction s as [|k t IH]; intros H; [reflexivity|]. cbn in *. destruct (k =? e)%Z.
  - f_equal. rewrite forallb_forall in H. clear IH. induction t as [|x t IHt]; [reflexivity|].
    cbn. rewrite IHt by (intros y Hy; apply H; now right). f_equal.
    apply Z.eqb_eq. apply H. now left.
  - f_equal. apply IH. exact H.
Qed.

Lemma fill_rec_vocab V e s : forallb (in_vocab V) s = true -> forallb (in_vocab V) (fill_rec e s) = true.
Proof.
  induction s as [|k t IH]; intros H; [reflexivity|]. cbn in *.
  apply andb_true_iff in H as [Hk Ht]. destruct (k =? e)%Z eqn:E; cbn; rewrite Hk; cbn.
  - apply Z.eqb_eq in E. subst k. apply forallb_forall. intros x Hx.
    apply in_map_iff in Hx as (y & <- & _). exact Hk.
  - apply IH. exact Ht.
Qed.

(* ---------- torch.unique(dim=0) ---------------------------------------------------------------------- *)

Lemma lex_cmp_eq : forall a b, lex_cmp a b = Eq <-> a = b.
Proof.
  induction a as [|x a IH]; intros [|y b]; cbn; split; intros H; try discriminate; try reflexivity.
  - destruct (Z.compare_spec x y) as [->|?|?]; try discriminate. f_equal. apply IH. exact H.
  - injection H as -> ->. rewrite Z.compare_refl. apply IH. reflexivity.
Qed.

Lemma lex_cmp_antisym : forall a b, lex_cmp b a = CompOpp (lex_cmp a b).
Proof.
  induction a as [|x a IH]; intros [|y b]; cbn; try reflexivity.
  rewrite (Z.compare_antisym x y). destruct (x ?= y)%Z; cbn; [apply IH|reflexivity|reflexivity].
Qed.

Lemma lex_cmp_trans : forall a b c, lex_cmp a b = Lt -> lex_cmp b c = Lt -> lex_cmp a c = Lt.
Proof.
  induction a as [|x a IH]; intros [|y b] [|z c] H1 H2; cbn in *; try discriminate; try reflexivity.
  destruct (Z.compare_spec x y) as [->|Hxy|Hxy]; try discriminate.
  - destruct (y ?= z)%Z; try discriminate; [apply (IH b c H1 H2)|reflexivity].
  - destruct (Z.compare_spec y z) as [->|Hyz|Hyz]; try discriminate.
    + apply Z.compare_lt_iff in Hxy. rewrite Hxy. reflexivity.
    + assert (Hxz : (x < z)%Z) by lia. apply Z.compare_lt_iff in Hxz. rewrite Hxz. reflexivity.
Qed.

Definition lex_lt (a b : list Z) : Prop := lex_cmp a b = Lt.

Lemma insert_uniq_in r : forall l x, In x (insert_uniq r l) <-> x = r \/ In x l.
Proof.
  induction l as [|y l IH]; intros x; cbn.
  - intuition.
  - destruct (lex_cmp r y) eqn:E; cbn.
    + apply lex_cmp_eq in E. subst y. intuition.
    + intuition.
    + rewrite IH. intuition.
Qed.

Lemma insert_uniq_sorted r : forall l, StronglySorted lex_lt l -> StronglySorted lex_lt (insert_uniq r l).
Proof.
  induction l as [|y l IH]; intros H; cbn.
  - constructor; constructor.
  - destruct (lex_cmp r y) eqn:E.
    + exact H.
    + constructor; [exact H|]. constructor; [exact E|].
      apply StronglySorted_inv in H as [_ Hy]. rewrite Forall_forall in *. intros z Hz.
      apply (lex_cmp_trans r y z E). apply Hy. exact Hz.
    + apply StronglySorted_inv in H as [Hl Hy]. constructor; [apply IH; exact Hl|].
      rewrite Forall_forall in *. intros z Hz. apply insert_uniq_in in Hz as [->|Hz].
      * unfold lex_lt. rewrite lex_cmp_antisym, E. reflexivity.
      * apply Hy. exact Hz.
Qed.

Lemma unique_rows_in l x : In x (unique_rows l) <-> In x l.
Proof.
  induction l as [|r l IH]; cbn; [reflexivity|]. rewrite insert_uniq_in, IH. intuition.
Qed.

Lemma unique_rows_sorted l : StronglySorted lex_lt (unique_rows l).
Proof. induction l as [|r l IH]; cbn; [constructor|apply insert_uniq_sorted; exact IH]. Qed.

Lemma sorted_nodup l : StronglySorted lex_lt l -> NoDup l.
Proof.
  induction l as [|x l IH]; intros H; [constructor|].
  apply StronglySorted_inv in H as [Hl Hx]. constructor; [|apply IH; exact Hl].
  intros Hin. rewrite Forall_forall in Hx. specialize (Hx x Hin).
  unfold lex_lt in Hx. assert (E : lex_cmp x x = Eq) by (apply lex_cmp_eq; reflexivity). congruence.
Qed.

(* ---------- what the support is --------------------------------------------------------------------------- *)

Theorem support_characterised eos T V s :
  In s (enumerate_support eos T V) <-> in_support eos T (Z.of_nat V) s = true.
Proof.
  unfold enumerate_support, in_support. destruct eos as [e|].
  - rewrite unique_rows_in, in_map_iff. split.
    + intros (u & <- & Hu). apply enum_seqs_in in Hu as [Hl Hv].
      rewrite fill_after_eos_rec, fill_rec_length, Hl, Nat.eqb_refl, fill_rec_vocab, fill_rec_canonical by exact Hv.
      reflexivity.
    + intros H. apply andb_true_iff in H as [H Hc]. apply andb_true_iff in H as [Hl Hv].
      apply Nat.eqb_eq in Hl. exists s. split; [rewrite fill_after_eos_rec; apply fill_rec_fix; exact Hc|].
      apply enum_seqs_in. split; assumption.
  - rewrite enum_seqs_in, andb_true_r, andb_true_iff, Nat.eqb_eq. reflexivity.
Qed.

Lemma support_nodup_eos e T V : NoDup (enumerate_support (Some e) T V).
Proof. apply sorted_nodup, unique_rows_sorted. Qed.

(* ---------- the canonical list of support members, built from the first token --------------------- *)

Fixpoint canonL (e : Z) (T V : nat) : list (list Z) :=
  match T with
  | 0 => [[]]
  | S T' => flat_map (fun v => if (Z.of_nat v =? e)%Z then [repeat e (S T')]
                               else map (cons (Z.of_nat v)) (canonL e T' V)) (seq 0 V)
  end.

Lemma forallb_eqb_repeat e : forall s, forallb (Z.eqb e) s = true -> s = repeat e (length s).
Proof.
  induction s as [|k t IH]; intros H; [reflexivity|]. cbn in *.
  apply andb_true_iff in H as [Hk Ht]. apply Z.eqb_eq in Hk. subst k. f_equal. apply IH. exact Ht.
Qed.

Lemma forallb_repeat {X} (f : X -> bool) x n : f x = true -> forallb f (repeat x n) = true.
Proof. intros H. induction n; cbn; [reflexivity|now rewrite H]. Qed.

Lemma in_vocab_of_nat V v : v < V -> in_vocab (Z.of_nat V) (Z.of_nat v) = true.
Proof. intros H. unfold in_vocab. apply andb_true_iff. split; [apply Z.leb_le|apply Z.ltb_lt]; lia. Qed.

Lemma canonL_in e V : forall T s,
  In s (canonL e T V) <-> in_support (Some e) T (Z.of_nat V) s = true.
Proof.
  unfold in_support. induction T as [|T IH]; intros s; cbn [canonL].
  - split.
    + intros [<-|[]]. reflexivity.
    + destruct s; [left; reflexivity|discriminate].
  - rewrite in_flat_map. split.
    + intros (v & Hv & Hin). apply in_seq in Hv.
      pose proof (in_vocab_of_nat V v ltac:(lia)) as Hiv.
      destruct (Z.eqb_spec (Z.of_nat v) e) as [He|He].
      * destruct Hin as [<-|[]]. rewrite repeat_length, Nat.eqb_refl. rewrite <- He in *.
        rewrite forallb_repeat by exact Hiv. cbn [repeat canonical]. rewrite Z.eqb_refl.
        apply forallb_repeat. apply Z.eqb_refl.
      * apply in_map_iff in Hin as (s' & <- & Hs'). apply IH in Hs'.
        apply andb_true_iff in Hs' as [H Hc]. apply andb_true_iff in H as [Hl Hvv].
        cbn [length forallb canonical]. rewrite Hiv, Hvv, Hc.
        apply Nat.eqb_eq in Hl. rewrite Hl, Nat.eqb_refl.
        destruct (Z.eqb_spec (Z.of_nat v) e); [contradiction|reflexivity].
    + intros H. apply andb_true_iff in H as [H Hc]. apply andb_true_iff in H as [Hl Hvv].
      apply Nat.eqb_eq in Hl. destruct s as [|k s']; [discriminate|].
      cbn in Hl, Hvv, Hc. apply andb_true_iff in Hvv as [Hk Hvv].
      unfold in_vocab in Hk. apply andb_true_iff in Hk as [H0 H1].
      apply Z.leb_le in H0. apply Z.ltb_lt in H1.
      exists (Z.to_nat k). split; [apply in_seq; lia|]. rewrite Z2Nat.id by lia.
      destruct (Z.eqb_spec k e) as [->|He].
      * left. rewrite (forallb_eqb_repeat e s' Hc). cbn. f_equal. f_equal. lia.
      * apply in_map_iff. exists s'. split; [reflexivity|]. apply IH.
        rewrite Hvv, Hc. replace (length s') with T by lia. rewrite Nat.eqb_refl. reflexivity.
Qed.

Lemma NoDup_app' {X} (a b : list X) :
  NoDup a -> NoDup b -> (forall x, In x a -> ~ In x b) -> NoDup (a ++ b).
Proof.
  induction a as [|x a IH]; intros Ha Hb Hd; [exact Hb|].
  cbn. inversion Ha as [|? ? Hx Ha']; subst. constructor.
  - intros Hin. apply in_app_or in Hin as [Hin|Hin]; [contradiction|]. apply (Hd x); [now left|exact Hin].
  - apply IH; [exact Ha'|exact Hb|]. intros y Hy. apply Hd. now right.
Qed.

Lemma NoDup_flat_map {X Y} (f : X -> list Y) : forall l,
  NoDup l -> (forall x, In x l -> NoDup (f x)) ->
  (forall x y z, In x l -> In y l -> In z (f x) -> In z (f y) -> x = y) ->
  NoDup (flat_map f l).
Proof.
  induction l as [|a l IH]; intros Hl Hf Hd; [constructor|].
  cbn. inversion Hl as [|? ? Ha Hl']; subst. apply NoDup_app'.
  - apply Hf. now left.
  - apply IH; [exact Hl'| |]; intros; [apply Hf; now right|apply (Hd x y z); try (now right); assumption].
  - intros z Hz Hin. apply in_flat_map in Hin as (y & Hy & Hzy).
    assert (a = y) by (apply (Hd a y z); [now left|now right|exact Hz|exact Hzy]). subst y. contradiction.
Qed.

Lemma canonL_nodup e V : forall T, NoDup (canonL e T V).
Proof.
  induction T as [|T IH]; cbn [canonL]; [constructor; [intros []|constructor]|].
  apply NoDup_flat_map.
  - apply seq_NoDup.
  - intros v _. destruct (Z.of_nat v =? e)%Z; [constructor; [intros []|constructor]|].
    apply Injective_map_NoDup; [|exact IH]. intros a b H. injection H as ->. reflexivity.
  - intros v w z _ _ Hv Hw.
    assert (Hhd : forall u, In z (if (Z.of_nat u =? e)%Z then [repeat e (S T)]
                                 else map (cons (Z.of_nat u)) (canonL e T V)) ->
                            exists t, z = Z.of_nat u :: t).
    { intros u Hu. destruct (Z.eqb_spec (Z.of_nat u) e) as [He|He].
      - destruct Hu as [<-|[]]. exists (repeat e T). rewrite He. reflexivity.
      - apply in_map_iff in Hu as (t & <- & _). exists t. reflexivity. }
    destruct (Hhd v Hv) as (t1 & ->). destruct (Hhd w Hw) as (t2 & H). injection H as H _. lia.
Qed.

Lemma support_perm_canon e T V : Permutation (enumerate_support (Some e) T V) (canonL e T V).
Proof.
  apply NoDup_Permutation; [apply support_nodup_eos|apply canonL_nodup|].
  intros s. rewrite support_characterised, canonL_in. reflexivity.
Qed.

(* ---------- rational sums ---------------------------------------------------------------------------------- *)

Local Open Scope Q_scope.


Lemma sumQ_cons x l : sumQ (x :: l) = x + sumQ l.
Proof. reflexivity. Qed.
Lemma sumQ_nil : sumQ [] = 0.
Proof. reflexivity. Qed.

Lemma sumQ_app a b : sumQ (a ++ b) == sumQ a + sumQ b.
Proof.
  induction a as [|x a IH]; cbn [app]; rewrite ?sumQ_cons, ?sumQ_nil; [ring|rewrite IH; ring].
Qed.

Lemma sumQ_perm {X} (f : X -> Q) l l' : Permutation l l' -> sumQ (map f l) == sumQ (map f l').
Proof.
  induction 1 as [|x l l' _ IH|x y l|l l' l'' _ IH1 _ IH2]; cbn [map]; rewrite ?sumQ_cons.
  - reflexivity.
  - rewrite IH. reflexivity.
  - ring.
  - rewrite IH1. exact IH2.
Qed.

Lemma sumQ_ext {X} (f g : X -> Q) l : (forall x, In x l -> f x == g x) -> sumQ (map f l) == sumQ (map g l).
Proof.
  induction l as [|x l IH]; intros H; cbn [map]; rewrite ?sumQ_cons; [reflexivity|].
  rewrite (H x) by (now left). rewrite IH by (intros; apply H; now right). reflexivity.
Qed.

Lemma sumQ_scale {X} (c : Q) (f : X -> Q) l : sumQ (map (fun x => c * f x) l) == c * sumQ (map f l).
Proof.
  induction l as [|x l IH]; cbn [map]; rewrite ?sumQ_cons, ?sumQ_nil; [ring|rewrite IH; ring].
Qed.

Lemma sumQ_flat_map {X Y} (g : Y -> Q) (f : X -> list Y) l :
  sumQ (map g (flat_map f l)) == sumQ (map (fun x => sumQ (map g (f x))) l).
Proof.
  induction l as [|x l IH]; cbn [flat_map map]; rewrite ?sumQ_cons; [reflexivity|].
  rewrite map_app, sumQ_app, IH. reflexivity.
Qed.

Lemma sumQ_plus {X} (f g : X -> Q) l :
  sumQ (map (fun x => f x + g x) l) == sumQ (map f l) + sumQ (map g l).
Proof.
  induction l as [|x l IH]; cbn [map]; rewrite ?sumQ_cons, ?sumQ_nil; [ring|rewrite IH; ring].
Qed.

Lemma sumQ_zero {X} (l : list X) : sumQ (map (fun _ => 0) l) == 0.
Proof. induction l as [|x l IH]; cbn [map]; rewrite ?sumQ_cons, ?sumQ_nil; [reflexivity|rewrite IH; ring]. Qed.

Lemma sumQ_swap {X Y} (f : X -> Y -> Q) lx ly :
  sumQ (map (fun x => sumQ (map (fun y => f x y) ly)) lx) ==
  sumQ (map (fun y => sumQ (map (fun x => f x y) lx)) ly).
Proof.
  induction lx as [|x lx IH]; cbn [map]; rewrite ?sumQ_cons, ?sumQ_nil.
  - rewrite sumQ_zero. reflexivity.
  - rewrite IH. rewrite <- sumQ_plus. apply sumQ_ext. intros y _. rewrite sumQ_cons. reflexivity.
Qed.

(* Q with multiplication is a monoid for Leibniz equality *)
Lemma Qmult_1_l_eq (x : Q) : Qmult 1 x = x.
Proof. destruct x as [n d]. unfold Qmult. cbn. destruct n; reflexivity. Qed.
Lemma Qmult_1_r_eq (x : Q) : Qmult x 1 = x.
Proof. destruct x as [n d]. unfold Qmult. cbn. rewrite Z.mul_1_r, Pos.mul_1_r. reflexivity. Qed.
Lemma Qmult_assoc_eq (x y z : Q) : Qmult x (Qmult y z) = Qmult (Qmult x y) z.
Proof. unfold Qmult. cbn. rewrite Z.mul_assoc, Pos.mul_assoc. reflexivity. Qed.

(* ---------- normalisation ------------------------------------------------------------------------------------- *)

Section Mass.
  Variable p : list Z -> list Q.      (* extension probabilities after a prefix *)
  Variable V : nat.
  Hypothesis p_len : forall pre, length (p pre) = V.
  Hypothesis p_one : forall pre, sumQ (p pre) == 1.

  Definition rows_pre (pre s : list Z) : list (list Q) :=
    map (fun i => p (pre ++ firstn i s)) (seq 0 (length s)).

  Definition sprob (eos : option Z) (pre s : list Z) : Q :=
    spec_slp Qmult 1 (Z.of_nat V) eos (rows_pre pre s) s.

  Lemma rows_pre_cons pre k s : rows_pre pre (k :: s) = p pre :: rows_pre (pre ++ [k]) s.
  Proof.
    unfold rows_pre. cbn [length seq map firstn]. rewrite app_nil_r. f_equal.
    rewrite <- seq_shift, map_map. apply map_ext. intros i. cbn [firstn].
    rewrite <- app_assoc. reflexivity.
  Qed.

  Lemma sum_row pre : sumQ (map (fun v => nth v (p pre) 1) (seq 0 V)) == 1.
  Proof.
    rewrite <- (p_len pre). rewrite <- (list_eq_map_nth 1 (p pre)). apply p_one.
  Qed.

  Lemma mass_canonL e : forall T pre, sumQ (map (sprob (Some e) pre) (canonL e T V)) == 1.
  Proof.
    induction T as [|T IH]; intros pre; cbn [canonL].
    - cbn. ring.
    - rewrite sumQ_flat_map. rewrite <- (sum_row pre). apply sumQ_ext.
      intros v Hv. apply in_seq in Hv.
      pose proof (in_vocab_of_nat V v ltac:(lia)) as Hiv.
      destruct (Z.eqb_spec (Z.of_nat v) e) as [He|He].
      + cbn [map sumQ fold_right repeat]. unfold sprob. rewrite rows_pre_cons. cbn [spec_slp].
        rewrite <- He. rewrite Hiv, Z.eqb_refl, Nat2Z.id. ring.
      + rewrite map_map.
        rewrite (sumQ_ext _ (fun s' => nth v (p pre) 1 * sprob (Some e) (pre ++ [Z.of_nat v]) s')).
        * rewrite sumQ_scale, IH. ring.
        * intros s' _. unfold sprob. rewrite rows_pre_cons. cbn [spec_slp].
          rewrite Hiv, Nat2Z.id. destruct (Z.eqb_spec (Z.of_nat v) e); [contradiction|reflexivity].
  Qed.

  Lemma sprob_snoc r d : forallb (in_vocab (Z.of_nat V)) [d] = true ->
    sprob None [] (r ++ [d]) = Qmult (sprob None [] r) (nth (Z.to_nat d) (p r) 1).
  Proof.
    intros Hd. cbn in Hd. rewrite andb_true_r in Hd. unfold sprob.
    change (rows_pre [] (r ++ [d])) with (lm_rows (fun _ => p) 0 (r ++ [d])).
    change (rows_pre [] r) with (lm_rows (fun _ => p) 0 r).
    rewrite lm_rows_snoc.
    rewrite (spec_slp_snoc_open Qmult 1 Qmult_1_l_eq Qmult_1_r_eq Qmult_assoc_eq (Z.of_nat V) None)
      by (try exact I; apply lm_rows_length).
    rewrite Hd. reflexivity.
  Qed.

  Lemma mass_enum : forall T, sumQ (map (sprob None []) (enum_seqs T V)) == 1.
  Proof.
    induction T as [|T IH]; cbn [enum_seqs].
    - cbn. ring.
    - rewrite sumQ_flat_map.
      rewrite (sumQ_ext _ (fun d => sumQ (map (fun r => sprob None [] r * nth d (p r) 1) (enum_seqs T V)))).
      + rewrite <- (sumQ_swap (fun r d => sprob None [] r * nth d (p r) 1)).
        rewrite <- IH. apply sumQ_ext. intros r _. rewrite sumQ_scale, sum_row. ring.
      + intros d Hd. apply in_seq in Hd. rewrite map_map. apply sumQ_ext. intros r _.
        rewrite sprob_snoc by (cbn; rewrite in_vocab_of_nat by lia; reflexivity).
        rewrite Nat2Z.id. reflexivity.
  Qed.

  Lemma map2_const_l {X Y W} (g : Y -> W) : forall (l1 : list X) (l2 : list Y),
    length l1 = length l2 -> map2 (fun _ y => g y) l1 l2 = map g l2.
  Proof.
    induction l1 as [|x l1 IH]; intros [|y l2] H; try discriminate; [reflexivity|].
    cbn. f_equal. apply IH. cbn in H. lia.
  Qed.

  Lemma dist_log_prob_sprob eos value : (forall s, In s value -> s <> []) ->
    dist_log_prob Qmult 1 (fun _ => p) (Z.of_nat V) eos value = map (sprob eos []) value.
  Proof.
    intros Hne.
    rewrite (dist_log_prob_spec Qmult 1 Qmult_1_l_eq (fun _ => p) (Z.of_nat V) eos value Hne).
    apply (map2_const_l (sprob eos [])). apply seq_length.
  Qed.

  (* "the wrapper's probabilities over its enumerated support sum to one" *)
  Theorem support_mass_one eos T : (1 <= T)%nat ->
    sumQ (dist_log_prob Qmult 1 (fun _ => p) (Z.of_nat V) eos (enumerate_support eos T V)) == 1.
  Proof.
    intros HT. rewrite dist_log_prob_sprob.
    - destruct eos as [e|].
      + rewrite (sumQ_perm _ _ _ (support_perm_canon e T V)). apply mass_canonL.
      + apply mass_enum.
    - intros s Hs. apply support_characterised in Hs. unfold in_support in Hs.
      apply andb_true_iff in Hs as [Hs _]. apply andb_true_iff in Hs as [Hl _].
      apply Nat.eqb_eq in Hl. destruct s; [cbn in Hl; lia|discriminate].
  Qed.
End Mass.

(* ---------- samples lie in the support ---------------------------------------------------------------- *)

Local Close Scope Q_scope.

Lemma first_eos_nth e : forall s i, first_eos e s = Some i -> nth i s 0%Z = e.
Proof.
  induction s as [|k t IH]; intros i H; [discriminate|]. cbn in H.
  destruct (Z.eqb_spec k e) as [->|]; [injection H as <-; reflexivity|].
  destruct (first_eos e t) as [j|]; [|discriminate]. injection H as <-. apply IH. reflexivity.
Qed.

Lemma canonical_pad e : forall s i k, first_eos e s = Some i -> canonical e s = true ->
  canonical e (s ++ repeat e k) = true.
Proof.
  induction s as [|x t IH]; intros i k Hf Hc; [discriminate|]. cbn in *.
  destruct (x =? e)%Z.
  - rewrite forallb_app, Hc. apply forallb_repeat. apply Z.eqb_refl.
  - destruct (first_eos e t) as [j|]; [|discriminate]. apply (IH j k eq_refl Hc).
Qed.


Section Samples.
  Context {A : Type} (op : A -> A -> A) (unit : A).
  Hypothesis unit_l : forall x, op unit x = x.
  Hypothesis unit_r : forall x, op x unit = x.
  Hypothesis op_assoc : forall x y z, op x (op y z) = op (op x y) z.

  Theorem samples_in_support lm (V : nat) eos N T draws st :
    (forall d, In d draws -> draw_ok (Z.of_nat V) N d) ->
    walk op unit lm eos N (Some T) draws = Some st ->
    forall n, n < N -> In (pad_path eos T (column 0%Z n draws)) (enumerate_support eos T V).
  Proof.
    intros Hd Hw n Hn.
    destruct (walk_correct op unit unit_l unit_r op_assoc lm (Z.of_nat V) eos N (Some T) draws st Hd Hw)
      as (Hy & Hl1 & _ & Hm & Hstop & Hcol).
    specialize (Hm T eq_refl). destruct (Hcol n Hn) as (_ & _ & Hcan & Hfin). clear Hcol.
    set (col := column 0%Z n draws) in *.
    assert (Hlen : length col = length draws) by apply column_length.
    assert (Hvoc : forallb (in_vocab (Z.of_nat V)) col = true).
    { apply forallb_forall. intros k Hk. unfold col, column in Hk.
      apply in_map_iff in Hk as (d & <- & Hin). apply (draw_ok_nth (Z.of_nat V) N d n (Hd d Hin) Hn). }
    apply support_characterised. unfold in_support, pad_path.
    destruct eos as [e|].
    - specialize (Hcan e eq_refl).
      rewrite app_length, repeat_length, Hlen.
      replace (length draws + (T - length draws)) with T by lia. rewrite Nat.eqb_refl.
      destruct (first_eos e col) as [i|] eqn:Hfe.
      + rewrite forallb_app, Hvoc, (canonical_pad e col i _ Hfe Hcan).
        rewrite forallb_repeat; [reflexivity|].
        rewrite <- (first_eos_nth e col i Hfe). rewrite forallb_forall in Hvoc. apply Hvoc.
        apply nth_In. apply (first_eos_lt e col i Hfe).
      + assert (HS : length draws = T).
        { destruct Hstop as [(m & Hm' & HS)|Hall]; [injection Hm' as <-; exact HS|].
          assert (Hlf : length (wfin st) = N).
          { unfold walk in Hw.
            destruct (walk_loop_inv op unit unit_l unit_r op_assoc lm (Z.of_nat V) (Some e) N (Some T) draws []
                        (init_state unit N) st (inv_init op unit lm (Z.of_nat V) (Some e) N) Hd
                        (fun m _ => Nat.le_0_l m) Hw) as ((_ & _ & _ & H & _) & _). exact H. }
          pose proof (all_true_nth (wfin st) n Hall ltac:(lia)) as Hf.
          apply Hfin in Hf as (e' & i & He & Hfe'). injection He as <-. congruence. }
        rewrite HS, Nat.sub_diag. cbn [repeat]. rewrite app_nil_r, Hvoc, Hcan. reflexivity.
    - destruct Hstop as [(m & Hm' & HS)|Hall].
      + injection Hm' as <-. rewrite Hlen, HS, Nat.eqb_refl, Hvoc. reflexivity.
      + (* without eos no path ever finishes: the walk can only stop at the limit *)
        destruct N as [|N']; [lia|].
        assert (Hlf : length (wfin st) = S N').
        { unfold walk in Hw.
          destruct (walk_loop_inv op unit unit_l unit_r op_assoc lm (Z.of_nat V) None (S N') (Some T) draws []
                      (init_state unit (S N')) st (inv_init op unit lm (Z.of_nat V) None (S N')) Hd
                      (fun m _ => Nat.le_0_l m) Hw) as ((_ & _ & _ & H & _) & _). exact H. }
        pose proof (all_true_nth (wfin st) n Hall ltac:(lia)) as Hf.
        apply Hfin in Hf as (e' & i & He & _). discriminate.
  Qed.
End Samples.
