(* C09 — what the interpreted source of `_get_padding_buffers` / `pad_variable` computes on TABULATED tensors, written
   as plain list functions (definitions only).  Tie.v proves that interpreting the translated source yields exactly
   these (symbolic run); TieModel.v proves that these are PV.C09.Model's functions (flat buffers of cells).

   N, T, F: the sizes of x;  xf i j l = x[i, j, l];  lf, pf, qf: lens, pad[0], pad[1] (non-negative). *)
From Coq Require Import List ZArith Bool Arith.
From PV Require Import MiniPy.Syntax MiniTorch.OpsC09.
From PV Require Import C09.Model.
Import ListNotations.
Local Open Scope nat_scope.

Definition ZI (f : nat -> nat) (i : nat) : Z := Z.of_nat (f i).

(* a flat buffer as the 1-dimensional tensor masked_select returns *)
Definition buf (l : list val) : tn val := mkTn [List.length l] l.

Section Src.
  Variables (N T F : nat) (xf : nat -> nat -> nat -> val) (lf pf qf : nat -> nat).

  Definition xT : tn val := mkTn [N; T; F] (tab3 N T F xf).
  Definition lmaxS : nat := list_max (map pf (seq 0 N)).
  Definition rmaxS : nat := list_max (map qf (seq 0 N)).

  (* (v.unsqueeze(1) > arange[:W]).unsqueeze(2).expand(N, W, F) *)
  Definition gt_mask (v : nat -> nat) (W : nat) : list bool := tab3 N W F (fun i j _ => (ZI v i >? Z.of_nat j)%Z).

  Definition refl_left : list val :=
    OpsC09.mselect (gt_mask pf lmaxS)
      (tab3 N lmaxS F (fun i j l => xf i (Z.to_nat (Z.max 0 (ZI pf i - Z.of_nat j))) l)).
  Definition refl_right : list val :=
    OpsC09.mselect (gt_mask qf rmaxS)
      (tab3 N rmaxS F (fun i j l => xf i (Z.to_nat (Z.max 0 (ZI lf i - Z.of_nat j - 2))) l)).
  Definition repl_left : list val :=
    OpsC09.mselect (gt_mask pf lmaxS) (tab3 N lmaxS F (fun i _ l => xf i 0 l)).
  Definition repl_right : list val :=
    OpsC09.mselect (gt_mask qf rmaxS) (tab3 N rmaxS F (fun i _ l => xf i (Z.to_nat (ZI lf i - 1)) l)).

  Definition refl_bad : bool :=
    existsb (fun i => (ZI pf i >=? ZI lf i)%Z) (seq 0 N) || existsb (fun i => (ZI qf i >=? ZI lf i)%Z) (seq 0 N).
  Definition repl_bad : bool := existsb (fun i => (ZI lf i <? 1)%Z) (seq 0 N).

  Definition src_gpb (md : mode) : res (tn val * tn val) :=
    match md with
    | Constant => Ok (xT, xT)
    | Reflect => if refl_bad then ErrNotImpl
                 else match N with 0 => ErrRuntime | _ => Ok (buf refl_left, buf refl_right) end
    | Replicate => if repl_bad then ErrRuntime
                   else match N with 0 => ErrRuntime | _ => Ok (buf repl_left, buf repl_right) end
    | OtherMode => ErrValue
    end.

  (* pad_variable after the shape checks *)
  Definition newf (i : nat) : nat := lf i + (pf i + qf i).
  Definition TpS : nat := list_max (map newf (seq 0 N)).
  (* the integer tensors as the code computes them *)
  Definition midZ (i : nat) : Z := (ZI pf i + ZI lf i)%Z.                    (* pad[0] + lens *)
  Definition newZ (i : nat) : Z := (ZI lf i + (ZI pf i + (ZI qf i + 0)))%Z.  (* lens + pad.sum(0) *)
  Definition zmask (v : nat -> Z) (W : nat) (i j : nat) : bool := (v i >? Z.of_nat j)%Z.

  Definition src_pad (value : val) (md : mode) : res (list val) :=
    bind (src_gpb md) (fun bufs =>
      match N with
      | 0 => ErrRuntime
      | _ =>
          let xs := OpsC09.mselect (tab3 N T F (fun i j _ => zmask (ZI lf) T i j)) (tab3 N T F xf) in
          match OpsC09.mscatter (tab3 N TpS F (fun i j _ => zmask midZ TpS i j && negb (zmask (ZI pf) TpS i j)))
                                (tab3 N TpS F (fun _ _ _ => value)) xs with
          | None => ErrRuntime
          | Some p1 =>
              match md with
              | Constant => Ok p1
              | _ =>
                  match OpsC09.mscatter (tab3 N TpS F (fun i j _ => zmask (ZI pf) TpS i j)) p1 (dat (fst bufs)) with
                  | None => ErrRuntime
                  | Some p2 =>
                      match OpsC09.mscatter (tab3 N TpS F (fun i j _ => zmask newZ TpS i j && negb (zmask midZ TpS i j)))
                                            p2 (dat (snd bufs)) with
                      | None => ErrRuntime
                      | Some p3 => Ok p3
                      end
                  end
              end
          end
      end).
End Src.
