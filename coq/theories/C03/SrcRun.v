(* C03 — the translated source of `_string_matching` (return_mask = True: the call `optimal_completion` makes) and of
   `optimal_completion` (_string.py) as executables: the environment [ext03], the encoding of the model's inputs as MiniPy
   tensor values, and the correspondence entry points [src_mask_check] / [src_oc_check].  Definitions only; the lemmas are
   in Tie*.v.

   PV.Gen.C03Src.* are regenerated from /repo/src/pydrobert/torch/_string.py on every C03 run by harness/py2coq/translate.py:
     sm3_body   the WHOLE body of _string_matching (every branch)
     sm3_pre    "assert not return_mask ..." .. "if eos is not None: ... else: ..."   (checks, uniform-cost shortcut, layout, lengths)
     sm3_row0   "rrange = torch.arange(..)" .. "row = row.unsqueeze(1).expand(..)"     (row 0 and del_mat)
     sm3_main   "if return_mask:" (before the loop) .. "if return_mask:" (after it)  = first mask row, the `for hyp_idx` loop,
                the exit that stacks the masks and returns (the return_prf_dsts alternatives are inside, not run)
     sm3_loop   the `for hyp_idx in range(..)` statement alone (= 2nd statement of sm3_main)
     sm3_lens   the whole body of `_lens_from_eos`
     oc_body    the WHOLE body of optimal_completion; oc_call / oc_post / oc_fin: its first statement (the call), the
                statements "if not batch_first:" .. "target_mask = ..", and "targets.masked_scatter_(..)" .. "return targets"
   The decorators (@script, @functional_wrapper) are outside the bodies: the tie is about the text as eager CPython runs it.

   [ext03] = the new vocabulary of the mask path and of the post-processing ([ext03_new], meanings in PV.MiniTorch.OpsC03),
   falling back to PV.C01.SrcRun.ext01 (read-only) for everything the plain edit-distance path already uses.  What is new:
     torch.zeros((a, b), device=, dtype=torch.bool)   torch.arange(n, device=)  [long]   torch.stack(list, 0)
     x.masked_fill(mask, float("inf"))                x.min(d, keepdim=True)             x[i] = v  (integer i, bool tensors)
     float > long, float == float, long < long (tensors, broadcasting), long > int           a & b (bool, broadcasting)
     _lens_from_eos(tok, eos, dim) = C07.SrcRun.call_body on THIS unit's sm3_lens
   and, for optimal_completion, see the second half of [ext03_new].
   `_string_matching(...)` called from optimal_completion is the interpretation of sm3_body by [ext03_sm] on fresh
   variables (parameters bound positionally / by keyword, the others to their defaults; `padding` is not read on this path).
   ASSUMPTIONS as in C01.SrcRun: ref / hyp long tensors, costs Python floats (exact rationals), dtypes select conversions
   only, devices ignored, IEEE rounding not modelled. *)
From Coq Require Import ZArith QArith Qabs List String Bool.
From PV Require Import MiniPy.Syntax MiniPy.Interp MiniTorch.Ops MiniTorch.OpsC07 MiniTorch.OpsC01 MiniTorch.OpsC03.
From PV Require Import Gen.C03Src.
From PV Require Import C01.SrcRun.
From PV Require C07.SrcRun C01.Obs C01.Model C03.Model.
Import ListNotations.
Local Open Scope string_scope.

Definition kw1_is (n : string) (t : val) (kw : list (string * val)) : bool :=
  match kw with [(a, v)] => (is a n && val_eqb v t)%bool | _ => false end.

(* a Python list of boolean tensors *)
Fixpoint dec_bools (l : list val) : option (list (tn bool)) :=
  match l with
  | [] => Some []
  | v :: r => match dec01 v, dec_bools r with Some (AB t), Some ts => Some (t :: ts) | _, _ => None end
  end.

(* the calls that are not in ext01's vocabulary (None: not one of them - ext01 is asked) *)
Definition ext03_new (f : string) (args : list val) (kw : list (string * val)) (st : state) : option (outcome val) :=
  if is f "_lens_from_eos" then
    Some match args, kw with
         | [tok; eos; dim], [] =>
             C07.SrcRun.call_body (fun x => x) sm3_lens
               (("tok", tok) :: ("eos", eos) :: ("dim", dim) :: C07.SrcRun.globals07) st
         | _, _ => Stuck "_lens_from_eos: arguments"
         end
  else if is f "torch.zeros" then
    Some match args with
         | [VTuple [VInt a; VInt b]] =>
             if kw2_is "device" device_token "dtype" bool_token kw
             then (if (Z.ltb a 0 || Z.ltb b 0)%bool then oob "zeros" else Ok (enc_b (full [Z.to_nat a; Z.to_nat b] false)) st)
             else Stuck "zeros: keyword"
         | _ => Stuck "zeros"
         end
  else if is f "torch.arange" then
    match args with
    | [VInt n] => if kw1_is "device" device_token kw then Some (ret01 "arange" (option_map AI (arange n)) st) else None
    | _ => None
    end
  else if is f "torch.stack" then
    Some match args, kw with
         | [VList l; VInt 0], [] =>
             match dec_bools l with
             | Some ts => ret01 "stack" (option_map AB (stack0 ts)) st
             | None => Stuck "stack: not a list of boolean tensors"
             end
         | _, _ => Stuck "stack"
         end
  else if is f "$method.min" then
    match kw with
    | [] => None
    | _ :: _ =>
        Some match args with
             | [t; VInt d] =>
                 if kw1_is "keepdim" (VBool true) kw then
                   match dec01 t with
                   | Some (AX x) =>
                       match min_dim_keep x d with
                       | Some (Some (v, i)) => Ok (VTuple [enc_x v; enc_i i]) st
                       | Some None => Exc index_error st
                       | None => oob "min keepdim"
                       end
                   | _ => Stuck "min: not a float tensor"
                   end
                 else Stuck "min: keyword"
             | _ => Stuck "min"
             end
    end
  else if is f "$method.masked_fill" then
    Some match args, kw with
         | [t; m; v], [] =>
             match dec01 t, dec01 m, val_fx v with
             | Some (AX x), Some (AB mk), Some c => ret01 "masked_fill" (option_map AX (masked_fill x mk c)) st
             | _, _, _ => Stuck "masked_fill"
             end
         | _, _ => Stuck "masked_fill"
         end
  else if is f "$setitem" then
    match args, kw with
    | [t; VInt i; v], [] =>
        Some match dec01 t, dec01 v with
             | Some (AB x), Some (AB y) =>
                 match set_row0 x i y with
                 | Some (Some r) => Ok (enc_b r) st
                 | Some None => Exc index_error st
                 | None => oob "setitem row"
                 end
             | _, _ => Stuck "setitem: integer key"
             end
    | _, _ => None
    end
  else if is f "operator" then
    match args, kw with
    | [VStr o; a; b], [] =>
        if is o "and" then
          Some match dec01 a, dec01 b with
               | Some (AB x), Some (AB y) => ret01 "and" (option_map AB (and_bb x y)) st
               | _, _ => Stuck "and"
               end
        else None
    | _, _ => None
    end
  else if is f "compare" then
    match args, kw with
    | [VStr o; a; b], [] =>
        if is o "gt" then
          Some match dec01 a, dec01 b, b with
               | Some (AX x), Some (AI y), _ => ret01 "gt" (option_map AB (gt_xi x y)) st
               | Some (AI x), None, VInt c => Ok (enc_b (cmp_scalar Z.gtb x c)) st
               | _, _, _ => Stuck "compare gt"
               end
        else if is o "eq" then
          match dec01 a, dec01 b with
          | Some (AX x), Some (AX y) => Some (ret01 "eq" (option_map AB (eq_xx x y)) st)
          | _, _ => None
          end
        else if is o "lt" then
          match dec01 a, dec01 b with
          | Some (AI x), Some (AI y) => Some (ret01 "lt" (option_map AB (cmp_i Z.ltb x y)) st)
          | _, _ => None
          end
        else None
    | _, _ => None
    end
  else None.

(* the environment of `_string_matching`'s body *)
Definition ext03_sm (f : string) (args : list val) (kw : list (string * val)) (st : state) : outcome val :=
  match ext03_new f args kw st with
  | Some o => o
  | None => ext01 f args kw st
  end.

Definition ext03 := ext03_sm.

(* ---- the arguments ----------------------------------------------------------------------------------- *)
(* _string_matching(ref, hyp, eos, include_eos, batch_first, ins_cost, del_cost, sub_cost, warn, return_mask=True,
   exclude_last=excl): the call made by optimal_completion; norm / return_prf_dsts / return_mistakes have their default
   False, padding its default config.INDEX_PAD_VALUE = -100 (not read on this path) *)
Definition sm3_vars (ref hyp : val) (eos : val) (incl bf : val) (qi qd qs : val) (warn : val) (excl : val)
  : list (string * val) :=
  [("ref", ref); ("hyp", hyp); ("eos", eos); ("include_eos", incl);
   ("batch_first", bf); ("ins_cost", qi); ("del_cost", qd); ("sub_cost", qs);
   ("warn", warn); ("norm", VBool false); ("return_mask", VBool true); ("return_prf_dsts", VBool false);
   ("exclude_last", excl); ("padding", VInt (-100)); ("return_mistakes", VBool false)] ++ globals01.

(* the blocks in sequence *)
Definition sm3_blocks : stmt := SSeq sm3_pre (SSeq sm3_row0 sm3_main).

(* ---- executable entry points for the correspondence -------------------------------------------------
   [ref] / [hyp]: the matrix exactly as handed to the implementation, as a list of rows (N rows when batch_first,
   else one row per time step with N entries).  Costs k/scale as exact rationals. *)
Definition cfg3_vars (c : C01.Model.cfg) (scale : Z) (N : nat) (ref hyp : list (list Z)) : list (string * val) :=
  sm3_vars (enc_i (mat_tensor (C01.Model.c_bf c) N ref)) (enc_i (mat_tensor (C01.Model.c_bf c) N hyp))
    (opt_int (C01.Model.c_eos c)) (VBool (C01.Model.c_incl c)) (VBool (C01.Model.c_bf c))
    (VQ (cost_q scale (C01.Model.c_ins c))) (VQ (cost_q scale (C01.Model.c_del c))) (VQ (cost_q scale (C01.Model.c_sub c)))
    (VBool false) (VBool (C01.Model.c_excl c)).

(* outer None: the interpreter got stuck / returned something that is not a boolean tensor; Some None: the source raised *)
Definition src_mask (body : stmt) (c : C01.Model.cfg) (scale : Z) (N : nat) (ref hyp : list (list Z))
  : option (option (tn bool)) :=
  match Interp.run ext03 body (cfg3_vars c scale N ref hyp) with
  | Ok v _ => match dec01 v with
              | Some (AB t) => Some (Some t)
              | _ => None
              end
  | Exc _ _ => Some None
  | Stuck _ => None
  end.

Fixpoint bools_eqb (a b : list bool) : bool :=
  match a, b with
  | [], [] => true
  | x :: a', y :: b' => (Bool.eqb x y && bools_eqb a' b')%bool
  | _, _ => false
  end.

(* [obs]: the (H', R, N) mask the implementation returned, as nested lists; R is passed because an empty H' x R x N
   nesting does not show it *)
Definition src_mask_check1 (body : stmt) (c : C01.Model.cfg) (scale : Z) (N R : nat) (ref hyp : list (list Z))
  (obs : list (list (list bool))) : bool :=
  match src_mask body c scale N ref hyp with
  | Some (Some t) => (nats_eqb (shp t) [List.length obs; R; N] && bools_eqb (dat t) (List.concat (List.concat obs)))%bool
  | _ => false
  end.

(* the blocks run in sequence AND the whole body as one term *)
Definition src_mask_check (c : C01.Model.cfg) (scale : Z) (N R : nat) (ref hyp : list (list Z))
  (obs : list (list (list bool))) : bool :=
  (src_mask_check1 sm3_blocks c scale N R ref hyp obs && src_mask_check1 sm3_body c scale N R ref hyp obs)%bool.
