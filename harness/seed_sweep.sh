#!/bin/sh
# developer tool: run every claimed quick check for several seeds on the unchanged tree; report any alarm
cd /verif
for seed in "$@"; do
  for p in $(python3 -c "import json;print(' '.join(c['property_id'] for c in json.load(open('/verif/MANIFEST.json'))['checks']))"); do
    VERIF_SEED=$seed /venv/bin/python harness/vcheck.py $p --tier quick > /tmp/sweep_${p}_$seed.log 2>&1; rc=$?
    echo "seed=$seed $p rc=$rc $(grep -c '^VIOLATION' /tmp/sweep_${p}_$seed.log) $(tail -1 /tmp/sweep_${p}_$seed.log | cut -c1-120)"
  done
done
