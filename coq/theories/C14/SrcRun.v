(* C14 — the translated source of BucketBatchSampler.__iter__ as an executable (definitions only;
   the lemmas are in Tie.v).  PV.Gen.C14Src.bbs_iter is regenerated from
   /repo/src/pydrobert/torch/_dataloaders.py on every run by harness/py2coq/translate.py.

   The method needs nothing outside MiniPy's own subset (dict(), len(), setdefault, append,
   items, sorted with a key, yield, del): [ext_none] is never consulted.  The generator's
   yields are the interpreter's "yield" events. *)
From Coq Require Import ZArith QArith List String Bool Arith.
From PV Require Import C14.Model MiniPy.Syntax MiniPy.Interp Gen.C14Src.
Import ListNotations.
Local Open Scope string_scope.

Definition ext_none (f : string) (args : list val) (kw : list (string * val)) (st : state) : outcome val :=
  Stuck ("C14: no external call expected: " ++ f).

Definition zn (n : nat) : val := VInt (Z.of_nat n).
Definition vnats (l : list nat) : val := VList (map zn l).

(* a Python dict with natural keys and values, from an association list *)
Definition enc_tbl (t : list (nat * nat)) : val := VDict (map (fun kv => (zn (fst kv), zn (snd kv))) t).

(* the sampler object: its four attributes *)
Definition self_of (s : list nat) (i2b b2s : val) (drop : bool) : val :=
  VDict [(VStr "sampler", vnats s); (VStr "idx2bucket", i2b); (VStr "bucket2size", b2s);
         (VStr "drop_incomplete", VBool drop)].

Definition self_vars (s : list nat) (d1 d2 : list (val * val)) (drop : bool) : list (string * val) :=
  [("self", self_of s (VDict d1) (VDict d2) drop)].
Definition runtime_error : string := "RuntimeError".

(* batches: Dict[H, List[int]] *)
Definition enc_open (d : dict) : val := VDict (map (fun kv => (zn (fst kv), vnats (snd kv))) d).

Definition yield_ev (b : list nat) : event := ("yield", [vnats b]).

(* ---- executable entry point for the correspondence -------------------------------------- *)
Fixpoint nats_of (l : list val) : option (list nat) :=
  match l with
  | [] => Some []
  | VInt z :: r => if Z.leb 0 z then option_map (cons (Z.to_nat z)) (nats_of r) else None
  | _ => None
  end.

Fixpoint yields_of (evs : list event) : option (list (list nat)) :=
  match evs with
  | [] => Some []
  | (name, [VList l]) :: r =>
      if String.eqb name "yield" then
        match nats_of l, yields_of r with
        | Some b, Some bs => Some (b :: bs)
        | _, _ => None
        end
      else None
  | _ => None
  end.

(* the i-th entry of a table is the value for key i (Model.tbl): as a Python dict {i: t[i]} *)
Definition enc_list_tbl (t : list nat) : val :=
  VDict (map (fun i => (zn i, zn (nth i t 0%nat))) (seq 0 (List.length t))).

(* outer None: the interpreter got stuck / produced something that is not a sampler outcome;
   inner None: RuntimeError (a bucket grew beyond its size) *)
Definition src_bbs (sampler i2b b2s : list nat) (drop : bool) : option (option (list (list nat))) :=
  match Interp.run ext_none bbs_iter
          [("self", self_of sampler (enc_list_tbl i2b) (enc_list_tbl b2s) drop)] with
  | Ok VNone st => option_map Some (yields_of (events st))
  | Exc name _ => if String.eqb name "RuntimeError" then Some None else None
  | _ => None
  end.

Definition src_check_bbs (sampler i2b b2s : list nat) (drop : bool) (impl : option (list (list nat))) : bool :=
  match src_bbs sampler i2b b2s drop with
  | Some o => opt_eqb lln_eqb o impl
  | None => false
  end.
